//! Differential-testing harness for toolness/abasic.
//!
//! A dumb executor: reads one command per line on stdin, runs it against the
//! real crates (built from /repo's working tree with `--cfg abasic_verif`),
//! prints one canonical response line on stdout. All generation, comparison
//! and judging happens in /verif/verif.py and in Coq.
//!
//! Fields are TAB-separated; text arguments use the `\xHH` escaping of
//! `abasic_core::verif::esc`.

use std::io::{BufRead, Write};
use std::panic::{catch_unwind, AssertUnwindSafe};

use abasic_core::verif as hook;
use abasic_core::{Interpreter, InterpreterOutput, InterpreterState, SourceFileAnalyzer};

mod web;

pub fn unesc(s: &str) -> String {
    let b = s.as_bytes();
    let mut out: Vec<u8> = Vec::with_capacity(b.len());
    let mut i = 0;
    while i < b.len() {
        if b[i] == b'\\' && i + 3 < b.len() && b[i + 1] == b'x' {
            let h = std::str::from_utf8(&b[i + 2..i + 4]).unwrap();
            out.push(u8::from_str_radix(h, 16).unwrap());
            i += 4;
        } else {
            out.push(b[i]);
            i += 1;
        }
    }
    String::from_utf8(out).expect("harness input must be UTF-8")
}

pub fn output_record(o: &InterpreterOutput) -> String {
    fn ln(l: &Option<u64>) -> String {
        match l {
            None => "none".to_string(),
            Some(n) => n.to_string(),
        }
    }
    match o {
        InterpreterOutput::Print(s) => format!("P{}", hook::esc(s)),
        InterpreterOutput::Break(l) => format!("B{}", ln(l)),
        InterpreterOutput::Warning(m, l) => format!("W{}:{}", ln(l), hook::esc(m)),
        InterpreterOutput::Trace(l) => format!("T{}", l),
        InterpreterOutput::ExtraIgnored => "X".to_string(),
        InterpreterOutput::Reenter => "R".to_string(),
    }
}

fn panic_message(p: Box<dyn std::any::Any + Send>) -> String {
    let msg = if let Some(s) = p.downcast_ref::<&str>() {
        s.to_string()
    } else if let Some(s) = p.downcast_ref::<String>() {
        s.clone()
    } else {
        "?".to_string()
    };
    hook::esc(&msg)
}

struct Session {
    interp: Interpreter,
    dead: bool,
}

impl Session {
    fn new() -> Self {
        Session {
            interp: Interpreter::default(),
            dead: false,
        }
    }

    /// outcome, state, outputs, caret, message, peeks, pows, snapshot
    fn row(&mut self, outcome: String, caret: String, msg: String) -> String {
        let outputs = self
            .interp
            .take_output()
            .iter()
            .map(output_record)
            .collect::<Vec<_>>()
            .join(";");
        let peeks = hook::take_peek_count();
        let pows = hook::take_pow_log()
            .iter()
            .map(|(x, y, r)| format!("{:016x}.{:016x}.{:016x}", x, y, r))
            .collect::<Vec<_>>()
            .join(";");
        format!(
            "{}\t{:?}\t{}\t{}\t{}\t{}\t{}\t{}",
            outcome,
            self.interp.get_state(),
            outputs,
            caret,
            msg,
            peeks,
            pows,
            self.interp.verif_snapshot()
        )
    }

    fn guarded<F: FnOnce(&mut Session) -> String>(&mut self, f: F) -> String {
        if self.dead {
            return "dead".to_string();
        }
        hook::take_peek_count();
        hook::take_pow_log();
        match catch_unwind(AssertUnwindSafe(|| f(self))) {
            Ok(s) => s,
            Err(p) => {
                self.dead = true;
                format!("panic\t{}", panic_message(p))
            }
        }
    }

    fn result_row(
        &mut self,
        result: Result<(), abasic_core::TracedInterpreterError>,
        line: Option<&str>,
    ) -> String {
        match result {
            Ok(()) => self.row("ok".to_string(), String::new(), String::new()),
            Err(e) => {
                let caret = e
                    .get_line_with_pointer_caret(&self.interp, line)
                    .iter()
                    .map(|l| hook::esc(l))
                    .collect::<Vec<_>>()
                    .join(";");
                let msg = hook::esc(&e.to_string());
                self.row(format!("err:{}", hook::error(&e)), caret, msg)
            }
        }
    }

    fn command(&mut self, cmd: &str, args: &[&str]) -> String {
        match cmd {
            "flags" => {
                self.interp.enable_warnings = args[0] == "1";
                self.interp.enable_tracing = args[1] == "1";
                "ok".to_string()
            }
            "line" => {
                if self.interp.get_state() != InterpreterState::Idle {
                    return "illegal".to_string();
                }
                let text = unesc(args.get(0).copied().unwrap_or(""));
                self.guarded(|s| {
                    let r = s.interp.start_evaluating(&text);
                    s.result_row(r, Some(&text))
                })
            }
            "cont" => {
                if self.interp.get_state() != InterpreterState::Running {
                    return "illegal".to_string();
                }
                self.guarded(|s| {
                    let r = s.interp.continue_evaluating();
                    s.result_row(r, None)
                })
            }
            "reply" => {
                if self.interp.get_state() != InterpreterState::AwaitingInput {
                    return "illegal".to_string();
                }
                let text = unesc(args.get(0).copied().unwrap_or(""));
                self.guarded(|s| {
                    s.interp.provide_input(text);
                    s.result_row(Ok(()), None)
                })
            }
            "break" => {
                let st = self.interp.get_state();
                if st != InterpreterState::Running && st != InterpreterState::AwaitingInput {
                    return "illegal".to_string();
                }
                self.guarded(|s| {
                    s.interp.break_at_current_location();
                    s.result_row(Ok(()), None)
                })
            }
            "rand" => {
                let seed: u64 = args[0].parse().unwrap();
                self.guarded(|s| {
                    s.interp.randomize(seed);
                    s.result_row(Ok(()), None)
                })
            }
            "replace" => {
                if self.interp.get_state() != InterpreterState::NewInterpreterRequested {
                    return "illegal".to_string();
                }
                self.guarded(|s| {
                    s.interp = Interpreter::default();
                    s.result_row(Ok(()), None)
                })
            }
            "snap" => self.guarded(|s| s.interp.verif_snapshot()),
            _ => format!("unknown-command {}", cmd),
        }
    }
}

fn analyze(text: &str) -> String {
    let r = catch_unwind(AssertUnwindSafe(|| {
        let analyzer = SourceFileAnalyzer::analyze(text.to_string());
        let map = analyzer.source_file_map();
        let messages = analyzer
            .messages()
            .iter()
            .map(|m| {
                let mapped = match catch_unwind(AssertUnwindSafe(|| map.map_to_source(m))) {
                    Ok(Some((l, r))) => format!("{}.{}-{}", l, r.start, r.end),
                    Ok(None) => "none".to_string(),
                    Err(_) => "PANIC".to_string(),
                };
                format!("{}@{}", hook::diagnostic(m), mapped)
            })
            .collect::<Vec<_>>()
            .join(";");
        let tokens = analyzer
            .token_types()
            .iter()
            .map(|line| {
                line.iter()
                    .map(|(t, r)| format!("{:?}@{}-{}", t, r.start, r.end))
                    .collect::<Vec<_>>()
                    .join(",")
            })
            .collect::<Vec<_>>()
            .join(";");
        format!(
            "ok\t{}\t{}\t{}",
            analyzer.source_file_lines().len(),
            messages,
            tokens
        )
    }));
    match r {
        Ok(s) => s,
        Err(p) => format!("panic\t{}", panic_message(p)),
    }
}

/// Loads a file through the analyzer (as the CLI does) and then runs the given
/// commands against the resulting interpreter.
fn load(text: &str) -> Result<Interpreter, String> {
    catch_unwind(AssertUnwindSafe(|| {
        SourceFileAnalyzer::analyze(text.to_string()).into_interpreter()
    }))
    .map_err(panic_message)
}

fn main() {
    std::panic::set_hook(Box::new(|_| {}));
    let stdin = std::io::stdin();
    let stdout = std::io::stdout();
    let mut out = stdout.lock();
    let mut session = Session::new();
    let mut page = web::Page::new();
    for line in stdin.lock().lines() {
        let line = line.unwrap();
        let mut parts = line.split('\t');
        let cmd = parts.next().unwrap_or("");
        let args: Vec<&str> = parts.collect();
        let resp = match cmd {
            "" => continue,
            "quit" => break,
            "new" => {
                session = Session::new();
                "ok".to_string()
            }
            "tok" => {
                let skip: usize = args[0].parse().unwrap();
                let text = unesc(args.get(1).copied().unwrap_or(""));
                match catch_unwind(AssertUnwindSafe(|| hook::tokenize(&text, skip))) {
                    Ok((toks, err)) => format!("{}\t{}", toks, err.unwrap_or_default()),
                    Err(p) => format!("panic\t{}", panic_message(p)),
                }
            }
            "data" => {
                let text = unesc(args.get(0).copied().unwrap_or(""));
                match catch_unwind(AssertUnwindSafe(|| hook::parse_data(&text))) {
                    Ok((items, n)) => format!("{}\t{}", items, n),
                    Err(p) => format!("panic\t{}", panic_message(p)),
                }
            }
            "analyze" => analyze(&unesc(args.get(0).copied().unwrap_or(""))),
            "load" => match load(&unesc(args.get(0).copied().unwrap_or(""))) {
                Ok(i) => {
                    session = Session {
                        interp: i,
                        dead: false,
                    };
                    "ok".to_string()
                }
                Err(m) => format!("panic\t{}", m),
            },
            "page" => page.command(&args),
            other => session.command(other, &args),
        };
        writeln!(out, "{}", resp).unwrap();
        out.flush().unwrap();
    }
}
