//! Native transliteration of abasic-web/ts/main.ts (class `Interpreter` and the
//! two DOM event handlers) driving the real `abasic_web::JsInterpreter`, side by
//! side with a bare `abasic_core::Interpreter` that receives the same core calls.
//!
//! Events: `load <text>` (loadAndRunSourceCode, start-up only), `start`,
//! `submit <text>`, `breakkey`, `tick`. Each event answers with the list of
//! adapter calls made and what they exposed; a Rust panic is reported as
//! `TRAP`, a JavaScript `throw` of the page script as `THROW`.

use std::panic::{catch_unwind, AssertUnwindSafe};

use abasic_core::verif as hook;
use abasic_core::{Interpreter, InterpreterState};
use abasic_web::{JsInterpreter, JsInterpreterOutputType, JsInterpreterState};

use crate::{output_record, unesc};

#[derive(PartialEq, Clone, Copy, Debug)]
enum St {
    Idle,
    Running,
    AwaitingInput,
    Errored,
}

pub struct Page {
    js: JsInterpreter,
    /// The same core calls, applied to a bare interpreter.
    shadow: Interpreter,
    shadow_error: Option<String>,
    fully_interactive: bool,
    input_enabled: bool,
    pending_ticks: usize,
    started: bool,
    log: Vec<String>,
    dead: bool,
}

fn type_name(t: JsInterpreterOutputType) -> &'static str {
    match t {
        JsInterpreterOutputType::Print => "Print",
        JsInterpreterOutputType::Break => "Break",
        JsInterpreterOutputType::Warning => "Warning",
        JsInterpreterOutputType::Trace => "Trace",
        JsInterpreterOutputType::ExtraIgnored => "ExtraIgnored",
        JsInterpreterOutputType::Reenter => "Reenter",
    }
}

struct Throw(String);

impl Page {
    pub fn new() -> Self {
        Page {
            js: JsInterpreter::new(),
            shadow: Interpreter::default(),
            shadow_error: None,
            fully_interactive: true,
            input_enabled: true,
            pending_ticks: 0,
            started: false,
            log: vec![],
            dead: false,
        }
    }

    fn get_state(&mut self) -> St {
        // Shadow view of the same question, computed first (it cannot panic).
        let expected = if self.shadow_error.is_some() {
            "Errored".to_string()
        } else {
            format!("{:?}", self.shadow.get_state())
        };
        let st = match self.js.get_state() {
            JsInterpreterState::Idle => St::Idle,
            JsInterpreterState::Running => St::Running,
            JsInterpreterState::AwaitingInput => St::AwaitingInput,
            JsInterpreterState::Errored => St::Errored,
        };
        if format!("{:?}", st) != expected {
            self.log.push(format!("MISMATCH state {:?} vs {}", st, expected));
        }
        self.log.push(format!("state={:?}", st));
        st
    }

    fn shadow_after_ok(&mut self) {
        if self.shadow.get_state() == InterpreterState::NewInterpreterRequested {
            self.shadow = Interpreter::default();
            self.log.push("new-interpreter".to_string());
        }
    }

    fn start_evaluating(&mut self, line: &str) {
        self.log.push(format!("start_evaluating {}", hook::esc(line)));
        // The shadow call is made only when the core protocol allows it; the
        // adapter call is made unconditionally, as the page does.
        if self.shadow_error.is_none() && self.shadow.get_state() == InterpreterState::Idle {
            match self.shadow.start_evaluating(line) {
                Ok(()) => self.shadow_after_ok(),
                Err(e) => {
                    let mut lines = vec![e.to_string()];
                    lines.extend(e.get_line_with_pointer_caret(&self.shadow, Some(line)));
                    self.shadow_error = Some(lines.join("\n"));
                }
            }
        } else {
            self.log.push("shadow-skipped".to_string());
        }
        self.js.start_evaluating(line.to_string());
    }

    fn continue_evaluating(&mut self) {
        self.log.push("continue_evaluating".to_string());
        if self.shadow_error.is_none() && self.shadow.get_state() == InterpreterState::Running {
            match self.shadow.continue_evaluating() {
                Ok(()) => self.shadow_after_ok(),
                Err(e) => {
                    // The core can render the line and caret for this error too;
                    // the adapter exposes only the message.
                    let mut lines = vec![e.to_string()];
                    lines.extend(e.get_line_with_pointer_caret::<&str>(&self.shadow, None));
                    self.shadow_error = Some(lines.join("\n"));
                }
            }
        } else {
            self.log.push("shadow-skipped".to_string());
        }
        self.js.continue_evaluating();
    }

    fn show_output(&mut self) {
        let shadow = self
            .shadow
            .take_output()
            .iter()
            .map(|o| {
                let r = output_record(o);
                let kind = match r.as_bytes()[0] {
                    b'P' => "Print",
                    b'B' => "Break",
                    b'W' => "Warning",
                    b'T' => "Trace",
                    b'X' => "ExtraIgnored",
                    _ => "Reenter",
                };
                format!("{}:{}", kind, hook::esc(&o.to_string()))
            })
            .collect::<Vec<_>>();
        let js = self
            .js
            .take_latest_output()
            .into_iter()
            .map(|o| {
                let t = type_name(o.output_type);
                format!("{}:{}", t, hook::esc(&o.into_string()))
            })
            .collect::<Vec<_>>();
        if js != shadow {
            self.log.push(format!(
                "MISMATCH output [{}] vs [{}]",
                js.join(","),
                shadow.join(",")
            ));
        }
        self.log.push(format!("out=[{}]", js.join(",")));
    }

    fn handle_current_state(&mut self) -> Result<(), Throw> {
        let mut guard = 0;
        loop {
            self.show_output();
            match self.get_state() {
                St::Idle => {
                    if !self.fully_interactive {
                        self.input_enabled = false;
                        self.log.push("input-disabled".to_string());
                    } else {
                        self.log.push("prompt ]".to_string());
                    }
                    return Ok(());
                }
                St::AwaitingInput => {
                    self.log.push("prompt ?".to_string());
                    return Ok(());
                }
                St::Errored => {
                    let err = self.js.take_latest_error();
                    let expected = self.shadow_error.take();
                    let Some(err) = err else {
                        return Err(Throw("take_latest_error undefined".to_string()));
                    };
                    self.log.push(format!("error {}", hook::esc(&err)));
                    if Some(&err) != expected.as_ref() {
                        self.log.push(format!(
                            "MISMATCH error {} vs {}",
                            hook::esc(&err),
                            hook::esc(&expected.unwrap_or_default())
                        ));
                    }
                    guard += 1;
                    if guard > 1000 {
                        return Err(Throw("handleCurrentState recursion".to_string()));
                    }
                }
                St::Running => {
                    self.continue_evaluating();
                    self.pending_ticks += 1;
                    return Ok(());
                }
            }
        }
    }

    fn event(&mut self, ev: &str, text: &str) -> Result<(), Throw> {
        match ev {
            "load" => {
                if self.started {
                    return Err(Throw("load after start".to_string()));
                }
                self.fully_interactive = false;
                for line in text.split('\n') {
                    // JavaScript `!line.trim()`
                    if js_trim(line).is_empty() {
                        continue;
                    }
                    if !line.as_bytes()[0].is_ascii_digit() {
                        continue;
                    }
                    self.start_evaluating(line);
                    if self.get_state() == St::Errored {
                        return Ok(());
                    }
                }
                self.start_evaluating("RUN");
                Ok(())
            }
            "start" => {
                self.started = true;
                self.handle_current_state()
            }
            "submit" => {
                if !self.input_enabled || !self.started {
                    self.log.push("ignored".to_string());
                    return Ok(());
                }
                // canBreak() && input === "💥"
                let st = self.get_state();
                if st != St::Idle && text == "\u{1F4A5}" {
                    return self.break_at_current_location();
                }
                // canProcessUserInput()
                let st = self.get_state();
                if !(st == St::Idle || st == St::AwaitingInput) {
                    self.log.push("ignored".to_string());
                    return Ok(());
                }
                let st = self.get_state();
                if st == St::Idle {
                    self.start_evaluating(text);
                } else if st == St::AwaitingInput {
                    self.log.push(format!("provide_input {}", hook::esc(text)));
                    if self.shadow.get_state() == InterpreterState::AwaitingInput {
                        self.shadow.provide_input(text.to_string());
                    } else {
                        self.log.push("shadow-skipped".to_string());
                    }
                    self.js.provide_input(text.to_string());
                } else {
                    return Err(Throw("submitUserInput in wrong state".to_string()));
                }
                self.handle_current_state()
            }
            "breakkey" => {
                if !self.input_enabled || !self.started {
                    self.log.push("ignored".to_string());
                    return Ok(());
                }
                self.break_at_current_location()
            }
            "tick" => {
                if self.pending_ticks == 0 {
                    self.log.push("ignored".to_string());
                    return Ok(());
                }
                self.pending_ticks -= 1;
                self.handle_current_state()
            }
            _ => Err(Throw(format!("unknown event {}", ev))),
        }
    }

    fn break_at_current_location(&mut self) -> Result<(), Throw> {
        let st = self.get_state();
        if st == St::AwaitingInput || st == St::Running {
            self.fully_interactive = true;
            self.log.push("break_at_current_location".to_string());
            let s = self.shadow.get_state();
            if s == InterpreterState::Running || s == InterpreterState::AwaitingInput {
                self.shadow.break_at_current_location();
            } else {
                self.log.push("shadow-skipped".to_string());
            }
            self.js.break_at_current_location();
            self.handle_current_state()
        } else {
            Ok(())
        }
    }

    pub fn command(&mut self, args: &[&str]) -> String {
        let ev = args.get(0).copied().unwrap_or("");
        if ev == "new" {
            *self = Page::new();
            return "ok".to_string();
        }
        if ev == "seed" {
            let seed: u64 = args[1].parse().unwrap();
            self.js.randomize(seed);
            self.shadow.randomize(seed);
            return "ok".to_string();
        }
        if self.dead {
            return "dead".to_string();
        }
        let text = unesc(args.get(1).copied().unwrap_or(""));
        self.log.clear();
        let r = catch_unwind(AssertUnwindSafe(|| self.event(ev, &text)));
        let verdict = match r {
            Ok(Ok(())) => "ok".to_string(),
            Ok(Err(Throw(m))) => {
                self.dead = true;
                format!("THROW {}", hook::esc(&m))
            }
            Err(p) => {
                self.dead = true;
                let msg = if let Some(s) = p.downcast_ref::<&str>() {
                    s.to_string()
                } else if let Some(s) = p.downcast_ref::<String>() {
                    s.clone()
                } else {
                    "?".to_string()
                };
                format!("TRAP {}", hook::esc(&msg))
            }
        };
        format!(
            "{}\t{}\t{}\t{}",
            verdict,
            self.pending_ticks,
            if self.input_enabled { 1 } else { 0 },
            self.log.join("|")
        )
    }
}

/// JavaScript `String.prototype.trim`: strips WhiteSpace and LineTerminator.
fn js_trim(s: &str) -> &str {
    fn is_js_ws(c: char) -> bool {
        matches!(
            c,
            '\u{9}' | '\u{a}' | '\u{b}' | '\u{c}' | '\u{d}' | '\u{20}' | '\u{a0}' | '\u{1680}'
                | '\u{2000}'..='\u{200a}' | '\u{2028}' | '\u{2029}' | '\u{202f}' | '\u{205f}'
                | '\u{3000}' | '\u{feff}'
        )
    }
    s.trim_matches(is_js_ws)
}
