#!/usr/bin/env python3
"""Orchestrator of the abasic verification machinery (see DESIGN.md).

  python3 verif.py setup
  python3 verif.py check C04 [--tier quick|thorough]
  python3 verif.py replay <path>

A check (1) regenerates coq/Gen/Tables.v from /repo and re-checks the Coq
theorems of the property (make + Print Assumptions audit + forbidden-word
grep), (2) rebuilds the harness against /repo's working tree with the hooks
on, (3) runs the correspondence between the Coq model and the implementation
on generated inputs (comparison computed inside Coq), (4) runs the property's
implementation-side oracle, (5) prints KNOWN-FINDING / VIOLATION lines and
writes evidence/<id>.json.
"""
import sys

from vlib import main

if __name__ == "__main__":
    sys.exit(main.main(sys.argv[1:]))
