"""Session driving (implementation side) and model comparison (Coq side)."""
from . import core
from .core import esc, coq_str

FIELDS = ["outcome", "state", "outputs", "caret", "msg", "reads", "pows", "snap"]
# model row fields (no pows): outcome, state, outputs, caret, msg, reads, snap
MODEL_FIELDS = ["outcome", "state", "outputs", "caret", "msg", "reads", "snap"]


class Row:
    __slots__ = ("raw", "kind", "f")

    def __init__(self, raw):
        self.raw = raw
        parts = raw.split("\t")
        if parts[0] in ("illegal", "dead", "ok") and len(parts) == 1:
            self.kind = parts[0]
            self.f = {}
        elif parts[0] == "panic":
            self.kind = "panic"
            self.f = {"outcome": "panic", "msg": parts[1] if len(parts) > 1 else ""}
        elif parts[0] == "abort":
            self.kind = "abort"
            self.f = {"outcome": "abort", "msg": parts[1] if len(parts) > 1 else ""}
        else:
            self.kind = "row"
            parts += [""] * (8 - len(parts))
            self.f = dict(zip(FIELDS, parts))

    @property
    def state(self):
        return self.f.get("state", "")

    @property
    def outcome(self):
        return self.f.get("outcome", "")

    def outputs(self):
        o = self.f.get("outputs", "")
        return o.split(";") if o else []

    def snap(self):
        d = {}
        for part in self.f.get("snap", "").split("|"):
            if "=" in part:
                k, v = part.split("=", 1)
                d[k] = v
        return d


class Session:
    """Drives one interpreter in the harness and records the replayable script."""

    def __init__(self, h):
        self.h = h
        self.ops = []      # (op tuple, Row)
        self.state = "Idle"
        self.dead = False
        h.cmd("new")
        self.ops.append((("new",), Row("ok")))

    def _do(self, op, *fields):
        raw = self.h.cmd(*fields)
        row = Row(raw)
        if row.kind == "illegal":
            return row
        self.ops.append((op, row))
        if row.kind == "row":
            self.state = row.state
        elif row.kind in ("panic", "abort", "dead"):
            self.dead = True
        return row

    def flags(self, w, t):
        return self._do(("flags", w, t), "flags", int(w), int(t))

    def line(self, text):
        b = text.encode("utf-8") if isinstance(text, str) else text
        return self._do(("line", b), "line", esc(b))

    def cont(self):
        return self._do(("cont",), "cont")

    def reply(self, text):
        b = text.encode("utf-8") if isinstance(text, str) else text
        return self._do(("reply", b), "reply", esc(b))

    def brk(self):
        return self._do(("break",), "break")

    def rand(self, seed):
        return self._do(("rand", seed), "rand", seed)

    def replace(self):
        return self._do(("replace",), "replace")

    def run_until_idle(self, replies=None, max_turns=400, break_at=None, rng=None):
        """Continue / reply until Idle (or the turn cap). Returns rows."""
        rows = []
        turns = 0
        replies = list(replies or [])
        while not self.dead and turns < max_turns:
            turns += 1
            if self.state == "Running":
                if break_at is not None and turns in break_at:
                    rows.append(self.brk())
                    break
                rows.append(self.cont())
            elif self.state == "AwaitingInput":
                if break_at is not None and turns in break_at:
                    rows.append(self.brk())
                    break
                r = replies.pop(0) if replies else "1"
                rows.append(self.reply(r))
            elif self.state == "NewInterpreterRequested":
                rows.append(self.replace())
            else:
                break
        return rows

    def script_json(self):
        out = []
        for op, row in self.ops:
            o = [op[0]] + [x.decode("utf-8", "replace") if isinstance(x, bytes) else x for x in op[1:]]
            out.append({"op": o, "resp": row.raw[:2000]})
        return out

    def commands(self):
        """Harness command lines that replay this script."""
        out = []
        for op, _ in self.ops:
            if op[0] in ("line", "reply"):
                out.append(op[0] + "\t" + esc(op[1]))
            elif op[0] == "flags":
                out.append(f"flags\t{int(op[1])}\t{int(op[2])}")
            elif op[0] == "rand":
                out.append(f"rand\t{op[1]}")
            else:
                out.append(op[0])
        return out


def coq_op(op):
    k = op[0]
    if k == "line":
        return f"SLine {coq_str(esc(op[1]))}"
    if k == "reply":
        return f"SReply {coq_str(esc(op[1]))}"
    if k == "cont":
        return "SCont"
    if k == "break":
        return "SBreak"
    if k == "rand":
        return f"SRand {op[1]}%N"
    if k == "replace":
        return "SReplace"
    if k == "flags":
        return f"SFlags {'true' if op[1] else 'false'} {'true' if op[2] else 'false'}"
    if k == "new":
        return "SNew"
    raise ValueError(k)


def coq_case(session_ops):
    """One sess_case term from recorded (op, Row) pairs. Rows after a panic are dropped by the caller."""
    pows = []
    items = []
    for op, row in session_ops:
        if row.kind == "row":
            for p in (row.f["pows"].split(";") if row.f["pows"] else []):
                x, y, r = p.split(".")
                pows.append(f"({int(x, 16)}, {int(y, 16)}, {int(r, 16)})%Z")
            obs = "Some [" + "; ".join(coq_str(row.f[k]) for k in MODEL_FIELDS) + "]"
        elif row.kind == "ok":
            obs = "None"
        elif row.kind == "panic":
            obs = "Some [" + "; ".join(coq_str(x) for x in ["panic:impl", "", "", "", "", "", ""]) + "]"
        else:
            continue
        items.append(f"({coq_op(op)}, {obs})")
    # de-duplicate pow entries, keep order
    seen = set()
    pl = []
    for p in pows:
        if p not in seen:
            seen.add(p)
            pl.append(p)
    return "([" + "; ".join(pl) + "], [" + ";\n   ".join(items) + "])"


def mask_term(fields):
    return "[" + "; ".join("true" if f in fields else "false" for f in MODEL_FIELDS) + "]"


def compare_sessions(name, sessions, fields, shard_size=12, timeout=1200):
    """sessions: list of recorded op lists. Returns (checked, disagreements, errors).
    disagreement = dict(case, op, field, model, observed)."""
    shards = []
    index = []
    for i in range(0, len(sessions), shard_size):
        chunk = sessions[i:i + shard_size]
        body = "Definition cases : list sess_case := [\n" + ";\n".join(coq_case(s) for s in chunk) + "].\n"
        body += f"Eval vm_compute in sess_report {mask_term(fields)} cases.\n"
        shards.append(body)
        index.append(i)
    results, paths = core.run_coq_shards(name, shards, timeout=timeout)
    disagreements = []
    errors = []
    for (rc, out), base, path in zip(results, index, paths):
        if rc != 0:
            errors.append(f"{path}: coqc exit {rc}: {out[-1500:]}")
            continue
        reps = core.parse_report(out)
        if len(reps) != 1:
            errors.append(f"{path}: could not parse coqc output: {out[-800:]}")
            continue
        for case, op, field, text in reps[0]:
            s = sessions[base + case]
            rows = [(o, r) for o, r in s if r.kind in ("row", "ok", "panic")]
            o, r = rows[op] if op < len(rows) else (("?",), None)
            fname = MODEL_FIELDS[field] if field < len(MODEL_FIELDS) else f"legality({field})"
            disagreements.append({
                "case": base + case, "op_index": op, "op": [x.decode("utf-8", "replace") if isinstance(x, bytes) else x for x in o],
                "field": fname, "model": text[:600],
                "observed": (r.f.get(fname, r.raw)[:600] if r is not None else None),
            })
    return len(sessions), disagreements, errors
