"""Per-property claims for MANIFEST.json (tools/gen_manifest.py)."""
HOOK_COMMITS = ["c471f6e"]

NOTE = ("Trusted: Coq 8.16.1 kernel + VM; tools/gen_tables.py; the correspondence check (Rust harness, hooks, vlib, Run/Harness.v) "
        "that ties the hand-written model to the Rust (differential testing: the Rust is not proved to refine the model); "
        "Model/Num.v's re-specification of Rust float parsing/printing; f64::powf as a logged oracle. ")

CLAIMED = {
    "C04": {
        "text": "Coq theorems (closed under the global context) over the model: for every host-call history the store refines a three-line abstract map (C04_refines), both indexes agree (C04_agree), LIST is total and ascending (C04_list), first/after give the least / next key for every n with no upper bound (C04_first, C04_run_order). The model is tied to the code by the store correspondence on generated edit histories and a last-writer oracle on LIST/RUN/snapshots.",
        "design_ref": "DESIGN.md 6 C04",
        "note": NOTE + "Theorems quantify over all histories and all line numbers; the tie to the Rust is by correspondence on generated histories.",
        "technique": "Coq proof: refinement to an abstract map by induction over host-call histories + frame lemmas; differential correspondence",
    },
    "C13": {
        "text": "Coq theorems (closed under the global context) about the model tokenizer for every byte string: ranges in bounds, non-empty, ordered, non-overlapping, starting/ending on non-blank bytes, on character boundaries; REM extends to end of line; error position in bounds and after all produced tokens; fuel never the reason to stop; and tokenizing the text of a token's range on its own yields exactly that one token, for every line, also for the tokens in front of an error (C13_retok, C13_retok_before_error: every matcher is prefix-stable, look-aheads included - keyword look-ahead inside identifiers, second operator character behind blanks, blanks inside numbers, the DATA item parser - and a matcher that does not match a text matches no prefix of it; Proofs/LexerRetok.v). All clauses of the property are proved; the oracle and the correspondence (exhaustive over short strings) tie the model tokenizer to the implementation.",
        "design_ref": "DESIGN.md 6 C13",
        "note": NOTE,
        "technique": "Coq proof: per-matcher lemmas + induction on the token iterator; exhaustive small-scope + random differential correspondence",
    },
}

CLAIMED.update({
    "C10": {
        "text": "Coq theorems (closed under the global context): two idle model states with the same program, generator state and flags -- and arbitrary, different variables, arrays, loops, stack, functions, data cursor, breakpoint, pending reply -- answer RUN with the identical row and identical complete state, and stay identical for every later call (C10_clean, C10_history); RUN's reset is an explicit function of the persistent part (C10_reset). Tied to the code by the history correspondence and a fresh-vs-history RUN oracle comparing full snapshots turn by turn.",
        "design_ref": "DESIGN.md 6 C10",
        "note": NOTE,
        "technique": "Coq proof: record-level computation that RUN overwrites every non-persistent field before reading it; differential correspondence + fresh-vs-history oracle",
    },
    "C11": {
        "text": "Coq theorems (closed under the global context): from ANY idle model state a numbered edit returns Ok and leaves breakpoint, stack, loops, functions, data cursor empty, cursor on the empty immediate line, variables/arrays/generator/pending reply/output unchanged (C11_edit); CONT then fails with CAN'T CONTINUE (C11_cont); a rejected edit returns the tokenization error, changes none of those, and is invisible to every later line entry (C11_rejected). The other probes are theorems too (C11_probes, Proofs/EditProbes.v), for every successful edit from every idle state: ANY immediate line (any text that is no command, has no line number and tokenizes) starting with RETURN fails with RETURN WITHOUT GOSUB; any starting with NEXT w (w holding a number) fails with NEXT WITHOUT FOR, variables untouched; no name is a user-defined function any more; the next READ yields what it yields in any state holding the same program with no data cursor, a fresh one included. The same probes are exercised on the implementation by the oracle.",
        "design_ref": "DESIGN.md 6 C11",
        "note": NOTE,
        "technique": "Coq proof: symbolic evaluation of the edit path on an arbitrary state; differential correspondence + probe oracle at random suspension points",
    },
    "C18": {
        "text": "Coq theorems (closed under the global context; axiom-free float reasoning on SpecFloat): the step is the documented LCG, seeding reduces mod 2^33 and cannot overflow u64, the sign dispatch is exact, EVERY state < 2^33 yields exactly s/2^33 which lies in [0,1) (no 2^33 sweep needed), sequences depend only on seed mod 2^33 and the arguments. Tied to the code by the RND correspondence and an independent LCG oracle with exact float comparison.",
        "design_ref": "DESIGN.md 6 C18",
        "note": NOTE + "An extra real-valued corollary (latest_random_real, not among the property theorems) uses Flocq and the stdlib axioms sig_forall_dec and functional_extensionality_dep.",
        "technique": "Coq proof: N arithmetic + exact SpecFloat division lemma; differential correspondence + independent LCG oracle",
    },
})

CLAIMED.update({
    "C02": {
        "text": "Coq theorem (closed under the global context): for EVERY expression tree over literals, variables, one unary prefix, the 13 binary operators, ABS, INT and redundant parentheses, and EVERY token spelling the grammar admits, the token-stream evaluator returns exactly the strict left-to-right IEEE-754 fold of the tree (value or error kind), leaves the cursor after the expression and changes nothing else (C02_expr); redundant parentheses never change a result (C02_parens); every tree has a legal spelling (C02_every_tree). Tied to the code by the expression correspondence and an independent fold in the harness, exhaustive over operator pairs.",
        "design_ref": "DESIGN.md 6 C02",
        "note": NOTE + "Nesting deeper than the cap (64) is an OUT OF MEMORY error by design (hypothesis n + pdepth e < max_nesting). ^ = powf oracle.",
        "technique": "Coq proof: induction over the Renders derivation with a tier-indexed loop-generalised invariant, existential fuel; differential correspondence + independent fold oracle",
    },
    "C16": {
        "text": "Coq theorems (closed under the global context): the invariant (<= 32 frames, <= 32 loops with distinct variables, every variable / parameter binding / array cell typed by its name's $ suffix, every array's cell count = product of dimensions <= 10000) holds in every state reachable from a fresh interpreter by ANY sequence of host calls, after every outcome incl. errors (C16_inv, C16_step); cap violations are exactly OUT OF MEMORY errors that change nothing; FOR never accumulates loops. Tied to the code by snapshot correspondence after every call and an invariant oracle on every snapshot.",
        "design_ref": "DESIGN.md 6 C16",
        "note": NOTE,
        "technique": "Coq proof: inductive invariant over all evaluators (structural walker) and over host-call histories; snapshot correspondence + invariant oracle after every call",
    },
    "C17": {
        "text": "Coq theorems (closed under the global context): a 2-run simulation -- for any session and any two flag configurations (set by field at any point, or by TRACE/NOTRACE), every call yields the same outcome, state, caret, error text, cursor-read count and the same output after dropping Trace/Warning records, and the states stay equal up to the flags (C17_transparent, C17_history); TRACE/NOTRACE change only the flag. The trace is the path: with tracing on, a host call that executes a statement of numbered line n pushes Trace n as its FIRST record and every other Trace record of the call names n, so the call's trace collapses to [n]; a call on the immediate line pushes no Trace record (C17_trace_first, C17_trace_is_path, C17_no_trace_on_immediate; Proofs/TraceProofs.v). The content of warning records is tied by the correspondence (they are compared with the model's) and by the oracle.",
        "design_ref": "DESIGN.md 6 C17",
        "note": NOTE + "C17_warn_exact (a warning exactly on reads of never-assigned variables / non-existent arrays) is validated (correspondence + oracle), not proved.",
        "technique": "Coq proof: relational (2-safety) simulation over all evaluators and host-call histories; four-configuration differential oracle + correspondence",
    },
})

CLAIMED.update({
    "C01": {
        "text": "Coq theorems (closed under the global context) over a model in which every unwrap/expect/index/assert/panic! site of the Rust is an explicit Panic result: for EVERY history of host calls from a fresh interpreter no call panics (C01_no_panic); the invariant that makes it so (all stored locations name existing lines, indexes agree, arrays have as many cells as their dimensions say) is preserved by every call (C01_inv); every failure is an error value after which the state is Idle, lines are accepted and the caret rendering succeeds (C01_errors_are_values). Native stack exhaustion is covered by the nesting cap (part of model and correspondence) plus process-isolated probes; wedge-freedom by per-call timeouts. Tied to the code by history correspondence (outcome, state, outputs, caret, message, snapshot) and a crash/abort/wedge oracle.",
        "design_ref": "DESIGN.md 6 C01",
        "note": NOTE + "PARTIAL on the runtime side: that 64 nesting levels fit the native stack is probed (debug build, 8 MiB main-thread stack), not proved; (that every call returns - OutOfFuel-freedom of the model above a fuel bound - is proved under C09: C09_continue_returns, C09_start_returns).",
        "technique": "Coq proof: inductive well-formedness invariant + panic-freedom over all evaluators and host-call histories; differential correspondence + crash/wedge oracle with isolated deep-nesting probes",
    },
})

CLAIMED.update({
    "C12": {
        "text": "Coq theorems (closed under the global context) about the model tokenizer, for EVERY line and EVERY position outside string literals, REM text and DATA item text (regions computed from the tokenizer's own ranges): inserting a space/tab/FF/CR yields the same token sequence with ranges shifted by one byte (C12_insert, C12_insert_ranges), deleting a blank yields the same sequence (C12_delete), changing the case of a byte yields the same tokens and ranges (C12_flip), and any finite sequence of such edits preserves the sequence (C12_any); for the DATA item parser, a white-space character where an item starts (after the keyword, after a comma, around a quoted item) or ends (before a comma, the terminating colon, the end) changes no item (C12_data, C12_data_chars). Facts about the keyword table are decided by computation over the regenerated Gen/Tables.v. Tied to the code by the tokenizer correspondence (tokens, ranges, errors) on every original and perturbed line and a perturbation oracle on the implementation.",
        "design_ref": "DESIGN.md 6 C12",
        "note": NOTE,
        "technique": "Coq proof: locality of the crunching tokenizer (per-matcher lemmas, induction on the token iterator) + state-machine lemmas for the DATA parser; differential correspondence + perturbation oracle",
    },
    "C08": {
        "text": "Coq theorems (closed under the global context), for ANY state whose cursor is on an INPUT token (after other statements, inside THEN/ELSE, in loops and subroutines - the surroundings are arbitrary): with no reply pending the statement only sets AwaitingInput and leaves the cursor ON the INPUT token (C08_await); a reply makes the interpreter Running and the next call executes exactly the statement under the cursor, then the fixed end-of-turn tail (C08_resume); with a reply pending, for ANY target, the statement parses the target and then runs exactly the assignment's own assign_value, followed by EXTRA IGNORED iff items or text are left, or REENTER + the same request (C08_reply_any_target, C08_accept, C08_accept_is_assignment, C08_reenter, C08_reenter_same_request); every reply text is stored or refused, no third outcome (C08_reply_total). Continuation after the INPUT 'as the assignment would' across whole programs is exercised by the INPUT-vs-assignment oracle (9 placements x 7 targets x replies) and the session correspondence.",
        "design_ref": "DESIGN.md 6 C08",
        "note": NOTE + "Whole-program equivalence with the assignment-in-place program is validated by the oracle, not proved (it needs C03's simulation).",
        "technique": "Coq proof: symbolic execution of the INPUT statement on an arbitrary state (cursor/rewind lemmas, DATA parser totality); INPUT-vs-assignment differential oracle + correspondence",
    },
    "C07": {
        "text": "Coq theorems (closed under the global context): a host break while Running followed by CONT yields the IDENTICAL complete state and row as the plain continue call (C07_break_cont_running); while awaiting input it re-issues the same request with the identical state (C07_break_cont_awaiting); RUN establishes and every driving call keeps the invariant these need (C07_run_establishes, C07_invariant_kept - an inductive invariant over all evaluators); hence for EVERY program started by RUN and EVERY schedule of break+CONT pairs at turn boundaries the shown output records (all but BREAK notices and trace records), the errors and the final state equal those of the uninterrupted run (C07_schedule, induction over schedules); CONT and the whole continuation read only the breakpoint and the runtime part of the state, so an inspection line - succeeding or failing - can change the continuation only by changing that part (C07_inspect). That specific inspection lines (PRINT of expressions, failing FN calls) leave the runtime part alone, and assignment-at-STOP = assignment-in-place, are checked on the implementation by the oracle and by the correspondence.",
        "design_ref": "DESIGN.md 6 C07",
        "note": NOTE + "An input request re-issued because the host broke in before it was answered counts once. The side condition awaiting_ok (cursor on the INPUT token, no reply pending) for breaks while awaiting input is what C08_await establishes at every suspension; it is a hypothesis of C07_schedule, not re-derived there. C07_assign_at_stop is validated, not proved.",
        "technique": "Coq proof: state equality by symbolic execution of break/CONT + inductive run invariant over all evaluators + induction over schedules; with/without-break differential oracle + correspondence",
    },
})

CLAIMED.update({
    "C09": {
        "text": "Coq theorems (closed under the global context), from ANY well-formed state (every reachable state is: C01): the call that continues a running program (C09_continue), the calls that start evaluation - an immediate statement line, RUN, CONT (C09_start) - and their common core (C09_turn) append at most ONE record that shows an executed statement (Print / Reenter / ExtraIgnored / Break; an IF together with the single statement it selects counts as one) and every Trace record of the call names the one line the cursor was on at entry; expression evaluation, user-function bodies included, appends only warnings (C09_expressions_silent). Proved by a relational walk over all evaluators. And every call HANDS CONTROL BACK: the interpreter's loops and recursion are modelled with fuel, and from every well-formed state, with fuel above a bound that depends only on the longest token list the cursor can be on (stored lines, immediate line, submitted line) and the nesting cap, continue_evaluating and start_evaluating never answer OutOfFuel (C09_continue_returns, C09_start_returns; Proofs/Termination.v, Proofs/ImmFrame.v: the cursor never moves backwards and returns to its line after a user-function call, a successful expression consumes a token, every continuing loop iteration consumes a token, recursion costs one unit of fuel per level of the shared nesting counter). The per-call work bound is validated: the model's cursor-read counter must EQUAL the implementation's hook counter on every call and both are checked against 14*(tokens+1)+24; every implementation call runs under a time limit.",
        "design_ref": "DESIGN.md 6 C09",
        "note": NOTE + "PARTIAL: C09_work (reads <= K*(line length+1)+K' without user functions) is validated by exact counter correspondence and the oracle, not proved.",
        "technique": "Coq proof: output-record accounting by a three-level relational walk over all evaluators (expression / simple statement / statement with nested IF); exact read-counter correspondence + per-call oracle",
    },
    "C14": {
        "text": "Coq theorems (closed under the global context): for EVERY stored program whose lines round-trip (line_roundtrips: the listing text of a line is an edit storing the same tokens under the same number), entering the LIST output into a fresh interpreter yields the same line numbers, the same tokens on every line and the identical listing - LIST is a fixed point (C14_reload_store, C14_list_fixpoint, C14_listing_is_list; induction over the listing with the store refinement of C04); token adjacency is decided over the regenerated tables: every keyword / operator / punctuation token, and every ordered pair of them that the tokenizer can produce at all, is re-read from the canonical spellings joined by one blank (C14_fixed_tokens, C14_fixed_pairs). The per-line round trip of literal tokens (numerals in every spelling, DATA items, REM text, strings) and identical behaviour under RUN are discharged by execution: LIST -> reload -> LIST / RUN oracle on the implementation and LIST correspondence with the model over generated programs.",
        "design_ref": "DESIGN.md 6 C14",
        "note": NOTE + "PARTIAL: line_roundtrips for literal-bearing lines is a hypothesis of the program-level theorems (validated by the oracle, the correspondence and Coq-evaluated examples), as foreseen in DESIGN.md 6 C14 L; RUN equivalence of the reloaded program is validated, not proved.",
        "technique": "Coq proof: lifting of per-line round trips to programs via the store refinement + exhaustive computation over the finite token tables; LIST/reload/RUN differential oracle + correspondence",
    },
})

CLAIMED.update({
    "C05": {
        "text": "Coq theorems (closed under the global context) over the model of SourceFileAnalyzer::analyze, for EVERY file text: the analysis never panics - the model keeps all four panic sites of the Rust (tokens_for_line(..).unwrap() under every cursor operation, err.location.unwrap(), the explicit panic! for an unmappable diagnostic, the unwrap() on symbol-warning locations) and none is reachable (C05_never_panics; safety invariant of the analyzer fork of the evaluators in Proofs/AnalyzerSafety.v: cursor on a stored line at most one past its last token, located errors and logged accesses at such locations, unlocated errors never DATA TYPE MISMATCH, pass 1 maps every such location); EVERY diagnostic it reports - pass-1 warnings and tokenizer errors, errors of the walk, symbol warnings - maps to a source position (C05_every_diagnostic_maps) and, for lines that are valid UTF-8, that position is on an existing file line, inside it, on character boundaries (C05_diagnostics_well_formed, C05_diag; an illegal multi-byte character is covered whole, C05_error_range_end); one token list and one range record per file line (C05_shape); token class ranges ordered and non-overlapping (C05_tokens); every BASIC-line binding names an existing file line (C05_bindings). And the analysis TERMINATES: the Rust loops and recursion are modelled with fuel, and with fuel above a bound that depends only on the longest stored line and the nesting cap the result is never OutOfFuel - so for every text the analysis returns Ok (C05_terminates, C05_total; Proofs/AnalyzerTermination.v: the cursor never moves backwards, a successful expression consumes a token, every continuing loop iteration consumes a token, recursion costs one unit of fuel per nesting level). Decided on every run in addition: the model's result, messages, mapped ranges and token classes must equal the implementation's on every generated file, and the implementation runs under catch_unwind with the well-formedness oracle.",
        "design_ref": "DESIGN.md 6 C05",
        "note": NOTE,
        "technique": "Coq proof: inductive invariant over the per-line pass of the analyzer + tokenizer range theorems; differential correspondence of complete analyses + well-formedness oracle under catch_unwind",
    },
})

CLAIMED.update({
    "C15": {
        "text": "Coq theorems (closed under the global context): for EVERY file whose lines are numbered, non-empty and tokenizable, pass 1 of the analyzer stores exactly what entering the lines one by one stores - the interpreter states are equal line after line (C15_pass1_is_typing); the analysis itself, whatever it reports, changes nothing but cursor-like fields (C15_analysis_keeps_program, a frame walk over the whole analyzer fork); hence the interpreter loaded from the file - with or without the static check, both use into_interpreter - IS the typed-in interpreter in every field but the hook counter (C15_load_eq), and answers LIST, RUN and every later call identically (C15_same_behaviour); in file mode and in piped mode the CLI talks to that same interpreter with the warnings / tracing options and the seed applied (C15_options). The process-level behaviour (stdout/stderr routing, exit status) is exercised by running the real abasic binary in both modes for all 8 option combinations and comparing program output, warnings and trace records.",
        "design_ref": "DESIGN.md 6 C15",
        "note": NOTE + "Process I/O, rustyline, colours, the banner and the time-derived seed are glue: exercised by the binary comparison, not modelled.",
        "technique": "Coq proof: state equality by induction over the file's lines + frame relation over the analyzer fork of the evaluators; real-binary two-mode comparison + in-process load-vs-type correspondence",
    },
})

CLAIMED.update({
    "C20": {
        "text": "Coq theorems (closed under the global context) over the model of the server's encoders, for EVERY document text: every diagnostic names an existing line with start <= end <= the line's width in UTF-16 code units (C20_inbounds, from C05_diag and the monotonicity of the byte-offset -> UTF-16 column map); the diagnostics are exactly the analyzer's mapped messages, one each (C20_complete); the delta-encoded semantic tokens decode, with no subtraction underflowing, to exactly the analyzer's tokens in order (C20_tokens_decode), each inside its line (C20_tokens_inbounds) with a type index below the legend's 8 entries (C20_token_types; class->index map and legend order regenerated from the Rust into Gen/Tables.v). What is published depends on the latest text only (lsp_answer is a function of it). Liveness and the tie to the code are checked on the real abasic-lsp binary over stdio on every run: open/change/semanticTokens sequences, every answer compared with the model's and with an independent UTF-16 oracle, final request answered, exit status 0.",
        "design_ref": "DESIGN.md 6 C20",
        "note": NOTE + "PARTIAL on the runtime side: process liveness, JSON-RPC framing and the lsp-server threads are exercised, not modelled; malformed notifications are outside the property's quantifier. C20_inbounds carries C05's side condition msg_ok (tokenizer-error messages come from pass 1). A document's lines are its LF-separated pieces (the server's notion): for CRLF documents a column may lie on the CR, which LSP 3.17 clients clamp.",
        "technique": "Coq proof: in-bounds and decode/encode theorems over the encoders, on top of the analyzer invariant (C05) and tokenizer ranges (C13); real-binary JSON-RPC sessions compared with the model + independent UTF-16 oracle",
    },
})

CLAIMED.update({
    "C19": {
        "text": "Coq theorems (closed under the global context) over a model of abasic_web::JsInterpreter in which the adapter's asserts, the panic! arm of get_state and every core panic are explicit traps, and of the page script's handlers: each adapter call, under exactly the precondition the page establishes before making it, cannot trap and re-establishes the invariant (core well-formed, never left in the transient new-interpreter state, idle whenever an error is latched) (C19_start_evaluating, C19_continue_evaluating, C19_get_state); hence NO sequence of page events after start-up - start, submitted lines and replies of arbitrary text, break requests incl. the emoji alias, timer ticks in any order with any number of pending timers - traps or throws (C19_trap_free, induction over events on top of C01's safety theorems), and neither does a WHOLE page session that first loads a program file of ANY text into the new page (C19_session_trap_free, C19_loader: a line that starts with a digit is never a command and either edits the program, leaving the interpreter idle, or is rejected so that the loader stops - a digit run beyond u64 is an immediate line starting with a number token, which no statement starts with; parser and tokenizer facts proved in Proofs/LoaderProofs.v); outputs (type and Display text), state and error text (message, source line, caret) are the image of what the core yields for the same calls (C19_outputs, C19_state, C19_error_text_*); NEW yields exactly the fresh interpreter (C19_new); the modelled handlers are the script's: the call skeleton regenerated from main.ts on every run equals the modelled one (C19_skeleton). Tied to the code by driving the real adapter natively through a Rust transliteration of main.ts side by side with a bare core interpreter, the model page answering every event identically.",
        "design_ref": "DESIGN.md 6 C19",
        "note": NOTE + "Outside the model: wasm32 (32-bit usize, 1 MiB stack) is not executed; the DOM side (ui.ts) is not modelled; main.ts cannot be compiled here: it is tied by the generated call skeleton and the transliteration.",
        "technique": "Coq proof: adapter/page invariant by case analysis over the handlers on top of the core safety theorems (C01) + skeleton equality with the regenerated tables; native adapter vs core differential through a transliterated page script + model correspondence",
    },
})

CLAIMED.update({
    "C06": {
        "text": "PARTIAL. Coq theorems (closed under the global context) for the facts both directions of the property rest on, for all inputs: the two tools parse with the same precedence tiers, operator classes and associativity and dispatch on the same statement keywords (C06_same_expression_grammar, C06_same_statement_keywords: equalities over the tables regenerated from expression.rs / expression_analyzer.rs / statement.rs / statement_analyzer.rs on every run); the checker accepts a numeric jump target exactly when the interpreter's jump succeeds on the same store (C06_jump_targets), and analysis never changes the store (C06_analysis_keeps_store, a frame walk over the whole analyzer fork); the checker accepts an assignment exactly when the value's static kind is the kind of the target's name, the interpreter stores exactly when the dynamic kind is, comparison results are numbers in both (C06_checker_assignment, C06_interpreter_assignment, C06_comparisons_are_numbers). The two full statements (no analysis error => no syntax / type / undefined-jump failure in any run; error on a straight-line line => that line fails fresh) are decided on every run by execution: analyzer verdict vs forced runs along both branches and straight-line lines executed fresh on the implementation, the model tied to both tools by the analyzer and run correspondences.",
        "design_ref": "DESIGN.md 6 C06",
        "note": NOTE + "PARTIAL: C06_sound and C06_complete are validated (oracle + correspondences), not proved: they need the AST-level simulation between the two token walkers.",
        "technique": "Coq proof of the supporting facts (table equalities, jump-target agreement, kind discipline, analyzer frame) + analyzer-vs-forced-runs differential oracle + correspondences",
    },
})

CLAIMED.update({
    "C03": {
        "text": "PARTIAL. A reference interpreter on SYNTAX TREES (Ref/RefSem.v: LET, PRINT with ; and , , IF/THEN/ELSE, GOTO, GOSUB/RETURN, FOR/TO/STEP/NEXT, READ/DATA/RESTORE, DIM and cells of 1-3 dimensions, DEF FN with dynamic parameter scoping, END, RND; no token stream, no cursor, no host turns) written from the documented semantics. Coq theorems (closed under the global context): the yardstick has the documented behaviours the property lists - a FOR body always runs once with limit and step fixed at entry, NEXT forgets inner loops, undefined variables read as 0 / empty string, implicit arrays have indices 0..10, READ consumes DATA in line order (C03_ref_*); and on the expression fragment of C02 the reference evaluator computes the same fold the token walker is proved to compute, so for every tree and EVERY legal spelling model = reference is a theorem (C03_expr_reference_is_fold, C03_expr_model_is_reference); and at STATEMENT level the assignment statement `v = e`, in any legal token spelling, from any cursor position, is simulated: the model's statement evaluator and the reference exec succeed together into stores related again by the simulation relation same_store (so the step composes) or fail together with the same error kind and unchanged stores (C03_let_statement_simulates, and likewise PRINT with any item list: C03_print_statement_simulates; Proofs/StmtSim.v); and for WHOLE PROGRAMS of the fragment {scalar assignment, PRINT, GOTO, GOSUB, RETURN, FOR/TO/STEP, NEXT, IF c THEN line, END} - counter machines with subroutines, a bounded return stack (STACK OVERFLOW at the documented depth, RETURN WITHOUT GOSUB) and FOR loops exactly as documented (limit and step fixed at entry, the body always runs once, a FOR on a variable forgets the earlier loop on it and everything nested inside, NEXT forgets inner loops, NEXT WITHOUT FOR, the 32-loop cap), programs that loop, branch, recurse and need not terminate - a simulation theorem by induction over executions (C03_fragment_simulation; Proofs/ProgSim.v): for any reference program of the fragment and ANY legal token spelling of it stored in the model, after every number of reference steps the model - after finitely many host calls, each with enough fuel; the colon turns and the in-call line advance are absorbed - is at the corresponding place with the corresponding variable store having printed the reference's output records; when the reference ends the model is idle with exactly that output; when it fails the model's call fails with the same error kind on the same line and the host call start_evaluating(RUN) on such a stored program is the first call of that run (C03_run_simulates) (non-vacuity: a counting loop, a subroutine called from a colon line, and a FOR..STEP loop, typed into a fresh interpreter, tokens by the tokenizer, run to completion by the theorem). For the full language the whole-program claim is decided on every run by execution: programs are generated as syntax trees, rendered to BASIC text for the implementation and to a Coq term for the reference interpreter, which is evaluated INSIDE Coq and must produce exactly the implementation's printed records, error kind and error line; the same sessions are compared with the model turn by turn.",
        "design_ref": "DESIGN.md 6 C03",
        "note": NOTE + "PARTIAL: the whole-program simulation is proved for the fragment {LET scalar, PRINT, GOTO, GOSUB, RETURN, FOR/NEXT, IF..THEN line, END}; for the other statements (READ/DATA, DIM and arrays, DEF FN, ELSE, IF..THEN statement) it is validated by the Coq-evaluated reference oracle, not proved. ^ and INPUT are outside the C03 grammar; programs still running after 1500 host calls are not compared.",
        "technique": "Coq: reference semantics + theorems about it + expression-level model=reference theorem (via C02); whole programs decided by the reference interpreter evaluated in Coq against the implementation + model correspondence",
    },
})

_TODO = "check under construction in this session; not claimed until its theorems and correspondence are in place"
NOT_CLAIMED = {}
