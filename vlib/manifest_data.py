"""Per-property claims for MANIFEST.json (tools/gen_manifest.py)."""
HOOK_COMMITS = ["c471f6e"]

NOTE = ("Trusted: Coq 8.16.1 kernel + VM; tools/gen_tables.py; the correspondence check (Rust harness, hooks, vlib, Run/Harness.v) "
        "that ties the hand-written model to the Rust (differential testing: the Rust is not proved to refine the model); "
        "Model/Num.v's re-specification of Rust float parsing/printing; f64::powf as a logged oracle. ")

CLAIMED = {
    "C04": {
        "text": "Coq theorems (closed under the global context) over the model: for every host-call history the store refines a three-line abstract map (C04_refines), both indexes agree (C04_agree), LIST is total and ascending (C04_list), first/after give the least / next key for every n with no upper bound (C04_first, C04_run_order). The model is tied to the code by the store correspondence on generated edit histories and a last-writer oracle on LIST/RUN/snapshots.",
        "design_ref": "DESIGN.md 6 C04",
        "note": NOTE + "Theorems quantify over all histories and all line numbers; the tie to the Rust is by correspondence on generated histories.",
        "technique": "Coq proof: refinement to an abstract map by induction over host-call histories + frame lemmas; differential correspondence",
    },
    "C13": {
        "text": "Coq theorems (closed under the global context) about the model tokenizer for every byte string: ranges in bounds, non-empty, ordered, non-overlapping, starting/ending on non-blank bytes, on character boundaries; REM extends to end of line; error position in bounds and after all produced tokens; fuel never the reason to stop. Re-tokenization of a slice is not proved (checked by oracle + correspondence, exhaustive over short strings).",
        "design_ref": "DESIGN.md 6 C13",
        "note": NOTE + "C13_retok (slice re-tokenizes to the same single token) is validated, not proved.",
        "technique": "Coq proof: per-matcher lemmas + induction on the token iterator; exhaustive small-scope + random differential correspondence",
    },
}

_TODO = "check under construction in this session; not claimed until its theorems and correspondence are in place"
NOT_CLAIMED = {p: _TODO for p in ["C01", "C02", "C03", "C05", "C06", "C07", "C08", "C09", "C10", "C11", "C12", "C14",
                                  "C15", "C16", "C17", "C18", "C19", "C20"]}
