"""C19: the Web adapter (abasic_web::JsInterpreter, driven natively through a transliteration of the
page's script, side by side with a bare core interpreter; harness command `page`)."""
from . import core, gen, files
from .core import esc

BREAK_ALIAS = "\U0001F4A5"

PAGE_PROGRAMS = [
    ["10 PRINT 1", "20 C% = 1", "30 PRINT 2"],                     # an untokenizable line in the loaded file
    ["10 PRINT \"A\"", "20 INPUT X", "30 PRINT X*2", "40 GOTO 20"],
    ["10 FOR I = 1 TO 3", "20 PRINT I", "30 NEXT I"],
    ["10 PRINT 1/0"], ["10 GOTO 10"], ["", "  ", "REM unnumbered", "10 PRINT \"ok\""], ["10 PRINT \"", "20 PRINT 2"],
    ["10 NEW"], ["10 STOP", "20 PRINT \"after\""], ["10 INPUT A$", "20 PRINT A$;A$"], ["10 X = 1.2.3"], ["10 PRINT é"],
    ["5 DIM A(3)", "10 A(4) = 1"], ["10 DEF FNA(X) = X +", "20 PRINT FNA(1)"], ["10 PRINT \"é\" + 1"],
]
SUBMITS = ["PRINT 1", "RUN", "LIST", "NEW", "CONT", "10 PRINT 5", "20 GOTO 10", "X = ", "PRINT \"", "?1/0", "5", "abc", "", "  ", "1,2",
           BREAK_ALIAS, "TRACE", "NOTRACE", "PRINT X;A$", "INPUT Q", "GOTO 10", "NEW ", "new", "10", "FOR I=1 TO 3:PRINT I:NEXT", "é",
           "PRINT RND(1)", "READ A", "RETURN", "CONT", "18446744073709551615 PRINT 1", "DIM B(4294967295,4294967295)"]


# scripted sessions (run first, every time): flags across NEW, an edit that deletes a half-read DATA line and a READ
# whose error is then located on it (caret rendering), an error latched by a timer tick and left pending
FIXED_SCRIPTS = [
    [("start", ""), ("submit", "TRACE"), ("submit", "NEW"), ("submit", "10 PRINT 1"), ("submit", "20 PRINT 2"), ("submit", "RUN"),
     ("tick", ""), ("tick", ""), ("tick", ""), ("tick", "")],
    [("load", "10 DATA 1,HELLO\n20 READ A\n30 INPUT X$\n40 PRINT A;X$"), ("start", ""), ("tick", ""), ("tick", ""), ("tick", ""), ("tick", ""),
     ("breakkey", ""), ("submit", "10"), ("submit", "READ B"), ("submit", "PRINT B"), ("submit", "CONT")],
    [("load", "10 DATA 1,HELLO\n20 READ A\n30 STOP"), ("start", ""), ("tick", ""), ("tick", ""), ("tick", ""), ("submit", "10 REM"),
     ("submit", "READ B$"), ("submit", "READ C"), ("submit", "PRINT C")],
    [("load", "10 FOR I = 1 TO 3\n20 GOSUB 50\n30 NEXT I\n40 END\n50 PRINT 1/(2-I)\n60 RETURN"), ("start", "")] + [("tick", "")] * 14
    + [("submit", "PRINT I"), ("submit", "RETURN"), ("submit", "NEXT I")],
    [("start", ""), ("submit", "10 INPUT A$"), ("submit", "20 PRINT A$ : GOTO 10"), ("submit", "RUN"), ("tick", ""), ("submit", BREAK_ALIAS),
     ("submit", "20"), ("submit", "CONT"), ("submit", "RUN"), ("tick", ""), ("submit", "x,y"), ("tick", ""), ("tick", ""), ("breakkey", ""), ("submit", "NEW"),
     ("submit", "CONT"), ("submit", "LIST")],
]


def parse_page(resp):
    parts = resp.split("\t")
    if parts[0] == "dead":
        return {"verdict": "dead", "log": []}
    parts += [""] * (4 - len(parts))
    return {"verdict": parts[0].split(" ")[0], "raw_verdict": parts[0], "pending": parts[1], "enabled": parts[2],
            "log": parts[3].split("|") if parts[3] else []}


SHADOW_ONLY = ("shadow-skipped", "new-interpreter", "MISMATCH")


def run_c19(chk):
    h = core.Harness(chk.harness_path)
    n = 220 if chk.tier == "quick" else 8000
    cases = []
    for i in range(n):
        r = chk.rng.fork(("c19", i))
        cmds = ["page\tnew", "page\tseed\t%d" % r.below(2 ** 33)]
        h.cmd("page", "new")
        h.cmd("page", "seed", cmds[1].split("\t")[2])
        events = []
        if i < len(FIXED_SCRIPTS):
            events = list(FIXED_SCRIPTS[i])
        elif r.chance(0.6):
            if i - len(FIXED_SCRIPTS) < len(PAGE_PROGRAMS):
                prog = PAGE_PROGRAMS[i - len(FIXED_SCRIPTS)]
            elif r.chance(0.5):
                prog = r.choice(PAGE_PROGRAMS)
            else:
                prog = files.gen_file(r, well_formed=r.chance(0.6))
            events.append(("load", "\n".join(prog)))
        if i >= len(FIXED_SCRIPTS):
            events.append(("start", ""))
        for _ in range(0 if i < len(FIXED_SCRIPTS) else 3 + r.below(14)):
            k = r.weighted([("tick", 45), ("submit", 35), ("breakkey", 12), ("gen", 8)])
            if k == "tick":
                events.append(("tick", ""))
            elif k == "submit":
                events.append(("submit", r.choice(SUBMITS)))
            elif k == "gen":
                events.append(("submit", gen.gen_line(r, malformed=0.2)))
            else:
                events.append(("breakkey", ""))
        trace = []
        dead = False
        for ev, text in events:
            cmd = "page\t%s\t%s" % (ev, esc(text.encode("utf-8")))
            cmds.append(cmd)
            resp = h.cmd("page", ev, esc(text.encode("utf-8")))
            p = parse_page(resp)
            rep = {"events": [list(e) for e in events], "harness_commands": list(cmds), "response": resp[:600]}
            if p["verdict"] == "dead":
                break
            trace.append((ev, text, p))
            if p["verdict"] == "TRAP":
                chk.fail("adapter-trap:" + ("loader" if ev == "load" else ev), f"event {ev} {text[:60]!r}: {p['raw_verdict'][:160]}", rep)
                dead = True
                break
            if p["verdict"] == "THROW":
                chk.fail("page-throw:" + ev, f"event {ev} {text[:60]!r}: {p['raw_verdict'][:160]}", rep)
                dead = True
                break
            for l in p["log"]:
                if l.startswith("MISMATCH"):
                    chk.fail("adapter-differs-from-core", f"event {ev} {text[:60]!r}: {l[:200]}", rep)
            chk.count("event:" + ev)
        # NEW yields an interpreter indistinguishable from a fresh one: probe both
        if not dead and r.chance(0.3) and not h.cmd("page", "submit", esc(b"")).startswith("dead"):
            pass
        cases.append((cmds[1].split("\t")[2], events, trace))
        chk.case(tuple(events), nontrivial=len(events) > 3, sample={"events": [list(e) for e in events][:6]})
    # indistinguishability after NEW, on its own: same probes after NEW and on a fresh page
    probes = ["PRINT X;A$;N(3)", "LIST", "CONT", "RETURN", "NEXT I", "READ Q", "PRINT FNA(1)", "PRINT RND(0)", "10 PRINT Z9", "20 PRINT 2 : PRINT Q(1)",
              "RUN"]
    for i in range(12 if chk.tier == "quick" else 200):
        r = chk.rng.fork(("c19n", i))
        hist = [r.choice(SUBMITS + ["10 DATA 1,2", "20 READ A", "X = 5", "A$ = \"q\"", "DIM N(5)", "DEF FNA(X) = X", "FOR I = 1 TO 9", "GOSUB 10"])
                for _ in range(2 + r.below(8))]
        seed = str(r.below(2 ** 33))
        outs = []
        for variant in ("history+NEW", "fresh"):
            h.cmd("page", "new")
            h.cmd("page", "seed", seed)
            h.cmd("page", "start", "")
            if variant == "history+NEW":
                for l in hist:
                    h.cmd("page", "submit", esc(l.encode("utf-8")))
                    for _ in range(30):
                        p = parse_page(h.cmd("page", "tick", ""))
                        if "ignored" in p["log"] or p["verdict"] != "ok":
                            break
                    p = parse_page(h.cmd("page", "breakkey", ""))
                h.cmd("page", "submit", esc(b"NEW"))
                h.cmd("page", "seed", seed)        # the page seeds the generator once, at start-up; align both
            res = []
            for pr in probes:
                p = parse_page(h.cmd("page", "submit", esc(pr.encode("utf-8"))))
                res.append([l for l in p["log"] if not l.startswith(SHADOW_ONLY)])
                for _ in range(10):
                    q = parse_page(h.cmd("page", "tick", ""))
                    if "ignored" in q["log"] or q["verdict"] != "ok":
                        break
                    res.append([l for l in q["log"] if not l.startswith(SHADOW_ONLY)])
            outs.append(res)
        chk.count("new-probes")
        if outs[0] != outs[1]:
            j = next((j for j in range(min(len(outs[0]), len(outs[1]))) if outs[0][j] != outs[1][j]), 0)
            chk.fail("new-not-fresh", f"after history {hist} and NEW, probe answer {j} is {outs[0][j] if j < len(outs[0]) else None} but a fresh page gives {outs[1][j] if j < len(outs[1]) else None}",
                     {"history": hist, "probes": probes})
        chk.case(("new", tuple(hist)), sample={"history": hist[:5]})
    h.close()
    web_correspondence(chk, cases)


WEB_HEADER = core.HEADER.replace("Run.Harness.", "Run.Harness Model.Web Run.HarnessWeb.")


def web_correspondence(chk, cases, shard=25):
    """The model page (Model/Web.v) replays the events; verdict, pending ticks, input flag and the adapter-visible
    log of every event must equal the implementation's."""
    rows = []
    # `^` is f64::powf, an oracle the page harness does not log: those sequences are checked by the oracle only
    cases = [c for c in cases if not any("^" in t for _, t in c[1])]
    for seed, events, trace in cases:
        evs = []
        for (ev, text, p) in trace:
            if p["verdict"] in ("TRAP", "THROW"):
                obs = p["verdict"]
            else:
                obs = p["verdict"] + "\t" + p["pending"] + "\t" + p["enabled"] + "\t" + "|".join(l for l in p["log"] if not l.startswith(SHADOW_ONLY))
            evs.append(f"({core.coq_str(ev)}, {core.coq_str(esc(text.encode('utf-8')))}, {core.coq_str(obs)})")
        rows.append(f"({seed}%N, [" + "; ".join(evs) + "])")
    shards = []
    for i in range(0, len(rows), shard):
        body = "Definition cases : list (N * list (string * string * string)) := [\n" + ";\n".join(rows[i:i + shard]) + "].\n"
        body += "Eval vm_compute in web_failing cases.\n"
        shards.append(body)
    results, paths = core.run_coq_shards("C19-page", shards, header=WEB_HEADER)
    bad, errors = [], []
    for k, ((rc, out), path) in enumerate(zip(results, paths)):
        if rc != 0:
            errors.append(f"{path}: coqc exit {rc}: {out[-800:]}")
            continue
        lists = core.parse_N_list(out)
        if len(lists) != 1:
            errors.append(f"{path}: unparsable output {out[-400:]}")
            continue
        bad += [cases[k * shard + idx] for idx in lists[0]]
    chk.disagreements_checked += len(cases)
    ok = not bad and not errors
    chk.oblige(f"correspondence[C19-page]: model page + adapter = transliterated page script driving abasic_web::JsInterpreter on {len(cases)} event sequences", ok,
               (f"{len(bad)} disagreements, e.g. events {bad[0][1][:4]}" if bad else "") + " ".join(errors)[:500])
    if not ok:
        rep = {"seed": bad[0][0], "events": [list(e) for e in bad[0][1]],
               "implementation": [(ev, t, p.get("raw_verdict"), p.get("log")) for ev, t, p in bad[0][2]][:12]} if bad else None
        chk.broke("correspondence C19-page (Model/Web.v vs abasic-web + page script transliteration)", (errors or [f"{len(bad)} sequences disagree"])[0][:1500], rep)
