"""Core plumbing: paths, builds, harness process, Coq case runner, evidence."""
import hashlib
import json
import os
import re
import subprocess
import sys
import time
from concurrent.futures import ThreadPoolExecutor

ROOT = os.path.dirname(os.path.dirname(os.path.abspath(__file__)))
REPO = os.environ.get("VERIF_REPO", "/repo")
CACHE = os.path.join(ROOT, ".cache")
COQ = os.path.join(ROOT, "coq")
TARGET = os.path.join(CACHE, "target")
WORK = os.path.join(CACHE, "work")
JOBS = int(os.environ.get("VERIF_JOBS", "16"))

ENV = dict(os.environ)
ENV.update({"CARGO_NET_OFFLINE": "true", "RUST_BACKTRACE": "0", "CARGO_TERM_COLOR": "never"})


def log(msg):
    print(msg, flush=True)


def sh(cmd, cwd=None, timeout=None, env=None, check=False, input=None):
    p = subprocess.run(cmd, cwd=cwd, timeout=timeout, env=env or ENV, input=input,
                       stdout=subprocess.PIPE, stderr=subprocess.STDOUT, text=True, errors="replace")
    if check and p.returncode != 0:
        raise RuntimeError(f"command failed ({p.returncode}): {cmd}\n{p.stdout[-4000:]}")
    return p.returncode, p.stdout


# ---------------------------------------------------------------------------
# text helpers

KEEP = set(range(0x20, 0x7F)) - set(b'\\|;,=[]{}@:')


def esc(b):
    """bytes -> the harness's \\xHH escaping (str)."""
    if isinstance(b, str):
        b = b.encode("utf-8")
    return "".join(chr(x) if x in KEEP else "\\x%02x" % x for x in b)


def unesc(s):
    out = bytearray()
    i = 0
    while i < len(s):
        if s[i] == "\\" and s[i + 1:i + 2] == "x":
            out.append(int(s[i + 2:i + 4], 16))
            i += 4
        else:
            out.append(ord(s[i]))
            i += 1
    return bytes(out)


def coq_str(s):
    """ASCII str -> Coq string literal."""
    assert all(9 <= ord(c) < 127 for c in s), repr(s)
    return '"' + s.replace('"', '""') + '"'


class Rng:
    """xorshift64*; every random choice of a check derives from VERIF_SEED."""

    def __init__(self, seed):
        self.s = (seed * 0x9E3779B97F4A7C15 + 0x1234567) & 0xFFFFFFFFFFFFFFFF or 1

    def next(self):
        x = self.s
        x ^= x >> 12
        x ^= (x << 25) & 0xFFFFFFFFFFFFFFFF
        x ^= x >> 27
        self.s = x
        return (x * 0x2545F4914F6CDD1D) & 0xFFFFFFFFFFFFFFFF

    def below(self, n):
        return self.next() % n if n > 0 else 0

    def chance(self, p):
        return self.below(1000) < int(p * 1000)

    def choice(self, seq):
        return seq[self.below(len(seq))]

    def weighted(self, pairs):
        total = sum(w for _, w in pairs)
        r = self.below(total)
        for v, w in pairs:
            if r < w:
                return v
            r -= w
        return pairs[-1][0]

    def fork(self, tag):
        h = int.from_bytes(hashlib.sha256(f"{self.s}:{tag}".encode()).digest()[:8], "big")
        return Rng(h)


# ---------------------------------------------------------------------------
# builds

class BuildError(Exception):
    pass


def gen_tables():
    rc, out = sh([sys.executable, os.path.join(ROOT, "tools", "gen_tables.py")], env=dict(ENV, VERIF_REPO=REPO))
    return rc == 0, out.strip()


def coq_makefile():
    mk = os.path.join(COQ, "Makefile")
    proj = os.path.join(COQ, "_CoqProject")
    if not os.path.exists(mk) or os.path.getmtime(mk) < os.path.getmtime(proj):
        sh(["coq_makefile", "-f", "_CoqProject", "-o", "Makefile"], cwd=COQ, check=True)


def coq_make(targets, timeout=3000):
    """make the given .vo targets (full .vo build, never -vos). Returns (ok, output)."""
    coq_makefile()
    rc, out = sh(["timeout", str(timeout), "make", "-k", f"-j{JOBS}"] + targets, cwd=COQ)
    return rc == 0, out


def build_harness(release=False):
    src = os.path.join(ROOT, "harness")
    env = dict(ENV, RUSTFLAGS="--cfg abasic_verif")
    cmd = ["cargo", "build", "--offline", "--target-dir", TARGET]
    if release:
        cmd.append("--release")
    rc, out = sh(cmd, cwd=src, env=env, timeout=1800)
    if rc != 0:
        raise BuildError("harness build failed:\n" + out[-6000:])
    return os.path.join(TARGET, "release" if release else "debug", "abasic-verif-harness")


def build_repo_bins():
    """abasic and abasic-lsp binaries from /repo's workspace (hooks on, harmless)."""
    env = dict(ENV, RUSTFLAGS="--cfg abasic_verif")
    rc, out = sh(["cargo", "build", "--offline", "--workspace", "--target-dir", TARGET, "--manifest-path",
                  os.path.join(REPO, "Cargo.toml")], env=env, timeout=1800)
    if rc != 0:
        raise BuildError("workspace build failed:\n" + out[-6000:])
    return os.path.join(TARGET, "debug", "abasic"), os.path.join(TARGET, "debug", "abasic-lsp")


def repo_tree_hash():
    h = hashlib.sha256()
    for base, dirs, files in os.walk(REPO):
        dirs[:] = sorted(d for d in dirs if d not in (".git", "target", "node_modules", "pkg"))
        for f in sorted(files):
            if f.endswith((".rs", ".ts", ".toml", ".lock")):
                p = os.path.join(base, f)
                h.update(p.encode())
                with open(p, "rb") as fh:
                    h.update(fh.read())
    return h.hexdigest()[:16]


# ---------------------------------------------------------------------------
# harness process

class Harness:
    def __init__(self, path, stack_kb=None):
        self.path = path
        pre = None
        self.p = subprocess.Popen([path], stdin=subprocess.PIPE, stdout=subprocess.PIPE, stderr=subprocess.DEVNULL,
                                  env=ENV, text=True, bufsize=1, encoding="utf-8", errors="replace",
                                  preexec_fn=pre)
        self.calls = 0

    def cmd(self, *fields, timeout=20.0):
        line = "\t".join(str(f) for f in fields)
        assert "\n" not in line
        try:
            self.p.stdin.write(line + "\n")
            self.p.stdin.flush()
            import select
            r, _, _ = select.select([self.p.stdout], [], [], timeout)
            if not r:
                # the call did not return: a wedge. Kill and restart lazily.
                self.p.kill()
                self.p.wait()
                return "abort\twedged (no answer within %.0fs)" % timeout
            resp = self.p.stdout.readline()
        except (BrokenPipeError, ValueError):
            resp = ""
        self.calls += 1
        if not resp:
            try:
                rc = self.p.wait(timeout=5)
            except Exception:
                rc = self.p.poll()
            return f"abort\texit={rc}"
        return resp.rstrip("\n")

    def restart(self):
        self.close()
        self.__init__(self.path)

    def alive(self):
        return self.p.poll() is None

    def close(self):
        try:
            self.p.stdin.close()
        except Exception:
            pass
        try:
            self.p.wait(timeout=5)
        except Exception:
            self.p.kill()


# ---------------------------------------------------------------------------
# Coq case runner

HEADER = """From Coq Require Import List NArith ZArith Bool.
From Coq Require String.
From Abasic Require Import Model.Bytes Model.Num Model.Token Model.Data Model.Lexer Gen.Tables Model.State Model.Eval Model.Interp Run.Harness.
Import ListNotations String.StringSyntax.
Local Open Scope string_scope.
Set Printing Width 1000000.
Set Printing Depth 1000000.
"""


def run_coq_file(path, timeout=900, extra_requires=""):
    t0 = time.time()
    rc, out = sh(["bash", "-c", 'ulimit -s unlimited 2>/dev/null || ulimit -s 1000000; exec timeout "$0" coqc -noglob -Q "$1" Abasic "$2"',
                  str(timeout), COQ, path], cwd=os.path.dirname(path))
    return rc, out, time.time() - t0


def run_coq_shards(name, shards, timeout=900, header=HEADER):
    """shards: list of Coq source bodies. Returns list of (rc, output)."""
    d = os.path.join(WORK, name)
    os.makedirs(d, exist_ok=True)
    for f in os.listdir(d):
        if f.startswith("cases_"):
            os.remove(os.path.join(d, f))
    paths = []
    for i, body in enumerate(shards):
        p = os.path.join(d, f"cases_{i}.v")
        with open(p, "w") as fh:
            fh.write(header + body)
        paths.append(p)
    with ThreadPoolExecutor(max_workers=JOBS) as ex:
        res = list(ex.map(lambda p: run_coq_file(p, timeout), paths))
    return [(rc, out) for rc, out, _ in res], paths


def parse_N_list(out):
    """Parse `= [1; 2]%N : list N` / `= [] : list N` outputs; returns list of lists (one per Eval)."""
    res = []
    for m in re.finditer(r"=\s*(\[[^\]]*\])(?:%N)?\s*:\s*list N", out):
        body = m.group(1).strip("[]").strip()
        res.append([int(x.strip().replace("%N", "")) for x in body.split(";")] if body else [])
    return res


def parse_report(out):
    """Parse sess_report outputs: list of (case, op, field, text) tuples per Eval."""
    res = []
    for m in re.finditer(r"=\s*(\[.*?\])\s*:\s*list \(N \* N \* N \* string\)", out, re.S):
        items = []
        for t in re.finditer(r'\((\d+)(?:%N)?,\s*(\d+)(?:%N)?,\s*(\d+)(?:%N)?,\s*"((?:[^"]|"")*)"(?:%string)?\)', m.group(1), re.S):
            items.append((int(t.group(1)), int(t.group(2)), int(t.group(3)), t.group(4).replace('""', '"')))
        res.append(items)
    return res


# ---------------------------------------------------------------------------
# proof obligations

FORBIDDEN = re.compile(r"\b(Admitted|admit|Axiom|Axioms|Parameter|Parameters|Conjecture|Conjectures|Hypothesis|Hypotheses|"
                       r"Variable|Variables|bypass_check|Admit Obligations)\b|Unset Guard|Unset Positivity|"
                       r"Unset Universe|type-in-type|impredicative-set")


def strip_coq_comments(src):
    out = []
    depth = 0
    i = 0
    while i < len(src):
        if src.startswith("(*", i):
            depth += 1
            i += 2
        elif src.startswith("*)", i) and depth:
            depth -= 1
            i += 2
        else:
            if not depth:
                out.append(src[i])
            i += 1
    return "".join(out)


def audit_sources():
    """Forbidden constructs anywhere in the development. Variable/Hypothesis are allowed inside Sections only."""
    problems = []
    for base, _, files in os.walk(COQ):
        for f in files:
            if not f.endswith(".v"):
                continue
            p = os.path.join(base, f)
            src = strip_coq_comments(open(p, encoding="utf-8").read())
            src = re.sub(r'"(?:[^"]|"")*"', '""', src)
            depth = 0
            for ln, line in enumerate(src.split("\n"), 1):
                if re.match(r"\s*Section\b", line):
                    depth += 1
                if re.match(r"\s*End\b", line) and depth:
                    depth -= 1
                for m in FORBIDDEN.finditer(line):
                    w = m.group(0)
                    if w in ("Variable", "Variables", "Hypothesis", "Hypotheses") and depth > 0:
                        continue
                    problems.append(f"{os.path.relpath(p, COQ)}:{ln}: {w}")
    return problems


ALLOWED_AXIOMS_DEFAULT = set()


def check_property_file(prop, allowed_axioms=None):
    """Re-run coqc on Properties/<prop>.v capturing Print Assumptions; returns
    (ok, theorems: {name: assumptions text}, output)."""
    allowed = set(allowed_axioms or ())
    path = os.path.join(COQ, "Properties", f"{prop}.v")
    rc, out = sh(["timeout", "1200", "coqc", "-noglob", "-Q", COQ, "Abasic", path], cwd=COQ)
    if rc != 0:
        return False, {}, out
    src = open(path, encoding="utf-8").read()
    names = re.findall(r"Print Assumptions\s+([\w.']+)\s*\.", src)
    blocks = re.split(r"(?=Closed under the global context|Axioms:)", out)
    blocks = [b for b in blocks if b.startswith(("Closed under", "Axioms:"))]
    theorems = {}
    ok = len(blocks) == len(names) and len(names) > 0
    for n, b in zip(names, blocks):
        b = b.strip()
        theorems[n] = b
        if b.startswith("Axioms:"):
            used = set(re.findall(r"^([\w.']+)\s*:", b, re.M))
            bad = used - allowed
            if bad:
                ok = False
                theorems[n] += f"\n  NOT ALLOWED: {sorted(bad)}"
    return ok, theorems, out


# ---------------------------------------------------------------------------
# evidence

def write_evidence(prop, tier, seed, coverage, wall, violations, assumptions):
    os.makedirs(os.path.join(ROOT, "evidence"), exist_ok=True)
    ev = {
        "property_id": prop,
        "tier": tier,
        "seed": seed,
        "level": "proof",
        "coverage": coverage,
        "assumptions": assumptions,
        "wall_s": round(wall, 2),
        "violations": violations,
    }
    with open(os.path.join(ROOT, "evidence", f"{prop}.json"), "w") as f:
        json.dump(ev, f, indent=1, sort_keys=True)
        f.write("\n")
