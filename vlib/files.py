"""Checks on source files: C05 (analyzer well-formedness), C06 (analyzer vs interpreter),
C15 (file load vs typing in; CLI options), C20 (language server)."""
import json
import os
import re
import subprocess

from . import core, gen, sess
from .core import esc
from .props import session_replay, unesc_p, TB_COMMON, ASSUME_COMMON
from .stateful import events, enter_program

ODD_LINES = ["", " ", "PRINT 1", "  REM no number", "10", "20 ", '10 PRINT "', "10 PRINT 1 +", "30 PRINT é", '40 PRINT "é" + 1',
             "50 REM ünï", "60 X% = 1", "70 PRINT 1.2.3", "18446744073709551615 PRINT 1", "18446744073709551616 PRINT 1",
             "80 GOTO 999", "90 NEXT", "100 IF 1 THEN", "\t110 PRINT 2", "120 PRINT \U0001F4A5", '130 DATA é, "ü"', "140 A = \"hi\"",
             "150 PRINT " + "(" * 200 + "1" + ")" * 200, "160 " + "IF 1 THEN " * 100 + "PRINT 1", "170 DEF F(X) = X",
             "180 PRINT F(1,2)", "190 \x00", "200 PRINT 1\r"]


def gen_file(r, well_formed=False):
    pg = gen.ProgGen(r, fault=0.0 if well_formed else 0.08)
    lines = pg.generate(size=3 + r.below(6))
    if well_formed:
        return lines
    out = []
    for l in lines:
        k = r.weighted([("keep", 60), ("dup", 8), ("dup-empty", 6), ("dup-bad", 6), ("odd", 12), ("blank", 5), ("nonum", 3)])
        if k == "keep":
            out.append(l)
        elif k == "dup":
            out += [l, l.split(" ", 1)[0] + " PRINT \"again\""]
        elif k == "dup-empty":
            out += [l, l.split(" ", 1)[0] + r.choice(["", " ", "  "])]
        elif k == "dup-bad":
            out += [l, l.split(" ", 1)[0] + r.choice([' PRINT "', " PRINT 1.2.3", " PRINT é", " X% = 1"])]
        elif k == "odd":
            out += [l, r.choice(ODD_LINES)]
        elif k == "blank":
            out += [l, ""]
        else:
            out += [l, l.split(" ", 1)[1]]
    if r.chance(0.3):
        r2 = [r.choice(ODD_LINES) for _ in range(r.below(3) + 1)]
        out = r2 + out if r.chance(0.5) else out + r2
    return out


def join_file(r, lines):
    nl = r.weighted([("\n", 70), ("\r\n", 20), ("\n\n", 5), ("\r", 5)])
    text = nl.join(lines)
    if r.chance(0.5):
        text += nl
    return text


def parse_analysis(resp):
    """-> dict(nlines, messages [(kind, file_line, raw, mapped)], tokens [[(type,a,b)]]) or None on panic"""
    parts = resp.split("\t")
    if parts[0] != "ok":
        return None
    parts += [""] * (4 - len(parts))
    msgs = []
    for m in (parts[2].split(";") if parts[2] else []):
        body, _, mapped = m.rpartition("@")
        f = body.split("@")
        msgs.append({"kind": f[0], "file_line": int(f[1]), "raw": body, "mapped": mapped, "fields": f})
    toks = []
    # one entry per file line; lines are separated by ';' and may be empty
    for line in parts[3].split(";") if int(parts[1]) > 0 else []:
        ts = []
        for t in (line.split(",") if line else []):
            ty, _, rg = t.partition("@")
            a, _, b = rg.partition("-")
            ts.append((ty, int(a), int(b)))
        toks.append(ts)
    return {"nlines": int(parts[1]), "messages": msgs, "tokens": toks}


def c05_oracle(chk, text, resp):
    rep = {"file": text, "harness_commands": ["analyze\t" + esc(text.encode("utf-8"))], "response": resp[:600]}
    a = parse_analysis(resp)
    if a is None:
        chk.fail("analyzer-panic:" + resp.split("\t")[1][:60] if "\t" in resp else "analyzer-abort", f"analysing {text[:120]!r} -> {resp[:160]}", rep)
        return None
    flines = text.split("\n")
    if a["nlines"] != len(flines) or len(a["tokens"]) != len(flines):
        chk.fail("token-lists-per-line", f"{len(flines)} file lines but {len(a['tokens'])} token lists", rep)
    for m in a["messages"]:
        if m["mapped"] in ("none", "PANIC"):
            chk.fail("diagnostic-unmappable", f"message {m['raw'][:100]} maps to {m['mapped']}", rep)
            continue
        ml, _, rg = m["mapped"].partition(".")
        s, _, e = rg.partition("-")
        ml, s, e = int(ml), int(s), int(e)
        if ml != m["file_line"]:
            chk.fail("diagnostic-wrong-line", f"message for file line {m['file_line']} maps to line {ml}", rep)
        if ml >= len(flines):
            chk.fail("diagnostic-line-out-of-file", f"mapped line {ml} of {len(flines)}", rep)
            continue
        lb = flines[ml].encode("utf-8")
        if not (s <= e <= len(lb)):
            chk.fail("diagnostic-range-out-of-line", f"range {s}-{e} on a line of {len(lb)} bytes: {m['raw'][:80]}", rep)
            continue

        def boundary(i):
            return i == 0 or i == len(lb) or (lb[i] & 0xC0) != 0x80
        if not (boundary(s) and boundary(e)):
            chk.fail("diagnostic-splits-character", f"range {s}-{e} splits a character of {flines[ml]!r}: {m['raw'][:80]}", rep)
    for i, ts in enumerate(a["tokens"]):
        prev = 0
        for ty, x, y in ts:
            if not (prev <= x <= y) or (i < len(flines) and y > len(flines[i].encode("utf-8"))):
                chk.fail("token-ranges-unordered", f"file line {i}: ranges {ts}", rep)
                break
            prev = y
    return a


def canon_analysis_resp(resp):
    """Canonical form of the harness `analyze` answer: symbol warnings (HashMap order) sorted."""
    parts = resp.split("\t")
    if parts[0] != "ok":
        return "panic"
    parts += [""] * (4 - len(parts))
    msgs = parts[2].split(";") if parts[2] else []
    plain = [m for m in msgs if not (m.startswith("W@") and m.split("@")[2] != "none")]
    syms = sorted((m for m in msgs if m.startswith("W@") and m.split("@")[2] != "none"), key=lambda x: x.encode())
    return "\t".join([parts[0], parts[1], ";".join(plain + syms), parts[3]])


ANALYZER_HEADER = core.HEADER.replace("Run.Harness.", "Run.Harness Model.Analyzer Run.HarnessFiles.")


def analyzer_correspondence(chk, name, cases, shard=60):
    shards = []
    for i in range(0, len(cases), shard):
        chunk = cases[i:i + shard]
        body = "Definition cases : list (string * string) := [\n" + ";\n".join(
            f"({core.coq_str(esc(t.encode('utf-8')))}, {core.coq_str(canon_analysis_resp(r))})" for t, r in chunk) + "].\n"
        body += "Eval vm_compute in an_failing cases.\n"
        shards.append(body)
    results, paths = core.run_coq_shards(name, shards, header=ANALYZER_HEADER)
    bad, errors = [], []
    for k, ((rc, out), path) in enumerate(zip(results, paths)):
        if rc != 0:
            errors.append(f"{path}: coqc exit {rc}: {out[-800:]}")
            continue
        lists = core.parse_N_list(out)
        if len(lists) != 1:
            errors.append(f"{path}: unparsable output {out[-400:]}")
            continue
        bad += [cases[k * shard + idx] for idx in lists[0]]
    chk.disagreements_checked += len(cases)
    chk.programs += len(cases)
    ok = not bad and not errors
    chk.oblige(f"correspondence[{name}]: model analyzer = SourceFileAnalyzer on {len(cases)} files (messages, locations, source mapping, token classes and ranges)",
               ok, (f"{len(bad)} disagreements, e.g. {bad[0][0][:160]!r}" if bad else "") + " ".join(errors)[:500])
    if not ok:
        rep = {"file": bad[0][0], "implementation": bad[0][1][:800], "harness_commands": ["analyze\t" + esc(bad[0][0].encode("utf-8"))]} if bad else None
        chk.broke(f"correspondence {name} (Model/Analyzer.v analyze vs abasic-core SourceFileAnalyzer)", (errors or [f"{len(bad)} files disagree"])[0][:1500], rep)
    return bad


def run_c05(chk):
    h = core.Harness(chk.harness_path)
    n = 300 if chk.tier == "quick" else 10000
    fixed = ["10 X = 1\n10", '10 PRINT 1 +\n10 PRINT "', "10 PRINT é", "18446744073709551615 PRINT 1", "", "\n", "\r\n", "10",
             "10 PRINT " + "(" * 5000 + "1", "10 " + "IF 1 THEN " * 3000 + "PRINT 1", "10 PRINT 1\n10 PRINT 2\n10\n10 PRINT \"",
             "10 A = B\n20 B = A\n10 A = C", "10 DEF F(X) = X\n20 PRINT F(1)\n10", "5 GOTO 10\n10 END\n10", "10 FOR I=1 TO 2\n20 NEXT I\n20",
             # recursion that does not go through a parenthesis or an IF: runs of unary operators (missed seeded changes
             # C05-mut7 / C01-mut7: a unary operator parsing its own operand, outside the nesting guard)
             "10 PRINT " + "-" * 300000 + "1", "10 X = " + "NOT " * 150000 + "1\n20 PRINT " + "- NOT " * 100000 + "X"]
    cases = []
    for i in range(n + len(fixed)):
        r = chk.rng.fork(("c05", i))
        text = fixed[i] if i < len(fixed) else join_file(r, gen_file(r))
        if not h.alive():
            h.restart()
        resp = h.cmd("analyze", esc(text.encode("utf-8")))
        a = c05_oracle(chk, text, resp)
        if a:
            chk.count("messages:%d" % min(len(a["messages"]), 5))
            for m in a["messages"]:
                chk.count("msg:" + m["kind"])
        cases.append((text, resp))
        chk.case(text, nontrivial=len(text.split("\n")) > 1, sample={"file": text[:200]})
    h.close()
    analyzer_correspondence(chk, "C05-analyzer", [c for c in cases if len(c[0]) < 3000])
    return cases


# ---------------------------------------------------------------------------
# C06

BAD = ("err:Syntax(", "err:TypeMismatch", "err:UndefinedStatement")
NOT_STRAIGHT = re.compile(r"\b(IF|GOTO|GOSUB|RETURN|NEXT|END|STOP|INPUT|DEF|THEN|ELSE)\b", re.I)


def c06_calls_function(line, all_lines):
    names = set(re.findall(r"\bDEF\s*([A-Z][A-Z0-9]*\$?)\s*\(", "\n".join(all_lines), re.I))
    return any(re.search(r"\b" + re.escape(n) + r"\s*\(", line, re.I) for n in names)


STRAIGHT_FAULTS = ["A = \"hi\"", "A$ = 5", "X = S$ = T$", "S$ = S$ = T$", "X = NOT S$", "X$ = +\"a\"", "X = +\"a\"", "X = -\"a\"",
                   "PRINT 1 +", "PRINT (1", "X = 1 AND \"a\"", "X$ = \"a\" OR 1", "A$ = \"x\" < \"y\"", "A = \"x\" < \"y\"",
                   "PRINT \"a\" + 1", "PRINT \"a\" = 1", "X = ABS(\"a\")", "X$ = ABS(1)", "N(\"a\") = 1", "N(1) = \"a\"",
                   "T$(1) = 2", "READ A, B$ : DATA 1", "DIM Q(\"x\")", "FOR A$ = 1 TO 2", "FOR I = \"a\" TO 2", "PRINT 1 = 1 = 1",
                   "X = (1 < 2) + (\"a\" < \"b\")", "X$ = (1 < 2)", "LET = 1", "PRINT ; , ;", "X = 2 ^ \"a\"", "X = NOT NOT 1",
                   "PRINT - - 1", "A = 1 : B$ = A", "RESTORE : READ", "PRINT INT(\"x\")", "X = RND(\"a\")", "DIM", "LET 5",
                   "A(1,2) = 3 : PRINT A(1)", "PRINT A$ < 1", "X = 1 < \"a\""]


# IF lines whose THEN clause leaves the line or pauses (GOSUB, INPUT) and comes back to meet the ELSE, behind
# other statements and other IFs on the same line: every combination of truth values
ELSE_LEADS = ['', 'IF A THEN PRINT "A" : ', 'PRINT "X" : ', 'IF A THEN PRINT "A" : IF A THEN PRINT "AA" : ']
ELSE_THENS = ['GOSUB 100', 'INPUT Z', 'PRINT "T"', 'Z = 1']
ELSE_ELSES = ['PRINT "NOT B"', 'GOSUB 100', 'Z = 2']
ELSE_RESUME = [(lead, a, b, then) for lead in ELSE_LEADS for a in (0, 1) for b in (0, 1) for then in ELSE_THENS]
# ... and nested IFs with one ELSE each on the same line: a statement of the inner IF that leaves and comes back
# (or pauses) lands on the OUTER ELSE, with the inner ELSE between it and its THEN
NESTED_ELSES = ['GOSUB 100', 'INPUT Z', 'PRINT "E2"', 'STOP', ':', 'Z = 3', 'IF A THEN PRINT "E4"', 'REM']
ELSE_RESUME += [("nested", a, b, (s1, s2)) for a in (0, 1) for b in (0, 1) for s1 in ELSE_THENS for s2 in NESTED_ELSES]


# ... and small nested IF / ELSE structures generated from a grammar: arms that are empty statements, line numbers,
# transfers, loops, further IFs; one or two ELSEs per IF level in every combination the grammar gives
ELSE_ARMS = [':', 'PRINT "p"', 'Z = Z + 1', 'GOSUB 100', 'GOTO 30', '30', 'STOP', 'INPUT Z', 'RETURN', 'REM r', 'DATA 1',
             'FOR I = 1 TO 2', 'NEXT I', 'READ Q', 'RESTORE', 'DIM M(3)', 'END']


def else_tree(r, depth):
    """one IF statement as text: IF v THEN arm [ELSE arm], arms drawn from ELSE_ARMS or nested IFs"""
    v = r.choice(["A", "B", "C"])
    def arm(d):
        if d > 0 and r.chance(0.45):
            return else_tree(r, d - 1)
        return r.choice(ELSE_ARMS)
    txt = f"IF {v} THEN {arm(depth)}"
    if r.chance(0.7):
        txt += f" ELSE {arm(depth)}"
        if r.chance(0.15):
            txt += f" ELSE {arm(0)}"
    return txt


ELSE_TREES = 220


def else_tree_program(r, k):
    a, b, c = (k >> 0) & 1, (k >> 1) & 1, (k >> 2) & 1
    body = else_tree(r, 2)
    tail = r.choice(["", ' : PRINT "t"', " : Z = 9"])
    head = r.choice(["", 'PRINT "h" : '])
    return ["5 DATA 7, 8, 9", f"10 A = {a} : B = {b} : C = {c}", f"20 {head}{body}{tail}",
            '30 PRINT "END" Z', "40 END", '100 PRINT "SUB"', "110 RETURN"]


# ... and programs whose DEF is executed before the use but stands on a LATER line than the use: the single-pass checker
# reads the call as an array cell (KNOWN FINDING late-def, DESIGN 8 / 11.3: listed open in known_findings.json)
LATE_DEFS = [
    ["10 GOSUB 100", "20 PRINT F(1,2)", "30 END", "100 DEF F(X) = X", "110 RETURN"],
    ["10 GOTO 30", "20 PRINT FNA(1) : END", "30 DEF FNA(X,Y) = X + Y", "40 GOTO 20"],
    ["10 GOTO 30", '20 PRINT FNB("S") : END', "30 DEF FNB(X) = X + 1", "40 GOTO 20"],
    ["10 GOSUB 100", "20 A = G(1, 2, 3) + 1", "30 END", "100 DEF G(X, Y) = X * Y", "110 RETURN"],
    ["10 GOTO 40", "20 IF H(1, 1) THEN PRINT 1 ELSE PRINT 2", "30 END", "40 DEF H(Q) = Q", "50 GOTO 20"],
    # controls: the same shapes with calls that fit the definition (accepted and run), and a use before any DEF was run
    ["10 GOSUB 100", "20 PRINT F(1)", "30 END", "100 DEF F(X) = X", "110 RETURN"],
    ["10 GOTO 30", "20 PRINT FNA(1,2) : END", "30 DEF FNA(X,Y) = X + Y", "40 GOTO 20"],
]


# ... DEF bodies that call the function being defined, or an earlier one, with the wrong arity or kind (the checker must
# know the function while it checks the body: seeded change C06-mut8), with controls that fit
DEF_SELF = [
    ["10 DEF FNA(X,Y) = FNA(X) + Y", "20 PRINT FNA(1,2)"],
    ["10 DEF FNB(X$) = FNB(1) + 1", '20 PRINT FNB("S")'],
    ["10 DEF FNC(X) = X + 1", "20 DEF FND(X) = FNC(X, 1)", "30 PRINT FND(1)"],
    ['10 DEF G$(X$) = G$(X$, "a")', '20 PRINT G$("b")'],
    ["10 DEF FNE(X) = X * 2", "20 DEF FNF(X) = FNE(X) + FNE(1)", "30 PRINT FNF(2)"],
    ["10 DEF H(N) = H(N - 1) + 1", "20 PRINT H(3)"],
]
# ... and many rejected lines in front of valid ones: what an error leaves behind in the checker (nesting depth, cursor)
# must not make it reject a later valid line (seeded change C06-mut7)
ERROR_PILES = [
    [f'{10 * k} PRINT ((((((((((1 + "a"))))))))))' for k in range(1, 9)] + ["900 PRINT 1 + 1", "910 A = 2 : PRINT A"],
    [f'{10 * k} X = ABS(ABS(ABS(ABS(ABS(ABS(ABS("s")))))))' for k in range(1, 12)] + ["900 Y = ABS(ABS(1))", '910 Z$ = "a" + "b"'],
    [f"{10 * k} PRINT N(N(N(N(N(N(N(N(1 +)))))))))" for k in range(1, 10)] + ["900 PRINT N(N(1))", "910 DIM Q(2) : Q(1) = 3"],
]
C06_FIXED = LATE_DEFS + DEF_SELF + ERROR_PILES


def late_def_calls(lines):
    """call sites NAME( on a line whose number is lower than the line that holds DEF NAME( : (line number, name) pairs"""
    defs = {}
    for l in lines:
        no, _, rest = l.partition(" ")
        for m in re.finditer(r"\bDEF\s*([A-Z][A-Z0-9]*\$?)\s*\(", re.sub(r'"[^"]*"', '""', rest), re.I):
            if no.isdigit():
                defs.setdefault(m.group(1).upper(), int(no))
    out = []
    for l in lines:
        no, _, rest = l.partition(" ")
        if not no.isdigit():
            continue
        body = re.sub(r'"[^"]*"', '""', rest)
        body = re.sub(r"\bDEF\s*[A-Z][A-Z0-9]*\$?\s*\(", "DEF (", body, flags=re.I)
        for name, at in defs.items():
            if int(no) < at and re.search(r"(?<![A-Z0-9])" + re.escape(name) + r"\s*\(", body, re.I):
                out.append((no, name))
    return out


def else_resume_program(r, k):
    if k >= len(ELSE_RESUME) + ELSE_TREES:
        return C06_FIXED[k - len(ELSE_RESUME) - ELSE_TREES]
    if k >= len(ELSE_RESUME):
        return else_tree_program(r, k - len(ELSE_RESUME))
    lead, a, b, then = ELSE_RESUME[k]
    if lead == "nested":
        s1, s2 = then
        return [f"10 A = {a} : B = {b}", f'20 IF A THEN IF B THEN {s1} ELSE {s2} ELSE PRINT "E3"', '30 PRINT "END" Z', "40 END",
                '100 PRINT "SUB"', "110 RETURN"]
    return [f"10 A = {a} : B = {b}", f"20 {lead}IF B THEN {then} ELSE {r.choice(ELSE_ELSES)}", '30 PRINT "END" Z', "40 END",
            '100 PRINT "SUB"', "110 RETURN"]


def run_c06(chk):
    h = core.Harness(chk.harness_path)
    n = 160 if chk.tier == "quick" else 5000
    an_cases = []
    sessions = []
    for i in range(n + len(ELSE_RESUME) + ELSE_TREES + len(C06_FIXED)):
        r = chk.rng.fork(("c06", i))
        flavour = r.weighted([("typed", 35), ("faulty", 30), ("straight", 20), ("tree", 15)])
        if i >= n:
            flavour = "else-resume" if i - n < len(ELSE_RESUME) + ELSE_TREES else "fixed-def-and-error-families"
            lines = else_resume_program(r, i - n)
        elif flavour == "tree":
            # structured programs from the syntax-tree generator of C03: every IF/ELSE form with statements before and
            # after it on the line, transfers inside THEN, nested loops, subroutines, DEF FN
            from . import refsem
            k = r.below(len(refsem.FIXED) + 12)
            tree = refsem.FIXED[k] if k < len(refsem.FIXED) else refsem.G(r, fault=r.choice([0.0, 0.0, 0.05])).generate(4 + r.below(8))
            lines = refsem.to_text(tree)
        elif flavour == "straight":
            lines = [f"{10 * (k + 1)} " + (r.choice(STRAIGHT_FAULTS) if r.chance(0.6) else gen.ProgGen(r, fault=0.3, use_input=False, use_fn=False).stmt_line())
                     for k in range(r.below(4) + 1)]
        else:
            pg = gen.ProgGen(r, fault=0.0 if flavour == "typed" else 0.10)
            lines = pg.generate(size=4 + r.below(7))
        text = "\n".join(lines)
        if not h.alive():
            h.restart()
        resp = h.cmd("analyze", esc(text.encode("utf-8")))
        a = parse_analysis(resp)
        an_cases.append((text, resp))
        if a is None:
            chk.fail("analyzer-panic", f"{text[:100]!r} -> {resp[:120]}", {"file": text, "harness_commands": ["analyze\t" + esc(text.encode())]})
            continue
        errors = [m for m in a["messages"] if m["kind"] == "E"]
        chk.count(f"{flavour}:{'rejected' if errors else 'accepted'}")
        defs = re.findall(r"\bDEF\s*([A-Z][A-Z0-9]*\$?)\s*\(", text, re.I)
        if not errors and len(defs) == len(set(d.upper() for d in defs)):
            # soundness: no forced execution may fail with a syntax error, type mismatch or undefined jump
            for k in range(3 if chk.tier == "quick" else 6):
                rr = r.fork(("run", k))
                s = sess.Session(h)
                s.rand(rr.below(2 ** 33))
                enter_program(s, lines)
                s.line("RUN")
                s.run_until_idle(replies=[rr.choice(["1", "0", "5", "abc", "-1", "2.5", "x y", "7"]) for _ in range(14)], max_turns=260)
                if flavour == "else-resume" and s.state == "Idle" and not s.dead and s.ops[-1][1].kind == "row" \
                        and any(o.startswith("B") for o in s.ops[-1][1].outputs()):
                    s.line("CONT")      # a STOP in the clause: resume where it stopped
                    s.run_until_idle(replies=["1", "2"], max_turns=60)
                last = next((row for _, row in reversed(s.ops) if row.kind == "row" and row.outcome.startswith("err:")), None)
                for _, row in s.ops:
                    if row.kind in ("panic", "abort"):
                        chk.fail("crash:" + row.f.get("msg", "")[:50], row.raw[:160], session_replay(s))
                if last is not None and last.outcome.startswith(BAD):
                    line_no = last.outcome.rpartition("@")[2].split(".")[0]
                    src = next((l for l in lines if l.split(" ", 1)[0] == line_no), "?")
                    cls = "accepted-but-fails"
                    # known class: the failing line holds a call site on a lower line number than the DEF it needs
                    # (the DEF was executed earlier, via GOSUB / GOTO); any other failure is a fresh violation
                    if any(no == line_no for no, _ in late_def_calls(lines)):
                        cls = "accepted-but-fails:late-def"
                    chk.fail(cls, f"analysis reports no error but the run fails with {last.outcome} at {src!r}",
                             {"file": text, "harness_commands": s.commands()})
                    break
                if k == 0:
                    sessions.append(s.ops)
        # no false rejection of straight-line lines
        for m in errors:
            fl = m["file_line"]
            if fl >= len(lines):
                continue
            src = lines[fl]
            stmt = src.split(" ", 1)[1] if " " in src else ""
            if NOT_STRAIGHT.search(re.sub(r'"[^"]*"', '""', stmt)) or c06_calls_function(stmt, lines):
                chk.count("rejected-line:not-straight")
                continue
            chk.count("rejected-line:straight")
            s = sess.Session(h)
            s.line(src)
            s.line("RUN")
            s.run_until_idle(max_turns=60)
            failed = any(row.kind == "row" and row.outcome.startswith("err:") for _, row in s.ops)
            if not failed:
                chk.fail("valid-line-rejected", f"analysis rejects {src!r} ({m['fields'][2]}) but executing it from a fresh state succeeds",
                         {"file": text, "line": src, "harness_commands": s.commands()})
            sessions.append(s.ops)
        chk.case(text, nontrivial=True, sample={"file": lines[:5], "errors": [m["fields"][2] for m in errors][:3]})
    h.close()
    analyzer_correspondence(chk, "C06-analyzer", an_cases)
    from .props import session_correspondence
    session_correspondence(chk, "C06-runs", sessions, ["outcome", "state", "outputs"])


# ---------------------------------------------------------------------------
# C15

def run_cli(binary, args, stdin_text, cwd):
    env = dict(core.ENV, HOME=cwd, NO_COLOR="1", CLICOLOR="0", TERM="dumb")
    # the programs compared here end within the in-process turn budget; the limit only guards against a hung binary
    # (one retry: the machine may be saturated by other checks running in parallel)
    for attempt in (0, 1):
        try:
            p = subprocess.run([binary] + args, input=stdin_text.encode("utf-8"), cwd=cwd, env=env, stdout=subprocess.PIPE,
                               stderr=subprocess.PIPE, timeout=60 if attempt == 0 else 180)
            return p.returncode, p.stdout.decode("utf-8", "replace"), p.stderr.decode("utf-8", "replace")
        except subprocess.TimeoutExpired:
            continue
    return "timeout", "", ""


ANSI = re.compile(r"\x1b\[[0-9;]*m")


def cli_canon(out, err, interactive):
    out = ANSI.sub("", out)
    err = ANSI.sub("", err)
    if interactive:
        out = re.sub(r"^Welcome to Atul's BASIC Interpreter v[^\n]*\nPress CTRL-C to exit\.\n", "", out)
        out = out.replace("] ", "")          # the prompt of the line editor (generated programs never print it)
    # analyzer messages are printed only in file mode and are not program output
    err = "\n".join(l for l in err.split("\n") if not l.startswith("Warning on line "))
    return out, err


def run_c15(chk):
    from .props import session_correspondence
    h = core.Harness(chk.harness_path)
    abasic, _ = core.build_repo_bins()
    n = 40 if chk.tier == "quick" else 600
    sessions = []
    work = os.path.join(core.WORK, "C15-cli")
    os.makedirs(work, exist_ok=True)
    # files the static check rejects on lines that never run (errors found deep inside expressions), whose executed part
    # nests close to the interpreter's depth limit: what the check leaves behind in the program it hands over must not
    # change how the program runs (seeded changes C15-mut3 / C15-mut5: the checker's depth counter leaked on its error path)
    def deep(k, inner):
        return "(" * k + inner + ")" * k
    C15_FIXED = [
        [f"10 PRINT {deep(d, '1 + 2')}", "20 END"] + [f"{30 + 10 * j} X = {deep(12, chr(34) + 'A' + chr(34) + ' + 2')}" for j in range(4)]
        for d in (40, 52, 58, 61)
    ] + [
        ["10 DIM N(3) : N(1) = 1", f"20 PRINT {'N(' * 20 + '1' + ')' * 20}", "30 END", f"40 Y$ = {deep(30, '1 +')}", f"50 Z = {deep(25, '1 < ' + chr(34) + 'b' + chr(34))}"],
    ]
    for i in range(n + len(C15_FIXED)):
        r = chk.rng.fork(("c15", i))
        pg = gen.ProgGen(r, fault=0.03, use_input=r.chance(0.5))
        lines = pg.generate(size=4 + r.below(6))
        if i >= n:
            lines = list(C15_FIXED[i - n])
        if r.chance(0.3):
            lines.append("5 PRINT UNSET;Q(3)")       # runtime warnings
        if r.chance(0.2):
            lines = list(reversed(lines))            # order of entry is irrelevant
        nl = r.choice(["\n", "\n", "\r\n"]) if False else "\n"
        text = nl.join(lines) + (nl if r.chance(0.5) else "")
        replies = [r.choice(["1", "2", "abc", "5", "0"]) for _ in range(12)]
        # (1) in-process: loading through the analyzer vs entering line by line
        a = sess.Session(h)
        resp = h.cmd("load", esc(text.encode("utf-8")))
        a.ops.append((("load", text.encode("utf-8")), sess.Row("ok")))
        if resp != "ok":
            chk.fail("load-crash", f"loading {text[:100]!r}: {resp[:120]}", {"file": text, "harness_commands": ["load\t" + esc(text.encode())]})
            continue
        a.state = "Idle"
        tr = []
        b = None
        for sname in ("loaded", "typed"):
            if sname == "typed":
                b = sess.Session(h)          # the harness holds one interpreter: start the second only now
                enter_program(b, lines)
            s = a if sname == "loaded" else b
            st = len(s.ops)
            s.line("LIST")
            s.line("RUN")
            s.run_until_idle(replies=list(replies), max_turns=200)
            tr.append([(row.outcome, row.state, row.f.get("outputs"), row.f.get("snap")) for _, row in s.ops[st:]])
        if tr[0] != tr[1]:
            j = next((j for j in range(min(len(tr[0]), len(tr[1]))) if tr[0][j] != tr[1][j]), min(len(tr[0]), len(tr[1])))
            chk.fail("load-differs-from-typing", f"call {j} after loading vs typing: {(tr[0][j] if j < len(tr[0]) else None)!r:.300} vs {(tr[1][j] if j < len(tr[1]) else None)!r:.300}",
                     {"file": text, "harness_commands": ["load\t" + esc(text.encode())] + a.commands()[1:]})
        sessions.append(b.ops)
        # the property speaks of files whose lines are all tokenizable, and the CLI comparison needs a program that ends
        entered = [row for op, row in b.ops if op[0] == "line"][:len(lines)]
        if any(row.kind == "row" and row.outcome != "ok" for row in entered):
            chk.count("file:not-well-formed (a line does not tokenize): CLI comparison skipped")
            chk.case(text, nontrivial=True, sample={"file": lines[:5]})
            continue
        if a.state != "Idle" or b.state != "Idle":
            chk.count("file:still running after the turn budget: CLI comparison skipped")
            chk.case(text, nontrivial=True, sample={"file": lines[:5]})
            continue
        # (2) the abasic binary: FILE vs piped interactive session, all option combinations
        path = os.path.join(work, f"p{i}.bas")
        with open(path, "w") as f:
            f.write(text)
        # exactly the replies the program consumes (counted on the in-process run): in piped mode a surplus reply
        # would be read as a command line after the program has ended
        used = sum(1 for op, _ in a.ops if op[0] == "reply")
        stdin_file = "".join(x + "\n" for x in replies[:used])
        stdin_piped = "".join(x + "\n" for x in lines + ["RUN"] + replies[:used])
        for w in (False, True):
            for t in (False, True):
                for skip in (False, True):
                    if chk.tier == "quick" and skip and not (w and t):
                        continue
                    opts = (["-w"] if w else []) + (["-t"] if t else []) + (["-s"] if skip else [])
                    rc1, o1, e1 = run_cli(abasic, opts + [path], stdin_file, work)
                    rc2, o2, e2 = run_cli(abasic, opts, stdin_piped, work)
                    chk.count("cli-runs", 2)
                    if rc1 == "timeout" or rc2 == "timeout":
                        chk.fail("cli-timeout", f"abasic {opts} timed out", {"file": text, "options": opts})
                        continue
                    c1, c2 = cli_canon(o1, e1, False), cli_canon(o2, e2, True)
                    analysis_refused = "Please fix the above errors" in e1
                    if analysis_refused:
                        chk.count("cli:refused-by-check")
                        continue
                    if c1 != c2:
                        chk.fail("cli-modes-differ", f"abasic {' '.join(opts)} FILE vs piped session: stdout {c1[0][:200]!r} vs {c2[0][:200]!r}; stderr {c1[1][:200]!r} vs {c2[1][:200]!r}",
                                 {"file": text, "options": opts, "file_mode": {"stdout": o1, "stderr": e1, "exit": rc1},
                                  "piped_mode": {"stdout": o2, "stderr": e2, "exit": rc2}})
        try:
            os.remove(path)
        except OSError:
            pass
        chk.case(text, nontrivial=True, sample={"file": lines[:5]})
    h.close()
    session_correspondence(chk, "C15-typed", sessions, ["outcome", "state", "outputs", "snap"])
