"""Checks on source files: C05 (analyzer well-formedness), C06 (analyzer vs interpreter),
C15 (file load vs typing in; CLI options), C20 (language server)."""
import json
import os
import re
import subprocess

from . import core, gen, sess
from .core import esc
from .props import session_replay, unesc_p, TB_COMMON, ASSUME_COMMON
from .stateful import events, enter_program

ODD_LINES = ["", " ", "PRINT 1", "  REM no number", "10", "20 ", '10 PRINT "', "10 PRINT 1 +", "30 PRINT é", '40 PRINT "é" + 1',
             "50 REM ünï", "60 X% = 1", "70 PRINT 1.2.3", "18446744073709551615 PRINT 1", "18446744073709551616 PRINT 1",
             "80 GOTO 999", "90 NEXT", "100 IF 1 THEN", "\t110 PRINT 2", "120 PRINT \U0001F4A5", '130 DATA é, "ü"', "140 A = \"hi\"",
             "150 PRINT " + "(" * 200 + "1" + ")" * 200, "160 " + "IF 1 THEN " * 100 + "PRINT 1", "170 DEF F(X) = X",
             "180 PRINT F(1,2)", "190 \x00", "200 PRINT 1\r"]


def gen_file(r, well_formed=False):
    pg = gen.ProgGen(r, fault=0.0 if well_formed else 0.08)
    lines = pg.generate(size=3 + r.below(6))
    if well_formed:
        return lines
    out = []
    for l in lines:
        k = r.weighted([("keep", 60), ("dup", 8), ("dup-empty", 6), ("dup-bad", 6), ("odd", 12), ("blank", 5), ("nonum", 3)])
        if k == "keep":
            out.append(l)
        elif k == "dup":
            out += [l, l.split(" ", 1)[0] + " PRINT \"again\""]
        elif k == "dup-empty":
            out += [l, l.split(" ", 1)[0] + r.choice(["", " ", "  "])]
        elif k == "dup-bad":
            out += [l, l.split(" ", 1)[0] + r.choice([' PRINT "', " PRINT 1.2.3", " PRINT é", " X% = 1"])]
        elif k == "odd":
            out += [l, r.choice(ODD_LINES)]
        elif k == "blank":
            out += [l, ""]
        else:
            out += [l, l.split(" ", 1)[1]]
    if r.chance(0.3):
        r2 = [r.choice(ODD_LINES) for _ in range(r.below(3) + 1)]
        out = r2 + out if r.chance(0.5) else out + r2
    return out


def join_file(r, lines):
    nl = r.weighted([("\n", 70), ("\r\n", 20), ("\n\n", 5), ("\r", 5)])
    text = nl.join(lines)
    if r.chance(0.5):
        text += nl
    return text


def parse_analysis(resp):
    """-> dict(nlines, messages [(kind, file_line, raw, mapped)], tokens [[(type,a,b)]]) or None on panic"""
    parts = resp.split("\t")
    if parts[0] != "ok":
        return None
    parts += [""] * (4 - len(parts))
    msgs = []
    for m in (parts[2].split(";") if parts[2] else []):
        body, _, mapped = m.rpartition("@")
        f = body.split("@")
        msgs.append({"kind": f[0], "file_line": int(f[1]), "raw": body, "mapped": mapped, "fields": f})
    toks = []
    # one entry per file line; lines are separated by ';' and may be empty
    for line in parts[3].split(";") if int(parts[1]) > 0 else []:
        ts = []
        for t in (line.split(",") if line else []):
            ty, _, rg = t.partition("@")
            a, _, b = rg.partition("-")
            ts.append((ty, int(a), int(b)))
        toks.append(ts)
    return {"nlines": int(parts[1]), "messages": msgs, "tokens": toks}


def c05_oracle(chk, text, resp):
    rep = {"file": text, "harness_commands": ["analyze\t" + esc(text.encode("utf-8"))], "response": resp[:600]}
    a = parse_analysis(resp)
    if a is None:
        chk.fail("analyzer-panic:" + resp.split("\t")[1][:60] if "\t" in resp else "analyzer-abort", f"analysing {text[:120]!r} -> {resp[:160]}", rep)
        return None
    flines = text.split("\n")
    if a["nlines"] != len(flines) or len(a["tokens"]) != len(flines):
        chk.fail("token-lists-per-line", f"{len(flines)} file lines but {len(a['tokens'])} token lists", rep)
    for m in a["messages"]:
        if m["mapped"] in ("none", "PANIC"):
            chk.fail("diagnostic-unmappable", f"message {m['raw'][:100]} maps to {m['mapped']}", rep)
            continue
        ml, _, rg = m["mapped"].partition(".")
        s, _, e = rg.partition("-")
        ml, s, e = int(ml), int(s), int(e)
        if ml != m["file_line"]:
            chk.fail("diagnostic-wrong-line", f"message for file line {m['file_line']} maps to line {ml}", rep)
        if ml >= len(flines):
            chk.fail("diagnostic-line-out-of-file", f"mapped line {ml} of {len(flines)}", rep)
            continue
        lb = flines[ml].encode("utf-8")
        if not (s <= e <= len(lb)):
            chk.fail("diagnostic-range-out-of-line", f"range {s}-{e} on a line of {len(lb)} bytes: {m['raw'][:80]}", rep)
            continue

        def boundary(i):
            return i == 0 or i == len(lb) or (lb[i] & 0xC0) != 0x80
        if not (boundary(s) and boundary(e)):
            chk.fail("diagnostic-splits-character", f"range {s}-{e} splits a character of {flines[ml]!r}: {m['raw'][:80]}", rep)
    for i, ts in enumerate(a["tokens"]):
        prev = 0
        for ty, x, y in ts:
            if not (prev <= x <= y) or (i < len(flines) and y > len(flines[i].encode("utf-8"))):
                chk.fail("token-ranges-unordered", f"file line {i}: ranges {ts}", rep)
                break
            prev = y
    return a


def run_c05(chk):
    h = core.Harness(chk.harness_path)
    n = 300 if chk.tier == "quick" else 10000
    fixed = ["10 X = 1\n10", '10 PRINT 1 +\n10 PRINT "', "10 PRINT é", "18446744073709551615 PRINT 1", "", "\n", "\r\n", "10",
             "10 PRINT " + "(" * 5000 + "1", "10 " + "IF 1 THEN " * 3000 + "PRINT 1", "10 PRINT 1\n10 PRINT 2\n10\n10 PRINT \"",
             "10 A = B\n20 B = A\n10 A = C", "10 DEF F(X) = X\n20 PRINT F(1)\n10", "5 GOTO 10\n10 END\n10", "10 FOR I=1 TO 2\n20 NEXT I\n20"]
    cases = []
    for i in range(n + len(fixed)):
        r = chk.rng.fork(("c05", i))
        text = fixed[i] if i < len(fixed) else join_file(r, gen_file(r))
        if not h.alive():
            h.restart()
        resp = h.cmd("analyze", esc(text.encode("utf-8")))
        a = c05_oracle(chk, text, resp)
        if a:
            chk.count("messages:%d" % min(len(a["messages"]), 5))
            for m in a["messages"]:
                chk.count("msg:" + m["kind"])
        cases.append((text, resp))
        chk.case(text, nontrivial=len(text.split("\n")) > 1, sample={"file": text[:200]})
    h.close()
    return cases
