"""Checks of the stateful properties (C01, C07-C11, C16-C18): session generators,
implementation-side oracles, and the model correspondence for each."""
import math
import re
import struct

from . import core, gen, sess
from .core import esc
from .props import session_correspondence, session_replay, unesc_p

ALL = sess.MODEL_FIELDS


# ---------------------------------------------------------------------------
# helpers

def enter_program(s, lines):
    for l in lines:
        s.line(l)


def events(rows):
    """Transcript of a list of rows: Print text, Reenter, ExtraIgnored, input requests, Break, errors."""
    ev = []
    for r in rows:
        if r.kind != "row":
            ev.append(("CRASH", r.raw[:120]))
            continue
        for o in r.outputs():
            if o[0] == "P":
                ev.append(("P", unesc_p(o)))
            elif o[0] in "XR":
                ev.append((o[0],))
            elif o[0] == "B":
                ev.append(("B", o[1:]))
        if r.outcome.startswith("err:"):
            kind, _, loc = r.outcome[4:].rpartition("@")
            ev.append(("E", kind, loc.split(".")[0]))
        if r.state == "AwaitingInput":
            ev.append(("?",))
    return ev


def squash_input_requests(ev):
    """A request that is re-issued because the host broke in before answering counts once."""
    out = []
    for e in ev:
        if e == ("?",) and out and out[-1] == ("?",):
            continue
        out.append(e)
    return out


def parse_snapshot_caps(snap):
    """-> (n_frames, loop symbols, arrays [(kind,name,dims,count)], vars [(name, kind)], frame vars)"""
    frames = [f for f in snap.get("stack", "").split(";") if f] if snap.get("stack") else []
    loops = [l.split("@")[0] for l in snap.get("loops", "").split(";") if l]
    arrays = []
    for a in (snap.get("arrays", "").split(";") if snap.get("arrays") else []):
        m = re.match(r"([SN])(.*?)\[([\d.]*)\]#(\d+)\{(.*)\}$", a)
        if m:
            dims = [int(x) for x in m.group(3).split(".") if x]
            cells = [c.split("=", 1)[1][0] for c in m.group(5).split(",") if "=" in c]
            arrays.append((m.group(1), core.unesc(m.group(2)).decode("utf-8", "replace"), dims, int(m.group(4)), cells))
    vars_ = []
    for v in (snap.get("vars", "").split(",") if snap.get("vars") else []):
        if "=" in v:
            n, val = v.split("=", 1)
            vars_.append((core.unesc(n).decode("utf-8", "replace"), val[0]))
    fvars = []
    for f in frames:
        inner = f[f.index("{") + 1:f.rindex("}")] if "{" in f else ""
        for v in (inner.split(",") if inner else []):
            if "=" in v:
                n, val = v.split("=", 1)
                fvars.append((core.unesc(n).decode("utf-8", "replace"), val[0]))
    return len(frames), loops, arrays, vars_, fvars


def caps_oracle(chk, s, row, what="C16"):
    if row.kind != "row":
        return
    snap = row.snap()
    nf, loops, arrays, vars_, fvars = parse_snapshot_caps(snap)
    rep = session_replay(s)
    if nf > 32:
        chk.fail("frames-over-cap", f"{nf} frames on the stack", rep)
    if len(loops) > 32:
        chk.fail("loops-over-cap", f"{len(loops)} open loops", rep)
    if len(set(loops)) != len(loops):
        chk.fail("duplicate-loop-variable", f"two open loops for one variable: {loops}", rep)
    for kind, name, dims, count, cells in arrays:
        prod = 1
        for d in dims:
            prod *= d
        if not dims or prod != count or count > 10000:
            chk.fail("array-cells", f"array {name}: dims {dims} but {count} cells", rep)
        want = "S" if name.endswith("$") else "N"
        if kind != want or any(c != want for c in cells):
            chk.fail("array-kind", f"array {name} holds kind {kind}/{set(cells)}", rep)
    for n, k in vars_ + fvars:
        if k != ("S" if n.endswith("$") else "N"):
            chk.fail("variable-kind", f"{n} holds a value of kind {k}", rep)
    chk.count("max_frames=%d" % min(nf, 32) if nf in (0, 32) else "frames:mid")


def basic_oracle(chk, s, row, cls_prefix="C01"):
    """C01: no panic/abort/wedge, errors leave Idle, caret renders."""
    rep = session_replay(s)
    if row.kind in ("panic", "abort"):
        last = s.ops[-1][0]
        chk.fail("crash:" + row.f.get("msg", "")[:60], f"call {last[:1]} {str(last[1:])[:120]} -> {row.raw[:160]}", rep)
        return False
    if row.kind == "row" and row.outcome.startswith("err:"):
        if row.state != "Idle":
            chk.fail("error-not-idle", f"after {row.outcome} the state is {row.state}", rep)
        if row.f["caret"] == "PANIC":
            chk.fail("caret-panic", f"rendering the caret for {row.outcome} panicked", rep)
        car = row.f["caret"].split(";") if row.f["caret"] else []
        if len(car) not in (0, 2):
            chk.fail("caret-shape", f"caret rendering has {len(car)} lines", rep)
    return True


# ---------------------------------------------------------------------------
# C01 / C16 : histories

BOUNDARY_LINES = [
    "18446744073709551615 PRINT 1", "18446744073709551614 PRINT 2", "DIM A(4294967295,4294967295)",
    "DIM B(1,1,1,1,1,1,1,1,1,1,1,1,1,1,1,1,1,1,1,1)", "DIM C(9223372036854775807)", "DIM D(18446744073709551615)",
    "DIM E(1,9223372036854775807)", "DIM G(4095,4503599627370495)", "DIM H(1,1,4611686018427387903)", "DIM J(9999,1844674407370955)",
    "DIM K(3,18446744073709551615)", "N=2^62 : DIM L(3,N)",
    "X = A(4294967296)", "X = A(9223372036854775808)", "X = A(-1)", "A(1e300) = 1", "GOTO 18446744073709551615",
    "GOTO 1e300", "GOSUB 18446744073709551616", "PRINT 1e308*10", "PRINT -(1e308*10)", "PRINT 0/0", "PRINT RND(-1)",
    "PRINT RND(1e300)", "PRINT INT(-0.5)", "PRINT 2^0.5", "PRINT (-8)^(1/3)", "PRINT 1/3", "FOR I = 1 TO 1e300 STEP 1e299",
    "NEXT I", "RETURN", "CONT", "NEW", "LIST", "RUN", "TRACE", "NOTRACE", "STOP", "END", "READ X", "RESTORE", "INPUT X",
    "INPUT A$", "DEF F(X) = X", "PRINT F(1)", "IF 1 THEN", "IF", "THEN", "ELSE", "ELSE PRINT 1", "IF 1 THEN ELSE",
    "10", "20", "10 INPUT X : PRINT X", "20 GOTO 10", "30 DATA 1,2,x", "40 READ A,B,C", "50 GOSUB 50", "60 DEF F(X)=F(X)",
    "70 PRINT F(1)", "80 FOR I=1 TO 3:NEXT", "5 STOP", "15 DIM Q(10000)", "16 DIM R(9999)", "17 DIM S$(99,99)",
    "X$ = 1", "X = \"a\"", "PRINT \"", "PRINT 1.2.3", "PRINT é", "\x00", "lıst", "ſtop", "run 5", "RUN5", " list",
    "PRINT " + "(" * 70 + "1" + ")" * 70, "PRINT " + "(" * 5000, "IF 1 THEN " * 80 + "PRINT 1", "PRINT " + "-" * 50 + "1",
    "PRINT " + "NOT " * 3 + "1", "A(" * 80 + "1" + ")" * 80 + " = 1", "PRINT F(" * 40 + "1" + ")" * 40,
    "PRINT " + "9" * 400, "PRINT ." + "0" * 400 + "1", "REM", "DATA", "?", ":", "::::", "LET", "LET X", "DIM", "DIM X",
    # every write path against a variable that ALREADY holds a value of the other kind / the right kind
    "X$ = \"s\"", "A$ = \"hello\" : FOR A$ = 1 TO 3 : NEXT A$", "FOR X$ = 1 TO 2", "NEXT X$", "FOR A$ = 1 TO 2 : PRINT A$ : NEXT A$",
    "X = 1 : FOR X = \"a\" TO 2", "READ X$", "INPUT X$", "X$ = X$ + 1", "FOR I$ = 1 TO 2",
    "FOR", "FOR I", "FOR I=1", "FOR I=1 TO", "NEXT", "GOTO", "GOSUB", "DEF", "DEF F", "DEF F(", "DEF F(X", "DEF F(X)",
    "READ", "INPUT", "PRINT ,;,;", "PRINT 1,2;3", "X = ", "X(1", "X(1)", "X(1) =", "= 1", "1 = 1", "PRINT A$(1)", "A$(1) = 1",
    # errors located BEHIND multi-byte text: byte offsets and character counts differ where the caret is rendered
    "PRINT \"\u00e9\u00e9\";\"", "10 PRINT \"\u3053\u3093\u306b\u3061\u306f\";\"", "PRINT \"\u20ac\u20ac\u20ac\" : X = \"",
    "?\"\u65e5\u672c\u8a9e\":?\"", "PRINT \"\u00e9\u00e9\u00e9\u00e9\u00e9\" \u00e9", "PRINT \"\u00e9\u00e9\u00e9\" +", "PRINT \"\u65e5\u672c\" = 1",
    "X$ = \"\u00e9\" : GOTO", "PRINT \"\U0001f600\U0001f600\";\"", "20 A$ = \"\u00fc\u00fc\u00fc\u00fc\" : B$ = \"open", "PRINT \"\u00e9\" \u20ac",
    "DATA \u00e9\u00e9, \"x", "PRINT \"\u00e9\u00e9\u00e9\u00e9\" : PRINT 1.2.3", "IF \"\u00e9\u00e9\" THEN PRINT \"",
]
SEEDS = [0, 1, 2**33 - 1, 2**33, 2**33 + 1, 2**43, 2**44, 2**63, 2**64 - 1, 12345678901234567]


def gen_history(chk, h, r, oracle_each):
    """One adaptive, replayable history. oracle_each(s, row) is called after every call."""
    s = sess.Session(h)
    if r.chance(0.3):
        s.flags(r.chance(0.5), r.chance(0.5))
    if r.chance(0.5):
        pg = gen.ProgGen(r, fault=0.12, use_stop=True)
        for l in pg.generate(size=3 + r.below(6)):
            oracle_each(s, s.line(l))
    steps = 6 + r.below(30)
    for _ in range(steps):
        if s.dead:
            break
        st = s.state
        if st == "Idle":
            k = r.weighted([("boundary", 35), ("genline", 20), ("run", 15), ("cont", 8), ("malformed", 8), ("rand", 8),
                            ("list", 3), ("new", 3)])
            chk.count("idle:" + k)
            if k == "boundary":
                row = s.line(r.choice(BOUNDARY_LINES))
            elif k == "genline":
                pg = gen.ProgGen(r, fault=0.2, use_stop=True)
                row = s.line((str(r.choice([10, 20, 25, 30, 1000])) + " " if r.chance(0.4) else "") + pg.stmt_line())
            elif k == "run":
                row = s.line("RUN")
            elif k == "cont":
                row = s.line("CONT")
            elif k == "malformed":
                row = s.line(gen.gen_line(r, malformed=0.3))
            elif k == "rand":
                row = s.rand(r.choice(SEEDS + [r.next()]))
            elif k == "list":
                row = s.line("LIST")
            else:
                row = s.line("NEW")
        elif st == "Running":
            if r.chance(0.12):
                row = s.brk()
            else:
                row = s.cont()
        elif st == "AwaitingInput":
            if r.chance(0.15):
                row = s.brk()
            else:
                row = s.reply(gen.gen_reply(r) if r.chance(0.8) else gen.gen_line(r, malformed=0.3))
        elif st == "NewInterpreterRequested":
            row = s.replace()
        else:
            break
        oracle_each(s, row)
    return s


def run_c01(chk):
    h = core.Harness(chk.harness_path)
    sessions = []
    n = 150 if chk.tier == "quick" else 5000

    def each(s, row):
        if row.kind == "illegal":
            return
        basic_oracle(chk, s, row)
        if row.kind == "row":
            chk.count("outcome:" + (row.outcome.split("@")[0][:40] if row.outcome != "ok" else "ok"))

    for i in range(n):
        r = chk.rng.fork(("c01", i))
        if not h.alive():
            h.restart()
        s = gen_history(chk, h, r, each)
        sessions.append(s.ops)
        chk.case(tuple(str(o) for o, _ in s.ops), nontrivial=len(s.ops) > 5,
                 sample={"ops": [str(o)[:80] for o, _ in s.ops[:10]]})
    # runtime state that points into a line, then an edit of that very line (or another), then the statement that follows the
    # reference: nothing may panic, whatever the edit was (seeded change C01-mut8: a deletion kept breakpoint, frames, loops,
    # functions and the DATA cursor, and the next CONT / RETURN / NEXT / FN call / READ indexed the deleted line)
    HOLDERS = [(["10 STOP", "20 PRINT 1"], 10, ["CONT"]),
               (["10 GOSUB 30", "20 END", "30 STOP", "40 RETURN"], 10, ["RETURN", "CONT"]),
               (["10 GOSUB 30", "20 END", "30 STOP", "40 RETURN"], 30, ["CONT", "RETURN"]),
               (["10 FOR I = 1 TO 3", "20 STOP", "30 NEXT I"], 10, ["NEXT I", "CONT"]),
               (["10 DEF FNA(X) = X + 1", "20 STOP", "30 PRINT FNA(2)"], 10, ["PRINT FNA(1)", "GOTO 30"]),
               (["10 DATA 1, X, 3", "20 READ A", "30 STOP", "40 READ B"], 10, ["READ B", "GOTO 40"]),
               (["10 INPUT A", "20 PRINT A"], 10, ["CONT", "PRINT A"])]
    for prog, target, probes in HOLDERS:
        for edit in ("delete", "replace", "add", "other", "rejected"):
            for probe in probes:
                if not h.alive():
                    h.restart()
                s = sess.Session(h)
                for l in prog:
                    each(s, s.line(l))
                each(s, s.line("RUN"))
                for rw in s.run_until_idle(max_turns=20, break_at={19}):
                    each(s, rw)
                if s.state == "AwaitingInput":
                    each(s, s.brk())
                text = {"delete": str(target), "replace": f"{target} REM", "add": "5 REM", "other": "9000 REM", "rejected": f'{target} PRINT "'}[edit]
                each(s, s.line(text))
                each(s, s.line(probe))
                for rw in s.run_until_idle(max_turns=20):
                    each(s, rw)
                sessions.append(s.ops)
                chk.count("edit-then-probe")
                chk.case(("edit-probe", tuple(prog), edit, probe), sample={"program": prog, "edit": text, "probe": probe})
    # the boundary corpus, every line once (histories above pick from it at random)
    s = sess.Session(h)
    for text in BOUNDARY_LINES:
        if s.dead or not h.alive():
            if not h.alive():
                h.restart()
            s = sess.Session(h)
        if s.state != "Idle":
            for rw in s.run_until_idle(max_turns=30):
                each(s, rw)
            if s.state != "Idle":
                s = sess.Session(h)
        each(s, s.line(text))
        chk.count("boundary-line")
    sessions.append(s.ops)
    chk.case(("boundary-sweep",), sample={"boundary_lines": len(BOUNDARY_LINES)})
    # deep-nesting probes: every shape x depths around the cap and far beyond, in a fresh process each
    shapes = [lambda d: "PRINT " + "(" * d + "1" + ")" * d, lambda d: "IF 1 THEN " * d + "PRINT 1",
              lambda d: "X = " + "ABS(" * d + "1" + ")" * d, lambda d: "A(" * d + "1" + ")" * d + " = 1",
              lambda d: "PRINT " + "(" * d, lambda d: "10 PRINT " + "(" * d + "1" + ")" * d,
              # runs of unary operators: 15 x the depth (no parenthesis or IF in between, so no nesting guard on the way)
              lambda d: "PRINT " + "-" * (15 * d) + "1", lambda d: "X = " + "NOT " * (15 * d) + "1"]
    depths = [10, 61, 62, 63, 64, 65, 200, 5000] + ([100000] if chk.tier == "thorough" else [20000])
    for si, shape in enumerate(shapes):
        for d in depths:
            hp = core.Harness(chk.harness_path)
            s = sess.Session(hp)
            row = s.line(shape(d))
            each(s, row)
            if not s.dead and si == 5:
                each(s, s.line("RUN"))
                for rw in s.run_until_idle(max_turns=5):
                    each(s, rw)
            chk.count("deep-probe")
            chk.case(("deep", si, d), sample={"deep": f"shape {si} depth {d}", "resp": row.raw[:80]})
            hp.close()
    h.close()
    if chk.tier == "thorough":
        chk.notes.append(release_probe(chk))
    session_correspondence(chk, "C01-histories", sessions, ["outcome", "state", "outputs", "caret", "msg", "snap"])


def release_probe(chk):
    """Thorough tier: the boundary corpus against a release build (wrapping arithmetic)."""
    path = core.build_harness(release=True)
    h = core.Harness(path)
    bad = 0
    for text in BOUNDARY_LINES:
        s = sess.Session(h)
        row = s.line(text)
        rows = [row] + s.run_until_idle(max_turns=50)
        for rw in rows:
            if rw.kind in ("panic", "abort"):
                bad += 1
                chk.fail("crash-release:" + rw.f.get("msg", "")[:50], f"release build: {text[:80]!r} -> {rw.raw[:120]}", session_replay(s))
        if not h.alive():
            h.restart()
    for seed in SEEDS:
        s = sess.Session(h)
        s.rand(seed)
        s.line("PRINT RND(1)")
    h.close()
    return f"release-build probe: {len(BOUNDARY_LINES)} boundary lines, {bad} crashes"


def run_c16(chk):
    h = core.Harness(chk.harness_path)
    sessions = []
    n = 120 if chk.tier == "quick" else 4000

    def each(s, row):
        if row.kind == "row":
            caps_oracle(chk, s, row)
            if "OutOfMemory" in row.outcome:
                chk.count("cap-error:" + row.outcome.split("@")[0][4:])
                if row.state != "Idle":
                    chk.fail("cap-error-not-idle", f"{row.outcome} left state {row.state}", session_replay(s))
        elif row.kind in ("panic", "abort"):
            chk.fail("crash:" + row.f.get("msg", "")[:60], row.raw[:200], session_replay(s))

    cap_programs = [
        ["10 GOSUB 10"], ["10 DEF F(X)=F(X+1)", "20 PRINT F(1)"],
        [f"{10 * (i + 1)} FOR V{i} = 1 TO 2" for i in range(34)] + ["900 PRINT 1"],
        ["10 FOR I = 1 TO 3", "20 GOTO 10"], ["10 FOR I=1 TO 2", "20 FOR J=1 TO 2", "30 FOR K=1 TO 2", "40 NEXT I", "50 GOTO 10"],
        ["10 DIM A(9999)", "20 DIM B(10000)", "30 DIM C(99,99)", "40 DIM D(99,100)"],
        ["10 DIM A(21,21,21)", "20 A(21,21,21)=5", "30 PRINT A(21,21,21)", "40 PRINT A(22,0,0)"],
        # products that reach 2^64 only at the LAST multiplication (small leading dimensions)
        ["10 DIM A(1,9223372036854775807)"], ["10 DIM B(4095,4503599627370495)", "20 PRINT B(0,1)"],
        ["10 N=2^62", "20 DIM C(3,N)", "30 PRINT C(0,1)"], ["10 DIM D(1,1,4611686018427387903)"],
        ["10 DIM E(9999,1844674407370955)"], ["10 DIM F(3,18446744073709551615)"],
        ["10 X(1,2,3,4) = 1"], ["10 X(1,2,3) = 1 : PRINT X(10,10,10)"], ["10 A$ = 5"], ["10 A = \"x\""], ["10 A$(1) = 5"],
        ["10 DEF F(X$) = 1", "20 PRINT F(1)"], ["10 DEF F(X) = 1", "20 PRINT F(\"a\")"], ["10 READ A", "20 DATA x"],
        ["10 READ A$", "20 DATA 5"], ["10 INPUT A"], ["10 FOR A$ = 1 TO 2"], ["10 GOSUB 20", "20 GOSUB 10"],
        # a `$` variable that already holds a string, used as a loop counter (assigned by LET, INPUT, READ)
        ["10 A$ = \"hello\"", "20 FOR A$ = 1 TO 3", "30 PRINT A$", "40 NEXT A$", "50 PRINT A$"],
        ["10 INPUT N$", "20 FOR N$ = 1 TO 2", "30 NEXT N$", "40 PRINT N$"],
        ["10 READ B$", "20 DATA x", "30 FOR B$ = 1 TO 2 : NEXT B$"],
        ["10 FOR I = 1 TO 2", "20 I$ = \"a\"", "30 NEXT I$"],
        ["10 FOR I=1 TO 40", "20 GOSUB 100", "30 NEXT I", "40 END", "100 RETURN"],
    ]
    idx = 0
    for prog in cap_programs:
        s = sess.Session(h)
        for l in prog:
            each(s, s.line(l))
        # three runs in a row: what an error leaves behind must not add up across runs (seeded changes C16-mut7 / C10-mut7:
        # the evaluation-depth counter was not released on the error path)
        for rep in range(3):
            if s.dead or s.state != "Idle":
                break
            each(s, s.line("RUN"))
            for rw in s.run_until_idle(replies=["abc", "5"], max_turns=400):
                each(s, rw)
            if s.state in ("Running", "AwaitingInput") and not s.dead:
                each(s, s.brk())
        if s.state == "Idle" and not s.dead:
            each(s, s.line("PRINT 1"))      # still usable
            if s.ops[-1][1].outcome != "ok":
                chk.fail("unusable-after-cap", f"after three runs of {prog} the interpreter answers {s.ops[-1][1].outcome}", session_replay(s))
            each(s, s.line("PRINT ((((((((((((((((((((1 + 1))))))))))))))))))))"))      # ... at depth too
            if s.ops[-1][1].outcome != "ok":
                chk.fail("unusable-after-cap", f"after three runs of {prog} a 20-deep expression answers {s.ops[-1][1].outcome}", session_replay(s))
        sessions.append(s.ops)
        chk.case(tuple(prog), sample={"program": prog[:6]})
        idx += 1
    # frames pushed by user-function calls live only inside one call, so no snapshot shows them: the 32-frame cap is decided by
    # the outcome.  d open subroutines and a chain of k functions need d + k frames: more than 32 must be OUT OF MEMORY
    # (missed seeded change C16-mut9: function calls no longer tested the cap, only the nesting guard at 64)
    for d, k in ((28, 4), (29, 4), (30, 4), (0, 32), (0, 33), (0, 40), (31, 1), (32, 1), (32, 0), (33, 0), (20, 12), (20, 13), (10, 25)):
        names = ["F%s" % (chr(65 + j // 26) + chr(65 + j % 26)) for j in range(k)]
        prog = [f"{1 + j} DEF {names[j]}(X) = " + (f"{names[j + 1]}(X) + 1" if j + 1 < k else "X") for j in range(k)]
        prog += [f"{100 + 10 * j} GOSUB {100 + 10 * (j + 1)}" for j in range(d)]
        prog += [f"{100 + 10 * d} PRINT " + (f"{names[0]}(0)" if k else "0"), f"{100 + 10 * d + 5} END"]
        s = sess.Session(h)
        for l in prog:
            each(s, s.line(l))
        each(s, s.line("RUN"))
        rows = s.run_until_idle(replies=[], max_turns=200)
        for rw in rows:
            each(s, rw)
        oom = any("OutOfMemory" in rw.outcome for _, rw in s.ops if rw.kind == "row")
        printed = [o for _, rw in s.ops if rw.kind == "row" for o in rw.outputs() if o.startswith("P")]
        chk.count("frame-budget")
        chk.case(("frames", d, k), sample={"subroutines": d, "function_chain": k})
        if oom != (d + k > 32) or (not oom and not printed):
            chk.fail("frames-over-cap" if not oom else "cap-too-low", f"{d} open subroutines + a chain of {k} functions ({d + k} frames): "
                     f"{'OUT OF MEMORY' if oom else 'ran to completion, printed ' + str(printed)}", session_replay(s))
        sessions.append(s.ops)
    for i in range(n):
        r = chk.rng.fork(("c16", i))
        if not h.alive():
            h.restart()
        s = gen_history(chk, h, r, each)
        sessions.append(s.ops)
        chk.case(tuple(str(o) for o, _ in s.ops), nontrivial=len(s.ops) > 5, sample={"ops": [str(o)[:80] for o, _ in s.ops[:8]]})
    h.close()
    session_correspondence(chk, "C16-snapshots", sessions, ["outcome", "state", "snap"])


# ---------------------------------------------------------------------------
# C10

def run_c10(chk):
    h = core.Harness(chk.harness_path)
    n = 100 if chk.tier == "quick" else 3000
    sessions = []
    for i in range(n):
        r = chk.rng.fork(("c10", i))
        pg = gen.ProgGen(r, fault=0.04, use_stop=True)
        prog = pg.generate(size=4 + r.below(6))
        replies = [gen.gen_reply(r) for _ in range(12)]
        flags = (r.chance(0.3), r.chance(0.3))
        # session A: history, then RUN
        a = sess.Session(h)
        a.flags(*flags)
        enter_program(a, prog)
        hist = []
        for _ in range(r.below(8) + 1):
            if a.dead:
                break
            if a.state == "Idle":
                k = r.weighted([("run", 25), ("imm", 40), ("cont", 10), ("rand", 8), ("goto", 10), ("deepfail", 7)])
                hist.append(k)
                chk.count("hist:" + k)
                if k == "run":
                    a.line("RUN")
                elif k == "imm":
                    a.line(r.choice(["X = 5", "A$ = \"Q\"", "DIM N(30)", "N(3) = 7", "FOR I = 1 TO 5", "GOSUB 1000", "READ A",
                                     "READ A,B", "I = 99", "DIM M(2,2)", "PRINT 1/0", "INPUT X", "DEF F(X)=X", "K = RND(1)"]))
                elif k == "cont":
                    a.line("CONT")
                elif k == "deepfail":
                    # expressions that fail deep inside: nothing of the evaluation may outlive the error (C10-mut7)
                    for _ in range(3):
                        if a.state == "Idle" and not a.dead:
                            a.line("PRINT " + "(" * 30 + r.choice(["1/0", "1 + \"a\"", "N(99)", "F9("]) + ")" * 30)
                elif k == "rand":
                    a.rand(r.choice(SEEDS))
                else:
                    a.line("GOTO " + str(r.choice([10, 20, 30, 1000, 9999])))
            # run a random number of turns, maybe break (also right after a reply)
            turns = r.below(12)
            for _ in range(turns):
                if a.dead or a.state == "Idle":
                    break
                if a.state == "Running":
                    if r.chance(0.15):
                        a.brk()
                        hist.append("break")
                    else:
                        a.cont()
                elif a.state == "AwaitingInput":
                    if r.chance(0.2):
                        a.brk()
                        hist.append("break-await")
                    else:
                        a.reply(r.choice(replies))
                        if r.chance(0.3) and a.state == "Running":
                            a.brk()
                            hist.append("break-after-reply")
                            chk.count("hist:break-after-reply")
                elif a.state == "NewInterpreterRequested":
                    break
        if a.dead or a.state == "NewInterpreterRequested":
            sessions.append(a.ops)
            continue
        # bring A to Idle
        guard = 0
        while a.state != "Idle" and not a.dead and guard < 300:
            guard += 1
            if a.state == "Running":
                a.brk()
            elif a.state == "AwaitingInput":
                a.brk()
        if a.dead or a.state != "Idle":
            sessions.append(a.ops)
            continue
        snap = a.ops[-1][1].snap() if a.ops[-1][1].kind == "row" else {}
        rng_state = int(snap.get("rng", "0") or 0)
        cut = len(a.ops)
        a.line("RUN")
        a.run_until_idle(replies=list(replies), max_turns=150)
        rows_a = [row for _, row in a.ops[cut:]]
        # session B: fresh interpreter, same program, same generator state, same flags
        b = sess.Session(h)
        b.flags(*flags)
        enter_program(b, prog)
        b.rand(rng_state)
        cutb = len(b.ops)
        b.line("RUN")
        b.run_until_idle(replies=list(replies), max_turns=150)
        rows_b = [row for _, row in b.ops[cutb:]]
        ka = [(x.outcome, x.state, x.f.get("outputs"), x.f.get("snap")) for x in rows_a]
        kb = [(x.outcome, x.state, x.f.get("outputs"), x.f.get("snap")) for x in rows_b]
        if ka != kb:
            j = next((j for j in range(min(len(ka), len(kb))) if ka[j] != kb[j]), min(len(ka), len(kb)))
            chk.fail("run-not-clean", f"after history {hist} RUN differs from a fresh interpreter at turn {j}: "
                     f"{(ka[j] if j < len(ka) else None)!r:.300} vs {(kb[j] if j < len(kb) else None)!r:.300}",
                     {"history_session": session_replay(a), "fresh_session": session_replay(b),
                      "harness_commands": a.commands()})
        sessions.append(a.ops)
        chk.case((tuple(prog), tuple(hist)), nontrivial=len(hist) > 0, sample={"program": prog[:5], "history": hist})
    h.close()
    session_correspondence(chk, "C10-histories", sessions, ["outcome", "state", "outputs", "snap"])


# ---------------------------------------------------------------------------
# C11

def run_c11(chk):
    h = core.Harness(chk.harness_path)
    n = 120 if chk.tier == "quick" else 3000
    sessions = []
    for i in range(n):
        r = chk.rng.fork(("c11", i))
        base = ["10 DATA 11,22,33", "20 DEF F(X) = X*2", "30 FOR I = 1 TO 3", "40 GOSUB 100", "50 NEXT I", "60 READ A,B",
                "70 INPUT Q", "80 PRINT F(A);Q : STOP", "90 PRINT \"END\" : END", "100 READ Z : PRINT Z", "110 STOP",
                "120 RETURN"]
        if r.chance(0.5):
            pg = gen.ProgGen(r, fault=0.02, use_stop=True)
            base = pg.generate(size=5 + r.below(5)) + ["5 DATA 11,22", "6 DEF F(X)=X*2"]
        s = sess.Session(h)
        enter_program(s, base)
        s.line("RUN")
        # run to a random suspension point
        turns = r.below(25)
        for _ in range(turns):
            if s.dead or s.state == "Idle":
                break
            if s.state == "Running":
                s.cont()
            elif s.state == "AwaitingInput":
                if r.chance(0.3):
                    break
                s.reply("7")
        where = s.state
        if s.state in ("Running", "AwaitingInput") and not s.dead:
            s.brk()
        if s.dead or s.state != "Idle":
            sessions.append(s.ops)
            continue
        before = s.ops[-1][1].snap() if s.ops[-1][1].kind == "row" else {}
        kind = r.weighted([("add", 30), ("replace", 25), ("delete", 20), ("failed", 25)])
        chk.count(f"suspend:{where}/edit:{kind}")
        if kind == "add":
            row = s.line("15 REM added")
        elif kind == "replace":
            row = s.line("10 DATA 77,88,99")
        elif kind == "delete":
            row = s.line(r.choice(["10", "100", "40", "30", "20"]))
        else:
            row = s.line(r.choice(['15 PRINT "oops', "15 PRINT 1.2.3", "10 X% = 1"]))
        after = row.snap() if row.kind == "row" else {}
        rep = session_replay(s)
        if row.kind != "row":
            chk.fail("crash:" + row.f.get("msg", "")[:50], row.raw[:200], rep)
            sessions.append(s.ops)
            continue
        if kind == "failed":
            if not row.outcome.startswith("err:Syntax(Tokenization"):
                chk.fail("bad-edit-accepted", f"untokenizable edit answered {row.outcome}", rep)
            # the GOSUB stack is only resumable while a breakpoint is pending (every line entry
            # clears it otherwise, rejected or not), so it is compared only then
            keys = ["lines", "bp", "loops", "data", "fns", "vars", "arrays"] + (["stack"] if before.get("bp") != "none" else [])
            for k in keys:
                if before.get(k) != after.get(k):
                    chk.fail("rejected-edit-invalidates", f"a rejected edit changed {k}: {before.get(k)!r:.120} -> {after.get(k)!r:.120}", rep)
        else:
            for k, want in (("bp", "none"), ("stack", ""), ("loops", ""), ("fns", ""), ("data", "none"), ("loc", "imm.0")):
                if after.get(k) != want:
                    chk.fail("edit-keeps-reference", f"after the edit {k} = {after.get(k)!r:.120}", rep)
            for k in ("vars", "arrays"):
                if before.get(k) != after.get(k):
                    chk.fail("edit-loses-values", f"the edit changed {k}", rep)
            # probes
            probe = r.choice(["CONT", "RETURN", "NEXT I", "PRINT F(2)", "READ P : PRINT P", "GOTO 120", "GOTO 10"])
            chk.count("probe:" + probe.split()[0])
            row = s.line(probe)
            rows = [row] + s.run_until_idle(replies=["7"] * 5, max_turns=40)
            for rw in rows:
                if rw.kind in ("panic", "abort"):
                    chk.fail("crash:" + rw.f.get("msg", "")[:50], f"probe {probe} after edit: {rw.raw[:160]}", session_replay(s))
            want = {"CONT": "err:CannotContinue", "RETURN": "err:ReturnWithoutGosub", "NEXT I": "err:NextWithoutFor"}.get(probe)
            if want and not row.outcome.startswith(want):
                chk.fail("stale-reference-resumed", f"{probe} after an edit answered {row.outcome}", session_replay(s))
            if probe.startswith("READ") and row.kind == "row":
                listing = [unesc_p(o) for o in s.line("LIST").outputs()] if s.state == "Idle" else []
                first = None
                for l in listing:
                    m = re.match(r"\d+ (?:.*? : )?DATA ([^,:\n]*)", l)
                    if " DATA " in l or l.split(" ", 1)[1].startswith("DATA"):
                        first = l.split("DATA ", 1)[1].split(",")[0].split(" :")[0].strip()
                        break
                got = [unesc_p(o) for o in row.outputs() if o.startswith("P")]
                if first is not None and first and not first.startswith('"') and got and got[0].strip() != first:
                    chk.fail("read-not-restarted", f"READ after an edit gave {got} but the first DATA item is {first!r}", session_replay(s))
        sessions.append(s.ops)
        chk.case((tuple(base[:3]), turns, kind), sample={"suspended": where, "edit": kind})
    h.close()
    session_correspondence(chk, "C11-edits", sessions, ["outcome", "state", "outputs", "snap"])


# ---------------------------------------------------------------------------
# C18

def f64_of_text(t):
    t = t.strip()
    if t == "NaN":
        return float("nan")
    return float(t)


def run_c18(chk):
    h = core.Harness(chk.harness_path)
    n = 250 if chk.tier == "quick" else 8000
    sessions = []
    M, A, C = 2 ** 33, 1664525, 1013904223
    for i in range(n):
        r = chk.rng.fork(("c18", i))
        seed = r.choice(SEEDS) if r.chance(0.4) else (r.next() if r.chance(0.6) else r.below(2 ** 33))
        s = sess.Session(h)
        s.rand(seed)
        state = seed % M
        seq = []
        for _ in range(r.below(10) + 2):
            arg = r.weighted([("1", 44), ("0", 18), ("-1", 9), ("0.5", 5), ("1000000", 3), ("-0", 4), ("-.001", 4),
                              # the sign dispatch is exact: positive however small, negative however small
                              (".0000000000000000001", 4), ("(.1+.2-.3)/2", 3), ("1/1000000/1000000/1000000", 3), (".00000000000000022", 2),
                              ("-.0000000000000000001", 2), ("-1/1000000/1000000/1000000", 1)])
            seq.append(arg)
            row = s.line(f"PRINT RND({arg})")
            rep = session_replay(s)
            if row.kind != "row":
                chk.fail("crash:" + row.f.get("msg", "")[:50], f"seed {seed} RND({arg}): {row.raw[:120]}", rep)
                break
            snap_rng = int(row.snap().get("rng", "-1"))
            neg = arg in ("-1", "-.001", "-.0000000000000000001", "-1/1000000/1000000/1000000")
            zero = arg in ("0", "-0")
            if neg:
                if not row.outcome.startswith("err:Unimplemented"):
                    chk.fail("rnd-negative", f"RND({arg}) answered {row.outcome}", rep)
            else:
                if not zero:
                    state = (A * state + C) % M
                want = state / M
                outs = [unesc_p(o) for o in row.outputs() if o.startswith("P")]
                got = f64_of_text(outs[0]) if outs else None
                if got is None or got != want:
                    chk.fail("rnd-sequence", f"seed {seed}, args {seq}: printed {outs} but the documented LCG gives {want!r}", rep)
                elif not (0.0 <= got < 1.0):
                    chk.fail("rnd-range", f"seed {seed}: RND returned {got}", rep)
            if snap_rng != state:
                chk.fail("rnd-state", f"seed {seed}, args {seq}: generator state {snap_rng}, expected {state}", rep)
        sessions.append(s.ops)
        chk.case((seed, tuple(seq)), nontrivial=True, sample={"seed": seed, "args": seq})
        chk.count("seed>=2^33" if seed >= M else "seed<2^33")
    # the sequence belongs to the seed, not to the statement that draws: draws made from the prompt, from a stored program
    # under RUN, after a STOP and CONT, after a second RUN, after an edit and after a failed statement continue ONE sequence
    # (missed seeded change C18-mut8: RUN rebuilt the interpreter and with it the generator)
    PROGRAM = ["10 PRINT RND(1)", "20 PRINT RND(0)", "30 X = RND(1) : PRINT X", "40 STOP", "50 PRINT RND(1)", "60 IF RND(0) < 2 THEN PRINT RND(1)"]
    m = 60 if chk.tier == "quick" else 1500
    for i in range(m):
        r = chk.rng.fork(("c18p", i))
        seed = r.choice(SEEDS) if r.chance(0.3) else (r.next() if r.chance(0.6) else r.below(2 ** 33))
        s = sess.Session(h)
        s.rand(seed)
        state = seed % M
        steps = []
        stopped = False
        stored = False

        def expect(kinds, rows, what):
            nonlocal state
            got = [f64_of_text(unesc_p(o)) for row in rows if row.kind == "row" for o in row.outputs() if o.startswith("P")]
            want = []
            for k in kinds:
                if k in ("adv", "adv-silent"):
                    state = (A * state + C) % M
                if k != "adv-silent":
                    want.append(state / M)
            rep = session_replay(s)
            if any(row.kind != "row" for row in rows):
                chk.fail("crash:" + rows[-1].f.get("msg", "")[:50], f"seed {seed}, steps {steps}: {rows[-1].raw[:120]}", rep)
                return False
            if got != want:
                chk.fail("rnd-sequence", f"seed {seed}, steps {steps}: {what} printed {got} but the one sequence of the seed gives {want}", rep)
                return False
            last = rows[-1].snap().get("rng") if rows else None
            if last is not None and int(last) != state:
                chk.fail("rnd-state", f"seed {seed}, steps {steps}: generator state {last}, expected {state}", rep)
                return False
            return True

        for _ in range(r.below(7) + 4):
            step = r.weighted([("imm1", 20), ("imm0", 10), ("store", 14 if not stored else 2), ("run", 30 if stored else 0),
                               ("cont", 30 if stopped else 0), ("edit", 8 if stored else 0), ("fail", 6), ("let", 5)])
            steps.append(step)
            if step == "imm1":
                ok = expect(["adv"], [s.line("PRINT RND(1)")], "PRINT RND(1) at the prompt")
            elif step == "imm0":
                ok = expect(["rep"], [s.line("PRINT RND(0)")], "PRINT RND(0) at the prompt")
            elif step == "store":
                rows = [s.line(l) for l in PROGRAM]
                stored, stopped = True, False
                ok = expect([], rows, "entering the program")
            elif step == "run":
                rows = [s.line("RUN")] + s.run_until_idle()
                stopped = True
                ok = expect(["adv", "rep", "adv"], rows, "RUN up to the STOP")
            elif step == "cont":
                rows = [s.line("CONT")] + s.run_until_idle()
                stopped = False
                ok = expect(["adv", "adv"], rows, "CONT after the STOP")
            elif step == "edit":
                rows = [s.line("70 REM " + str(r.below(100)))]
                stopped = False
                ok = expect([], rows, "an edit")
            elif step == "fail":
                rows = [s.line(r.choice(["PRINT 1/0", "PRINT RND(-1)", "GOTO 12345", "PRINT RND(\"A\")"]))] + s.run_until_idle()
                stopped = False      # whether a failed statement leaves the breakpoint is C07's business, not this oracle's
                ok = expect([], rows, "a failing statement")
            else:
                rows = [s.line("X = RND(1)")] + s.run_until_idle()
                ok = expect(["adv-silent"], rows, "an assignment drawing once")
            if not ok or s.dead:
                break
        sessions.append(s.ops)
        chk.case((seed, tuple(steps)), nontrivial=True, sample={"seed": seed, "steps": steps})
        chk.count("program-session")
    h.close()
    session_correspondence(chk, "C18-rnd", sessions, ["outcome", "state", "outputs", "snap"])
