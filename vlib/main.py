"""Command-line entry: setup / check / replay, verdict protocol, evidence."""
import hashlib
import json
import os
import sys
import time
import traceback

from . import core
from .core import log


class Check:
    """Accumulates what one check run did and found."""

    def __init__(self, prop, tier, seed):
        self.prop = prop
        self.tier = tier
        self.seed = seed
        self.rng = core.Rng(seed)
        self.t0 = time.time()
        self.obligations = []       # (name, ok, detail)
        self.failures = []          # oracle failures: dict(cls, what, replay)
        self.broken = []            # broken proof obligations / correspondences: dict(name, detail, replay)
        self.evaluations = 0
        self.distinct = set()
        self.samples = []
        self.dist = {}
        self.programs = 0
        self.disagreements_checked = 0
        self.theorems = {}
        self.notes = []
        self.table_hash = None
        self.harness_path = None
        self.axioms_allowed = []

    # -- bookkeeping
    def oblige(self, name, ok, detail=""):
        self.obligations.append((name, bool(ok), detail))
        if not ok:
            log(f"  obligation FAILED: {name}: {detail[:500]}")

    def count(self, key, n=1):
        self.dist[key] = self.dist.get(key, 0) + n

    def case(self, canon, nontrivial=True, sample=None):
        """Record one explored case. canon: hashable canonical form."""
        self.evaluations += 1
        if nontrivial:
            self.distinct.add(hashlib.sha1(repr(canon).encode()).digest()[:8])
        if sample is not None and len(self.samples) < 6:
            self.samples.append(sample)

    def fail(self, cls, what, replay):
        """An implementation-side oracle failure (a concrete failing input)."""
        self.failures.append({"cls": cls, "what": what, "replay": replay})

    def broke(self, name, detail, replay=None):
        """A proof obligation or correspondence that no longer checks."""
        self.broken.append({"name": name, "detail": detail, "replay": replay})


def load_known():
    p = os.path.join(core.ROOT, "known_findings.json")
    if not os.path.exists(p):
        return []
    with open(p) as f:
        return json.load(f)


def write_replay(prop, kind, payload):
    d = os.path.join(core.ROOT, "replays")
    os.makedirs(d, exist_ok=True)
    blob = json.dumps(payload, sort_keys=True, indent=1, default=str)
    h = hashlib.sha1(blob.encode()).hexdigest()[:10]
    p = os.path.join(d, f"{prop}-{kind}-{h}.json")
    with open(p, "w") as f:
        f.write(blob + "\n")
    return p


# which properties import the file each extra pass of the translator generates (coq/Properties/Cxx.v): a failure of such a
# pass leaves only THEIR theorems unchecked against the current source; the tables pass is charged by anchor file
PASS_CONSUMERS = {"random": {"C18"}, "arrays": {"C16"}, "program_lines": {"C04"}, "program_events": {"C16", "C03"}}


def translator_failure_is_foreign(prop, out):
    """True when no failing pass of the translator concerns this property: an extra pass whose generated file the property's
    theorems do not import, or the tables pass failing in a source file that is not among the property's anchor files
    (properties.jsonl) - and previously translated files exist."""
    import re
    lines = [l for l in out.split("\n") if l.startswith("TRANSLATOR-ERROR:")]
    parsed = [re.search(r"TRANSLATOR-ERROR: (?:\[(\w+)\] )?((?:abasic-[\w-]+)/[\w/.-]+\.(?:rs|ts))", l) for l in lines]
    if not lines or not all(parsed) or not all(os.path.exists(os.path.join(core.COQ, "Gen", g))
                                               for g in ("Tables.v", "RandomRs.v", "ArraysRs.v", "ProgramLinesRs.v", "ProgramEvents.v")):
        return False
    anchors = []
    try:
        with open(os.path.join(core.ROOT, "properties.jsonl")) as f:
            for line in f:
                d = json.loads(line)
                if d.get("id") == prop:
                    anchors = d.get("anchors", {}).get("files", [])
    except (OSError, ValueError):
        return False
    for m in parsed:
        pas, failing = m.group(1), m.group(2)
        if pas in PASS_CONSUMERS:
            if prop in PASS_CONSUMERS[pas]:
                return False
        elif failing in anchors:
            return False
    return True


def prove(chk, allowed_axioms=()):
    """Phase 1: tables, make Properties/<prop>.vo, audits."""
    ok, out = core.gen_tables()
    chk.table_hash = out
    if not ok and translator_failure_is_foreign(chk.prop, out):
        # the translator fails closed on a code shape it does not recognise, in a file this property is not anchored in:
        # the tables of that file stay as last translated (coq/Gen/Tables.v is only rewritten on success), the theorems
        # of this property are re-checked against them, and the model stays tied to the code by this property's own
        # correspondence and oracle below.  Properties anchored in the file report the broken translation.
        chk.oblige("translator: regenerate coq/Gen/Tables.v from /repo (failed in a file that is no anchor of this property: "
                   "its tables are kept from the last successful translation)", True, out)
        chk.notes.append("translator failed outside this property's anchor files: " + out[:300])
        ok = True
    else:
        chk.oblige("translator: regenerate coq/Gen/Tables.v from /repo", ok, out)
    if not ok:
        chk.broke("translator tools/gen_tables.py", out)
        return False
    target = f"Properties/{chk.prop}.vo"
    ok, out = core.coq_make([target])
    chk.oblige(f"coq: make {target} (full .vo build of the property's dependency cone)", ok, out[-1500:])
    if not ok:
        chk.broke(f"theorems of Properties/{chk.prop}.v (make failed)", out[-3000:])
        return False
    problems = core.audit_sources()
    chk.oblige("audit: no Admitted/admit/Axiom/Parameter/Conjecture/top-level Variable or Hypothesis/guard switches", not problems,
               "; ".join(problems[:10]))
    if problems:
        chk.broke("source audit", "; ".join(problems[:20]))
    ok, theorems, out = core.check_property_file(chk.prop, allowed_axioms)
    chk.theorems = theorems
    for name, text in theorems.items():
        chk.oblige(f"theorem {name} + Print Assumptions within allowlist", "NOT ALLOWED" not in text, text[:300])
    if not ok:
        chk.oblige("Print Assumptions audit", False, out[-1000:])
        chk.broke(f"assumption audit of Properties/{chk.prop}.v", out[-2000:])
    if chk.tier == "thorough":
        vo = os.path.join(core.COQ, "Properties", f"{chk.prop}.vo")
        rc, out = core.sh(["timeout", "3000", "coqchk", "-silent", "-o", "-Q", core.COQ, "Abasic", f"Abasic.Properties.{chk.prop}"],
                          cwd=core.COQ)
        chk.oblige("coqchk -o (independent re-check of the compiled cone)", rc == 0, out[-800:])
        if rc != 0:
            chk.broke("coqchk", out[-2000:])
        else:
            chk.notes.append("coqchk: " + " ".join(out.split())[-600:])
    return True


def finish(chk, props_meta):
    """Verdict + evidence. Returns exit code."""
    known = [k for k in load_known() if k["property"] == chk.prop]
    open_classes = {k["class"]: k for k in known if k.get("status") == "open"}
    violations = 0
    printed_known = set()
    for f in chk.failures:
        if f["cls"] in open_classes:
            if f["cls"] not in printed_known:
                printed_known.add(f["cls"])
                print(f"KNOWN-FINDING: property={chk.prop} {open_classes[f['cls']]['what']} [{f['what'][:160]}]")
            continue
        path = write_replay(chk.prop, "input", {"property": chk.prop, "kind": "failing-input", "class": f["cls"],
                                                "what": f["what"], "replay": f["replay"], "seed": chk.seed, "tier": chk.tier})
        print(f"VIOLATION property={chk.prop} replay={path}")
        violations += 1
        if violations >= 5:
            break
    new_failures = violations
    if chk.broken and new_failures == 0:
        # a proof or correspondence no longer checks, and the oracle found no (new) failing input
        for b in chk.broken[:3]:
            path = write_replay(chk.prop, "broken", {"property": chk.prop, "kind": "broken-obligation",
                                                     "no_longer_checks": b["name"], "detail": b["detail"],
                                                     "disagreeing_case": b["replay"], "seed": chk.seed, "tier": chk.tier})
            print(f"VIOLATION property={chk.prop} replay={path} no-failing-input-found")
            violations += 1
    elif chk.broken:
        for b in chk.broken[:3]:
            log(f"  also broken: {b['name']}")
    n_obl = len(chk.obligations)
    n_ok = sum(1 for _, ok, _ in chk.obligations if ok)
    coverage = {
        "obligations": n_obl,
        "discharged": n_ok,
        "checker_cmd": f"cd /verif/coq && make Properties/{chk.prop}.vo && coqc -Q . Abasic Properties/{chk.prop}.v  (Coq 8.16.1; run by: python3 verif.py check {chk.prop} --tier {chk.tier})",
        "trusted_base": props_meta.get("trusted_base", []),
        "obligation_list": [{"name": n, "ok": ok, "detail": d[:300]} for n, ok, d in chk.obligations],
        "theorems": chk.theorems,
        "evaluations": chk.evaluations,
        "distinct_nontrivial": len(chk.distinct),
        "rule": props_meta.get("rule", ""),
        "samples": chk.samples or ["(no generated cases in this run)"],
        "programs": chk.programs,
        "disagreements_checked": chk.disagreements_checked,
        "input_distribution": chk.dist,
        "tables": chk.table_hash,
        "repo_tree": core.repo_tree_hash(),
        "oracle_failures": len(chk.failures),
        "known_findings_seen": sorted(printed_known),
        "broken": [b["name"] for b in chk.broken],
        "notes": chk.notes,
    }
    core.write_evidence(chk.prop, chk.tier, chk.seed, coverage, time.time() - chk.t0, violations,
                        props_meta.get("assumptions", []))
    log(f"{chk.prop} [{chk.tier}] obligations {n_ok}/{n_obl}, cases {chk.evaluations} ({len(chk.distinct)} distinct non-trivial), "
        f"oracle failures {len(chk.failures)}, violations {violations}, {time.time() - chk.t0:.1f}s")
    return 1 if violations else 0


def cmd_setup():
    t0 = time.time()
    ok, out = core.gen_tables()
    log(out)
    if not ok:
        return 1
    core.coq_makefile()
    ok, out = core.coq_make([], timeout=3400)
    log(out[-1500:])
    if not ok:
        log("setup: Coq build failed (checks will report the affected properties)")
    try:
        core.build_harness()
        core.build_repo_bins()
    except core.BuildError as e:
        log(str(e))
        return 1
    log(f"setup done in {time.time() - t0:.0f}s")
    return 0


def cmd_check(prop, tier):
    from . import props
    seed = int(os.environ.get("VERIF_SEED", "1"))
    chk = Check(prop, tier, seed)
    meta = props.META.get(prop)
    if meta is None:
        log(f"unknown property {prop}")
        return 2
    try:
        if os.environ.get("VERIF_DEV_SKIP_PROOF") == "1":
            chk.notes.append("DEV: proof phase skipped")
        else:
            prove(chk, meta.get("allowed_axioms", ()))
        chk.harness_path = core.build_harness()
        meta["run"](chk)
    except core.BuildError as e:
        chk.oblige("build /repo with hooks", False, str(e)[-1500:])
        chk.broke("build of /repo's working tree with hooks on", str(e)[-3000:])
    except Exception:
        tb = traceback.format_exc()
        log(tb)
        chk.oblige("check machinery ran to completion", False, tb[-1500:])
        chk.broke("check machinery (internal error)", tb[-3000:])
    return finish(chk, meta)


def cmd_replay(path):
    with open(path) as f:
        r = json.load(f)
    print(json.dumps({k: r[k] for k in r if k not in ("replay", "disagreeing_case")}, indent=1)[:3000])
    rep = r.get("replay") or r.get("disagreeing_case") or {}
    cmds = rep.get("harness_commands") if isinstance(rep, dict) else None
    if cmds:
        hp = core.build_harness()
        rc, out = core.sh([hp], input="\n".join(cmds) + "\n")
        print("--- harness replay ---")
        for c, o in zip(cmds, out.split("\n")):
            print(f"> {c[:200]}\n  {o[:600]}")
    else:
        print(json.dumps(rep, indent=1)[:6000])
    return 0


def main(argv):
    if not argv:
        print(__doc__)
        return 2
    if argv[0] == "setup":
        return cmd_setup()
    if argv[0] == "check":
        prop = argv[1]
        tier = os.environ.get("VERIF_TIER", "quick")
        if "--tier" in argv:
            tier = argv[argv.index("--tier") + 1]
        return cmd_check(prop, tier)
    if argv[0] == "replay":
        return cmd_replay(argv[1])
    print("usage: verif.py setup | check <id> [--tier quick|thorough] | replay <path>")
    return 2
