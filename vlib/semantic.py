"""Checks C02 (expressions), C07 (break/CONT), C08 (INPUT), C09 (one statement per call),
C12 (crunching), C14 (LIST round trip), C17 (flags)."""
import math
import struct

from . import core, gen, sess
from .core import esc
from .props import (session_correspondence, session_replay, unesc_p, lexer_correspondence, parse_tok_resp, BASIC_WS)
from .stateful import events, squash_input_requests, enter_program, basic_oracle

# ---------------------------------------------------------------------------
# C02: independent fold

BINOPS = [("OR", 0), ("AND", 1), ("=", 2), ("<", 2), ("<=", 2), (">", 2), (">=", 2), ("<>", 2), ("+", 3), ("-", 3), ("*", 4),
          ("/", 4), ("^", 5)]
TIER = dict(BINOPS)
UNOPS = ["+", "-", "NOT"]


def bits(x):
    if x != x:
        return 0x7FF8000000000000
    return struct.unpack("<Q", struct.pack("<d", x))[0]


class BErr(Exception):
    pass


def fold(e, env, pows):
    k = e[0]
    if k == "num":
        return float(e[1])
    if k == "str":
        return e[1]
    if k == "var":
        return env.get(e[1], b"" if e[1].endswith("$") else 0.0)
    if k == "paren":
        return fold(e[1], env, pows)
    if k in ("abs", "int"):
        v = fold(e[1], env, pows)
        if isinstance(v, bytes):
            raise BErr("TypeMismatch")
        if k == "abs":
            return abs(v)
        if v != v or v in (math.inf, -math.inf) or v == 0:
            return v
        return float(math.floor(v))
    if k == "un":
        v = fold(e[2], env, pows)
        if e[1] == "+":
            return v
        if e[1] == "-":
            if isinstance(v, bytes):
                raise BErr("TypeMismatch")
            return -v
        return 0.0 if truth(v) else 1.0
    op = e[1]
    a = fold(e[2], env, pows)
    b = fold(e[3], env, pows)
    if op == "OR":
        return 1.0 if truth(a) or truth(b) else 0.0
    if op == "AND":
        return 1.0 if truth(a) and truth(b) else 0.0
    if TIER[op] == 2:
        if isinstance(a, bytes) != isinstance(b, bytes):
            raise BErr("TypeMismatch")
        r = {"=": a == b, "<": a < b, "<=": a <= b, ">": a > b, ">=": a >= b, "<>": a != b}[op]
        return 1.0 if r else 0.0
    if op == "^":
        # operand kinds are checked left first
        if isinstance(a, bytes) or isinstance(b, bytes):
            raise BErr("TypeMismatch")
        key = (bits(a), bits(b))
        if key not in pows:
            raise BErr("POW-NOT-LOGGED")
        logged = struct.unpack("<d", struct.pack("<Q", pows[key]))[0]
        # the log is the implementation's own powf: it is an oracle for the VALUE of a power, not for whether ^ IS the
        # power function - that is decided against the C library's pow, which f64::powf is on this platform
        try:
            ref = math.pow(a, b)
        except (OverflowError, ValueError):
            ref = None
        if ref is not None and bits(ref) != bits(logged) and not (ref != ref and logged != logged):
            raise BErr("POW-LOG-WRONG")
        return logged
    if isinstance(a, bytes) or isinstance(b, bytes):
        raise BErr("TypeMismatch")
    if op == "+":
        return a + b
    if op == "-":
        return a - b
    if op == "*":
        return a * b
    if b == 0:
        raise BErr("DivisionByZero")
    return a / b


def truth(v):
    return len(v) > 0 if isinstance(v, bytes) else v != 0


def tier_of(e):
    if e[0] == "bin":
        return TIER[e[1]]
    if e[0] == "un":
        return 6
    return 7


def render(e, rng, redundant=0.0):
    k = e[0]
    if k == "num":
        s = e[1]
    elif k == "str":
        s = '"' + e[1].decode() + '"'
    elif k == "var":
        s = e[1]
    elif k == "paren":
        s = "(" + render(e[1], rng, redundant) + ")"
    elif k in ("abs", "int"):
        s = k.upper() + "(" + render(e[1], rng, redundant) + ")"
    elif k == "un":
        inner = render(e[2], rng, redundant)
        if tier_of(e[2]) < 7:
            inner = "(" + inner + ")"
        s = e[1] + (" " if e[1] == "NOT" or rng.chance(0.3) else "") + inner
    else:
        t = TIER[e[1]]
        l = render(e[2], rng, redundant)
        if tier_of(e[2]) < t:
            l = "(" + l + ")"
        r = render(e[3], rng, redundant)
        if tier_of(e[3]) <= t:
            r = "(" + r + ")"
        sp = rng.choice(["", " ", " ", "  "]) if e[1] not in ("AND", "OR") else " "
        s = l + sp + e[1] + sp + r
    if redundant and rng.chance(redundant):
        s = "(" * 1 + s + ")"
    return s


OPERANDS = [("num", "0"), ("num", "1"), ("num", "2"), ("num", "7"), ("num", "0.1"), ("num", "3.5"), ("num", "100"),
            ("str", b""), ("str", b"A"), ("str", b"B"), ("str", b"AB"), ("var", "U"), ("var", "V"), ("var", "N0"),
            ("var", "S$"), ("var", "E$"), ("var", "U$"), ("num", "12345678901234567890"), ("num", ".5"),
            ("num", ".00000000000000001"), ("var", "Q")]
ENV_SETUP = ["V = 3", "N0 = 0 * -1", 'S$ = "HI"', 'E$ = ""', "Q = .1 + .2 - .3"]
ENV = {"V": 3.0, "N0": -0.0, "S$": b"HI", "E$": b"", "Q": 0.1 + 0.2 - 0.3}
# boundary operands for the arithmetic / comparison operators: zeros of both signs, values far below
# machine epsilon, the largest finite magnitudes, an integer beyond 2^53
BOUNDARY = [("num", "0"), ("var", "N0"), ("num", ".00000000000000001"), ("var", "Q"), ("num", "1" + "0" * 308),
            ("num", "9007199254740993"), ("num", ".5"), ("num", "3"), ("num", "." + "0" * 320 + "1")]


def gen_expr(rng, depth):
    if depth <= 0 or rng.chance(0.25):
        return rng.choice(OPERANDS)
    k = rng.weighted([("bin", 70), ("un", 12), ("abs", 5), ("int", 5), ("paren", 8)])
    if k == "bin":
        return ("bin", rng.choice(BINOPS)[0], gen_expr(rng, depth - 1), gen_expr(rng, depth - 1))
    if k == "un":
        return ("un", rng.choice(UNOPS), gen_expr(rng, depth - 1))
    if k == "paren":
        return ("paren", gen_expr(rng, depth - 1))
    return (k, gen_expr(rng, depth - 1))


def run_c02(chk):
    h = core.Harness(chk.harness_path)
    rng = chk.rng
    sessions = []
    s = sess.Session(h)
    for l in ENV_SETUP:
        s.line(l)
    count = [0]

    def one(e, text):
        nonlocal s
        if len(s.ops) > 260:
            sessions.append(s.ops)
            s = sess.Session(h)
            for l in ENV_SETUP:
                s.line(l)
        row = s.line("PRINT " + text)
        count[0] += 1
        rep = {"expression": text, "harness_commands": ["new"] + ["line\t" + esc(l) for l in ENV_SETUP] + ["line\t" + esc("PRINT " + text)]}
        if row.kind != "row":
            chk.fail("crash", f"PRINT {text}: {row.raw[:120]}", rep)
            s = sess.Session(h)
            return
        pows = {}
        for p in (row.f["pows"].split(";") if row.f["pows"] else []):
            x, y, r = p.split(".")
            pows[(int(x, 16), int(y, 16))] = int(r, 16)
        try:
            want = fold(e, ENV, pows)
            werr = None
        except BErr as ex:
            want, werr = None, str(ex)
        if werr == "POW-LOG-WRONG":
            chk.fail("pow-value", f"PRINT {text}: a logged power is not pow() of its operands", rep)
            return
        if werr == "POW-NOT-LOGGED":
            chk.fail("pow-placement", f"PRINT {text}: the fold needs a power the implementation never computed (precedence/grouping of ^ differs)", rep)
            return
        if werr:
            chk.count("expect:" + werr)
            if not row.outcome.startswith("err:" + werr):
                chk.fail("expr-error", f"PRINT {text}: expected {werr}, implementation answered {row.outcome} {row.f['outputs'][:60]}", rep)
            return
        outs = [unesc_p(o) for o in row.outputs() if o.startswith("P")]
        if row.outcome != "ok" or len(outs) != 1 or not outs[0].endswith("\n"):
            chk.fail("expr-value", f"PRINT {text}: expected {want!r}, implementation answered {row.outcome} {outs}", rep)
            return
        got = outs[0][:-1]
        if isinstance(want, bytes):
            chk.count("expect:string")
            if got.encode() != want:
                chk.fail("expr-value", f"PRINT {text}: expected {want!r}, printed {got!r}", rep)
        else:
            chk.count("expect:number")
            try:
                g = float("nan") if got == "NaN" else float(got)
            except ValueError:
                chk.fail("expr-value", f"PRINT {text}: expected {want!r}, printed {got!r}", rep)
                return
            if bits(g) != bits(want):
                chk.fail("expr-value", f"PRINT {text}: expected {want!r}, printed {got!r}", rep)

    # exhaustive over operator pairs: both shapes, three operand triples
    triples = [(("num", "7"), ("num", "2"), ("num", "3")), (("num", "0"), ("num", "1"), ("num", "0.5")),
               (("str", b"A"), ("str", b"B"), ("num", "1")), (("var", "V"), ("str", b""), ("var", "N0"))]
    for o1, _ in BINOPS:
        for o2, _ in BINOPS:
            for a, b, c in triples:
                for shape in (0, 1):
                    e = ("bin", o2, ("bin", o1, a, b), c) if shape == 0 else ("bin", o1, a, ("bin", o2, b, c))
                    txt = render(e, rng)
                    one(e, txt)
                    chk.case(txt, sample={"expr": txt})
    for u in UNOPS:
        for o1, _ in BINOPS:
            for a, b, _c in triples:
                for e in (("bin", o1, ("un", u, a), b), ("bin", o1, a, ("un", u, b)), ("un", u, ("bin", o1, a, b)),
                          ("un", u, ("paren", ("un", u, a)))):
                    txt = render(e, rng)
                    one(e, txt)
                    chk.case(txt, sample={"expr": txt})
    chk.count("exhaustive-operator-pairs", count[0])
    # every binary operator on every pair of boundary operands (and under a unary minus)
    c0 = count[0]
    for o1, _ in BINOPS:
        for a in BOUNDARY:
            for b in BOUNDARY:
                for e in (("bin", o1, a, b), ("bin", o1, ("un", "-", a), b)):
                    txt = render(e, rng)
                    one(e, txt)
                    chk.case(txt, sample={"expr": txt})
    chk.count("boundary-operand-pairs", count[0] - c0)
    # ^ is the power function for every operand pair, whole exponents included (missed seeded change C02-mut7: a powi fast
    # path for whole exponents differs from pow in the last bits for bases that are not exactly representable)
    c0 = count[0]
    for a in (".3", "1.1", ".1", "2.5", "7", "0", "1.0000001", "123456.789", ".000015"):
        for b in ("3", "10", "2", ".5", "0", "1", "31", "1000", "2147483648", "7.5"):
            for e in (("bin", "^", ("num", a), ("num", b)), ("bin", "^", ("num", a), ("un", "-", ("num", b))),
                      ("bin", "^", ("paren", ("un", "-", ("num", a))), ("num", b)), ("bin", "<", ("bin", "^", ("num", a), ("num", b)), ("num", ".027"))):
                txt = render(e, rng)
                one(e, txt)
                chk.case(txt, sample={"expr": txt})
    chk.count("power-operand-pairs", count[0] - c0)
    n = 1200 if chk.tier == "quick" else 60000
    for i in range(n):
        r = rng.fork(("c02", i))
        e = gen_expr(r, 1 + r.below(4))
        txt = render(e, r, redundant=r.choice([0.0, 0.0, 0.2, 0.5]))
        if r.chance(0.2):
            txt = gen.flip_case(r, txt) if '"' not in txt else txt
        one(e, txt)
        chk.case(txt, nontrivial=e[0] not in ("num", "str", "var"), sample={"expr": txt})
    # redundant parentheses never change a result
    for i in range(150 if chk.tier == "quick" else 3000):
        r = rng.fork(("c02p", i))
        e = gen_expr(r, 2 + r.below(2))
        t1, t2 = render(e, r), render(e, r, redundant=0.6)
        a = s.line("PRINT " + t1)
        b = s.line("PRINT " + t2)
        if a.kind == "row" and b.kind == "row" and (a.outcome.split("@")[0], a.f["outputs"]) != (b.outcome.split("@")[0], b.f["outputs"]):
            chk.fail("redundant-parens", f"{t1} -> {a.outcome} {a.f['outputs']} but {t2} -> {b.outcome} {b.f['outputs']}",
                     {"harness_commands": ["line\t" + esc(l) for l in ENV_SETUP] + ["line\t" + esc("PRINT " + t1), "line\t" + esc("PRINT " + t2)]})
        chk.case((t1, t2))
    sessions.append(s.ops)
    h.close()
    session_correspondence(chk, "C02-expressions", sessions, ["outcome", "state", "outputs"], shard_size=2)


# ---------------------------------------------------------------------------
# C07

def drive(h, prog, replies, flags=(False, False), breaks=None, inspect=None, rng=None, seed=None, max_turns=220):
    """Run a program; at each turn index in `breaks` break in, optionally run inspection lines, then CONT."""
    s = sess.Session(h)
    s.flags(*flags)
    if seed is not None:
        s.rand(seed)
    enter_program(s, prog)
    start = len(s.ops)
    s.line("RUN")
    replies = list(replies)
    turn = 0
    nbreaks = 0
    while not s.dead and turn < max_turns:
        turn += 1
        if s.state == "Idle":
            break
        if breaks and turn in breaks and s.state in ("Running", "AwaitingInput"):
            s.brk()
            nbreaks += 1
            for l in (inspect or []):
                if s.state == "Idle" and not s.dead:
                    s.line(l)
            if s.state == "Idle" and not s.dead:
                s.line("CONT")
            continue
        if s.state == "Running":
            s.cont()
        elif s.state == "AwaitingInput":
            s.reply(replies.pop(0) if replies else "1")
        else:
            break
    return s, start, nbreaks


INSPECT = ["PRINT FNO(0)", "PRINT FNT(2)", "PRINT FNO(1) + FNO(0)", "PRINT FNA(FNO(0))", "PRINT FNS$(1)", "PRINT A;B;X", "PRINT 1/0", "? A$", "PRINT FNA(3)", "PRINT FNA(1/0)", "PRINT N(1)", "REM look", "PRINT (", "PRINT Z9 +",
           "IF 1 THEN PRINT I", "PRINT Z8(3)", "PRINT Z9$(2)", "PRINT \"x\" + 1", "IF 0 THEN PRINT 1 ELSE PRINT J", "PRINT ABS(-K)", "PRINT FNR(1)", "PRINT FNA(FNR(2))",
           "DEF FNA(X) = 99", "DEF FNO(X) = 7", "DEF FNQ(W) = W"]


# programs whose continuation is sensitive to anything an inspection might leave behind: a function frame (the
# parameter X shadows the variable X; RETURN pops the innermost frame), a loop, the DATA cursor
C07_FIXED = [
    ["10 X = 5", "20 GOSUB 100", "30 PRINT \"BACK\" X", "40 FOR I = 1 TO 2", "50 READ D : PRINT D X", "60 NEXT I", "70 END",
     "100 PRINT \"X IS\" X", "110 X = X + 1", "120 RETURN", "130 DATA 7, 8"],
    # the continuation calls the program's functions: a DEF typed at the prompt fails (ILLEGAL DIRECT) and must leave them
    # alone (missed seeded change C07-mut10: the failing DEF had already taken the old definition out of the table)
    ["10 PRINT \"ONE\"", "20 PRINT FNA(2)", "30 PRINT FNI(5) ; FNO(1)", "40 PRINT \"DONE\""],
]
C07_FIXED_INSPECT = [["PRINT FNR(1)"], ["PRINT FNR(1)", "PRINT FNO(0)"], ["PRINT FNA(FNR(2))"], ["PRINT X"],
                     ["DEF FNA(X) = 99"], ["DEF FNI(Y) = 1", "DEF FNO(X) = 2 : PRINT 3"]]


def run_c07(chk):
    h = core.Harness(chk.harness_path)
    n = 110 if chk.tier == "quick" else 3000
    sessions = []
    for i in range(n + len(C07_FIXED)):
        r = chk.rng.fork(("c07", i))
        pg = gen.ProgGen(r, fault=0.03, use_stop=False, use_rnd=True)
        prog = pg.generate(size=5 + r.below(6)) if i >= len(C07_FIXED) else C07_FIXED[i]
        # make inspection of N() harmless: the program owns the array from the start
        # FNO fails inside a function it calls (FNI), FNT's body ends prematurely, FNS$'s body has the wrong kind
        # FNR never returns: calling it ends in a stack overflow, deep inside nested calls
        prog = ["1 DIM N(12)", "2 DEF FNA(X) = X/X + X", "3 DEF FNI(Y) = 10/Y", "4 DEF FNO(X) = FNI(X) + 1", "5 DEF FNT(X) = X +",
                "6 DEF FNS$(X) = X", "7 DEF FNR(X) = FNR(X + 1)"] + prog
        replies = [gen.gen_reply(r) for _ in range(12)]
        seed = r.below(2 ** 33)
        base, st0, _ = drive(h, prog, replies, seed=seed)
        ev0 = squash_input_requests([e for e in events([row for _, row in base.ops[st0:]]) if e[0] != "B"])
        nturns = len(base.ops) - st0
        fixed_variants = [(set([t]), ins) for t in range(2, nturns + 2) for ins in C07_FIXED_INSPECT] if i < len(C07_FIXED) else None
        for variant in range(len(fixed_variants) if fixed_variants else (2 if chk.tier == "quick" else 4)):
            k = 1 + r.below(4)
            breaks = set(2 + r.below(max(nturns, 3)) for _ in range(k))
            inspect = [r.choice(INSPECT) for _ in range(r.below(3))] if variant else []
            if fixed_variants:
                breaks, inspect = fixed_variants[variant]
            # RND(positive) and reads of not-yet-existing arrays are excluded: they change state by the language's own rules
            s, st1, nb = drive(h, prog, replies, seed=seed, breaks=breaks, inspect=inspect)
            rows = []
            inspecting = False
            for op, row in s.ops[st1:]:
                if op[0] == "line" and op[1] not in (b"RUN", b"CONT"):
                    continue      # output of the inspection lines is not the program's
                rows.append(row)
            ev1 = squash_input_requests([e for e in events(rows) if e[0] != "B"])
            chk.count(f"breaks:{min(nb, 4)}")
            chk.count("inspect:%d" % len(inspect))
            if ev1 != ev0:
                j = next((j for j in range(min(len(ev0), len(ev1))) if ev0[j] != ev1[j]), min(len(ev0), len(ev1)))
                chk.fail("break-cont-not-transparent",
                         f"breaks at turns {sorted(breaks)} with inspection {inspect}: event {j} is {(ev1[j] if j < len(ev1) else None)!r:.120} "
                         f"instead of {(ev0[j] if j < len(ev0) else None)!r:.120}", session_replay(s))
            for _, row in s.ops:
                if row.kind in ("panic", "abort"):
                    chk.fail("crash:" + row.f.get("msg", "")[:50], row.raw[:160], session_replay(s))
            sessions.append(s.ops)
            chk.case((tuple(prog), tuple(sorted(breaks)), tuple(inspect)), nontrivial=nb > 0, sample={"program": prog[:5], "breaks": sorted(breaks), "inspect": inspect})
        # assignment at a STOP == the assignment written in place of the STOP
        if r.chance(0.5):
            v, val = r.choice([("A", "42"), ("X", "7"), ("A$", '"ZZ"'), ("I", "2")])
            k = 2 + r.below(max(len(prog) - 3, 1))
            no = int(prog[k].split()[0])
            with_stop = prog[:k] + [f"{no - 1} STOP"] + prog[k:]
            with_asg = prog[:k] + [f"{no - 1} {v} = {val}"] + prog[k:]
            a, sa, _ = drive(h, with_asg, replies, seed=seed)
            b = sess.Session(h)
            b.rand(seed)
            enter_program(b, with_stop)
            sb = len(b.ops)
            b.line("RUN")
            guard = 0
            stopped = False
            reps = list(replies)
            while not b.dead and guard < 260:
                guard += 1
                if b.state == "Idle":
                    last = b.ops[-1][1]
                    if last.kind == "row" and any(o == f"B{no - 1}" for o in last.outputs()):
                        stopped = True
                        b.line(f"{v} = {val}")
                        b.line("CONT")
                        continue
                    break
                if b.state == "Running":
                    b.cont()
                elif b.state == "AwaitingInput":
                    b.reply(reps.pop(0) if reps else "1")
                else:
                    break
            eva = [e for e in events([row for _, row in a.ops[sa:]]) if e[0] != "B"]
            evb = [e for e in events([row for _, row in b.ops[sb:]]) if e[0] != "B"]
            chk.count("assign-at-stop")
            if not (a.state == "Idle" and b.state == "Idle"):
                # one of the two runs was cut off by the turn budget (the STOP version spends extra calls): compare what both reached
                m = min(len(eva), len(evb))
                eva, evb = eva[:m], evb[:m]
                chk.count("assign-at-stop:cut-off")
            if eva != evb:
                chk.fail("assign-at-stop", f"{v} = {val} at STOP in line {no - 1}: {evb[:6]!r:.200} vs in-place {eva[:6]!r:.200}", session_replay(b))
            sessions.append(b.ops)
    h.close()
    session_correspondence(chk, "C07-break-cont", sessions, ["outcome", "state", "outputs", "snap"])


# ---------------------------------------------------------------------------
# C08

INPUT_FORMS = ["{n} INPUT {v}", "{n} PRINT \"Q\"; : INPUT {v}", "{n} X = 1 : INPUT {v} : PRINT \"after\"", "{n} IF 1 THEN INPUT {v}",
               "{n} IF 1 THEN INPUT {v} ELSE PRINT \"no\"", "{n} IF 0 THEN PRINT \"no\" ELSE INPUT {v}",
               "{n} IF 0 THEN PRINT \"no\" ELSE INPUT {v} : PRINT \"tail\"", "{n} IF 1 THEN INPUT {v} : PRINT \"t2\"",
               "{n} FOR I = 1 TO 2 : INPUT {v} : NEXT I",
               "{n} INPUT Q9 : PRINT \"GOT\" : INPUT {v}", "{n} IF 0 THEN INPUT Q9 ELSE INPUT {v}",
               "{n} INPUT Q9$ : INPUT {v} : PRINT \"t3\"",
               # an IF that is not the first statement of its line: the ELSE met after the INPUT resumes belongs to it
               "{n} PRINT \"Q\"; : IF 1 THEN INPUT {v} ELSE PRINT \"no\"", "{n} X = 1 : IF X THEN INPUT {v} ELSE PRINT \"no\" : PRINT \"t4\"",
               "{n} X = 0 : PRINT \"p\" : IF X THEN PRINT \"no\" ELSE INPUT {v}"]
TARGETS = [("A", "num"), ("X", "num"), ("A$", "str"), ("N(2)", "num"), ("N(I)", "num"), ("T$(1)", "str"), ("M(1,2)", "num")]
NUM_REPLIES = [("5", "5"), (" 7 ", "7"), ("3.5", "3.5"), ("-2", "-2"), ("1e2", "100"), ("+4", "4"), (".5", ".5"), ("007", "7")]
STR_REPLIES = [("日本", '"日本"'), ("éé", '"éé"'), ("héllo wörld", '"héllo wörld"'), ("😊", '"😊"'), ("hello", '"hello"'), ("", '""'), ("a b", '"a b"'), ('"q,r"', '"q,r"'), ("  pad  ", '"pad"'), ("12", '"12"'),
               ("1.50", '"1.5"')]
EXTRA = [",9", " , x", ":tail", ", 1, 2"]


# surplus after a colon / comma following multi-byte first items (byte counts vs character counts)
C08_FORCED = [("A$", "str", INPUT_FORMS[0], rep, lit, ex)
              for rep, lit in (("日本", '"日本"'), ("éé", '"éé"'), ("héllo wörld", '"héllo wörld"'), ("😊", '"😊"'), ("é", '"é"'))
              for ex in (":x", ":", ", y", " :tail")]
# INPUT as a clause of an inner IF with the ELSE of an outer IF behind it: the resumed statement meets an ELSE whose
# nearest THEN is not the first THEN or ELSE to its left (seeded change C08-mut8 showed these were missing)
NESTED_INPUT_FORMS = ["{n} IF 1 THEN IF 0 THEN PRINT \"A\" ELSE INPUT {v} ELSE PRINT \"B\"",
                      "{n} IF 1 THEN IF 1 THEN INPUT {v} ELSE PRINT \"A\" ELSE PRINT \"B\"",
                      "{n} IF 0 THEN PRINT \"A\" ELSE IF 1 THEN INPUT {v} ELSE PRINT \"B\"",
                      "{n} X = 0 : IF X THEN PRINT \"A\" ELSE IF X THEN PRINT \"B\" ELSE INPUT {v} : PRINT \"t5\"",
                      "{n} IF 1 THEN IF 1 THEN IF 0 THEN PRINT \"A\" ELSE INPUT {v} ELSE PRINT \"B\" ELSE PRINT \"C\""]
C08_FORCED += [(tg, kd, f, rep, lit, "") for f in INPUT_FORMS[-3:] + NESTED_INPUT_FORMS
               for tg, kd, rep, lit in (("X", "num", "7", "7"), ("N(I)", "num", "5", "5"), ("A$", "str", "hello", '"hello"'))]
INPUT_FORMS += NESTED_INPUT_FORMS


def run_c08(chk):
    h = core.Harness(chk.harness_path)
    n = 160 if chk.tier == "quick" else 5000
    sessions = []
    for i in range(n):
        r = chk.rng.fork(("c08", i))
        tgt, kind = r.choice(TARGETS)
        form = r.choice(INPUT_FORMS)
        in_sub = r.chance(0.25)
        reply, literal = r.choice(NUM_REPLIES if kind == "num" else STR_REPLIES)
        extra = r.choice(EXTRA) if r.chance(0.3) and reply.strip() else ""
        if i < len(C08_FORCED):
            tgt, kind, form, reply, literal, extra = C08_FORCED[i]
        reenters = r.below(3) if kind == "num" else 0
        pre = ["10 DIM N(5) : DIM M(3,3) : DIM T$(3) : I = 1", "20 PRINT \"start\""]
        post = ["50 PRINT \"v=\";" + tgt, "60 PRINT \"done\" : END"]
        no = 1000 if in_sub else 30
        mid = (["30 GOSUB 1000"] if in_sub else [])
        sub = ["1010 RETURN"] if in_sub else []
        line_in = form.format(n=no, v=tgt)
        line_as = form.format(n=no, v=tgt).replace("INPUT " + tgt, tgt + " = " + literal)
        prog_in = pre + mid + [line_in] + post + sub
        prog_as = pre + mid + [line_as] + post + sub
        loop = "FOR I" in form
        # the INPUT program
        a = sess.Session(h)
        enter_program(a, prog_in)
        sa = len(a.ops)
        a.line("RUN")
        guard = 0
        pending_re = reenters
        asked = 0
        pre_requests = 1 if form.startswith("{n} INPUT Q9") else 0
        while not a.dead and guard < 200 and a.state != "Idle":
            guard += 1
            if a.state == "Running":
                prev = a.ops[-1][1]
                row = a.cont()
                if row.kind == "row" and row.state == "AwaitingInput" and prev.kind == "row" and prev.state == "Running":
                    # suspension: nothing but the cursor moved since the previous turn boundary
                    ps, ns = prev.snap(), row.snap()
                    for k in ("vars", "arrays", "stack", "loops", "data", "fns", "bp", "rng", "input"):
                        if ps.get(k) != ns.get(k) and not row.outputs():
                            chk.fail("input-suspend-disturbs", f"reaching INPUT changed {k}", session_replay(a))
            elif a.state == "AwaitingInput":
                asked += 1
                if asked <= pre_requests:
                    a.reply("1")            # the other INPUT on the line (the assignment program answers it with "1" too)
                elif pending_re > 0:
                    pending_re -= 1
                    row = a.reply(r.choice(["abc", "x1", '"5"', "--"]))
                    nxt = a.cont() if a.state == "Running" else None
                    if nxt is None or nxt.kind != "row" or "R" not in nxt.outputs() or nxt.state != "AwaitingInput":
                        chk.fail("reenter", f"text offered to {tgt}: expected REENTER and the same request, got {nxt.raw[:160] if nxt else None}", session_replay(a))
                        break
                else:
                    a.reply(reply + extra)
        b, sb, _ = drive(h, prog_as, [])
        eva = [e for e in events([row for _, row in a.ops[sa:]]) if e not in (("?",), ("R",))]
        evb = [e for e in events([row for _, row in b.ops[sb:]]) if e != ("?",)]
        if extra:
            want_x = 2 if loop else 1
            if eva.count(("X",)) != want_x:
                chk.fail("extra-ignored", f"reply {reply + extra!r}: {eva.count(('X',))} EXTRA IGNORED notices, expected {want_x}", session_replay(a))
            eva = [e for e in eva if e != ("X",)]
        elif ("X",) in eva:
            chk.fail("extra-ignored-spurious", f"reply {reply!r} gave EXTRA IGNORED", session_replay(a))
        chk.count("form:" + form.split("{n} ")[1][:22])
        chk.count("target:" + tgt)
        if eva != evb:
            chk.fail("input-not-assignment", f"{line_in!r} with reply {reply + extra!r}: {eva!r:.300} but {line_as!r}: {evb!r:.300}", session_replay(a))
        fa = a.ops[-1][1].snap() if a.ops[-1][1].kind == "row" else {}
        fb = b.ops[-1][1].snap() if b.ops[-1][1].kind == "row" else {}
        for k in ("vars", "arrays", "stack", "loops"):
            if fa.get(k) != fb.get(k) and eva == evb:
                chk.fail("input-final-state", f"final {k} differs: {fa.get(k)!r:.160} vs {fb.get(k)!r:.160}", session_replay(a))
        for _, row in a.ops:
            if row.kind in ("panic", "abort"):
                chk.fail("crash:" + row.f.get("msg", "")[:50], row.raw[:160], session_replay(a))
        sessions.append(a.ops)
        chk.case((line_in, reply, extra, reenters), sample={"line": line_in, "reply": reply + extra, "reenters": reenters})
    # a reply that is still pending when the host breaks in: CONT must consume it (only the INPUT is re-executed),
    # RUN must not (the new run's first INPUT awaits input having executed nothing beyond the statements before it)
    n2 = 24 if chk.tier == "quick" else 400
    for i in range(n2):
        r = chk.rng.fork(("c08-stale", i))
        tgt, kind = r.choice([t for t in TARGETS if "(" not in t[0]])
        reply, literal = r.choice(NUM_REPLIES if kind == "num" else STR_REPLIES)
        if not reply.strip():
            reply, literal = ("7", "7") if kind == "num" else ("zz", '"zz"')
        prog = ["10 PRINT \"start\"", "20 INPUT " + tgt, "30 PRINT \"v=\";" + tgt, "40 INPUT " + tgt, "50 PRINT \"w=\";" + tgt, "60 END"]
        second = "5" if kind == "num" else "yy"
        use_run = (i % 2 == 0)
        a = sess.Session(h)
        enter_program(a, prog)
        sa = len(a.ops)
        a.line("RUN")
        guard = 0
        while not a.dead and guard < 50 and a.state == "Running":
            guard += 1
            a.cont()
        if a.state != "AwaitingInput":
            continue
        a.reply(reply)                # the reply is pending ...
        a.brk()                       # ... when the host breaks in
        mark = len(a.ops)
        if a.state == "Idle":
            a.line("RUN" if use_run else "CONT")
        a.run_until_idle(replies=[second, second, second], max_turns=80)
        # the reference: the same program without the break
        b = sess.Session(h)
        enter_program(b, prog)
        sb = len(b.ops)
        b.line("RUN")
        b.run_until_idle(replies=([second, second] if use_run else [reply, second]), max_turns=80)
        eva = [e for e in events([row for _, row in a.ops[mark:]]) if e != ("?",)]
        evb = [e for e in events([row for _, row in b.ops[sb:]]) if e != ("?",)]
        if not use_run:
            # CONT: what is printed after the break = what the uninterrupted run prints after consuming the reply
            evb = evb[-len(eva):] if eva and len(evb) >= len(eva) else evb
        chk.count("stale-reply:" + ("RUN" if use_run else "CONT"))
        if eva != evb:
            chk.fail("pending-reply-" + ("leaks-into-run" if use_run else "lost-at-cont"),
                     f"reply {reply!r} pending at a break, then {'RUN' if use_run else 'CONT'}: {eva!r:.300} instead of {evb!r:.300}", session_replay(a))
        for _, row in a.ops:
            if row.kind in ("panic", "abort"):
                chk.fail("crash:" + row.f.get("msg", "")[:50], row.raw[:160], session_replay(a))
        sessions.append(a.ops)
        chk.case(("stale", tgt, reply, use_run), sample={"program": prog, "pending_reply": reply, "then": "RUN" if use_run else "CONT"})
    h.close()
    session_correspondence(chk, "C08-input", sessions, ["outcome", "state", "outputs", "snap"])


# ---------------------------------------------------------------------------
# C09

def run_c09(chk):
    h = core.Harness(chk.harness_path)
    n = 110 if chk.tier == "quick" else 3000
    sessions = []
    ntok_cache = {}

    def tokinfo(text):
        if text not in ntok_cache:
            toks, _, _ = parse_tok_resp(h.cmd("tok", 0, esc(text.encode())))
            ntok_cache[text] = (len(toks or []), sum(1 for t in (toks or []) if t[0] == "If"), [t[0] for t in (toks or [])])
        return ntok_cache[text]

    def ntokens(text):
        return tokinfo(text)[0]

    extra_programs = [["10 GOTO 10"], ["10 PRINT \"A\":PRINT \"B\"", "20 GOTO 10"], ["10 FOR I = 1 TO 1000000 : NEXT I"],
                      ["10 IF 1 THEN IF 1 THEN IF 1 THEN PRINT 1 : PRINT 2", "20 GOTO 10"],
                      ["10 IF 0 THEN " + "X = 1 : " * 40 + "X = 2", "20 GOTO 10"],
                      ["10 DEF F(X) = " + "X + " * 60 + "1 : PRINT 5", "20 GOTO 10"],
                      # statements that follow a DEF on its line are statements of their own (seeded change C09-mut7)
                      ["10 DEF FN A(X) = X + 1: PRINT \"ONE\": PRINT \"TWO\"", "20 DEF G(Y) = Y : Z = 1 : Z = 2 : GOTO 10"],
                      # PRINT chains joined by `;` and `:` are separate statements, one per call (seeded change C09-mut10)
                      ["10 PRINT \"A\";: PRINT \"B\";: ? \"C\"", "20 X = 2 : PRINT \"A\";: PRINT X;: PRINT \"C\" : GOTO 10"],
                      # a long run of comment lines: falling off a line moves to the next line, not over many (C09-mut8)
                      ["10 PRINT 1"] + [f"{20 + k} REM x" for k in range(90)] + ["900 PRINT 2"]]
    for i in range(n + len(extra_programs)):
        r = chk.rng.fork(("c09", i))
        if i < len(extra_programs):
            prog = extra_programs[i]
            uses_fn = False
        else:
            uses_fn = r.chance(0.3)
            pg = gen.ProgGen(r, fault=0.03, use_fn=uses_fn)
            prog = pg.generate(size=5 + r.below(6))
            if r.chance(0.3):
                prog[-1] = "9999 GOTO 10"       # never ends: a host loop
        lines = {int(l.split(" ", 1)[0]): l.split(" ", 1)[1] for l in prog}
        s = sess.Session(h)
        s.flags(False, True)
        enter_program(s, prog)
        s.line("RUN")
        s.run_until_idle(replies=[gen.gen_reply(r) for _ in range(8)], max_turns=140)
        prev_loc = None
        for op, row in s.ops:
            if row.kind in ("panic", "abort"):
                chk.fail("crash:" + row.f.get("msg", "")[:50], row.raw[:160], session_replay(s))
            if row.kind != "row" or op[0] not in ("cont", "line") or (op[0] == "line" and op[1] != b"RUN"):
                if row.kind == "row":
                    prev_loc = row.snap().get("loc")
                continue
            outs = row.outputs()
            traces = [o for o in outs if o.startswith("T")]
            prints = [o for o in outs if o.startswith("P")]
            rep = session_replay(s)
            if len(set(traces)) > 1:
                chk.fail("turn-spans-lines", f"one call produced trace records of several lines: {traces}", rep)
            if len(prints) > 1:
                chk.fail("turn-many-statements", f"one call produced {len(prints)} Print records", rep)
            # one trace record per statement dispatched: the statement of the call plus one per IF that selected a clause
            if traces:
                ifs = tokinfo(lines.get(int(traces[0][1:]), ""))[1]
                if len(traces) > 1 + ifs:
                    chk.fail("turn-many-statements", f"one call dispatched {len(traces)} statements of line {traces[0][1:]} "
                             f"({lines.get(int(traces[0][1:]), '')[:60]!r}, {ifs} IF tokens)", rep)
            # work bound for programs without user-defined functions
            if not uses_fn and traces:
                ln = int(traces[0][1:])
                nt = ntokens(lines.get(ln, ""))
                reads = int(row.f["reads"] or 0)
                bound = 12 * nt + 4          # C09_work_bound_turn: 12 * room + idx + 4 <= 12 * tokens + 4
                chk.count("reads<=bound" if reads <= bound else "reads>bound")
                if reads > bound:
                    chk.fail("turn-work-unbounded", f"line {ln} ({nt} tokens): {reads} cursor reads in one call (bound {bound})", rep)
            # the cursor: a call that stays on its line and moves forward passes at most one statement separator, unless the
            # line has an IF (a false IF scans to its ELSE).  Missed seeded change C09-mut10: a PRINT ending in `;` swallowed
            # the `: PRINT ..` behind it, silently (one trace record, one Print record)
            new_loc = row.snap().get("loc")
            if prev_loc and new_loc and "." in prev_loc and "." in new_loc:
                (l0, i0), (l1, i1) = prev_loc.split("."), new_loc.split(".")
                if l0 == l1 and l0.isdigit() and int(i1) > int(i0):
                    _, ifs0, kinds = tokinfo(lines.get(int(l0), ""))
                    seps = sum(1 for k in kinds[int(i0):int(i1)] if k == "Colon")
                    chk.count("cursor-advance-checked")
                    if ifs0 == 0 and seps > 1:
                        chk.fail("turn-many-statements", f"one call moved the cursor from {prev_loc} to {new_loc} on line {l0} "
                                 f"({lines.get(int(l0), '')[:60]!r}): {seps} statement separators passed", rep)
            chk.count("traces/call:%d" % min(len(traces), 4))
            prev_loc = row.snap().get("loc")
        sessions.append(s.ops)
        chk.case(tuple(prog), sample={"program": prog[:5], "turns": len(s.ops)})
    # immediate (direct-mode) lines with several statements: the call that STARTS evaluation executes one statement too
    IMM = ["PRINT 1: PRINT 2: PRINT 3", "FOR I = 1 TO 3: PRINT I: NEXT I", "X=1: Y=2: PRINT X+Y: PRINT X", "IF 1 THEN PRINT 1: PRINT 2",
           "IF 0 THEN PRINT 1 ELSE PRINT 2: PRINT 3: PRINT 4", "A$=\"x\": PRINT A$: PRINT A$;A$", "?1:?2", "GOSUB 500: PRINT 9",
           "FOR J = 1 TO 2: FOR K = 1 TO 2: PRINT J*K: NEXT K: NEXT J", "INPUT Z: PRINT Z: PRINT Z+1"]
    for i in range(30 if chk.tier == "quick" else 600):
        r = chk.rng.fork(("c09i", i))
        s = sess.Session(h)
        s.flags(False, r.chance(0.5))
        enter_program(s, ["500 PRINT \"SUB\"", "510 RETURN", "600 STOP", "610 PRINT \"AFTER\""])
        if r.chance(0.3):
            s.line("GOTO 600")          # type the line at a breakpoint
            s.run_until_idle(replies=[], max_turns=10)
        first = len(s.ops)
        for _ in range(1 + r.below(3)):
            s.line(r.choice(IMM))
            s.run_until_idle(replies=["5", "6"], max_turns=60)
        for op, row in s.ops[first:]:
            if row.kind in ("panic", "abort"):
                chk.fail("crash:" + row.f.get("msg", "")[:50], row.raw[:160], session_replay(s))
            if row.kind != "row" or op[0] not in ("cont", "line"):
                continue
            prints = [o for o in row.outputs() if o.startswith("P")]
            if len(prints) > 1:
                chk.fail("turn-many-statements", f"one call ({op[0]} {op[1] if len(op) > 1 else ''!r}) produced {len(prints)} Print records", session_replay(s))
            chk.count("immediate-calls")
        sessions.append(s.ops)
        chk.case(("imm", i, tuple(o[1] for o, _ in s.ops[first:] if o[0] == "line")), sample={"immediate": [o[1].decode() for o, _ in s.ops[first:] if o[0] == "line"][:3]})
    # the same on the Web front end: one timer tick of the page = one call of the core = one statement, also when
    # the statements print nothing (the page harness runs the adapter and the core side by side)
    from . import web as webmod
    SILENT = [["10 FOR I = 1 TO 6", "20 X = X + I", "30 NEXT I", "40 PRINT X"],
              ["10 X = X + 1 : Y = Y + 2 : Z = X + Y", "20 IF X < 4 THEN 10", "30 PRINT X; Y; Z"],
              ["10 GOSUB 100 : GOSUB 100", "20 PRINT N : END", "100 N = N + 1 : RETURN"],
              ["10 READ A : READ B : C = A + B", "20 DATA 4, 5", "30 PRINT C"]]
    for k, prog in enumerate(SILENT if chk.tier == "quick" else SILENT * 3):
        cmds = ["page\tnew", "page\tseed\t%d" % (k + 1)]
        h.cmd("page", "new")
        h.cmd("page", "seed", str(k + 1))
        events = [("load", "\n".join(prog)), ("start", "")] + [("tick", "")] * (12 + 4 * (k % 3))
        for ev, text in events:
            cmds.append("page\t%s\t%s" % (ev, esc(text.encode("utf-8"))))
            resp = h.cmd("page", ev, esc(text.encode("utf-8")))
            pg = webmod.parse_page(resp)
            rep = {"events": [list(e) for e in events], "harness_commands": list(cmds), "response": resp[:600]}
            if pg["verdict"] in ("dead", "TRAP", "THROW"):
                chk.fail("web-tick:" + pg["verdict"], f"page event {ev}: {pg.get('raw_verdict', '')[:120]}", rep)
                break
            bad = [l for l in pg["log"] if l.startswith("MISMATCH")]
            if bad:
                chk.fail("web-tick-not-one-statement", f"after page event {ev}: adapter and core disagree ({bad[0][:160]}): "
                         "a tick did not execute exactly what one core call executes", rep)
                break
        chk.count("web-ticks")
        chk.case(("web", k, tuple(prog)), sample={"page_program": prog})
    h.close()
    session_correspondence(chk, "C09-turns", sessions, ["outcome", "state", "outputs", "reads", "snap"])


# ---------------------------------------------------------------------------
# C17

# a warning is issued exactly when an expression reads a never-assigned variable or a statement touches an array that does
# not exist yet: programs with a known number of warning records (seeded changes C17-mut9: an identical warning right
# behind its twin was dropped; C17-mut10: the warning was issued after the access, so it was lost when the access failed)
C17_COUNTED = [(["10 PRINT Z * Z"], 2), (["10 Y = Y + X", "20 Y = Y + X"], 3), (["10 PRINT Q$ ; Q$ ; Q$"], 3),
               (["10 PRINT A(11)"], 1), (["10 B(2, 11) = 1"], 1), (["10 C$(1) = 5"], 1), (["10 D(1,1,1,1,1) = 1"], 1),
               (["10 PRINT E(1) : PRINT E(2) : E(3) = 1"], 1), (["10 DIM F(3) : PRINT F(1) : PRINT F(9)"], 0),
               (["10 FOR I = 1 TO 2 : PRINT W : NEXT I"], 2)]


def run_c17(chk):
    h = core.Harness(chk.harness_path)
    n = 70 if chk.tier == "quick" else 2000
    sessions = []
    for prog, want in C17_COUNTED:
        for t in (False, True):
            s = sess.Session(h)
            s.flags(True, t)
            enter_program(s, prog)
            s.line("RUN")
            s.run_until_idle(replies=[], max_turns=40)
            got = sum(1 for _, row in s.ops if row.kind == "row" for o in row.outputs() if o.startswith("W"))
            chk.count("counted-warnings")
            chk.case(("counted", tuple(prog), t), sample={"program": prog, "warnings": want})
            if got != want:
                chk.fail("warning-count", f"{prog} with warnings on, tracing {t}: {got} warning records, {want} reads of something that does not exist yet", session_replay(s))
            sessions.append(s.ops)
    for i in range(n):
        r = chk.rng.fork(("c17", i))
        pg = gen.ProgGen(r, fault=0.05)
        prog = pg.generate(size=5 + r.below(6))
        replies = [gen.gen_reply(r) for _ in range(10)]
        seed = r.below(2 ** 33)
        runs = {}
        via_cmd = r.chance(0.4)
        for w in (False, True):
            for t in (False, True):
                s = sess.Session(h)
                s.flags(w, False if via_cmd else t)
                s.rand(seed)
                enter_program(s, prog)
                if via_cmd and t:
                    s.line("TRACE")
                start = len(s.ops)
                s.line("RUN")
                s.run_until_idle(replies=list(replies), max_turns=160)
                rows = [row for _, row in s.ops[start:]]
                erased = []
                for row in rows:
                    if row.kind != "row":
                        erased.append(("CRASH", row.raw[:80]))
                        chk.fail("crash:" + row.f.get("msg", "")[:50], row.raw[:160], session_replay(s))
                        continue
                    outs = [o for o in row.outputs() if o[0] not in "TW"]
                    sn = row.snap()
                    sn.pop("flags", None)
                    erased.append((row.outcome, row.state, tuple(outs), tuple(sorted(sn.items()))))
                runs[(w, t)] = (s, erased, rows)
                sessions.append(s.ops)
        base = runs[(False, False)][1]
        for cfg, (s, erased, rows) in runs.items():
            if erased != base:
                j = next((j for j in range(min(len(base), len(erased))) if base[j] != erased[j]), min(len(base), len(erased)))
                chk.fail("flags-change-behaviour", f"warnings={cfg[0]} tracing={cfg[1]}: turn {j} differs from the plain run: "
                         f"{(erased[j][:3] if j < len(erased) else None)!r:.200} vs {(base[j][:3] if j < len(base) else None)!r:.200}", session_replay(s))
        # the two options are independent: the warning records are the same with and without tracing, the trace records
        # the same with and without warnings (per turn, in order)
        def recs(cfg, kind):
            return [tuple(o for o in row.outputs() if o.startswith(kind)) for row in runs[cfg][2] if row.kind == "row"]
        if recs((True, False), "W") != recs((True, True), "W"):
            chk.fail("warnings-depend-on-tracing", f"warning records differ between tracing off and on: "
                     f"{[x for x in recs((True, False), 'W') if x][:4]!r:.200} vs {[x for x in recs((True, True), 'W') if x][:4]!r:.200}",
                     session_replay(runs[(True, True)][0]))
        if recs((False, True), "T") != recs((True, True), "T"):
            chk.fail("trace-depends-on-warnings", "trace records differ between warnings off and on", session_replay(runs[(True, True)][0]))
        # TRACE / NOTRACE typed in the middle of a session (at a break, before CONT) change nothing either: same
        # transcript as the session with the same breaks and no command
        nturns = len(runs[(False, False)][2])
        for variant in range(1 if chk.tier == "quick" else 2):
            breaks = set(2 + r.below(max(nturns, 3)) for _ in range(1 + r.below(3)))
            cmds = [r.choice(["TRACE", "NOTRACE", "trace"])] + ([r.choice(["NOTRACE", "TRACE"])] if r.chance(0.3) else [])
            b0, st0, _ = drive(h, prog, replies, seed=seed, breaks=breaks, inspect=[])
            b1, st1, nb = drive(h, prog, replies, seed=seed, breaks=breaks, inspect=cmds)
            ev = []
            for sx, stx in ((b0, st0), (b1, st1)):
                rows_x = [row for op, row in sx.ops[stx:] if not (op[0] == "line" and op[1] not in (b"RUN", b"CONT"))]
                ev.append(squash_input_requests(events(rows_x)))
                for _, row in sx.ops:
                    if row.kind in ("panic", "abort"):
                        chk.fail("crash:" + row.f.get("msg", "")[:50], row.raw[:160], session_replay(sx))
            chk.count("mid-session-toggle:breaks=%d" % min(nb, 3))
            if ev[0] != ev[1]:
                j = next((j for j in range(min(len(ev[0]), len(ev[1]))) if ev[0][j] != ev[1][j]), min(len(ev[0]), len(ev[1])))
                chk.fail("trace-command-changes-behaviour",
                         f"{cmds} typed at breaks {sorted(breaks)}: event {j} is {(ev[1][j] if j < len(ev[1]) else None)!r:.120} instead of "
                         f"{(ev[0][j] if j < len(ev[0]) else None)!r:.120}", session_replay(b1))
            sessions.append(b1.ops)
        # the trace names the lines execution passes through
        s, _, rows = runs[(False, True)]
        traced = []
        walked = []
        prev = None
        for row in rows:
            if row.kind != "row":
                break
            for o in row.outputs():
                if o.startswith("T"):
                    traced.append(int(o[1:]))
        # lines execution passes through, recovered from the untraced run's cursor at each turn boundary
        plain_rows = runs[(False, False)][2]
        ops_plain = runs[(False, False)][0].ops
        locs = []
        for (op, row) in ops_plain:
            if row.kind == "row":
                locs.append((op[0], row.snap().get("loc", ""), row.state))
        # a statement executes at the location the previous row left, if that row was Running
        for k in range(1, len(locs)):
            if locs[k][0] in ("cont",) and locs[k - 1][2] == "Running":
                ln = locs[k - 1][1].split(".")[0]
                if ln != "imm":
                    walked.append(int(ln))

        def collapse(xs):
            out = []
            for x in xs:
                if not out or out[-1] != x:
                    out.append(x)
            return out
        # the RUN call itself executes the first statement of the first STORED line (a program line
        # that failed to tokenize was never stored: read the keys from the snapshot, not the text)
        first = []
        for (op, row) in ops_plain:
            if row.kind == "row" and op[0] == "line" and op[1] == b"RUN":
                keys = row.snap().get("lines", "").split("/")[0]
                first = [int(x) for x in keys.split(",") if x.strip().isdigit()]
                break
        walked = ([min(first)] if first else []) + walked
        tc, wc = collapse(traced), collapse(walked)
        # a turn that finds the line exhausted advances without entering a statement: such lines
        # appear in `walked` only if a later turn executes a statement there, so compare as subsequence-equal
        if tc != [x for x in wc if x in set(tc)] and tc != wc:
            chk.count("trace-path-differs")
            if not set(tc) <= set(wc):
                chk.fail("trace-not-path", f"trace {tc[:20]} names lines execution did not pass through {wc[:20]}", session_replay(s))
        chk.case(tuple(prog), sample={"program": prog[:5]})
    h.close()
    session_correspondence(chk, "C17-configs", sessions, ["outcome", "state", "outputs", "snap"])


# ---------------------------------------------------------------------------
# C12

def keyword_end(line, a, kw):
    """index just after the crunched keyword kw starting at a"""
    i = a
    k = 0
    while k < len(kw):
        if line[i] not in BASIC_WS:
            k += 1
        i += 1
    return i


def protected_regions(line, toks):
    """[(lo, hi)]: insertion positions lo < i < hi are protected; byte positions lo <= j < hi-... handled by caller"""
    regs = []
    for canon, a, b in toks:
        if canon.startswith("StringLiteral["):
            regs.append((a, b, "str"))
        elif canon.startswith("Remark["):
            regs.append((keyword_end(line, a, b"REM") - 1, len(line) + 1, "rem"))
        elif canon.startswith("Data["):
            regs.append((keyword_end(line, a, b"DATA") - 1, b + 1, "data"))
    return regs


def run_c12(chk):
    h = core.Harness(chk.harness_path)
    rng = chk.rng
    cases = []
    n = 900 if chk.tier == "quick" else 25000

    def tok(line, skip=0):
        resp = h.cmd("tok", skip, esc(line))
        cases.append((skip, line, resp))
        return parse_tok_resp(resp)

    fixed = [b"10PRINT123", b"10 print 123", b"10 P R I N T 1 2 3", b"IFX THENY", b"FORI=ATOB", b"A<>B", b"A< >B", b"A> =B",
             b'PRINT"a b";X', b"REM x y", b"R E M x", b"DATA 1, 2", b"GO TO 10", b"GOSUB5", b"SCORE=TOTAL", b"LETTER$=\"x\"",
             b"?1:?2", b"X=.5+1.", b"NEXTI", b"X=NOTY", b"1 0 PRINT", b"PRINT A$;\"q\""]
    for i in range(n + len(fixed)):
        r = rng.fork(("c12", i))
        line = fixed[i] if i < len(fixed) else gen.gen_line(r, malformed=0.0).encode("utf-8")
        toks, err, panicked = tok(line)
        if panicked:
            chk.fail("tokenizer-panic", f"{line!r}", {"harness_commands": [f"tok\t0\t{esc(line)}"]})
            continue
        if err:
            chk.count("untokenizable")
            continue
        base = [t[0] for t in toks]
        regs = protected_regions(line, toks)
        positions = list(range(0, len(line) + 1))
        if len(positions) > 14 and chk.tier == "quick":
            positions = sorted(set(r.below(len(line) + 1) for _ in range(14)))
        nvar = 0
        for p in positions:
            # insertion before byte p
            if not any(lo < p < hi for lo, hi, _ in regs) and (p == 0 or p == len(line) or (line[p] & 0xC0) != 0x80):
                for w in (b" ", b"\t"):
                    v = line[:p] + w + line[p:]
                    t2, e2, _ = tok(v)
                    nvar += 1
                    if e2 or [t[0] for t in (t2 or [])] != base:
                        chk.fail("blank-insert-changes-tokens", f"inserting {w!r} at {p} in {line!r}: {[t[0] for t in (t2 or [])]} / {e2} vs {base}",
                                 {"harness_commands": [f"tok\t0\t{esc(line)}", f"tok\t0\t{esc(v)}"]})
            if p < len(line):
                c = line[p:p + 1]
                inside = any((k == "str" and lo < p < hi - 1) or (k != "str" and lo < p < hi) for lo, hi, k in regs)
                if c in (b" ", b"\t") and not inside:
                    v = line[:p] + line[p + 1:]
                    t2, e2, _ = tok(v)
                    nvar += 1
                    if e2 or [t[0] for t in (t2 or [])] != base:
                        chk.fail("blank-delete-changes-tokens", f"deleting the blank at {p} in {line!r}: {[t[0] for t in (t2 or [])]} / {e2} vs {base}",
                                 {"harness_commands": [f"tok\t0\t{esc(line)}", f"tok\t0\t{esc(v)}"]})
                if c.isalpha() and c.isascii() and not inside:
                    v = line[:p] + c.swapcase() + line[p + 1:]
                    t2, e2, _ = tok(v)
                    nvar += 1
                    if e2 or [t[0] for t in (t2 or [])] != base:
                        chk.fail("case-changes-tokens", f"flipping the case at {p} in {line!r}: {[t[0] for t in (t2 or [])]} / {e2} vs {base}",
                                 {"harness_commands": [f"tok\t0\t{esc(line)}", f"tok\t0\t{esc(v)}"]})
        chk.count("variants", nvar)
        chk.case(line, nontrivial=len(base) > 1, sample={"line": line.decode("utf-8", "replace"), "variants": nvar})
    # DATA items: padded vs tight
    nd = 400 if chk.tier == "quick" else 10000
    for i in range(nd):
        r = rng.fork(("c12d", i))
        items = [r.choice(["1", "2.5", "abc", '"q"', '"a,b"', "x y", "-3", '"a:b"', "hello", "1e2", "été", '""']) for _ in range(r.below(4) + 1)]
        tail = r.choice(["", ":", ":PRINT 1"])
        tight = "DATA" + ",".join(items) + tail
        pad = lambda: r.choice(["", " ", "  ", "\t", " \t"])
        padded = "DATA" + pad() + ",".join(pad() + it + pad() for it in items) + pad() + tail
        t1, e1, _ = tok(tight.encode())
        t2, e2, _ = tok(padded.encode())
        d1 = [t[0] for t in (t1 or [])]
        d2 = [t[0] for t in (t2 or [])]
        chk.count("data-pairs")
        if d1 != d2 or e1 or e2:
            chk.fail("data-blanks-significant", f"{tight!r} -> {d1} but {padded!r} -> {d2}",
                     {"harness_commands": [f"tok\t0\t{esc(tight.encode())}", f"tok\t0\t{esc(padded.encode())}"]})
        chk.case((tight, padded), sample={"tight": tight, "padded": padded})
    h.close()
    # de-duplicate for the correspondence
    seen = set()
    uniq = []
    for c in cases:
        if (c[0], c[1]) not in seen:
            seen.add((c[0], c[1]))
            uniq.append(c)
    lexer_correspondence(chk, "C12-lexer", uniq)


# ---------------------------------------------------------------------------
# C14

C14_NUMERALS = ["1", "007", ".5", "1.", "1.50", "0.1", "3.14159265358979", "12345678901234567890", "9007199254740993",
                "0.30000000000000004", "1" + "0" * 40, "." + "0" * 30 + "1", "1" + "0" * 308, "17976931348623157" + "0" * 292,
                "0." + "0" * 322 + "49", "4.9" + "0" * 5, "123456789.123456789", "1E5", "2.2250738585072014", "100", "65536",
                "0", "00", "0.0", "." + "0" * 400 + "1"]
C14_DATA = ["1, 2, 3", '"a b", c', "hello \"there\", x", '"x" : PRINT 1', "  padded  ,  y ", "nan, inf, -inf, 1e5, -0, +7", "",
            ",", '"unterminated', 'a"b"c', "été, \"ü\"", "1.50, 007, .5", '"", ""', "x y z", "1e400", '"a:b", "c,d"', "-", "1 2",
            # quoted items that would be NUMBERS without their quotes: LIST has to keep the quotes (seeded change C14-mut9:
            # single words were listed bare, and Rust's float parser reads inf / infinity / nan in any case)
            '"INF", "Infinity", "NaN"', '"nan", x, "inf"', '"5", "1E5", "-3"', '"RED", "GREEN", "inf"', '"infinity"', '".5", "+7", "0"']


def run_c14(chk):
    h = core.Harness(chk.harness_path)
    rng = chk.rng
    n = 140 if chk.tier == "quick" else 4000
    sessions = []
    for i in range(n):
        r = rng.fork(("c14", i))
        prog = []
        no = 10
        for _ in range(r.below(7) + 2):
            k = r.weighted([("gen", 30), ("line", 25), ("num", 20), ("data", 25), ("symnum", 15)])
            if k == "gen":
                pg = gen.ProgGen(r, fault=0.0)
                text = pg.stmt_line()
            elif k == "line":
                text = gen.gen_line(r, malformed=0.0)
            elif k == "symnum":
                # a numeral directly behind a name: LIST must keep the two apart AND keep the numeral (zero included)
                text = r.choice(["PRINT ", "X = ", "A = 3 : PRINT "]) + r.choice(["A", "T$", "X", "A "]) + \
                    r.choice([".0", ".5", ".25", ".000", ".0E5", ".00000000000000000000000000000000000000000000000001", ".1E-400", ".0 ; 1", ".5.5"])
            elif k == "num":
                text = r.choice(["PRINT ", "X = ", "IF X = ", "GOTO "]) + r.choice(C14_NUMERALS) + r.choice(["", " : PRINT 1", " + " + r.choice(C14_NUMERALS)])
            else:
                text = r.choice(["DATA ", "DATA", "data  "]) + r.choice(C14_DATA)
            prog.append(f"{no} {text}")
            no += 10
        if r.chance(0.6):
            prog.append(f"{no} READ A$ : PRINT A$ : READ B$ : PRINT B$ : READ C$ : PRINT C$")
        a = sess.Session(h)
        enter_program(a, prog)
        la = a.line("LIST")
        if la.kind != "row":
            chk.fail("crash", la.raw[:160], session_replay(a))
            continue
        listing = [unesc_p(o) for o in la.outputs()]
        # the harness holds ONE interpreter: finish with the original program before the reloaded one is created
        replies = ["1", "x", "2", "3"]
        a.line("RUN")
        a.run_until_idle(replies=list(replies), max_turns=80)
        b = sess.Session(h)
        for l in listing:
            rw = b.line(l.rstrip("\n"))
            if rw.kind == "row" and rw.outcome != "ok":
                chk.fail("listing-does-not-reload", f"LIST line {l!r} is rejected on reload: {rw.outcome}", session_replay(a))
        lb = b.line("LIST")
        relisting = [unesc_p(o) for o in lb.outputs()] if lb.kind == "row" else None
        chk.count("lines", len(listing))
        if relisting != listing:
            d = next((x for x in zip(listing, relisting or []) if x[0] != x[1]), (listing, relisting))
            chk.fail("list-not-fixpoint", f"LIST after reload differs: {d[0]!r:.160} -> {d[1]!r:.160}", session_replay(a))
        else:
            # identical behaviour under RUN
            b.line("RUN")
            b.run_until_idle(replies=list(replies), max_turns=80)
            ra = [(x.outcome, x.state, x.f.get("outputs")) for _, x in a.ops[len(prog) + 2:]]
            rb = [(x.outcome, x.state, x.f.get("outputs")) for _, x in b.ops[len(listing) + 2:]]
            if ra != rb:
                chk.fail("reload-runs-differently", f"RUN of the reloaded program differs: {ra[:4]!r:.200} vs {rb[:4]!r:.200}", session_replay(a))
        sessions.append(a.ops)
        sessions.append(b.ops)
        chk.case(tuple(prog), nontrivial=len(listing) > 0, sample={"program": prog[:4], "listing": listing[:4]})
    h.close()
    session_correspondence(chk, "C14-list", sessions, ["outcome", "state", "outputs"])
