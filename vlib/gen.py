"""Input generators.  Every random choice comes from a core.Rng."""

KEYWORDS = ["DIM", "LET", "PRINT", "INPUT", "GOTO", "GOSUB", "RETURN", "IF", "THEN", "ELSE", "AND", "OR", "NOT",
            "END", "STOP", "FOR", "TO", "NEXT", "STEP", "READ", "RESTORE", "DEF", "REM", "DATA"]
TRICKY_IDENTS = ["SCORE", "ATOB", "LETTER", "FORT", "TOTAL", "NOTE", "IFX", "X", "A1", "AB", "N$", "ST$", "ORE",
                 "BAND", "TOE", "ENDING", "DEFT", "READY", "GO", "T", "REMARK", "DATUM", "Z9$", "I", "J", "K"]
NUMERALS = ["0", "1", "7", "10", "007", ".5", "1.", "1.5", "3.14159", "100", "32", "33", "12345678901234567890",
            "1.2.3", ".", "18446744073709551615", "18446744073709551616", "4294967296", "9223372036854775807",
            "0.1", "1000000", "00", "9" * 25, "1" + "0" * 30, "2.5", "65535"]
OPERATORS = ["+", "-", "*", "/", "^", "=", "<", ">", "<=", ">=", "<>", "(", ")", ",", ";", ":", "?", "< >", "< =", "> ="]
STRINGS = ['"abc"', '"a b"', '""', '"HELLO, WORLD"', '"x:y"', '"hé"', '"\U0001F4A5"', '"abc', '"', '" "',
           '"rem"', '"DATA 1"']
ODD = ["é", "\U0001F4A5", " ", "%", "&", "!", "#", "@", "\r", "\x0c", "\x0b", "\n", "_", "~", "'", "$"]
SPACES = ["", "", "", " ", " ", "  ", "\t", " \t "]


def flip_case(rng, s):
    return "".join((c.lower() if rng.chance(0.5) else c.upper()) if c.isascii() and c.isalpha() else c for c in s)


def split_blanks(rng, s):
    return "".join(c + (rng.choice([" ", "\t", "  "]) if rng.chance(0.3) else "") for c in s)


def gen_atom(rng, malformed=0.05):
    k = rng.weighted([("kw", 30), ("id", 22), ("num", 16), ("op", 22), ("str", 8), ("odd", 2 if malformed else 0),
                      ("rem", 2), ("data", 3)])
    if k == "kw":
        w = rng.choice(KEYWORDS)
        if w == "REM":
            return "REM" + rng.choice(["", " hi", " a:b", ' "q', "xé"])
        if w == "DATA":
            return "DATA" + gen_data_text(rng) + rng.choice(["", ":", " : "])
        r = rng.below(10)
        if r < 2:
            return split_blanks(rng, w)
        if r < 5:
            return flip_case(rng, w)
        return w
    if k == "id":
        w = rng.choice(TRICKY_IDENTS)
        return flip_case(rng, w) if rng.chance(0.3) else w
    if k == "num":
        w = rng.choice(NUMERALS)
        return split_blanks(rng, w) if rng.chance(0.15) else w
    if k == "op":
        return rng.choice(OPERATORS)
    if k == "str":
        return rng.choice(STRINGS)
    if k == "odd":
        return rng.choice(ODD)
    if k == "rem":
        return "REM" + rng.choice(["", " x", "  two  words ", ":PRINT 1", "éé"])
    return "DATA" + gen_data_text(rng)


DATA_ITEMS = ["1", "2.5", "-3", "1e5", "abc", "a b", '"q"', '"a,b"', '"a:b"', "", " ", "nan", "inf", "-inf", "NaN",
              "+7", ".5", "0x10", 'x"y', '"unterminated', "été", " pad ", "1 2", '"" ', "007",
              "1e400", "-0", "infinity", "1_000", "hello \"there\""]


def gen_data_text(rng, items=None):
    n = rng.below(4) + 1 if items is None else items
    parts = []
    for _ in range(n):
        parts.append(rng.choice(SPACES) + rng.choice(DATA_ITEMS) + rng.choice(SPACES))
    return " " * rng.below(2) + ",".join(parts)


def gen_line(rng, max_atoms=8, malformed=0.05):
    n = rng.below(max_atoms) + 1
    s = rng.choice(SPACES)
    for _ in range(n):
        s += gen_atom(rng, malformed) + rng.choice(SPACES)
    return s


# ---------------------------------------------------------------------------
# expressions and programs

NUMVARS = ["A", "B", "C", "X", "Y", "I", "J", "K"]
STRVARS = ["A$", "B$", "S$"]


class ProgGen:
    """Structured BASIC programs with a tunable rate of seeded faults."""

    def __init__(self, rng, fault=0.05, use_input=True, use_fn=True, use_rnd=True, use_stop=False, use_arrays=True,
                 use_data=True, use_pow=True, nested_else=False):
        self.rng = rng
        self.fault = fault
        self.use_input = use_input
        self.use_fn = use_fn
        self.use_rnd = use_rnd
        self.use_stop = use_stop
        self.use_arrays = use_arrays
        self.use_data = use_data
        self.use_pow = use_pow
        self.nested_else = nested_else
        self.lines = []
        self.next_no = 10
        self.fns = []
        self.subs = []
        self.data_count = 0
        self.input_count = 0

    # ---- expressions
    def num_atom(self, depth):
        r = self.rng
        k = r.weighted([("lit", 40), ("var", 30), ("arr", 8 if self.use_arrays else 0), ("abs", 4), ("int", 5),
                        ("rnd", 3 if self.use_rnd else 0), ("fn", 6 if self.fns else 0), ("paren", 10)])
        if k == "lit":
            return r.choice(["0", "1", "2", "3", "5", "10", "0.5", "2.5", "100", "7", "1.5", ".25"])
        if k == "var":
            return r.choice(NUMVARS)
        if k == "arr":
            if r.chance(0.3):
                return f"M({self.small_index()},{self.small_index()})"
            return f"N({self.small_index()})"
        if k == "abs":
            return f"ABS({self.num_expr(depth - 1)})"
        if k == "int":
            return f"INT({self.num_expr(depth - 1)})"
        if k == "rnd":
            return r.choice(["RND(1)", "RND(0)", "INT(RND(1)*6)"])
        if k == "fn":
            name, arity = r.choice(self.fns)
            return f"{name}({','.join(self.num_expr(depth - 1) for _ in range(arity))})"
        return f"({self.num_expr(depth - 1)})"

    def small_index(self):
        r = self.rng
        if r.chance(self.fault * 0.5):
            return r.choice(["11", "-1", "99", "A$"])
        return r.choice(["0", "1", "2", "I", "J", "3", "10", "K"])

    def num_expr(self, depth=2):
        r = self.rng
        if depth <= 0 or r.chance(0.35):
            a = self.num_atom(depth)
        else:
            op = r.weighted([("+", 25), ("-", 20), ("*", 18), ("/", 8), ("^", 3 if self.use_pow else 0), ("cmp", 12),
                             ("AND", 5), ("OR", 5)])
            l, rr = self.num_expr(depth - 1), self.num_expr(depth - 1)
            if op == "cmp":
                if r.chance(0.25):
                    l, rr = self.str_expr(), self.str_expr()
                op = r.choice(["=", "<", ">", "<=", ">=", "<>"])
            a = f"{l} {op} {rr}"
        if r.chance(0.08):
            a = r.choice(["-", "NOT ", "+"]) + self.num_atom(depth)
        if r.chance(self.fault * 0.3):
            a = a + " + " + self.str_expr()
        return a

    def str_expr(self):
        r = self.rng
        return r.choice(['"A"', '"B"', '""', '"HI"', "A$", "B$", "S$", '"a b"'] + (["T$(1)"] if self.use_arrays else []))

    def cond(self):
        r = self.rng
        if r.chance(0.2):
            return self.num_expr(1)
        return f"{self.num_expr(1)} {r.choice(['=', '<', '>', '<=', '>=', '<>'])} {self.num_expr(1)}"

    # ---- statements
    def simple_stmt(self, depth=1):
        r = self.rng
        k = r.weighted([("let", 30), ("print", 30), ("lets", 8), ("arr", 8 if self.use_arrays else 0),
                        ("read", 6 if self.use_data else 0), ("restore", 2 if self.use_data else 0),
                        ("input", 5 if self.use_input else 0), ("rem", 2), ("bad", int(self.fault * 40)),
                        ("stop", 2 if self.use_stop else 0), ("dim", 3 if self.use_arrays else 0)])
        if k == "let":
            return r.choice(["", "LET "]) + f"{r.choice(NUMVARS)} = {self.num_expr(2)}"
        if k == "lets":
            return f"{r.choice(STRVARS)} = {self.str_expr()}"
        if k == "print":
            return self.print_stmt()
        if k == "arr":
            if r.chance(0.3):
                return f"M({self.small_index()},{self.small_index()}) = {self.num_expr(1)}"
            if r.chance(0.3):
                return f"T$({self.small_index()}) = {self.str_expr()}"
            return f"N({self.small_index()}) = {self.num_expr(1)}"
        if k == "read":
            self.data_count += 0
            n = r.below(2) + 1
            return "READ " + ",".join(r.choice(NUMVARS + STRVARS + ["N(I)"]) for _ in range(n))
        if k == "restore":
            return "RESTORE"
        if k == "input":
            self.input_count += 1
            return "INPUT " + r.choice(NUMVARS + STRVARS + (["N(1)", "N(I)"] if self.use_arrays else []))
        if k == "rem":
            return "REM " + r.choice(["note", "a:b", ""])
        if k == "stop":
            return "STOP"
        if k == "dim":
            return "DIM " + r.choice(["N(20)", "M(3,3)", "T$(5)", "Q(2,2,2)", "N(5)", "W(10000)", "V(99,99)"])
        return r.choice(["A = ", "PRINT (", "X = 1 +", "GOTO", "NEXT", "A$ = 1", "B = \"x\"", "PRINT 1/0", "FOR = 1",
                         "THEN", ")", "PRINT A$ + 1", "READ", "DEF", "LET 5 = 1", "RETURN", "NEXT Q", "X = Y$",
                         "GOTO 5", "GOSUB 7", "DIM", "N(1,2,3) = 1"])

    def print_stmt(self):
        r = self.rng
        n = r.below(3) + 1
        parts = []
        for i in range(n):
            parts.append(self.str_expr() if r.chance(0.3) else self.num_expr(1))
            if i < n - 1:
                parts.append(r.choice([";", ",", " ", ";"]))
        tail = r.choice(["", "", "", ";", ","])
        return r.choice(["PRINT ", "PRINT ", "? "]) + "".join(parts) + tail

    def emit(self, text):
        no = self.next_no
        self.lines.append((no, text))
        self.next_no += 10
        return no

    def stmt_line(self, depth=1):
        r = self.rng
        n = r.weighted([(1, 60), (2, 30), (3, 10)])
        return " : ".join(self.simple_stmt(depth) for _ in range(n))

    def block(self, depth, budget):
        """Emit a block of lines; returns nothing. Forward jumps are patched with real line numbers."""
        r = self.rng
        while budget > 0:
            k = r.weighted([("stmt", 45), ("for", 14 if depth > 0 else 0), ("if", 16), ("ifelse", 10),
                            ("gosub", 7 if self.subs_allowed else 0), ("ifgoto", 6), ("def", 4 if self.use_fn else 0),
                            ("data", 6 if self.use_data else 0)])
            budget -= 1
            if k == "stmt":
                self.emit(self.stmt_line(depth))
            elif k == "for":
                v = r.choice(["I", "J", "K"])
                step = r.choice(["", "", " STEP 1", " STEP 2", " STEP -1", " STEP .5"])
                if "-" in step:
                    hdr = f"FOR {v} = {r.choice(['3', '2', '5'])} TO {r.choice(['1', '0'])}{step}"
                else:
                    hdr = f"FOR {v} = {r.choice(['1', '0', '2'])} TO {r.choice(['2', '3', '1', '0', 'A'])}{step}"
                if r.chance(0.25):
                    self.emit(hdr + " : " + self.simple_stmt() + " : NEXT " + v)
                else:
                    self.emit(hdr)
                    self.block(depth - 1, r.below(3) + 1)
                    nv = v if not r.chance(self.fault) else r.choice(["I", "J", "K", "Q"])
                    self.emit("NEXT " + nv)
            elif k == "if":
                body = r.choice([self.simple_stmt(), self.simple_stmt() + " : " + self.simple_stmt()])
                self.emit(f"IF {self.cond()} THEN {body}")
            elif k == "ifelse":
                t = self.simple_stmt()
                e = r.choice([self.simple_stmt(), self.simple_stmt() + " : " + self.simple_stmt()])
                if self.nested_else and r.chance(0.3):
                    t = f"IF {self.cond()} THEN {self.simple_stmt()} ELSE {self.simple_stmt()}"
                self.emit(f"IF {self.cond()} THEN {t} ELSE {e}")
            elif k == "ifgoto":
                # forward jump over one line
                no = self.next_no
                form = r.choice(["THEN {t}", "THEN GOTO {t}", "THEN {t} ELSE PRINT \"E\"", "THEN PRINT \"T\" ELSE {t}",
                                 "THEN PRINT \"T\" ELSE GOTO {t}"])
                target = no + 20
                self.emit(f"IF {self.cond()} " + form.format(t=target))
                self.emit(self.stmt_line())
                self.emit(self.stmt_line())
            elif k == "gosub":
                if self.subs:
                    form = r.choice(["GOSUB {t}", "GOSUB {t} : PRINT \"BACK\"", "IF {c} THEN GOSUB {t}",
                                     "IF {c} THEN GOSUB {t} : PRINT \"R\""])
                    self.emit(form.format(t=r.choice(self.subs), c=self.cond()))
            elif k == "def":
                name = r.choice(["FNA", "FNB", "F", "SQ"])
                arity = r.choice([1, 1, 2])
                params = ["X", "Y"][:arity]
                body = r.choice(["X*X", "X+1", "X+A", "X/2", "ABS(X)-1", "X*Y" if arity == 2 else "X*3", "X+I"])
                if self.fns and r.chance(0.3):
                    inner = r.choice(self.fns)
                    body = f"{inner[0]}({','.join(['X'] * inner[1])})+1"
                self.emit(f"DEF {name}({','.join(params)}) = {body}")
                self.fns = [f for f in self.fns if f[0] != name] + [(name, arity)]
            elif k == "data":
                n = r.below(4) + 1
                items = [r.choice(["1", "2", "3.5", "-4", "abc", '"x y"', "7", "0", "hello", "1e2"]) for _ in range(n)]
                self.emit("DATA " + ", ".join(items) + r.choice(["", "", " : PRINT \"D\""]))

    def generate(self, size=8, subs=1):
        r = self.rng
        self.subs_allowed = subs > 0
        # subroutines live at 1000+
        self.subs = [1000 + 100 * i for i in range(subs)]
        self.block(2, size)
        self.emit(r.choice(["END", "END", "PRINT \"DONE\" : END", "GOTO 9999"]))
        main = self.lines
        self.lines = []
        for i, s in enumerate(self.subs):
            self.next_no = s
            self.subs_allowed = False
            self.block(1, r.below(2) + 1)
            self.emit("RETURN")
        subs_lines = self.lines
        self.lines = main + subs_lines + [(9999, "REM END")]
        return [f"{no} {text}" for no, text in self.lines]


def gen_reply(rng):
    return rng.choice(["1", "2", "0", "5", "3.5", "-1", "abc", "", " 7 ", "1,2", "4:5", '"q"', "x y", "1e2", "nan",
                       '"a,b"', ",", ":", "  ", "12abc", "é", "1 , 2", "+3"])
