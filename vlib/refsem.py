"""C03: programs behave as the reference interpreter (coq/Ref/RefSem.v, evaluated inside Coq) says.

Programs are generated as SYNTAX TREES and rendered twice: to numbered BASIC text (for the implementation and the
model) and to a Coq term (for the reference interpreter)."""
from . import core, sess
from .core import esc
from .stateful import enter_program

NUMS = ["0", "1", "2", "3", "5", "10", "0.5", "1.5", "2.5", "100", ".25", "7"]
STRS = ["A", "HI", "", "B C", "Z9"]
NVARS = ["A", "B", "C", "X", "Y", "K"]
SVARS = ["A$", "B$", "S$"]
LOOPV = ["I", "J", "L"]
ARR1 = ["N", "M1"]
CMPS = [("=", "CEq"), ("<", "CLt"), ("<=", "CLe"), (">", "CGt"), (">=", "CGe"), ("<>", "CNe")]


class G:
    def __init__(self, r, fault=0.05):
        self.r = r
        self.fault = fault
        self.fns = []          # (name, nparams) defined so far (in program order)
        self.sub_lines = []
        self.lines = []

    # ---- expressions: ("num", s) ("str", s) ("var", v) ("cell", a, [e]) ("neg", e) ("not", e) ("bin", op, a, b)
    #      ("abs", e) ("int", e) ("rnd", e) ("fn", f, [e])
    def num(self, d=2):
        r = self.r
        if d <= 0 or r.chance(0.35):
            k = r.weighted([("lit", 40), ("var", 35), ("loop", 15), ("cell", 10)])
            if k == "lit":
                return ("num", r.choice(NUMS))
            if k == "var":
                return ("var", r.choice(NVARS))
            if k == "loop":
                return ("var", r.choice(LOOPV))
            return ("cell", r.choice(ARR1), [("num", r.choice(["0", "1", "2", "3", "10"]))] if r.chance(0.7) else [("var", r.choice(LOOPV))])
        k = r.weighted([("arith", 50), ("neg", 6), ("paren_free", 0), ("abs", 5), ("int", 8), ("rnd", 5), ("fn", 8 if self.fns else 0),
                        ("cmp", 8), ("logic", 6), ("cell2", 4)])
        if k == "arith":
            op = r.choice(["+", "-", "*", "/"])
            if op == "/" and r.chance(0.85):
                return ("bin", op, self.num(d - 1), ("num", r.choice(["2", "2.5", "7", "0.5", "10"])))      # mostly a non-zero divisor
            return ("bin", op, self.num(d - 1), self.num(d - 1))
        if k == "neg":
            return ("neg", self.num(d - 1))
        if k == "abs":
            return ("abs", self.num(d - 1))
        if k == "int":
            return ("int", self.num(d - 1))
        if k == "rnd":
            return ("bin", "*", ("rnd", ("num", r.choice(["1", "1", "0"]))), ("num", "6"))
        if k == "fn":
            f, n = r.choice(self.fns)
            return ("fn", f, [self.num(d - 1) for _ in range(n)])
        if k == "cmp":
            return self.cond(d - 1)
        if k == "logic":
            return ("bin", r.choice(["AND", "OR"]), self.cond(d - 1), self.cond(d - 1))
        return ("cell", "M", [self.num(0), self.num(0)])

    def string(self):
        r = self.r
        return ("str", r.choice(STRS)) if r.chance(0.5) else ("var", r.choice(SVARS))

    def cond(self, d=1):
        r = self.r
        if r.chance(0.2):
            return ("bin", r.choice(CMPS)[0], self.string(), self.string())
        if r.chance(0.1):
            return ("not", self.num(d))
        return ("bin", r.choice(CMPS)[0], self.num(d), self.num(d))

    # ---- statements: tuples; see render_stmt
    def simple(self):
        r = self.r
        k = r.weighted([("let", 34), ("print", 30), ("lets", 8), ("letcell", 12), ("read", 8), ("restore", 2), ("gosub", 6 if self.sub_lines else 0)])
        if r.chance(self.fault):
            return r.choice([("let", "A", [], ("str", "X")), ("let", "A$", [], ("num", "1")), ("let", "N", [("num", "11")], ("num", "1")),
                             ("print", [("e", ("bin", "/", ("num", "1"), ("num", "0")))]), ("goto", 7777), ("next", "Q"), ("return",),
                             ("let", "N", [("neg", ("num", "1"))], ("num", "1")), ("dim", "N", [("num", "3")]), ("read", [("K", [])]),
                             ("print", [("e", ("rnd", ("neg", ("num", "1"))))]), ("let", "M", [("num", "1")], ("num", "1")),
                             ("print", [("e", ("bin", "+", ("num", "1"), ("str", "A")))])])
        if k == "let":
            return ("let", r.choice(NVARS), [], self.num(2))
        if k == "lets":
            return ("let", r.choice(SVARS), [], self.string())
        if k == "letcell":
            if r.chance(0.3):
                return ("let", "M", [self.num(0), self.num(0)], self.num(1))
            return ("let", r.choice(ARR1), [("num", r.choice(["0", "1", "2", "3"]))] if r.chance(0.6) else [("var", r.choice(LOOPV))], self.num(1))
        if k == "print":
            items = []
            for _ in range(1 + r.below(3)):
                # items are always separated: blanks are not separators (`PRINT J A$` is the variable JA$)
                items.append(("e", self.num(1) if r.chance(0.7) else self.string()))
                items.append((r.choice([";", ","]),))
                if r.chance(0.15):
                    items.append((r.choice([";", ","]),))
            if r.chance(0.6):
                items.pop()
            return ("print", items)
        if k == "read":
            return ("read", [(r.choice(NVARS + SVARS), []) for _ in range(1 + r.below(2))])
        if k == "restore":
            return ("restore",)
        return ("gosub", r.choice(self.sub_lines))

    def arm(self, targets):
        r = self.r
        if targets and r.chance(0.3):
            return ("line", r.choice(targets))
        return ("stmt", self.simple())

    def generate(self, size):
        r = self.r
        lines = []
        no = 10
        self.sub_lines = [1000, 1100] if r.chance(0.6) else []
        # optional prelude: DATA, DIM, DEF
        if r.chance(0.7):
            lines.append([no, [("data", [r.choice([("n", x) for x in NUMS[:8]] + [("s", "hello"), ("s", "x y"), ("n", "-3")]) for _ in range(1 + r.below(4))])]])
            no += 10
        if r.chance(0.5):
            lines.append([no, [("dim", "M", [("num", r.choice(["2", "3", "4"])), ("num", r.choice(["2", "3"]))])] +
                          ([("dim", "N", [("num", r.choice(["5", "12", "20"]))])] if r.chance(0.4) else [])])
            no += 10
        if r.chance(0.5):
            lines.append([no, [("def", "FNA", ["X"], ("bin", "+", ("bin", "*", ("var", "X"), ("num", "2")), ("var", "B")))]])
            self.fns.append(("FNA", 1))
            no += 10
            if r.chance(0.5):
                # dynamic scoping: FNB reads X, which is FNA's parameter while FNA's body runs
                lines.append([no, [("def", "FNB", ["Y"], ("bin", "-", ("var", "Y"), ("var", "X")))]])
                no += 10
                lines.append([no, [("def", "FNC", ["X", "Y"], ("bin", "+", ("fn", "FNB", [("var", "Y")]), ("var", "X")))]])
                self.fns += [("FNB", 1), ("FNC", 2)]
                no += 10
        body_start = no
        pending_next = []
        for_lines = {}
        guards = 0
        for _ in range(size):
            k = r.weighted([("simple", 40), ("multi", 15), ("if", 20), ("for", 12 if len(pending_next) < 2 else 0), ("next", 10 if pending_next else 0),
                            ("data", 3), ("backjump", 5 if pending_next and guards < 2 else 0)])
            if k == "backjump":
                # leave the loop nest through a guarded GOTO back to an enclosing FOR (once): the loops inside it are abandoned
                g = "G%d" % guards
                guards += 1
                target = for_lines[r.choice(pending_next)]
                lines.append([no, [("if", ("bin", "=", ("var", g), ("num", "0")), ("stmt", ("let", g, [], ("num", "1"))), None), ("goto", target)]])
                no += 10
                continue
            if k == "simple":
                lines.append([no, [self.simple()]])
            elif k == "multi":
                lines.append([no, [self.simple() for _ in range(2 + r.below(2))]])
            elif k == "data":
                lines.append([no, [("data", [("n", r.choice(NUMS[:6])), ("s", r.choice(["q", "r s"]))])]])
            elif k == "if":
                fwd = [no + 10 * (1 + r.below(3))]
                form = r.below(6)
                c = self.cond(1)
                if form == 0:
                    st = ("if", c, self.arm(fwd), None)
                elif form == 1:
                    st = ("if", c, self.arm(fwd), self.arm(fwd))
                elif form == 2:
                    st = ("if", c, ("line", fwd[0]), None)
                elif form == 3:
                    st = ("if", c, ("stmt", self.simple()), ("stmt", self.simple()))
                elif form == 4:
                    st = ("if", c, ("stmt", ("gosub", r.choice(self.sub_lines))) if self.sub_lines else ("stmt", self.simple()), ("stmt", self.simple()))
                else:
                    st = ("if", c, ("stmt", self.simple()), None)
                pre = [self.simple()] if r.chance(0.25) else []
                post = [self.simple() for _ in range(r.below(3))] if r.chance(0.4) else []
                lines.append([no, pre + [st] + post])
            elif k == "for":
                v = LOOPV[len(pending_next)]
                step = r.choice([None, None, ("num", "1"), ("num", "2"), ("neg", ("num", "1")), ("num", "0.5")])
                a, b = ("num", r.choice(["1", "0", "3"])), ("num", r.choice(["2", "3", "0", "4"]))
                stmts = [("for", v, a, b, step)]
                if r.chance(0.3):
                    stmts.append(self.simple())
                lines.append([no, stmts])
                pending_next.append(v)
                for_lines[v] = no
            else:
                v = pending_next.pop() if r.chance(0.85) else pending_next.pop(0)       # sometimes NEXT of the OUTER loop: forgets inner ones
                lines.append([no, [("next", v)] + ([self.simple()] if r.chance(0.2) else [])])
                if v != (pending_next[-1] if pending_next else None) and r.chance(0.5):
                    pending_next = [x for x in pending_next if x != v]
            no += 10
        while pending_next:
            lines.append([no, [("next", pending_next.pop())]])
            no += 10
        lines.append([no, [("print", [("e", ("str", "DONE"))]), ("end",)]])
        no += 10
        if self.sub_lines:
            lines.append([1000, [self.simple(), self.simple()] + ([("gosub", 1100)] if r.chance(0.4) else [])])
            lines.append([1010, [("return",)]])
            lines.append([1100, [self.simple()] + ([("gosub", 1100)] if r.chance(0.04) else [])])   # rarely: unbounded recursion -> depth 32
            lines.append([1110, [("return",)]])
        # forward targets that do not exist are kept (UNDEF'D STATEMENT) rarely; mostly retarget to existing lines
        existing = [l[0] for l in lines]
        def retarget(st):
            if st[0] == "if":
                return ("if", st[1], rt_arm(st[2]), rt_arm(st[3]) if st[3] else None)
            if st[0] == "goto" and st[1] not in existing and st[1] != 7777:
                return ("goto", min((x for x in existing if x > st[1]), default=existing[-1]))
            return st
        def rt_arm(a):
            if a[0] == "line" and a[1] not in existing and not r.chance(0.05):
                return ("line", min((x for x in existing if x > a[1]), default=existing[-1]))
            if a[0] == "stmt":
                return ("stmt", retarget(a[1]))
            return a
        self.lines = [[n, [retarget(s) for s in ss]] for n, ss in lines]
        return self.lines


# ---------------------------------------------------------------------------
# rendering to BASIC text

PREC = {"OR": 0, "AND": 1, "=": 2, "<": 2, "<=": 2, ">": 2, ">=": 2, "<>": 2, "+": 3, "-": 3, "*": 4, "/": 4}


def tx(e, lvl=0):
    k = e[0]
    if k == "num":
        return e[1]
    if k == "str":
        return '"' + e[1] + '"'
    if k == "var":
        return e[1]
    if k == "cell":
        return e[1] + "(" + ",".join(tx(x) for x in e[2]) + ")"
    if k == "neg":
        s = "-" + tx(e[1], 7)
        return s if lvl <= 6 else "(" + s + ")"
    if k == "not":
        s = "NOT " + tx(e[1], 7)
        return s if lvl <= 6 else "(" + s + ")"
    if k == "abs":
        return "ABS(" + tx(e[1]) + ")"
    if k == "int":
        return "INT(" + tx(e[1]) + ")"
    if k == "rnd":
        return "RND(" + tx(e[1]) + ")"
    if k == "fn":
        return e[1] + "(" + ",".join(tx(x) for x in e[2]) + ")"
    if k == "bin":
        p = PREC[e[1]]
        s = tx(e[2], p) + " " + e[1] + " " + tx(e[3], p + 1)
        return s if p >= lvl else "(" + s + ")"
    raise ValueError(e)


def tx_stmt(s):
    k = s[0]
    if k == "let":
        return s[1] + ("(" + ",".join(tx(x) for x in s[2]) + ")" if s[2] else "") + " = " + tx(s[3])
    if k == "print":
        return ("PRINT " + " ".join(tx(i[1]) if i[0] == "e" else i[0] for i in s[1])).rstrip()
    if k == "if":
        def arm(a):
            return str(a[1]) if a[0] == "line" else tx_stmt(a[1])
        return "IF " + tx(s[1]) + " THEN " + arm(s[2]) + (" ELSE " + arm(s[3]) if s[3] else "")
    if k == "goto":
        return "GOTO %d" % s[1]
    if k == "gosub":
        return "GOSUB %d" % s[1]
    if k == "return":
        return "RETURN"
    if k == "for":
        return "FOR %s = %s TO %s" % (s[1], tx(s[2]), tx(s[3])) + (" STEP " + tx(s[4]) if s[4] else "")
    if k == "next":
        return "NEXT " + s[1]
    if k == "read":
        return "READ " + ",".join(v + ("(" + ",".join(tx(x) for x in i) + ")" if i else "") for v, i in s[1])
    if k == "data":
        return "DATA " + ",".join(x[1] if x[0] == "n" else ('"' + x[1] + '"') for x in s[1])
    if k == "restore":
        return "RESTORE"
    if k == "dim":
        return "DIM " + s[1] + "(" + ",".join(tx(x) for x in s[2]) + ")"
    if k == "def":
        return "DEF " + s[1] + "(" + ",".join(s[2]) + ") = " + tx(s[3])
    if k == "end":
        return "END"
    if k == "rem":
        return "REM"
    raise ValueError(s)


def to_text(lines):
    return ["%d %s" % (n, " : ".join(tx_stmt(s) for s in ss)) for n, ss in lines]


# ---------------------------------------------------------------------------
# rendering to Coq (Ref.RefSem terms; helpers L S' V DN DS in Run/HarnessRef.v)

def cq(e):
    k = e[0]
    if k == "num":
        return 'L "%s"' % e[1]
    if k == "str":
        return "S' \"%s\"" % e[1]
    if k == "var":
        return 'V "%s"' % e[1]
    if k == "cell":
        return 'XCell (bs "%s") [%s]' % (e[1], "; ".join(cq(x) for x in e[2]))
    if k == "neg":
        return "XNeg (%s)" % cq(e[1])
    if k == "not":
        return "XNot (%s)" % cq(e[1])
    if k == "abs":
        return "XAbs (%s)" % cq(e[1])
    if k == "int":
        return "XInt (%s)" % cq(e[1])
    if k == "rnd":
        return "XRnd (%s)" % cq(e[1])
    if k == "fn":
        return 'XFn (bs "%s") [%s]' % (e[1], "; ".join(cq(x) for x in e[2]))
    if k == "bin":
        op = {"OR": "ROr", "AND": "RAnd", "+": "RAdd", "-": "RSub", "*": "RMul", "/": "RDiv"}.get(e[1]) or ("(RCmp %s)" % dict(CMPS)[e[1]])
        return "XBin %s (%s) (%s)" % (op, cq(e[2]), cq(e[3]))
    raise ValueError(e)


def cq_stmt(s):
    k = s[0]
    if k == "let":
        return 'SLet (bs "%s") [%s] (%s)' % (s[1], "; ".join(cq(x) for x in s[2]), cq(s[3]))
    if k == "print":
        return "SPrint [%s]" % "; ".join("PExpr (%s)" % cq(i[1]) if i[0] == "e" else ("PSemi" if i[0] == ";" else "PComma") for i in s[1])
    if k == "if":
        def arm(a):
            return "ALine %d%%N" % a[1] if a[0] == "line" else "AStmt (%s)" % cq_stmt(a[1])
        return "SIf (%s) (%s) %s" % (cq(s[1]), arm(s[2]), "(Some (%s))" % arm(s[3]) if s[3] else "None")
    if k == "goto":
        return "SGoto %d%%N" % s[1]
    if k == "gosub":
        return "SGosub %d%%N" % s[1]
    if k == "return":
        return "SReturn"
    if k == "for":
        return 'SFor (bs "%s") (%s) (%s) %s' % (s[1], cq(s[2]), cq(s[3]), "(Some (%s))" % cq(s[4]) if s[4] else "None")
    if k == "next":
        return 'SNext (bs "%s")' % s[1]
    if k == "read":
        return "SRead [%s]" % "; ".join('(bs "%s", [%s])' % (v, "; ".join(cq(x) for x in i)) for v, i in s[1])
    if k == "data":
        return "SData [%s]" % "; ".join(('DN "%s"' % x[1]) if x[0] == "n" else ('DS "%s"' % x[1]) for x in s[1])
    if k == "restore":
        return "SRestore"
    if k == "dim":
        return 'SDim (bs "%s") [%s]' % (s[1], "; ".join(cq(x) for x in s[2]))
    if k == "def":
        return 'SDef (bs "%s") [%s] (%s)' % (s[1], "; ".join('bs "%s"' % p for p in s[2]), cq(s[3]))
    if k == "end":
        return "SEnd"
    if k == "rem":
        return "SRem"
    raise ValueError(s)


def to_coq(lines):
    return "[" + "; ".join("(%d%%N, [%s])" % (n, "; ".join(cq_stmt(s) for s in ss)) for n, ss in sorted(lines)) + "]"


# ---------------------------------------------------------------------------

FIXED = [
    # exactly 32 open loops (the cap), then FOR lines are re-entered: the innermost (line 320) and the outermost (line 10);
    # re-entering a FOR forgets the old loop of that variable first, so neither overflows (missed seeded change C03-mut9:
    # the capacity test was moved in front of the forgetting)
    [[10 * k, [("for", "L%d" % k, ("num", "1"), ("num", "2"), None)]] for k in range(1, 33)] +
    [[330, [("let", "C", [], ("bin", "+", ("var", "C"), ("num", "1")))]],
     [335, [("if", ("bin", "<", ("var", "C"), ("num", "3")), ("stmt", ("goto", 320)), None)]],
     [340, [("let", "C", [], ("bin", "+", ("var", "C"), ("num", "10")))]],
     [345, [("if", ("bin", "<", ("var", "C"), ("num", "25")), ("stmt", ("goto", 10)), None)]],
     [350, [("print", [("e", ("var", "C"))]), ("end",)]]],
    # the manual's nested-loop example: NEXT I forgets the J loop
    [[10, [("for", "I", ("num", "1"), ("num", "2"), None)]], [20, [("for", "J", ("num", "1"), ("num", "2"), None)]],
     [30, [("print", [("e", ("var", "I")), (";",), ("e", ("var", "J"))])]], [40, [("next", "I")]], [50, [("next", "J")]]],
    # GOSUB in a colon line; a body that runs once although the limit is already passed; STEP and limit fixed at entry
    [[10, [("let", "A", [], ("num", "3")), ("gosub", 100), ("print", [("e", ("var", "A"))])]],
     [20, [("for", "I", ("num", "5"), ("num", "1"), None), ("print", [("e", ("var", "I"))]), ("next", "I")]],
     [30, [("let", "B", [], ("num", "2")), ("for", "J", ("num", "1"), ("var", "B"), ("var", "B")), ("let", "B", [], ("num", "9")),
           ("print", [("e", ("var", "J"))]), ("next", "J")]], [40, [("end",)]],
     [100, [("let", "A", [], ("bin", "+", ("var", "A"), ("num", "1"))), ("return",)]]],
    # implicit arrays 0..10, defaults, READ in line order, RESTORE, out of data
    [[10, [("print", [("e", ("cell", "N", [("num", "10")])), (";",), ("e", ("var", "U$")), (";",), ("e", ("var", "U"))])]],
     [20, [("data", [("n", "1"), ("s", "two")])]], [30, [("read", [("A", []), ("B$", [])]), ("print", [("e", ("var", "A")), (";",), ("e", ("var", "B$"))])]],
     [40, [("restore",), ("read", [("C", [])]), ("print", [("e", ("var", "C"))])]], [50, [("data", [("n", "3")])]],
     [60, [("read", [("A$", []), ("D", [])]), ("print", [("e", ("var", "A$")), (";",), ("e", ("var", "D"))])]], [70, [("read", [("E", [])])]],
     [80, [("print", [("e", ("cell", "N", [("num", "11")]))])]]],
    # dynamic scoping of DEF FN parameters; depth 32
    [[10, [("def", "FNB", ["Y"], ("bin", "-", ("var", "Y"), ("var", "X")))]], [20, [("def", "FNC", ["X", "Y"], ("bin", "+", ("fn", "FNB", [("var", "Y")]), ("var", "X")))]],
     [30, [("let", "X", [], ("num", "100")), ("print", [("e", ("fn", "FNC", [("num", "1"), ("num", "5")])), (";",), ("e", ("fn", "FNB", [("num", "5")]))])]],
     [40, [("gosub", 40)]]],
    # ELSE forms: transfer in THEN with an ELSE behind it, rest of line on the ELSE side
    [[10, [("let", "X", [], ("num", "1")), ("if", ("var", "X"), ("stmt", ("gosub", 100)), ("stmt", ("print", [("e", ("str", "NO"))]))), ("print", [("e", ("str", "REST"))])]],
     [20, [("if", ("num", "0"), ("stmt", ("print", [("e", ("str", "T"))])), ("stmt", ("print", [("e", ("str", "E"))]))), ("print", [("e", ("str", "AFTER"))])]],
     [30, [("if", ("num", "0"), ("stmt", ("print", [("e", ("str", "T"))])), None), ("print", [("e", ("str", "SKIPPED"))])]], [40, [("end",)]],
     [100, [("print", [("e", ("str", "SUB"))]), ("return",)]]],
    # re-entering an outer FOR from inside an inner loop abandons the inner loop: its NEXT then has no FOR
    [[10, [("for", "I", ("num", "1"), ("num", "2"), None)]], [20, [("if", ("bin", "=", ("var", "K"), ("num", "1")), ("line", 50), None)]],
     [30, [("for", "J", ("num", "1"), ("num", "2"), None)]], [40, [("let", "K", [], ("num", "1")), ("goto", 10)]],
     [50, [("print", [("e", ("str", "BEFORE"))])]], [60, [("next", "J")]], [70, [("print", [("e", ("str", "NOT REACHED"))])]]],
    [[10, [("for", "I", ("num", "1"), ("num", "3"), None)]], [20, [("for", "J", ("num", "1"), ("num", "2"), None)]], [30, [("for", "L", ("num", "1"), ("num", "2"), None)]],
     [40, [("if", ("bin", "=", ("var", "G0"), ("num", "0")), ("stmt", ("let", "G0", [], ("num", "1"))), None), ("goto", 20)]],
     [50, [("print", [("e", ("var", "I")), (";",), ("e", ("var", "J")), (";",), ("e", ("var", "L"))])]], [60, [("next", "L")]], [70, [("next", "J")]], [80, [("next", "I")]]],
    # 3-dimensional strides and DIM bounds
    [[10, [("dim", "Q", [("num", "1"), ("num", "2"), ("num", "3")])]], [20, [("let", "Q", [("num", "1"), ("num", "2"), ("num", "3")], ("num", "7")), ("let", "Q", [("num", "0"), ("num", "1"), ("num", "0")], ("num", "5"))]],
     [30, [("print", [("e", ("cell", "Q", [("num", "1"), ("num", "2"), ("num", "3")])), (";",), ("e", ("cell", "Q", [("num", "0"), ("num", "1"), ("num", "0")])), (";",), ("e", ("cell", "Q", [("num", "1"), ("num", "0"), ("num", "0")]))])]],
     [40, [("print", [("e", ("cell", "Q", [("num", "1"), ("num", "3"), ("num", "0")]))])]]],
    # the GOSUB that overflows sits on another line than its target: the error belongs to the GOSUB's line
    [[10, [("gosub", 100)]], [20, [("end",)]], [100, [("let", "N", [], ("bin", "+", ("var", "N"), ("num", "1")))]],
     [110, [("print", [("e", ("var", "N")), (";",)])]], [120, [("gosub", 100)]]],
    # a subscript too large in an EARLIER dimension whose offset still falls inside the array
    [[10, [("dim", "A", [("num", "2"), ("num", "3")])]], [20, [("let", "A", [("num", "0"), ("num", "1")], ("num", "4"))]],
     [30, [("let", "A", [("num", "3"), ("num", "0")], ("num", "7"))]], [40, [("print", [("e", ("cell", "A", [("num", "0"), ("num", "1")]))])]]],
]

KIND = {"TypeMismatch": "TypeMismatch", "DivisionByZero": "DivisionByZero", "OutOfData": "OutOfData", "DataTypeMismatch": "DataTypeMismatch",
        "BadSubscript": "BadSubscript", "IllegalQuantity": "IllegalQuantity", "OutOfMemory(StackOverflow)": "OutOfMemory(StackOverflow)",
        "OutOfMemory(ArrayTooLarge)": "OutOfMemory(ArrayTooLarge)", "RedimensionedArray": "RedimensionedArray",
        "UndefinedStatement": "UndefinedStatement", "ReturnWithoutGosub": "ReturnWithoutGosub", "NextWithoutFor": "NextWithoutFor",
        "Unimplemented": "Unimplemented"}


def observed(s, start):
    """Transcript of the implementation run: printed records, then how it ended."""
    outs = []
    end = "running"
    for op, row in s.ops[start:]:
        if row.kind != "row":
            return None
        for o in row.outputs():
            if o.startswith("P"):
                outs.append(o[1:])
        if row.outcome.startswith("err:"):
            body = row.outcome[4:]
            kind, _, loc = body.rpartition("@")
            line = loc.split(".")[0]
            kind = "Syntax" if kind.startswith("Syntax(") else kind
            end = kind + "@" + (line if line != "imm" else "0")
            break
        if row.state == "Idle":
            end = "end"
    return ";".join(outs) + "|" + end


REF_HEADER = core.HEADER.replace("Run.Harness.", "Run.Harness Ref.RefSem Run.HarnessRef.")


def run_c03(chk):
    from .props import session_correspondence, session_replay
    h = core.Harness(chk.harness_path)
    n = 150 if chk.tier == "quick" else 5000
    cases = []
    sessions = []
    for i in range(n + len(FIXED)):
        r = chk.rng.fork(("c03", i))
        if i < len(FIXED):
            lines = FIXED[i]
        else:
            lines = G(r, fault=r.choice([0.0, 0.03, 0.08])).generate(4 + r.below(10))
        text = to_text(lines)
        seed = r.below(2 ** 33)
        s = sess.Session(h)
        s.rand(seed)
        enter_program(s, text)
        start = len(s.ops)
        s.line("RUN")
        s.run_until_idle(replies=[], max_turns=1500)
        obs = observed(s, start)
        rep = dict(session_replay(s), program=text)
        if obs is None:
            chk.fail("crash", "the implementation crashed on " + "; ".join(text)[:200], rep)
            continue
        for _, row in s.ops:
            if row.kind == "row" and row.outcome.startswith("err:Syntax"):
                chk.count("generator:syntax-error")
        if obs.endswith("|running"):
            chk.count("still-running")          # not compared: the two interpreters count steps differently
            continue
        chk.count("end:" + obs.rpartition("|")[2].split("@")[0])
        cases.append((seed, lines, text, obs, rep))
        sessions.append(s.ops)
        chk.case(tuple(text), nontrivial=len(text) > 3, sample={"program": text[:6], "transcript": obs[:160]})
    h.close()
    # the reference interpreter, evaluated inside Coq, must produce exactly these transcripts
    shard = 12
    shards = []
    for k in range(0, len(cases), shard):
        rows = ["(%d%%N, 6000%%nat, %s, %s)" % (seed, to_coq(lines), core.coq_str(obs)) for seed, lines, text, obs, rep in cases[k:k + shard]]
        body = "Definition cases : list (N * nat * rprogram * string) := [\n" + ";\n".join(rows) + "].\n"
        body += "Eval vm_compute in ref_failing cases.\n"
        shards.append(body)
    results, paths = core.run_coq_shards("C03-reference", shards, header=REF_HEADER, timeout=1500)
    bad, errors = [], []
    for k, ((rc, out), path) in enumerate(zip(results, paths)):
        if rc != 0:
            errors.append(f"{path}: coqc exit {rc}: {out[-800:]}")
            continue
        lists = core.parse_N_list(out)
        if len(lists) != 1:
            errors.append(f"{path}: unparsable output {out[-400:]}")
            continue
        bad += [cases[k * shard + idx] for idx in lists[0]]
    chk.disagreements_checked += len(cases)
    chk.programs += len(cases)
    chk.oblige(f"oracle[C03-reference]: reference interpreter (Ref/RefSem.v, evaluated in Coq) = implementation transcript on {len(cases)} programs",
               not errors, " ".join(errors)[:600])
    if errors:
        chk.broke("evaluation of the reference interpreter (Ref/RefSem.v)", errors[0][:1500])
    for seed, lines, text, obs, rep in bad[:8]:
        # what the reference says
        body = "Eval vm_compute in ref_show (%d%%N, 6000%%nat, %s, %s).\n" % (seed, to_coq(lines), core.coq_str(obs))
        (rc, out), = core.run_coq_shards("C03-reference-show", [body], header=REF_HEADER, timeout=600)[0]
        want = out.strip().split("=", 1)[-1].strip()[:300]
        chk.fail("differs-from-reference", f"program {'; '.join(text)[:260]} : implementation {obs[:200]!r} but the reference interpreter says {want}", rep)
    session_correspondence(chk, "C03-programs", sessions, ["outcome", "state", "outputs"], shard_size=6)
