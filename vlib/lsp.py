"""C20: the language server (the real abasic-lsp binary over stdio)."""
import json
import os
import select
import subprocess
import time

from . import core, gen, files
from .core import esc


class LspClient:
    def __init__(self, binary):
        self.p = subprocess.Popen([binary], stdin=subprocess.PIPE, stdout=subprocess.PIPE, stderr=subprocess.DEVNULL,
                                  env=dict(os.environ, RUST_BACKTRACE="0"))
        self.buf = b""
        self.next_id = 1
        self.pending = []      # messages read but not yet consumed

    def send(self, obj):
        body = json.dumps(obj).encode("utf-8")
        try:
            self.p.stdin.write(b"Content-Length: %d\r\n\r\n" % len(body) + body)
            self.p.stdin.flush()
            return True
        except (BrokenPipeError, OSError):
            return False

    def _read_message(self, timeout):
        deadline = time.time() + timeout
        fd = self.p.stdout.fileno()
        while True:
            idx = self.buf.find(b"\r\n\r\n")
            if idx >= 0:
                head = self.buf[:idx].decode("ascii", "replace")
                n = None
                for h in head.split("\r\n"):
                    if h.lower().startswith("content-length:"):
                        n = int(h.split(":")[1])
                if n is not None and len(self.buf) >= idx + 4 + n:
                    body = self.buf[idx + 4:idx + 4 + n]
                    self.buf = self.buf[idx + 4 + n:]
                    return json.loads(body.decode("utf-8"))
            left = deadline - time.time()
            if left <= 0:
                return None
            r, _, _ = select.select([fd], [], [], left)
            if not r:
                return None
            chunk = os.read(fd, 65536)
            if not chunk:
                return None
            self.buf += chunk

    def wait_for(self, pred, timeout=20):
        for i, m in enumerate(self.pending):
            if pred(m):
                return self.pending.pop(i)
        deadline = time.time() + timeout
        while time.time() < deadline:
            m = self._read_message(deadline - time.time())
            if m is None:
                return None
            if pred(m):
                return m
            self.pending.append(m)
        return None

    def request(self, method, params, timeout=20):
        i = self.next_id
        self.next_id += 1
        if not self.send({"jsonrpc": "2.0", "id": i, "method": method, "params": params}):
            return None
        return self.wait_for(lambda m: m.get("id") == i and "method" not in m, timeout)

    def notify(self, method, params):
        return self.send({"jsonrpc": "2.0", "method": method, "params": params})

    def initialize(self):
        r = self.request("initialize", {"processId": None, "rootUri": None, "capabilities": {}})
        self.notify("initialized", {})
        return r

    def alive(self):
        return self.p.poll() is None

    def shutdown(self):
        r = self.request("shutdown", None, timeout=10)
        self.notify("exit", None)
        try:
            rc = self.p.wait(timeout=10)
        except subprocess.TimeoutExpired:
            self.p.kill()
            rc = "timeout"
        return r, rc

    def kill(self):
        try:
            self.p.kill()
        except OSError:
            pass


def u16(s):
    return len(s.encode("utf-16-le")) // 2


def u16_col(line_bytes, off):
    """UTF-16 units of the characters that start before byte offset `off`."""
    n = 0
    for i, b in enumerate(line_bytes[:off]):
        if (b & 0xC0) != 0x80:
            n += 2 if b >= 0xF0 else 1
    return n


LSP_TEXTS = ['20 PRINT "é" + 1', '10 PRINT "éé" + 1\n20 X% = 1', "10 REM ünïcödé 💥\n20 PRINT \"💥\";A$ : GOTO 99", "10 PRINT é", "10 X = 1\n10",
             '10 PRINT 1 +\n10 PRINT "', "", "\n", "10 PRINT 1\r\n20 PRINT \"é\" + 1\r\n", "18446744073709551615 PRINT 1",
             "10 DATA é, \"ü\", 💥 : PRINT \"ü\" + 1", "PRINT 1\n\n  REM no number\n30 PRINT \"日本\";Q(1", "10 A$ = \"💥💥\" : B = A$",
             "10 PRINT " + "(" * 300 + "1"]


def expected_from_analysis(text, a):
    """What the server must publish for `text`, computed from the analyzer's own answer (harness, in process)
    with UTF-16 columns computed here, independently."""
    lines = [l.encode("utf-8") for l in text.split("\n")]
    diags = []
    for m in a["messages"]:
        if m["mapped"] in ("none", "PANIC"):
            continue
        ml, _, rg = m["mapped"].partition(".")
        s, _, e = rg.partition("-")
        ml, s, e = int(ml), int(s), int(e)
        lb = lines[ml] if ml < len(lines) else b""
        diags.append((ml, u16_col(lb, s), u16_col(lb, e), 2 if m["kind"] == "W" else 1))
    toks = []
    for i, ts in enumerate(a["tokens"]):
        lb = lines[i] if i < len(lines) else b""
        for ty, x, y in ts:
            toks.append((i, u16_col(lb, x), u16_col(lb, y) - u16_col(lb, x), ty))
    return diags, toks


TOKEN_TYPE_INDEX = {"Symbol": 0, "String": 1, "Number": 2, "Operator": 3, "Comment": 4, "Keyword": 5, "Delimiter": 6, "Data": 7}


def run_c20(chk):
    _, lsp_bin = core.build_repo_bins()
    h = core.Harness(chk.harness_path)
    n = 36 if chk.tier == "quick" else 600
    model_cases = []
    for i in range(n):
        r = chk.rng.fork(("c20", i))
        c = LspClient(lsp_bin)
        script = []
        rep = {"server_script": script}
        init = c.initialize()
        if init is None or "result" not in init:
            chk.fail("lsp-no-initialize", f"no answer to initialize: {init}", rep)
            c.kill()
            continue
        legend = init["result"].get("capabilities", {}).get("semanticTokensProvider", {}).get("legend", {}).get("tokenTypes", [])
        docs = {}
        nops = 3 + r.below(6)
        ok = True
        for k in range(nops):
            uri = "file:///doc%d.bas" % r.below(2)
            if k < len(LSP_TEXTS) and i == 0:
                text = LSP_TEXTS[k]
            elif r.chance(0.35):
                text = r.choice(LSP_TEXTS)
            else:
                text = files.join_file(r, files.gen_file(r))
            kind = "didOpen" if uri not in docs else r.weighted([("didChange", 65), ("reopen", 15), ("close-reopen", 20)])
            if kind == "close-reopen":
                # the document is closed and opened again with another text (rewritten on disk while closed)
                c.notify("textDocument/didClose", {"textDocument": {"uri": uri}})
                script.append({"op": "didClose", "uri": uri})
            if kind in ("reopen", "close-reopen"):
                kind = "didOpen"
            if kind == "didOpen":
                c.notify("textDocument/didOpen", {"textDocument": {"uri": uri, "languageId": "basic", "version": 1, "text": text}})
            else:
                c.notify("textDocument/didChange", {"textDocument": {"uri": uri, "version": k + 2}, "contentChanges": [{"text": text}]})
            script.append({"op": kind, "uri": uri, "text": text})
            docs[uri] = text
            pub = c.wait_for(lambda m: m.get("method") == "textDocument/publishDiagnostics" and m["params"]["uri"] == uri, timeout=30)
            if pub is None:
                chk.fail("lsp-dead" if not c.alive() else "lsp-no-diagnostics",
                         f"no publishDiagnostics for {kind} of {text[:80]!r} (server alive: {c.alive()})", rep)
                ok = False
                break
            flines = text.split("\n")
            got = []
            for d in pub["params"]["diagnostics"]:
                rg = d["range"]
                ln, sc, ec = rg["start"]["line"], rg["start"]["character"], rg["end"]["character"]
                got.append((ln, sc, ec, d.get("severity")))
                if rg["end"]["line"] != ln or ln >= len(flines):
                    chk.fail("lsp-diagnostic-line-out-of-document", f"diagnostic on line {ln}..{rg['end']['line']} of a {len(flines)}-line document {text[:60]!r}", rep)
                    continue
                width = u16(flines[ln])
                if not (sc <= ec <= width):
                    chk.fail("lsp-diagnostic-column-out-of-line",
                             f"diagnostic columns {sc}..{ec} on line {ln} = {flines[ln]!r:.80} which has {width} UTF-16 units", rep)
            # the diagnostics are the analyzer's messages for the LATEST text
            resp = h.cmd("analyze", esc(text.encode("utf-8")))
            a = files.parse_analysis(resp)
            if a is not None:
                want_d, want_t = expected_from_analysis(text, a)
                if sorted(got) != sorted(want_d):
                    chk.fail("lsp-diagnostics-differ-from-analyzer",
                             f"published {sorted(got)[:6]} but the analyzer's messages for {text[:60]!r} give {sorted(want_d)[:6]}", rep)
            chk.count("diagnostics", len(got))
            # semantic tokens
            if r.chance(0.8):
                st = c.request("textDocument/semanticTokens/full", {"textDocument": {"uri": uri}}, timeout=30)
                script.append({"op": "semanticTokens", "uri": uri})
                if st is None or "result" not in st or st["result"] is None:
                    chk.fail("lsp-dead" if not c.alive() else "lsp-no-tokens", f"no semantic tokens for {text[:80]!r}: {st}", rep)
                    ok = c.alive()
                    if not ok:
                        break
                    continue
                data = st["result"]["data"]
                if len(data) % 5:
                    chk.fail("lsp-token-encoding", f"token data of length {len(data)}", rep)
                    continue
                line, col, dec = 0, 0, []
                for j in range(0, len(data), 5):
                    dl, ds, ln_, ty, mod = data[j:j + 5]
                    if dl:
                        line += dl
                        col = ds
                    else:
                        col += ds
                    dec.append((line, col, ln_, ty))
                    if ty >= len(legend):
                        chk.fail("lsp-token-type-not-in-legend", f"token type {ty} with a legend of {len(legend)}", rep)
                    if dl < 0 or ds < 0 or dl > 10 ** 8 or ds > 10 ** 8:
                        chk.fail("lsp-token-underflow", f"delta {dl},{ds}", rep)
                prev = None
                for (l_, c_, n_, _t) in dec:
                    if l_ >= len(flines) or c_ + n_ > u16(flines[l_]):
                        chk.fail("lsp-token-out-of-line", f"token at {l_}:{c_}+{n_} in {text[:60]!r} (line has {u16(flines[l_]) if l_ < len(flines) else None} units)", rep)
                        break
                    if prev and (l_, c_) < (prev[0], prev[1] + prev[2]):
                        chk.fail("lsp-tokens-overlap", f"token at {l_}:{c_} after {prev}", rep)
                        break
                    prev = (l_, c_, n_)
                if a is not None:
                    want = [(l_, c_, n_, TOKEN_TYPE_INDEX.get(ty_, 99)) for (l_, c_, n_, ty_) in want_t]
                    if dec != want:
                        chk.fail("lsp-tokens-differ-from-analyzer", f"decoded {dec[:6]} vs analyzer {want[:6]} for {text[:60]!r}", rep)
                chk.count("tokens", len(dec))
                model_cases.append((text, sorted(got), data))
            else:
                model_cases.append((text, sorted(got), None))
            chk.case((uri, text), nontrivial=len(text) > 0, sample={"op": kind, "text": text[:120], "diagnostics": got[:4]})
        if ok:
            # liveness: a last request is answered, shutdown/exit end the process with status 0
            unknown = c.request("textDocument/semanticTokens/full", {"textDocument": {"uri": "file:///never-opened.bas"}}, timeout=20)
            if unknown is None or "error" not in unknown:
                chk.fail("lsp-unknown-document", f"request for a document never sent: {unknown}", rep)
            r_, rc = c.shutdown()
            if rc != 0:
                chk.fail("lsp-exit-status", f"exit status {rc} after shutdown/exit", rep)
        else:
            c.kill()
        chk.count("server-scripts")
    h.close()
    lsp_correspondence(chk, model_cases)


LSP_HEADER = core.HEADER.replace("Run.Harness.", "Run.Harness Model.Analyzer Model.Lsp Run.HarnessFiles.")


def lsp_correspondence(chk, cases, shard=40):
    """The model's diagnostics and token data for each text = what the server sent."""
    cases = [c for c in cases if len(c[0]) < 3000]
    shards = []
    for i in range(0, len(cases), shard):
        chunk = cases[i:i + shard]
        rows = []
        for text, diags, data in chunk:
            d = ";".join(sorted(("%d.%d.%d.%d" % tuple(x) for x in diags), key=lambda z: z.encode()))
            t = "-" if data is None else ",".join(str(x) for x in data)
            rows.append(f"({core.coq_str(esc(text.encode('utf-8')))}, ({core.coq_str(d)}, {core.coq_str(t)}))")
        body = "Definition cases : list (string * (string * string)) := [\n" + ";\n".join(rows) + "].\n"
        body += "Eval vm_compute in lsp_failing cases.\n"
        shards.append(body)
    results, paths = core.run_coq_shards("C20-lsp", shards, header=LSP_HEADER)
    bad, errors = [], []
    for k, ((rc, out), path) in enumerate(zip(results, paths)):
        if rc != 0:
            errors.append(f"{path}: coqc exit {rc}: {out[-800:]}")
            continue
        lists = core.parse_N_list(out)
        if len(lists) != 1:
            errors.append(f"{path}: unparsable output {out[-400:]}")
            continue
        bad += [cases[k * shard + idx] for idx in lists[0]]
    chk.disagreements_checked += len(cases)
    ok = not bad and not errors
    chk.oblige(f"correspondence[C20-lsp]: model diagnostics_of / semantic_tokens_of = abasic-lsp answers on {len(cases)} documents", ok,
               (f"{len(bad)} disagreements, e.g. {bad[0][0][:120]!r} -> {bad[0][1][:4]} / {str(bad[0][2])[:80]}" if bad else "") + " ".join(errors)[:500])
    if not ok:
        rep = {"document": bad[0][0], "server_diagnostics": bad[0][1], "server_token_data": bad[0][2]} if bad else None
        chk.broke("correspondence C20-lsp (Model/Lsp.v vs abasic-lsp)", (errors or [f"{len(bad)} documents disagree"])[0][:1500], rep)
