"""Per-property checks: correspondence (model vs implementation, computed in Coq)
and implementation-side oracles that produce concrete failing inputs."""
import itertools

from . import core, gen, sess
from .core import esc, coq_str, log

BASIC_WS = b" \t\x0c\r"

TB_COMMON = [
    "Coq 8.16.1 kernel (coqc, incl. its bytecode VM: vm_compute is used for finite table facts and Examples); no native_compute",
    "tools/gen_tables.py: regular-expression translator Rust/TS -> coq/Gen/Tables.v (fails closed on unknown shapes); further passes translate random.rs (method by method), DimArray::new / get_linear_index of arrays.rs (statement by statement), ProgramLines first/after/has/get/set (call by call) and the order of cap tests in program.rs into coq/Gen/RandomRs.v, ArraysRs.v, ProgramLinesRs.v, ProgramEvents.v; the meaning given to that Rust fragment is coq/Model/RustInt.v (u64 = usize arithmetic, overflow = panic, checked_*().ok_or(e)? = error) and coq/Model/RustColl.v (BTreeSet = ascending key list, HashMap = association list)",
    "correspondence check: Rust harness (/verif/harness) + hooks (--cfg abasic_verif) + vlib/*.py + coq/Run/Harness.v; differential testing, not proof",
    "hand-written Gallina model of abasic-core (coq/Model/*.v): modelled, tied by correspondence only; the Rust is not proved to refine it",
    "Model/Num.v: IEEE-754 binary64 over Coq's SpecFloat (axiom-free), Rust float parsing/printing re-specified and validated on 32k vectors",
    "f64::powf is an oracle (values logged from the implementation)",
    "rustc/cargo as installed; Python 3 orchestration",
]

ASSUME_COMMON = [
    "texts are valid UTF-8 (Rust &str)", "usize is 64 bits (native harness); wasm32 not executed",
    "model fuel (3000) exceeds the nesting depth and loop lengths of generated inputs",
]


# ---------------------------------------------------------------------------
# shared helpers

def parse_tok_resp(resp):
    """harness `tok` response -> (tokens [(canon, a, b)], err or None, panicked)"""
    if resp.startswith("panic\t") or resp.startswith("abort"):
        return None, resp, True
    toks_s, _, err = resp.partition("\t")
    toks = []
    if toks_s:
        for item in toks_s.split(";"):
            canon, _, rng = item.rpartition("@")
            a, _, b = rng.partition("-")
            toks.append((canon, int(a), int(b)))
    return toks, (err or None), False


def lexer_correspondence(chk, name, cases, shard=1500):
    """cases: list of (skip, bytes, harness response). Compares with the model inside Coq."""
    shards = []
    for i in range(0, len(cases), shard):
        chunk = cases[i:i + shard]
        body = "Definition cases : list (nat * string * string) := [\n" + ";\n".join(
            f"({skip}%nat, {coq_str(esc(b))}, {coq_str(resp)})" for skip, b, resp in chunk) + "].\n"
        body += "Eval vm_compute in tok_failing cases.\n"
        shards.append(body)
    results, paths = core.run_coq_shards(name, shards)
    bad = []
    errors = []
    for k, ((rc, out), path) in enumerate(zip(results, paths)):
        if rc != 0:
            errors.append(f"{path}: coqc exit {rc}: {out[-800:]}")
            continue
        lists = core.parse_N_list(out)
        if len(lists) != 1:
            errors.append(f"{path}: unparsable output {out[-400:]}")
            continue
        for idx in lists[0]:
            bad.append(cases[k * shard + idx])
    chk.disagreements_checked += len(cases)
    ok = not bad and not errors
    chk.oblige(f"correspondence[{name}]: model tokenizer = implementation tokenizer on {len(cases)} inputs (tokens, ranges, errors)",
               ok, (f"{len(bad)} disagreements, e.g. {bad[0][1]!r} skip={bad[0][0]} impl={bad[0][2][:200]!r}" if bad else "") + " ".join(errors)[:500])
    if not ok:
        rep = None
        if bad:
            skip, b, resp = bad[0]
            rep = {"input": b.decode("utf-8", "replace"), "skip": skip, "implementation": resp,
                   "harness_commands": [f"tok\t{skip}\t{esc(b)}"]}
        chk.broke(f"correspondence {name} (Model/Lexer.v tokenize vs abasic-core tokenizer)", (errors or [""])[0][:1500] or f"{len(bad)} inputs disagree", rep)
    return bad


def session_correspondence(chk, name, sessions, fields, timeout=1500, shard_size=10):
    n, dis, errs = sess.compare_sessions(name, sessions, fields, shard_size=shard_size, timeout=timeout)
    chk.disagreements_checked += n
    chk.programs += n
    ok = not dis and not errs
    detail = ""
    if dis:
        d = dis[0]
        detail = f"{len(dis)} sessions disagree; first: case {d['case']} op#{d['op_index']} {d['op']} field {d['field']}: model={d['model'][:200]!r} impl={str(d['observed'])[:200]!r}"
    if errs:
        detail += " | " + errs[0][:600]
    chk.oblige(f"correspondence[{name}]: model rows = implementation rows on {n} sessions (fields: {','.join(fields)})", ok, detail)
    if not ok:
        rep = None
        if dis:
            d = dis[0]
            ops = sessions[d["case"]]
            cmds = []
            for op, _ in ops:
                if op[0] in ("line", "reply"):
                    cmds.append(op[0] + "\t" + esc(op[1]))
                elif op[0] == "flags":
                    cmds.append(f"flags\t{int(op[1])}\t{int(op[2])}")
                elif op[0] == "rand":
                    cmds.append(f"rand\t{op[1]}")
                else:
                    cmds.append(op[0])
            rep = {"disagreement": d, "harness_commands": cmds[: d["op_index"] + 2]}
        chk.broke(f"correspondence {name} (Model/Interp.v step vs abasic-core Interpreter)", detail[:1500], rep)
    return dis


def session_replay(s, upto=None):
    cmds = s.commands()
    return {"harness_commands": cmds if upto is None else cmds[:upto]}


# ---------------------------------------------------------------------------
# C13

def c13_oracle(chk, h, line, skip, resp):
    toks, err, panicked = parse_tok_resp(resp)
    rep = {"input": line.decode("utf-8", "replace"), "skip": skip, "harness_commands": [f"tok\t{skip}\t{esc(line)}"], "response": resp[:500]}
    if panicked:
        chk.fail("tokenizer-panic", f"tokenizer panicked on {line!r}", rep)
        return
    n = len(line)

    def boundary(i):
        return i == 0 or i == n or (i < n and (line[i] & 0xC0) != 0x80)

    prev = skip
    for canon, a, b in toks:
        if not (prev <= a < b <= n):
            chk.fail("range-order", f"token range {a}-{b} out of order/bounds in {line!r}", rep)
            return
        prev = b
        if not (boundary(a) and boundary(b)):
            chk.fail("range-boundary", f"token range {a}-{b} splits a character in {line!r}", rep)
            return
        if line[a] in BASIC_WS:
            chk.fail("range-blank-start", f"token range {a}-{b} starts on a blank in {line!r}", rep)
            return
        is_rem = canon.startswith("Remark[")
        is_data = canon.startswith("Data[")
        if not (is_rem or is_data) and line[b - 1] in BASIC_WS:
            chk.fail("range-blank-end", f"token range {a}-{b} ends on a blank in {line!r}", rep)
            return
        if is_rem and b != n:
            chk.fail("range-rem-end", f"REM range {a}-{b} does not extend to the end of {line!r}", rep)
            return
        if is_data and not (b == n or line[b:b + 1] == b":"):
            chk.fail("range-data-end", f"DATA range {a}-{b} does not extend to the end of its text in {line!r}", rep)
            return
        # re-tokenization of the slice
        sl = line[a:b]
        r2 = h.cmd("tok", 0, esc(sl))
        t2, e2, p2 = parse_tok_resp(r2)
        chk.count("retokenized")
        if p2 or e2 or len(t2) != 1 or t2[0] != (canon, 0, b - a):
            chk.fail("range-retok", f"re-tokenizing {sl!r} (range {a}-{b} of {line!r}) gives {r2[:200]!r}, expected single {canon}", rep)
            return
    if err:
        kind, _, pos = err.partition("@")
        p = int(pos.split("-")[0])
        if not (skip <= p < n):
            chk.fail("error-position", f"error position {p} outside {line!r}", rep)
            return
        if toks and toks[-1][2] > p:
            chk.fail("error-before", f"a token ends after the error position {p} in {line!r}", rep)
            return
        if boundary(p):
            r2 = h.cmd("tok", skip, esc(line[:p]))
            t2, e2, p2 = parse_tok_resp(r2)
            if p2 or e2 or t2 != toks:
                chk.fail("error-prefix", f"text before the error position {p} of {line!r} does not tokenize to the tokens reported before the error: {r2[:200]!r}", rep)


C13_ALPHABET = [b"A", b"TO", b"1", b".", b'"', b"<", b">", b"=", b" ", b"$", b"REM", b"DATA", b":", "é".encode(), b",", b"x", b"\t", b"GO", b"SUB", b"-"]


def run_c13(chk):
    h = core.Harness(chk.harness_path)
    rng = chk.rng
    cases = []
    seen = set()

    def one(line, skip=0):
        if (line, skip) in seen:
            return
        seen.add((line, skip))
        resp = h.cmd("tok", skip, esc(line))
        toks, err, _ = parse_tok_resp(resp)
        chk.case((line, skip), nontrivial=bool(toks), sample={"line": line.decode("utf-8", "replace"), "skip": skip, "impl": resp[:200]})
        chk.count("err:" + (err.split("@")[0] if err else "none"))
        chk.count("len<=8" if len(line) <= 8 else "len<=24" if len(line) <= 24 else "len>24")
        cases.append((skip, line, resp))
        c13_oracle(chk, h, line, skip, resp)

    # exhaustive small scope
    depth = 3 if chk.tier == "quick" else 4
    alpha = C13_ALPHABET[:14] if chk.tier == "quick" else C13_ALPHABET
    n_ex = 0
    for k in range(1, depth + 1):
        for combo in itertools.product(alpha, repeat=k):
            one(b"".join(combo))
            n_ex += 1
    chk.count("exhaustive", n_ex)
    chk.notes.append(f"exhaustive: all sequences of <= {depth} symbols over an alphabet of {len(alpha)}")
    # random structured + malformed
    n = 2500 if chk.tier == "quick" else 60000
    for i in range(n):
        r = rng.fork(("c13", i))
        line = gen.gen_line(r, malformed=0.08).encode("utf-8")
        skip = 0
        if r.chance(0.3):
            num = r.choice(["10 ", "  20", "007", "18446744073709551615 ", "0"])
            line = num.encode() + line
            # the skip the interpreter would use: end of the digits
            j = 0
            while j < len(line) and line[j:j + 1] in b" \t\n\x0c\r":
                j += 1
            while j < len(line) and line[j:j + 1].isdigit():
                j += 1
            skip = j
        one(line, skip)
    # the ranges an editor receives: the analyzer's token list of file line i is the tokenizer's list for THAT line, also
    # behind lines that do not tokenize (missed seeded change C13-mut8: no list was recorded for such a line, so every
    # later line's tokens were reported one file line too early, with ranges past its end)
    from . import files as _files
    pool = [ln for (sk, ln, _r) in cases if sk == 0 and b"\n" not in ln and b"\r" not in ln]
    bad = [ln for (sk, ln, rsp) in cases if sk == 0 and parse_tok_resp(rsp)[1] and b"\n" not in ln and b"\r" not in ln]
    for i in range(150 if chk.tier == "quick" else 3000):
        r = rng.fork(("c13f", i))
        flines = []
        for j in range(r.below(5) + 2):
            body = r.choice(bad) if bad and r.chance(0.3) else r.choice(pool)
            kind = r.weighted([("numbered", 80), ("bare", 8), ("unnumbered", 6), ("blank", 6)])
            flines.append({"numbered": b"%d " % (10 * (j + 1)) + body, "bare": b"%d" % (10 * (j + 1)), "unnumbered": b"PRINT 1", "blank": b""}[kind])
        try:
            text = b"\n".join(flines).decode("utf-8")
        except UnicodeDecodeError:
            continue
        if not h.alive():
            h.restart()
        resp = h.cmd("analyze", esc(text.encode("utf-8")))
        a = _files.parse_analysis(resp)
        rep = {"file": text, "harness_commands": ["analyze\t" + esc(text.encode("utf-8"))], "response": resp[:600]}
        chk.case(("file", text), sample={"file": text[:160]})
        chk.count("analyzer-file")
        if a is None:
            chk.fail("analyzer-panic", f"analysing {text[:120]!r} -> {resp[:160]}", rep)
            continue
        if len(a["tokens"]) != len(flines):
            chk.fail("analyzer-token-lists", f"{len(flines)} file lines but {len(a['tokens'])} token lists", rep)
            continue
        for li, fl in enumerate(flines):
            k = 0
            while k < len(fl) and fl[k:k + 1].isdigit():
                k += 1
            want = []
            if k:
                want.append((0, k))
                toks, err, _ = parse_tok_resp(h.cmd("tok", k, esc(fl)))
                if not err:
                    want += [(x, y) for (_t, x, y) in toks]
            got = [(x, y) for (_ty, x, y) in a["tokens"][li]]
            if got != want:
                chk.fail("analyzer-ranges-wrong-line", f"file line {li} {fl[:60]!r}: the analyzer reports ranges {got[:8]}, the tokenizer gives {want[:8]} for this line", rep)
                break
    lexer_correspondence(chk, "C13-lexer", cases)
    h.close()


# ---------------------------------------------------------------------------
# C04

C04_NUMBERS = ["0", "1", "5", "10", "010", "0010", "20", "30", "18446744073709551615", "18446744073709551614",
               "9223372036854775808", "4294967296", " 10", "\t20", "00000000000000000000030"]
C04_TOO_BIG = ["18446744073709551616", "99999999999999999999999999"]


def run_c04(chk):
    h = core.Harness(chk.harness_path)
    rng = chk.rng
    n_hist = 120 if chk.tier == "quick" else 4000
    sessions = []
    for i in range(n_hist):
        r = rng.fork(("c04", i))
        s = sess.Session(h)
        model = {}
        uid = 0
        ops = r.below(25) + 3
        desc = []
        for _ in range(ops):
            k = r.weighted([("add", 50), ("del", 15), ("fail", 12), ("toobig", 4), ("list", 8), ("run", 8), ("imm", 3)])
            chk.count("op:" + k)
            if k == "add":
                num = r.choice(C04_NUMBERS)
                uid += 1
                text = f"{num} PRINT {uid}"
                row = s.line(text)
                desc.append(text)
                if row.outcome == "ok":
                    model[int(num.strip())] = uid
                else:
                    chk.fail("edit-rejected", f"valid edit {text!r} answered {row.outcome}", session_replay(s))
            elif k == "del":
                num = r.choice(C04_NUMBERS)
                row = s.line(num + r.choice(["", " ", "  \t"]))
                desc.append(num)
                model.pop(int(num.strip()), None)
            elif k == "fail":
                num = r.choice(C04_NUMBERS)
                text = num + r.choice([' PRINT "unterminated', " PRINT 1.2.3", " PRINT é", " X% = 1", ' "'])
                row = s.line(text)
                desc.append(text)
                if not row.outcome.startswith("err:Syntax(Tokenization"):
                    chk.fail("bad-edit-accepted", f"untokenizable edit {text!r} answered {row.outcome}", session_replay(s))
            elif k == "toobig":
                text = r.choice(C04_TOO_BIG) + " PRINT 1"
                s.line(text)
                desc.append(text)
            elif k == "imm":
                s.line(r.choice(["PRINT 1", "X = 5", "GOTO 10", "NEW"]))
                if s.state == "NewInterpreterRequested":
                    s.replace()
                    model.clear()
                s.run_until_idle(max_turns=60)
            elif k == "list":
                row = s.line("LIST")
                got = [unesc_p(o) for o in row.outputs()]
                want = [f"{n} PRINT {model[n]}\n" for n in sorted(model)]
                if got != want:
                    chk.fail("list-mismatch", f"LIST shows {got} but the last-writer map is {want}", session_replay(s))
            elif k == "run":
                s.line("RUN")
                rows = s.run_until_idle(max_turns=80)
                all_rows = [row for op, row in s.ops[-(len(rows) + 1):]]
                printed = [unesc_p(o) for rw in all_rows for o in rw.outputs() if o.startswith("P")]
                want = [f"{model[n]}\n" for n in sorted(model)]
                if any(rw.kind != "row" for rw in all_rows):
                    chk.fail("run-crash", f"RUN of {sorted(model)} crashed: {[rw.raw[:80] for rw in all_rows if rw.kind != 'row']}", session_replay(s))
                elif printed != want:
                    chk.fail("run-order", f"RUN printed {printed}, expected ascending order {want}", session_replay(s))
            if s.dead:
                break
            # both indexes agree and hold exactly the model's keys
            snap = s.ops[-1][1].snap() if s.ops[-1][1].kind == "row" else None
            if snap is not None:
                a, _, b = snap.get("lines", "/").partition("/")
                want = ",".join(str(n) for n in sorted(model))
                if a != b or a != want:
                    chk.fail("index-disagree", f"sorted set [{a}] / token map [{b}] / last-writer map [{want}]", session_replay(s))
        sessions.append(s.ops)
        chk.case(tuple(desc), nontrivial=len(model) > 0 or len(desc) > 3, sample={"history": desc[:12]})
    h.close()
    session_correspondence(chk, "C04-store", sessions, ["outcome", "state", "outputs", "snap"])


def unesc_p(o):
    """Print record 'P<escaped>' -> text"""
    return core.unesc(o[1:]).decode("utf-8", "replace")


# ---------------------------------------------------------------------------

META = {
    "C04": {
        "run": run_c04,
        "rule": "random edit histories (add/replace/delete/failed edit/too-big number/LIST/RUN/immediate/NEW) over 15 colliding line-number spellings incl. 0, leading zeros, blanks, 2^63, 2^64-1; distinct = distinct history text; non-trivial = ends with a non-empty program or has > 3 operations",
        "trusted_base": TB_COMMON,
        "assumptions": ASSUME_COMMON,
    },
    "C13": {
        "run": run_c13,
        "rule": "150 multi-line files built from the line corpus (30% untokenizable lines): the analyzer's token ranges for file line i = line-number token + the tokenizer's ranges for that line; all sequences of <= 3 (quick) / 4 (thorough) symbols over a 14/20-symbol alphabet (exhaustive) + random structured lines from the weighted token alphabet (keywords whole/split/mixed case, tricky identifiers, numerals, operators, quotes, REM/DATA tails, multi-byte and control characters), 30% with a line-number prefix and the interpreter's skip; distinct = distinct (line, skip); non-trivial = yields at least one token",
        "trusted_base": TB_COMMON,
        "assumptions": ASSUME_COMMON,
    },
}


from . import stateful  # noqa: E402

_HIST_RULE = ("adaptive, replayable host-call histories: optional generated program (12%% seeded faults), then 6-35 calls chosen by "
              "interpreter state from: %d boundary/command/malformed lines, generated statement lines, RUN/CONT/LIST/NEW, randomize with "
              "boundary seeds, continue/break while running, replies/breaks while awaiting input, replace after NEW; distinct = distinct "
              "call list; non-trivial = more than 5 calls") % len(stateful.BOUNDARY_LINES)

META.update({
    "C01": {"run": stateful.run_c01, "rule": _HIST_RULE + "; 70 scripted edit-then-probe sessions (7 ways of holding a reference into a line x 5 edits x the statements that follow the reference); plus deep-nesting probes (8 shapes x 9 depths, 10..20000/100000; unary-operator runs 15 x as long) each in a fresh process",
            "trusted_base": TB_COMMON, "assumptions": ASSUME_COMMON + ["native stack: a nesting depth of 64 fits the stack (probed at the cap boundary, not proved)"]},
    "C16": {"run": stateful.run_c16, "rule": "13 frame-budget programs (d open subroutines + a chain of k user functions: d + k <= 32 runs, more is OUT OF MEMORY), decided by the outcome; 20 cap-seeking programs (recursive GOSUB/FN, 34 FOR variables, DIM around 10000 cells, kind mismatches on every write path) + " + _HIST_RULE + "; invariant checked on the snapshot after EVERY call",
            "trusted_base": TB_COMMON, "assumptions": ASSUME_COMMON},
    "C10": {"run": stateful.run_c10, "rule": "generated program + random history (immediate assignments/DIM/FOR/GOSUB/READ/DEF/INPUT, RUN, CONT, GOTO, randomize, breaks while running, while awaiting input and right after a reply), then RUN, compared turn by turn (outcome, state, outputs, full snapshot) with RUN in a fresh interpreter holding the same program, generator state and flags; distinct = (program, history); non-trivial = non-empty history",
            "trusted_base": TB_COMMON, "assumptions": ASSUME_COMMON},
    "C11": {"run": stateful.run_c11, "rule": "fixed 12-line program or generated program, run for 0-24 turns to a random suspension point (idle/end, error, STOP, host break while running or awaiting input), one edit (add/replace/delete/rejected), snapshot comparison, then one probe (CONT/RETURN/NEXT/FN call/READ/GOTO)",
            "trusted_base": TB_COMMON, "assumptions": ASSUME_COMMON},
    "C18": {"run": stateful.run_c18, "rule": "60 program sessions (draws at the prompt, by a stored program under RUN, after STOP + CONT, a second RUN, an edit, failing statements: one sequence per seed); randomize(seed) then 2-11 PRINT RND(arg) with arg in {1,0,-1,0.5,1000000,-0,-.001}; seeds: 10 boundary values (0, 2^33+-1, 2^43, 2^44, 2^63, 2^64-1) 40%, random 64-bit 36%, random < 2^33 24%; oracle = independent Python LCG + exact float comparison + range + generator state from the snapshot",
            "trusted_base": TB_COMMON, "assumptions": ASSUME_COMMON,
            "allowed_axioms": ["ClassicalDedekindReals.sig_forall_dec", "FunctionalExtensionality.functional_extensionality_dep"]},
})


from . import semantic  # noqa: E402

META.update({
    "C02": {"run": semantic.run_c02, "rule": "360 power operand pairs (inexact bases x whole, negative, huge and fractional exponents), every logged power compared with the C library's pow; PRINT <expr> against an independent IEEE-754 fold (Python, powers taken from the implementation's powf log so only the position of ^ is decided): exhaustive over all 13x13 binary operator pairs x both tree shapes x 4 operand triples, all unary x binary combinations, then random trees (depth 1-4) over 19 operands (numbers incl. -0 and a 20-digit literal, strings, set/unset variables of both kinds), ABS, INT, with minimal and random redundant parentheses, spacing and case; distinct = distinct text; non-trivial = not a bare operand",
            "trusted_base": TB_COMMON, "assumptions": ASSUME_COMMON},
    "C07": {"run": semantic.run_c07, "rule": "failing DEF lines among the inspections, a fixed program whose continuation calls the program's functions broken at every turn; generated programs (nested FOR, GOSUB, IF/ELSE, READ/DATA, DEF FN, INPUT, RND), each run uninterrupted and 2 (quick) / 4 (thorough) times with 1-4 host breaks at random turn boundaries (running or awaiting input) followed by 0-2 inspection lines (15 forms incl. failing ones and failing FN calls) and CONT; transcripts (Print, Reenter, ExtraIgnored, input requests, final error) compared with Break records removed; plus assignment-at-STOP vs assignment-in-place",
            "trusted_base": TB_COMMON, "assumptions": ASSUME_COMMON + ["an input request that is re-issued because the host broke in before answering counts once", "inspection lines exclude RND(positive) and reads of arrays that do not exist yet (those change state by the language's own rules)"]},
    "C08": {"run": semantic.run_c08, "rule": "9 placements of INPUT (alone, after statements, in THEN, in THEN with ELSE, in ELSE, with trailing statements, in a FOR line, in a subroutine) x 7 targets (scalars, string, 1- and 2-dimensional cells, computed subscript) x 15 valid replies x surplus items x 0-2 REENTER rounds, against the same program with the INPUT replaced by the assignment; snapshot compared at suspension",
            "trusted_base": TB_COMMON, "assumptions": ASSUME_COMMON},
    "C09": {"run": semantic.run_c09, "rule": "cursor oracle: a call that stays on its IF-free line and moves forward passes at most one statement separator; PRINT chains joined by ; and : ; generated programs (30%% never-ending) + 6 adversarial lines, run with tracing on; per call: trace records name one line, at most one Print record, cursor reads <= 14*(tokens of the line + 1) + 24 for programs without user functions; the model's read counter must EQUAL the hook's on every call",
            "trusted_base": TB_COMMON, "assumptions": ASSUME_COMMON + ["work = token-cursor reads (hook counter); DATA cursor construction, gc and LIST are outside that measure"]},
    "C12": {"run": semantic.run_c12, "rule": "22 fixed + random lines that tokenize; for each, every (quick: up to 14 sampled) position: insert space / tab, delete a blank, flip letter case, at positions outside string literals, REM text and DATA item text (regions computed from the implementation's own token ranges); plus padded-vs-tight DATA item lists; distinct = distinct line; non-trivial = more than one token",
            "trusted_base": TB_COMMON, "assumptions": ASSUME_COMMON},
    "C14": {"run": semantic.run_c14, "rule": "DATA pool includes quoted items that would be numbers without quotes (INF, NaN, 5 in quotes); programs of 2-8 lines mixing generated statements, random token-alphabet lines, 25 numeral spellings (leading dot/zeros, 20-400 digits, values around 2^53, subnormal strings, near overflow) and 18 DATA texts (quoted, unquoted, numeric, nan/inf, empty, containing quotes, followed by colon, multi-byte); LIST -> reload -> LIST fixed point, then RUN transcripts of both",
            "trusted_base": TB_COMMON, "assumptions": ASSUME_COMMON},
    "C17": {"run": semantic.run_c17, "rule": "10 programs with a known number of warning records (same variable read twice, first touch of an array that fails), tracing off and on; generated programs x the four flag configurations (flags by field; 40%: tracing via the TRACE command); per turn: outcome, state, outputs without Trace/Warning records and full snapshot without flags must be identical; trace record sequence vs the line path recovered from the untraced run",
            "trusted_base": TB_COMMON, "assumptions": ASSUME_COMMON},
})


from . import files  # noqa: E402

META.update({
    "C05": {"run": files.run_c05, "rule": "17 fixed files (runs of 100000-300000 unary operators, duplicate numbers whose later definition is empty / untokenizable, multi-byte illegal characters, CRLF, line 2^64-1, 5000-deep nesting) + generated files mixing numbered / unnumbered / blank / duplicated / emptied / untokenizable lines (28 odd line shapes) with generated program lines; per file: no panic, one token list per file line, every message mapped through map_to_source to a file line < number of lines and a byte range inside that line on character boundaries, token ranges ordered; the model's analysis (messages, mapped ranges, token classes and ranges) must equal the implementation's; distinct = distinct file text; non-trivial = more than one line",
            "trusted_base": TB_COMMON, "assumptions": ASSUME_COMMON + ["symbol warnings are compared as a sorted multiset (HashMap iteration order)"]},
    "C06": {"run": files.run_c06, "rule": "generated programs, well-typed by construction or with one seeded kind / syntax / jump fault; analyzer verdict vs the error kinds over forced executions (conditions driven both ways by INPUT replies), straight-line lines executed fresh; model vs analyzer messages and run outcomes",
            "trusted_base": TB_COMMON, "assumptions": ASSUME_COMMON},
    "C15": {"run": files.run_c15, "rule": "well-formed generated program files x the 8 CLI option combinations x file mode / piped mode through the real abasic binary (stdout, stderr, exit status; banner and prompts canonicalised); SourceFileAnalyzer::analyze(..).into_interpreter() vs line-by-line entry in process (LIST, RUN, snapshots)",
            "trusted_base": TB_COMMON, "assumptions": ASSUME_COMMON + ["process I/O, rustyline and colour codes are exercised, not modelled"]},
})


from . import lsp  # noqa: E402

META.update({
    "C20": {"run": lsp.run_c20, "rule": "the real abasic-lsp binary over stdio: initialize, then 3-8 didOpen / didChange notifications over two URIs with 14 fixed documents (non-ASCII strings, comments and DATA, multi-byte illegal characters, duplicate numbers whose later definition is empty or untokenizable, CRLF, line 2^64-1, 300-deep nesting) and generated files (C05's shapes), a semanticTokens/full request after 80% of them; per answer: diagnostics on existing lines with start <= end <= line width in UTF-16 units, equal (as a multiset of line/columns/severity) to the analyzer's messages for the LATEST text with columns computed independently, token data decoding to in-bounds, ordered, non-overlapping tokens with legend types, equal to the analyzer's token classes; finally a request for a never-opened document is answered with an error and shutdown/exit end the process with status 0; the model's diagnostics_of / semantic_tokens_of must equal the server's answers",
            "trusted_base": TB_COMMON, "assumptions": ASSUME_COMMON + ["a document's lines are its LF-separated pieces (the server's notion); JSON-RPC framing and the lsp-server threads are exercised, not modelled; malformed notifications are outside the property's quantifier"]},
})


from . import web  # noqa: E402

META.update({
    "C19": {"run": web.run_c19, "rule": "page event sequences {load program text (60%%; 15 fixed programs incl. untokenizable lines, NEW, STOP, INPUT, non-ASCII, endless loops; generated files), start, then 3-16 of: tick 45%%, submit (33 fixed texts incl. the break alias, NEW, commands, replies, empty, boundary lines) 35%%, break key 12%%, generated line 8%%} driven through a Rust transliteration of main.ts against abasic_web::JsInterpreter side by side with a bare core interpreter; per event: no trap, no throw, adapter state / outputs (type + text) / error text equal to the core's; NEW followed by 8 probes vs the same probes on a fresh page; the model page (Model/Web.v) must answer every event identically (verdict, pending ticks, input flag, call log)",
            "trusted_base": TB_COMMON + ["the Rust transliteration of abasic-web/ts/main.ts in the harness (web.rs), tied to main.ts by the generated call skeleton (Gen/Tables.v page_skeleton / page_handlers)"],
            "assumptions": ASSUME_COMMON + ["wasm32 (32-bit usize, 1 MiB stack) is not executed: the adapter runs natively as an rlib; the DOM side (ui.ts) is not modelled; timers fire one at a time"]},
})


from . import refsem  # noqa: E402

META.update({
    "C03": {"run": refsem.run_c03, "rule": "fixed program with exactly 32 open loops whose innermost and outermost FOR lines are re-entered; 6 fixed programs (the nested-loop NEXT I example, GOSUB in a colon line, FOR body running once with limit/step fixed at entry, implicit arrays 0..10 and defaults, READ/RESTORE/out of data, dynamic scoping of DEF FN parameters, depth-32 overflow, all ELSE forms incl. transfers in THEN, 3-dimensional strides) + programs generated as SYNTAX TREES over LET, PRINT with ; and , , IF/THEN/ELSE (6 forms, statements before and after on the line), GOTO, GOSUB/RETURN, nested FOR/TO/STEP/NEXT incl. NEXT of the outer loop, READ/DATA/RESTORE, DIM and cells of 1-3 dimensions, DEF FN with nested calls, END, RND, with 0-8%% seeded runtime failures (13 kinds); each rendered to numbered BASIC text for the implementation and to a Coq term for the reference interpreter (Ref/RefSem.v) evaluated inside Coq; compared: every printed record and the final error kind and line; distinct = program text; non-trivial = more than 3 lines",
            "trusted_base": TB_COMMON + ["Ref/RefSem.v: the reference interpreter on syntax trees (the specification side of C03), evaluated by vm_compute; vlib/refsem.py renders each generated tree both to BASIC text and to a Coq term"],
            "assumptions": ASSUME_COMMON + ["programs that are still running after 1500 host calls are not compared (the two interpreters count steps differently)", "^ (f64::powf) and INPUT are outside the C03 grammar"]},
})
