(* Run/HarnessRef.v — evaluating the reference interpreter on generated programs. *)
From Coq Require Import List NArith ZArith Bool.
From Coq Require String.
From Abasic Require Import Model.Bytes Model.Num Model.Token Model.Data Model.Lexer Gen.Tables
     Model.State Ref.RefSem Run.Harness.
Import ListNotations.

(* a numeric literal, as the tokenizer reads its spelling *)
Definition lit (s : String.string) : f64 := match parse_f64 (bs s) with Some x => x | None => f64_zero end.
Definition L (s : String.string) : rexpr := XNum (lit s).
Definition S' (s : String.string) : rexpr := XStr (bs s).
Definition V (s : String.string) : rexpr := XVar (bs s).
Definition DN (s : String.string) : data_elem := DNum (lit s).
Definition DS (s : String.string) : data_elem := DStr (bs s).

Definition err_name (e : rerr) : bytes :=
  bs match e with
     | RTypeMismatch => "TypeMismatch" | RDivisionByZero => "DivisionByZero" | ROutOfData => "OutOfData"
     | RDataTypeMismatch => "DataTypeMismatch" | RBadSubscript => "BadSubscript" | RIllegalQuantity => "IllegalQuantity"
     | RStackOverflow => "OutOfMemory(StackOverflow)" | RArrayTooLarge => "OutOfMemory(ArrayTooLarge)"
     | RRedim => "RedimensionedArray" | RUndefinedLine => "UndefinedStatement"
     | RReturnWithoutGosub => "ReturnWithoutGosub" | RNextWithoutFor => "NextWithoutFor"
     | RUnimplemented => "Unimplemented" | RSyntax => "Syntax"
     end%string.

(* printed records, then how it ended: "end", "running" (budget exhausted) or Kind@line *)
Definition ref_render (o : outcome) : bytes :=
  match o with
  | Done st => join [59%N] (map esc (r_out st)) ++ [124%N] ++ bs "end"
  | Next _ st => join [59%N] (map esc (r_out st)) ++ [124%N] ++ bs "running"
  | Fail e l st => join [59%N] (map esc (r_out st)) ++ [124%N] ++ err_name e ++ [64%N] ++ show_N l
  | NoFuel => bs "REF-OUT-OF-FUEL"
  end.

Definition ref_ok (c : N * nat * rprogram * String.string) : bool :=
  let '(seed, steps, p, obs) := c in
  bytes_eqb (ref_render (run_ref 400 steps seed p)) (bs obs).
Definition ref_failing (cs : list (N * nat * rprogram * String.string)) : list N := failing_from ref_ok cs 0%N.
Definition ref_show (c : N * nat * rprogram * String.string) : String.string :=
  let '(seed, steps, p, obs) := c in to_string (ref_render (run_ref 400 steps seed p)).
