(* Run/HarnessWeb.v — case runner for the page / adapter model. *)
From Coq Require Import List NArith ZArith Bool.
From Coq Require String.
From Abasic Require Import Model.Bytes Model.Num Model.Token Model.Data Model.Lexer Gen.Tables
     Model.State Model.Eval Model.Interp Model.Web Run.Harness.
Import ListNotations.

Definition event_of (name : string) (text : string) : option event :=
  let n := bs name in
  if bytes_eqb n (bs "load") then Some (EvLoad (u text))
  else if bytes_eqb n (bs "start") then Some EvStart
  else if bytes_eqb n (bs "submit") then Some (EvSubmit (u text))
  else if bytes_eqb n (bs "breakkey") then Some EvBreakKey
  else if bytes_eqb n (bs "tick") then Some EvTick
  else None.

Definition render_pres (r : pres) : bytes :=
  match r with
  | POk p log => bs "ok" ++ [9%N] ++ show_nat (pending_ticks p) ++ [9%N]
                 ++ (if input_enabled p then [49%N] else [48%N]) ++ [9%N] ++ join [124%N] log
  | PThrow _ => bs "THROW"
  | PTrap _ => bs "TRAP"
  | PStuck => bs "MODEL-STUCK"
  end.

Fixpoint web_run (fuel : nat) (p : page) (evs : list (string * string * string)) : bool :=
  match evs with
  | [] => true
  | (name, text, obs) :: r =>
      match event_of name text with
      | None => false
      | Some ev =>
          let res := page_step fuel p ev in
          bytes_eqb (render_pres res) (bs obs)
          && match res with POk p' _ => web_run fuel p' r | _ => true end
      end
  end.

(* the page seeds the generator at start-up (randomize(Date.now())) *)
Definition web_ok (c : N * list (string * string * string)) : bool :=
  let '(seed, evs) := c in
  let p0 := page_new [] in
  let j0 := mkjs (snd (randomize seed (core (impl p0)))) None in
  web_run default_fuel (mkpage j0 true true 0 false) evs.
Definition web_failing (cs : list (N * list (string * string * string))) : list N := failing_from web_ok cs 0%N.
