(* Run/Harness.v — definitions used by the generated cases files: they run the
   model on the inputs the implementation ran and compute, inside Coq, where
   (if anywhere) the model's canonical rows differ from the observed ones. *)
From Coq Require Import List NArith ZArith Bool Ascii.
From Coq Require String.
From Abasic Require Import Model.Bytes Model.Num Model.Token Model.Data Model.Lexer Gen.Tables
     Model.State Model.Eval Model.Interp.
Import ListNotations.
Open Scope N_scope.

Notation string := String.string.

(* escaped text (the harness's \xHH scheme) -> raw bytes *)
Definition u (s : string) : bytes := unesc (bs s).

Fixpoint to_string (b : bytes) : string :=
  match b with
  | [] => String.EmptyString
  | x :: r => String.String (ascii_of_N x) (to_string r)
  end.

Fixpoint failing_from {A} (f : A -> bool) (l : list A) (i : N) : list N :=
  match l with
  | [] => []
  | x :: r => if f x then failing_from f r (i + 1) else i :: failing_from f r (i + 1)
  end.

(* ------------------------------------------------------------------ *)
(* Lexer and DATA parser cases: (skip, escaped input, expected canonical text) *)

Definition tok_model (skip : nat) (inp : string) : bytes := canon_tok_result (tokenize (u inp) skip).
Definition tok_ok (c : nat * string * string) : bool :=
  let '(skip, inp, exp) := c in bytes_eqb (tok_model skip inp) (bs exp).
Definition tok_failing (cs : list (nat * string * string)) : list N := failing_from tok_ok cs 0.

Definition data_model (inp : string) : bytes := canon_data_result (parse_data (u inp)).
Definition data_ok (c : string * string) : bool :=
  let '(inp, exp) := c in bytes_eqb (data_model inp) (bs exp).
Definition data_failing (cs : list (string * string)) : list N := failing_from data_ok cs 0.

(* ------------------------------------------------------------------ *)
(* Session cases *)

Inductive sop :=
| SLine (s : string) | SCont | SReply (s : string) | SBreak | SRand (n : N)
| SReplace | SFlags (w t : bool) | SNew.

Definition hostop_of (o : sop) : hostop :=
  match o with
  | SLine s => HLine (u s) | SCont => HCont | SReply s => HReply (u s) | SBreak => HBreak
  | SRand n => HRand n | SReplace => HReplace | SFlags w t => HFlags w t | SNew => HNew
  end.

Definition row_fields (r : row) : list bytes :=
  [r_outcome r; r_state r; r_outputs r; r_caret r; r_msg r; r_reads r; r_snap r].

(* observed: None for operations that print no row (flags, new) *)
Definition sess_case := (list (Z * Z * Z) * list (sop * option (list string)))%type.

Fixpoint fields_diff (mask : list bool) (model : list bytes) (obs : list string) (i : N) : option (N * bytes) :=
  match mask, model, obs with
  | m :: mr, a :: ar, b :: br =>
      if m && negb (bytes_eqb a (bs b)) then Some (i, a) else fields_diff mr ar br (i + 1)
  | _, _, _ => None
  end.

(* first operation at which a compared field differs: (op index, field index, model text) *)
Fixpoint sess_diff (fuel : nat) (mask : list bool) (s : interp)
         (ops : list (sop * option (list string))) (i : N) : option (N * N * string) :=
  match ops with
  | [] => None
  | (o, obs) :: r =>
      let '(rw, s') := step fuel s (hostop_of o) in
      match rw, obs with
      | None, None => sess_diff fuel mask s' r (i + 1)
      | Some rw, Some obs =>
          match fields_diff mask (row_fields rw) obs 0 with
          | Some (f, a) => Some (i, f, to_string a)
          | None => sess_diff fuel mask s' r (i + 1)
          end
      | None, Some _ => Some (i, 99, to_string (bs "model: operation not legal here"))
      | Some rw, None => Some (i, 98, to_string (r_outcome rw))
      end
  end.

Definition sess_check (mask : list bool) (c : sess_case) : option (N * N * string) :=
  let '(oracle, ops) := c in sess_diff default_fuel mask (fresh oracle) ops 0.

Fixpoint sess_report_from (mask : list bool) (cs : list sess_case) (i : N) : list (N * N * N * string) :=
  match cs with
  | [] => []
  | c :: r =>
      match sess_check mask c with
      | Some (o, f, t) => (i, o, f, t) :: sess_report_from mask r (i + 1)
      | None => sess_report_from mask r (i + 1)
      end
  end.

Definition sess_report (mask : list bool) (cs : list sess_case) : list (N * N * N * string) :=
  sess_report_from mask cs 0.

(* all fields *)
Definition mask_all : list bool := [true; true; true; true; true; true; true].
