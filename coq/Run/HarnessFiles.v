(* Run/HarnessFiles.v — case runners for the analyzer and the front ends. *)
From Coq Require Import List NArith ZArith Bool.
From Coq Require String.
From Abasic Require Import Model.Bytes Model.Num Model.Token Model.Data Model.Lexer Gen.Tables
     Model.State Model.Eval Model.Interp Model.Analyzer Run.Harness.
Import ListNotations.

Definition an_model (inp : string) : bytes := canon_analysis (analyze default_fuel (u inp)).
Definition an_ok (c : string * string) : bool :=
  let '(inp, exp) := c in bytes_eqb (an_model inp) (bs exp).
Definition an_failing (cs : list (string * string)) : list N := failing_from an_ok cs 0%N.
