(* Run/HarnessFiles.v — case runners for the analyzer and the front ends. *)
From Coq Require Import List NArith ZArith Bool.
From Coq Require String.
From Abasic Require Import Model.Bytes Model.Num Model.Token Model.Data Model.Lexer Gen.Tables
     Model.State Model.Eval Model.Interp Model.Analyzer Run.Harness.
Import ListNotations.

Definition an_model (inp : string) : bytes := canon_analysis (analyze default_fuel (u inp)).
Definition an_ok (c : string * string) : bool :=
  let '(inp, exp) := c in bytes_eqb (an_model inp) (bs exp).
Definition an_failing (cs : list (string * string)) : list N := failing_from an_ok cs 0%N.

(* the language server: diagnostics are compared as sorted multisets of
   "line.start.end.severity" (the symbol warnings come in hash order), token
   data as the flat list of numbers; "-" = no token request was made *)
From Abasic Require Import Model.Lsp.

Fixpoint bytes_leb (a b : bytes) : bool :=
  match a, b with
  | [], _ => true
  | _ :: _, [] => false
  | x :: a', y :: b' => if (x <? y)%N then true else if (y <? x)%N then false else bytes_leb a' b'
  end.

Fixpoint split_on_aux (sep : N) (s cur : bytes) : list bytes :=
  match s with
  | [] => [rev cur]
  | b :: r => if (b =? sep)%N then rev cur :: split_on_aux sep r [] else split_on_aux sep r (b :: cur)
  end.
Definition split_on (sep : N) (s : bytes) : list bytes :=
  match s with [] => [] | _ => split_on_aux sep s [] end.

Fixpoint insert_bytes (x : bytes) (l : list bytes) : list bytes :=
  match l with
  | [] => [x]
  | y :: r => if bytes_leb x y then x :: l else y :: insert_bytes x r
  end.
Definition sort_bytes (l : list bytes) : list bytes := fold_right insert_bytes [] l.

Definition lsp_ok (c : string * (string * string)) : bool :=
  let '(inp, (dexp, texp)) := c in
  let '(ds, ts) := lsp_answer default_fuel (u inp) in
  bytes_eqb (join [59%N] (sort_bytes (map canon_diag ds)))
            (join [59%N] (sort_bytes (split_on 59%N (bs dexp))))
  && (bytes_eqb (bs texp) [45%N] || bytes_eqb (join [44%N] (map canon_stoken ts)) (bs texp)).
Definition lsp_failing (cs : list (string * (string * string))) : list N := failing_from lsp_ok cs 0%N.
