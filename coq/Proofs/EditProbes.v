(* Proofs/EditProbes.v — C11: what the runtime statements answer once an edit
   has emptied the holders (the "probes" of the property text).

   An immediate line of statement tokens is one host call that executes its
   first statement ([imm_turn]); with an empty GOSUB stack RETURN answers
   RETURN WITHOUT GOSUB, with no open loop NEXT v answers NEXT WITHOUT FOR,
   with an empty function table a name is no user function any more, and with
   no data cursor READ depends on the stored program only. *)
From Coq Require Import List NArith ZArith Bool Lia.
From Abasic Require Import Model.Bytes Model.Num Model.Token Model.Data Model.Lexer Gen.Tables
     Model.State Model.Eval Model.Interp Proofs.Monad Proofs.Safety Proofs.ExprSem Proofs.InputProofs Proofs.StmtSim Proofs.ProgSim
     Proofs.StoreProofs Proofs.ResetProofs.
Import ListNotations.
Local Open Scope nat_scope.

(* the line is no command, has no line number, and tokenizes to [toks] *)
Definition imm_line (line : bytes) (toks : list token) : Prop :=
  command_of line = None /\ parse_line_number line = None /\
  exists ts, tokenize line 0 = TokOk ts /\ map fst ts = toks.

Definition imm_start (toks : list token) (s : interp) : interp := set_state Running (imm_reset toks s).

Lemma imm_start_fields toks s :
  loc (imm_start toks s) = imm0 /\ immediate (imm_start toks s) = toks
  /\ loops (imm_start toks s) = loops s /\ functions (imm_start toks s) = functions s
  /\ variables (imm_start toks s) = variables s /\ enable_tracing (imm_start toks s) = enable_tracing s
  /\ enable_warnings (imm_start toks s) = enable_warnings s
  /\ (stack s = [] -> stack (imm_start toks s) = []).
Proof. unfold imm_start, imm_reset. destruct s; cbn. destruct breakpoint; cbn; repeat split; auto. Qed.

Lemma imm_turn fuel line t tl s :
  state s = Idle -> imm_line line (t :: tl) ->
  start_evaluating fuel line s
  = postprocess ((evaluate_statement fuel 0 ;;; after_statement) (bump (imm_start (t :: tl) s))).
Proof.
  intros Hidle (Hc & Hp & ts & Ht & Hm).
  unfold start_evaluating. f_equal. unfold evaluate_impl.
  rewrite StoreProofs.bind_get, Hidle, StoreProofs.set_imm_is_modify, StoreProofs.bind_modify, Hc, Hp, Ht, Hm.
  rewrite StoreProofs.set_imm_is_modify, StoreProofs.bind_modify, imm_reset_idem.
  unfold run_next_statement. rewrite StoreProofs.bind_modify. fold (imm_start (t :: tl) s).
  destruct (imm_start_fields (t :: tl) s) as (Hl & Hi & _).
  assert (Hle : line_exists (imm_start (t :: tl) s) (loc (imm_start (t :: tl) s)))
    by (unfold line_exists, line_ok; rewrite Hl; exact I).
  rewrite Safety.bind_run, (has_next_token_eq _ Hle). unfold cur_toks. rewrite Hl. cbn [loc_line imm0 loc_idx].
  rewrite Hi. reflexivity.
Qed.

(* the head of an immediate statement: the trace switch is irrelevant on the
   immediate line, the first token is consumed and dispatched on *)
Lemma imm_cur_tokens toks s : loc s = imm0 -> immediate s = toks -> fst (cur_tokens s) = Ok toks.
Proof.
  intros Hl Hi.
  assert (Hle : line_exists s (loc s)) by (unfold line_exists, line_ok; rewrite Hl; exact I).
  rewrite (cur_tokens_eq s Hle). cbn [fst]. unfold cur_toks. rewrite Hl. cbn [loc_line imm0]. rewrite Hi. reflexivity.
Qed.

Lemma imm_head s r o (K : option token -> M unit) :
  loc s = imm0 ->
  (tr <- get enable_tracing ;;
   (if tr then l <- get_line_number ;; match l with Some n => push_output (OTrace n) | None => ret tt end
    else ret tt) ;;; (t <- next_token ;; K t)) (at_idx s 0 r o)
  = (t <- next_token ;; K t) (at_idx s 0 r o).
Proof.
  intros Hl. rewrite bind_get_run. destruct (enable_tracing (at_idx s 0 r o)); [|reflexivity].
  unfold get_line_number. unfold bind at 1 2 3. unfold get, ret. cbn [fst snd].
  change (loc_line (loc (at_idx s 0 r o))) with (loc_line (loc s)). rewrite Hl. reflexivity.
Qed.

(* RETURN with an empty GOSUB stack *)
Theorem return_probe fuel line tl s :
  state s = Idle -> stack s = [] -> imm_line line (TReturn :: tl) ->
  exists l s', start_evaluating (S fuel) line s = (Err EReturnWithoutGosub (Some l), s')
               /\ loc_line l = None /\ state s' = Idle.
Proof.
  intros Hidle Hst Him. rewrite (imm_turn (S fuel) line TReturn tl s Hidle Him).
  destruct (imm_start_fields (TReturn :: tl) s) as (Hl & Hi & _ & _ & _ & _ & _ & Hs).
  specialize (Hs Hst). set (s1 := imm_start (TReturn :: tl) s) in *.
  rewrite bump_is_at, Hl. cbn [loc_idx imm0].
  pose proof (imm_cur_tokens _ s1 Hl Hi) as Htoks.
  assert (Hrun : evaluate_statement (S fuel) 0 (at_idx s1 0 (S (reads s1)) (outputs s1))
                 = return_to_last_gosub (at_idx s1 1 (S (S (reads s1))) (outputs s1))).
  { cbn [evaluate_statement]. change (Nat.eqb 0 max_nesting) with false. cbv iota.
    unfold evaluate_statement_body. rewrite (imm_head s1 _ _ _ Hl).
    erewrite bind_ok by (apply (next_some s1 (TReturn :: tl) Htoks); reflexivity). reflexivity. }
  rewrite Safety.bind_run, Hrun. unfold return_to_last_gosub. rewrite bind_modify_run, bind_get_run.
  change (stack (set_breakpoint None (at_idx s1 1 (S (S (reads s1))) (outputs s1)))) with (stack s1).
  rewrite Hs. cbn [rev]. unfold fail, postprocess. cbn [populate_error_location].
  eexists _, _. split; [reflexivity|]. split; [|reflexivity].
  change (loc (set_breakpoint None (at_idx s1 1 (S (S (reads s1))) (outputs s1)))) with (mkloc (loc_line (loc s1)) 1).
  rewrite Hl. reflexivity.
Qed.

(* NEXT v with no open loop (v a numeric variable: NEXT A$ is a TYPE MISMATCH first) *)
Definition var_read (v : bytes) (s : interp) : value :=
  match alist_get v (variables s) with Some x => x | None => default_value v end.

Theorem next_probe fuel line v x tl s :
  state s = Idle -> loops s = [] -> var_read v s = VNum x -> imm_line line (TNext :: TSymbol v :: tl) ->
  exists l s', start_evaluating (S fuel) line s = (Err ENextWithoutFor (Some l), s')
               /\ loc_line l = None /\ state s' = Idle /\ variables s' = variables s.
Proof.
  intros Hidle Hlo Hv Him. rewrite (imm_turn (S fuel) line TNext (TSymbol v :: tl) s Hidle Him).
  destruct (imm_start_fields (TNext :: TSymbol v :: tl) s) as (Hl & Hi & Hlo' & _ & Hvars & _).
  set (s1 := imm_start (TNext :: TSymbol v :: tl) s) in *.
  rewrite bump_is_at, Hl. cbn [loc_idx imm0].
  pose proof (imm_cur_tokens _ s1 Hl Hi) as Htoks.
  assert (Hrun : evaluate_statement (S fuel) 0 (at_idx s1 0 (S (reads s1)) (outputs s1))
                 = end_loop v (at_idx s1 2 (S (S (S (reads s1)))) (outputs s1))).
  { cbn [evaluate_statement]. change (Nat.eqb 0 max_nesting) with false. cbv iota.
    unfold evaluate_statement_body. rewrite (imm_head s1 _ _ _ Hl).
    erewrite bind_ok by (apply (next_some s1 _ Htoks); reflexivity). cbv iota beta.
    unfold evaluate_next_statement.
    erewrite bind_ok by (apply (next_some s1 _ Htoks); reflexivity). reflexivity. }
  rewrite Safety.bind_run, Hrun. unfold end_loop, variables_get.
  rewrite Safety.bind_run. rewrite bind_get_run.
  change (variables (at_idx s1 2 (S (S (S (reads s1)))) (outputs s1))) with (variables s1).
  rewrite Hvars. fold (var_read v s). rewrite Hv. cbn [ret].
  unfold remove_loop_with_name. rewrite Safety.bind_run, bind_get_run.
  change (loops (at_idx s1 2 (S (S (S (reads s1)))) (outputs s1))) with (loops s1).
  rewrite Hlo', Hlo. cbn [find_loop_rev ret]. unfold fail, postprocess. cbn [populate_error_location].
  eexists _, _. split; [reflexivity|]. split; [|split; [reflexivity|exact Hvars]].
  change (loc (at_idx s1 2 (S (S (S (reads s1)))) (outputs s1))) with (mkloc (loc_line (loc s1)) 2).
  rewrite Hl. reflexivity.
Qed.

(* with an empty function table no name is a user function: the call syntax
   FNA(1) is an array reference again *)
Theorem function_probe (rec : M value) name s :
  functions s = [] -> user_function_call rec name s = (Ok None, s).
Proof. intros Hf. unfold user_function_call. rewrite bind_get_run, Hf. reflexivity. Qed.

(* with no data cursor READ depends on the stored program only: it starts
   from the first DATA item of the program as it is now *)
Theorem read_probe s1 s2 :
  data_it s1 = None -> data_it s2 = None -> st_keys s1 = st_keys s2 -> st_toks s1 = st_toks s2 ->
  fst (next_data_element s1) = fst (next_data_element s2)
  /\ data_it (snd (next_data_element s1)) = data_it (snd (next_data_element s2)).
Proof.
  intros H1 H2 Hk Ht. unfold next_data_element. rewrite H1, H2, Hk, Ht.
  destruct (data_chunks (st_keys s2) (st_toks s2)) as [cs|? ?|?| |]; try (split; [reflexivity | cbn; congruence]).
  destruct (data_next _ _) as [e d']; split; reflexivity.
Qed.

(* all four after an edit *)
Corollary probes_after_edit fuel line s n v :
  state s = Idle -> edit_of line = Some (n, v) ->
  let s' := snd (start_evaluating fuel line s) in
  (forall f l tl, imm_line l (TReturn :: tl) ->
     exists lc s2, start_evaluating (S f) l s' = (Err EReturnWithoutGosub (Some lc), s2) /\ loc_line lc = None /\ state s2 = Idle)
  /\ (forall f l w x tl, var_read w s = VNum x -> imm_line l (TNext :: TSymbol w :: tl) ->
     exists lc s2, start_evaluating (S f) l s' = (Err ENextWithoutFor (Some lc), s2) /\ loc_line lc = None /\ state s2 = Idle
                   /\ variables s2 = variables s)
  /\ (forall (rec : M value) name, user_function_call rec name s' = (Ok None, s'))
  /\ (forall s2, data_it s2 = None -> st_keys s2 = st_keys s' -> st_toks s2 = st_toks s' ->
        fst (next_data_element s') = fst (next_data_element s2)).
Proof.
  intros Hidle Hedit. pose proof (edit_invalidates fuel line s n v Hidle Hedit) as H.
  destruct (start_evaluating fuel line s) as [r s']. cbn [snd].
  destruct H as (_ & _ & Hst & Hlo & Hfn & Hd & _ & _ & Hidle' & Hvars & _).
  split; [intros f l tl Hl; apply (return_probe f l tl s' Hidle' Hst Hl)|].
  split.
  { intros f l w x tl Hw Hl. unfold var_read in Hw. rewrite <- Hvars in Hw.
    destruct (next_probe f l w x tl s' Hidle' Hlo Hw Hl) as (lc & s2 & A & B & C & D).
    exists lc, s2. repeat split; try assumption. congruence. }
  split; [intros; apply function_probe; exact Hfn|].
  intros s2 H2 Hk Ht. apply read_probe; congruence.
Qed.
