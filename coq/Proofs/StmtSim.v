(* Proofs/StmtSim.v — C03: statement-level simulation, model vs reference.

   The expression-level theorem (RefProofs.ref_expr_is_den + ExprSem.expr_sem)
   says the token walker and the reference evaluator compute the same value.
   Here that is lifted to whole STATEMENTS: for an assignment statement
   `v = e` (with or without LET), spelled by ANY legal token rendering of the
   tree, executed by the model's statement evaluator from any cursor position
   on any line, versus the reference interpreter's [exec] on the tree
   [SLet v [] e]:

     - both succeed or both fail, with the same error kind;
     - on success the model's cursor is just past the statement, nothing but
       the variable store, the cursor, the read counter and (warnings only)
       the outputs changed, and the two stores are related again
       ([same_store]), so the theorem composes along a program;
     - on failure neither store changed.

   [same_store] is the simulation relation on stores: frames and variables
   agree pointwise.  It implies [same_reads] (what the expression theorem
   needs) and, unlike [same_reads], is preserved by assignment. *)
From Coq Require Import List NArith ZArith Bool Lia.
From Abasic Require Import Model.Bytes Model.Num Model.Token Model.Data Model.Lexer Gen.Tables
     Model.State Model.Eval Model.Interp Ref.RefSem Proofs.ExprSem Proofs.RefProofs.
Import ListNotations.
Local Open Scope nat_scope.

(* ------------------------------------------------------------------ *)
(* the simulation relation on stores *)

Definition same_store (st : rstate) (s : interp) : Prop :=
  (forall name, lookup_frames name (r_frames st) = find_in_frames name (rev (stack s)))
  /\ (forall name, lookup name (r_vars st) = alist_get name (variables s)).

Lemma default_agrees name : default_of name = default_value name.
Proof. reflexivity. Qed.

Lemma kind_agrees name x : kind_ok name x = type_matches name x.
Proof. destruct x; reflexivity. Qed.

Lemma same_store_reads st s : same_store st s -> same_reads st s.
Proof.
  intros [Hf Hv] name. unfold read_var, lookup_var. rewrite Hf, Hv. reflexivity.
Qed.

Lemma lookup_is_alist_get {V} k (l : list (bytes * V)) : lookup k l = alist_get k l.
Proof. induction l as [|[k' v] l IH]; cbn [lookup alist_get]; [reflexivity | rewrite IH; reflexivity]. Qed.

Lemma update_is_alist_set {V} k (v : V) l : update k v l = alist_set k v l.
Proof. induction l as [|[k' v'] l IH]; cbn [update alist_set]; [reflexivity | rewrite IH; reflexivity]. Qed.

Lemma bytes_eqb_refl k : bytes_eqb k k = true.
Proof. apply bytes_eqb_eq; reflexivity. Qed.

Lemma alist_get_set {V} k v (x : V) l :
  alist_get k (alist_set v x l) = if bytes_eqb k v then Some x else alist_get k l.
Proof.
  induction l as [|[k' x'] l IH]; cbn [alist_set alist_get].
  - destruct (bytes_eqb k v); reflexivity.
  - destruct (bytes_eqb v k') eqn:Evk; cbn [alist_get].
    + apply bytes_eqb_eq in Evk; subst k'. destruct (bytes_eqb k v); reflexivity.
    + destruct (bytes_eqb k k') eqn:Ekk.
      * apply bytes_eqb_eq in Ekk; subst k'.
        destruct (bytes_eqb k v) eqn:Ekv; [|reflexivity].
        apply bytes_eqb_eq in Ekv; subst v. rewrite bytes_eqb_refl in Evk. discriminate.
      * exact IH.
Qed.

(* assignment preserves the relation, whatever else (cursor, counters,
   outputs) differs between the two model states *)
Lemma same_store_assign st s s' v x :
  same_store st s -> stack s' = stack s ->
  variables s' = alist_set v x (variables s) ->
  same_store (set_vars' (update v x (r_vars st)) st) s'.
Proof.
  intros [Hf Hv] Hs Hvars. split; intros name.
  - rewrite Hs. destruct st; exact (Hf name).
  - rewrite Hvars. replace (r_vars (set_vars' (update v x (r_vars st)) st)) with (update v x (r_vars st))
      by (destruct st; reflexivity).
    rewrite update_is_alist_set, lookup_is_alist_get, !alist_get_set.
    rewrite <- lookup_is_alist_get, Hv. reflexivity.
Qed.

(* ------------------------------------------------------------------ *)
(* the expression fragment never panics, runs out of fuel or misses the
   oracle: its fold is a value, TYPE MISMATCH or DIVISION BY ZERO *)

Definition plain (R : res value) : Prop :=
  match R with
  | Ok _ => True
  | Err ETypeMismatch None | Err EDivisionByZero None => True
  | _ => False
  end.

Lemma den_plain s : forall e e', tr e = Some e' -> plain (den s e').
Proof.
  induction e as [x|b|v|a idx|a IH|a IH|a IH|op a IHa b IHb|a IH|a IH|a IH|f args];
    intros e' Htr; cbn [tr] in Htr; try discriminate.
  - inversion Htr; exact I.
  - inversion Htr; exact I.
  - inversion Htr; exact I.
  - destruct (tr a) as [a'|]; [|discriminate]. inversion Htr; subst. cbn [den].
    specialize (IH a' eq_refl). destruct (den s a') as [[x|x]|er l|pp| |]; try exact IH; exact I.
  - destruct (tr a) as [a'|]; [|discriminate]. inversion Htr; subst. cbn [den].
    specialize (IH a' eq_refl). destruct (den s a') as [[x|x]|er l|pp| |]; try exact IH; exact I.
  - destruct (tr a) as [a'|]; [|discriminate]. inversion Htr; subst. cbn [den].
    specialize (IH a' eq_refl). destruct (den s a') as [[x|x]|er l|pp| |]; try exact IH; exact I.
  - destruct (tr a) as [a'|]; [|discriminate]. destruct (tr b) as [b'|]; [|discriminate].
    inversion Htr; subst. cbn [den].
    specialize (IHa a' eq_refl). specialize (IHb b' eq_refl).
    destruct (den s a') as [v|er l|pp| |]; try exact IHa.
    destruct (den s b') as [w|er l|pp| |]; try exact IHb.
    destruct op as [| |c| | | |]; destruct v as [x|x], w as [y|y]; cbn; try exact I.
    destruct (f64_eqb y f64_zero); exact I.
  - destruct (tr a) as [a'|]; [|discriminate]. inversion Htr; subst. cbn [den].
    specialize (IH a' eq_refl). destruct (den s a') as [[x|x]|er l|pp| |]; try exact IH; exact I.
  - destruct (tr a) as [a'|]; [|discriminate]. inversion Htr; subst. cbn [den].
    specialize (IH a' eq_refl). destruct (den s a') as [[x|x]|er l|pp| |]; try exact IH; exact I.
Qed.

(* ------------------------------------------------------------------ *)
(* the assignment statement *)

Definition rerr_of (e : ierror) : rerr :=
  match e with EDivisionByZero => RDivisionByZero | _ => RTypeMismatch end.

Section LetSim.
  Variable s : interp.
  Variable toks : list token.
  Hypothesis Htoks : fst (cur_tokens s) = Ok toks.
  Hypothesis Htrace : enable_tracing s = false.

  (* the tokens of the statement start at index [i] of the current line:
     [v = <ts>] followed by [rest] (the end of the line, or a colon, ...) *)
  Variables (v : bytes) (e : rexpr) (e' : expr) (ts rest : list token) (i : nat).
  Hypothesis Hskip : skipn i toks = TSymbol v :: TEquals :: ts ++ rest.
  Hypothesis Hstop : stops 0 rest = true.
  Hypothesis Htr : tr e = Some e'.
  Hypothesis Hren : Renders 0 e' ts.
  (* the statement may sit inside IF..THEN clauses: [d] is its nesting depth *)
  Variable d : nat.
  Hypothesis Hd : Nat.eqb d max_nesting = false.
  Hypothesis Hdepth : S d + pdepth e' < max_nesting.

  (* reference side *)
  Variables (p : rprogram) (after : rpc) (li : nat) (st : rstate).
  Hypothesis Hrel : same_store st s.

  Lemma ref_let F : xsize e <= F ->
    exec F p (SLet v [] e) after li st =
    match den s e' with
    | Ok x => if type_matches v x
              then Next after (set_vars' (update v x (r_vars st)) st)
              else Fail RTypeMismatch (line_no p li) st
    | Err er _ => Fail (rerr_of er) (line_no p li) st
    | _ => NoFuel
    end.
  Proof.
    intros HF. cbn [exec eval_subscripts]. unfold RefSem.ev.
    rewrite (ref_expr_is_den e e' st s F Htr (same_store_reads _ _ Hrel) HF).
    pose proof (den_plain s e e' Htr) as Hp.
    destruct (den s e') as [x|er l|pp| |]; cbn [conv]; try reflexivity.
    - unfold store_scalar. rewrite kind_agrees. destruct (type_matches v x); reflexivity.
    - destruct er; cbn [plain] in Hp; try contradiction; destruct l; try contradiction; reflexivity.
  Qed.

  (* model side: the statement evaluator on the token stream *)
  Lemma model_let : exists fuel0, forall fuel, fuel0 <= fuel -> forall r o,
    exists i' r' o', W s o o' /\
      evaluate_statement fuel d (at_idx s i r o) =
      match den s e' with
      | Ok x => if type_matches v x
                then (Ok tt, set_variables (alist_set v x (variables s))
                               (at_idx s (i + 2 + length ts) r' o'))
                else (Err ETypeMismatch None, at_idx s (i + 2 + length ts) r' o')
      | Err er l => (Err er l, at_idx s i' r' o')
      | Panic pp => (Panic pp, at_idx s i' r' o')
      | OutOfFuel => (OutOfFuel, at_idx s i' r' o')
      | OracleMiss => (OracleMiss, at_idx s i' r' o')
      end.
  Proof.
    destruct (skipn_cons_nth _ _ _ _ Hskip) as [H0 Hs1].
    destruct (skipn_cons_nth _ _ _ _ Hs1) as [H1 Hs2].
    destruct (expr_sem_at s toks Htoks e' ts Hren (S d) (S (S i)) rest Hs2 Hstop Hdepth) as (f0 & Hex).
    exists (S (S f0)). intros fuel Hf r o.
    destruct fuel as [|f]; [lia|].
    assert (Hf' : f0 <= f) by lia.
    destruct (Hex f Hf' (S (S (S r))) o) as (i' & r' & o' & Heq & Hidx & HW).
    exists i', r', o'. split; [exact HW|].
    cbn [evaluate_statement]. rewrite Hd.
    unfold evaluate_statement_body.
    rewrite bind_get_run. change (enable_tracing (at_idx s i r o)) with (enable_tracing s).
    rewrite Htrace. cbv iota.
    rewrite (bind_ok _ _ _ _ _ (eq_refl : ret tt (at_idx s i r o) = (Ok tt, at_idx s i r o))).
    erewrite bind_ok by (apply (next_some s toks Htoks); exact H0). cbv iota beta.
    unfold evaluate_assignment_statement, parse_optional_array_index.
    rewrite bind_assoc.
    erewrite bind_ok by (apply (peek_is_at s toks Htoks)).
    rewrite H1. change (token_eqb TEquals TLeftParen) with false. cbn [negb].
    rewrite (bind_ok _ _ _ _ _ (eq_refl : ret None (at_idx s (S i) (S (S r)) o) = (Ok None, _))).
    erewrite bind_ok by (apply (expect_ok s toks Htoks _ _ _ TEquals TEquals H1); reflexivity).
    unfold Eval.expr.
    erewrite bind_run by exact Heq.
    destruct (den s e') as [x|er l|pp| |]; try reflexivity.
    rewrite (Hidx x eq_refl).
    replace (S (S i) + length ts) with (i + 2 + length ts) by lia.
    unfold assign_value. cbn [lv_index lv_sym]. unfold variables_set.
    destruct (type_matches v x); reflexivity.
  Qed.

  (* The simulation step: run the statement on both sides. *)
  Theorem let_statement_simulates : exists fuel0, forall fuel, fuel0 <= fuel -> forall r o,
    match exec (xsize e) p (SLet v [] e) after li st with
    | Next pc st' =>
        pc = after /\
        exists s', evaluate_statement fuel d (at_idx s i r o) = (Ok tt, s')
          /\ same_store st' s'
          /\ loc s' = mkloc (loc_line (loc s)) (i + 2 + length ts)
          /\ W s o (outputs s')
          /\ (exists x r', s' = set_variables (alist_set v x (variables s))
                                (at_idx s (i + 2 + length ts) r' (outputs s')))
    | Fail er line st' =>
        line = line_no p li /\ st' = st /\
        exists ie l s', evaluate_statement fuel d (at_idx s i r o) = (Err ie l, s')
          /\ rerr_of ie = er /\ same_store st s'
    | Done _ | NoFuel => False
    end.
  Proof.
    destruct model_let as (f0 & Hm). exists f0. intros fuel Hf r o.
    destruct (Hm fuel Hf r o) as (i' & r' & o' & HW & Hrun). clear Hm.
    rewrite (ref_let (xsize e) (le_n _)).
    pose proof (den_plain s e e' Htr) as Hp.
    destruct (den s e') as [x|er l|pp| |]; cbn [plain] in Hp; try contradiction.
    - destruct (type_matches v x).
      + split; [reflexivity|]. eexists. split; [exact Hrun|].
        split; [apply (same_store_assign st s _ v x Hrel); reflexivity|].
        split; [reflexivity|]. split; [exact HW|].
        exists x, r'. reflexivity.
      + split; [reflexivity|]. split; [reflexivity|].
        eexists _, _, _. split; [exact Hrun|]. split; [reflexivity|].
        destruct Hrel as [Hf1 Hv1]. split; [exact Hf1 | exact Hv1].
    - split; [reflexivity|]. split; [reflexivity|].
      eexists _, _, _. split; [exact Hrun|]. split; [reflexivity|].
      destruct Hrel as [Hf1 Hv1]. split; [exact Hf1 | exact Hv1].
  Qed.
End LetSim.

(* ------------------------------------------------------------------ *)
(* the PRINT statement *)

Inductive mitem := MExpr (e : expr) | MSemi | MComma.

Fixpoint tr_items (items : list pitem) : option (list mitem) :=
  match items with
  | [] => Some []
  | PSemi :: r => option_map (cons MSemi) (tr_items r)
  | PComma :: r => option_map (cons MComma) (tr_items r)
  | PExpr e :: r => match tr e, tr_items r with
                    | Some e', Some r' => Some (MExpr e' :: r')
                    | _, _ => None
                    end
  end.

(* what follows a PRINT's items: the end of the line, a colon, or ELSE *)
Definition ends (rest : list token) : bool :=
  match rest with [] | TColon :: _ | TElse :: _ => true | _ => false end.

(* a legal token spelling of a PRINT item list, followed by [rest] *)
Inductive IRenders (rest : list token) : list mitem -> list token -> Prop :=
| IR_nil : ends rest = true -> IRenders rest [] []
| IR_semi r ts : IRenders rest r ts -> IRenders rest (MSemi :: r) (TSemicolon :: ts)
| IR_comma r ts : IRenders rest r ts -> IRenders rest (MComma :: r) (TComma :: ts)
| IR_expr e te r ts : Renders 0 e te -> stops 0 (ts ++ rest) = true -> IRenders rest r ts ->
    IRenders rest (MExpr e :: r) (te ++ ts).

(* the fold the PRINT loop computes *)
Fixpoint pden (s : interp) (items : list mitem) (semi : bool) (text : bytes) : res (bool * bytes) :=
  match items with
  | [] => Ok (semi, text)
  | MSemi :: r => pden s r true text
  | MComma :: r => pden s r false (text ++ [9%N])
  | MExpr e :: r =>
      match den s e with
      | Ok v => pden s r false (text ++ show_value v)
      | Err er l => Err er l
      | Panic p => Panic p
      | OutOfFuel => OutOfFuel
      | OracleMiss => OracleMiss
      end
  end.

Fixpoint idepth (items : list mitem) : nat :=
  match items with
  | [] => 0
  | MExpr e :: r => Nat.max (pdepth e) (idepth r)
  | _ :: r => idepth r
  end.

(* the first token of an expression is none of the tokens the PRINT loop looks for *)
Definition starts_item (t : token) : Prop :=
  match t with TColon | TElse | TSemicolon | TComma => False | _ => True end.

Lemma renders_head k e ts : Renders k e ts -> exists t ts', ts = t :: ts' /\ starts_item t.
Proof.
  induction 1 as [x|b|name|e ts H IH|e ts H IH|e ts H IH|op e ts H IH|op a b ta tb Ha IHa Hb IHb|k e ts Hk H IH].
  - eexists _, _; split; [reflexivity | exact I].
  - eexists _, _; split; [reflexivity | exact I].
  - eexists _, _; split; [reflexivity | exact I].
  - eexists _, _; split; [reflexivity | exact I].
  - eexists _, _; split; [reflexivity | exact I].
  - eexists _, _; split; [reflexivity | exact I].
  - eexists _, _; split; [reflexivity | destruct op; exact I].
  - destruct IHa as (t & ts' & -> & Ht). eexists _, _; split; [reflexivity | exact Ht].
  - exact IH.
Qed.

Lemma bind_ret' {A B} (a : A) (K : A -> M B) s : bind (ret a) K s = K a s.
Proof. reflexivity. Qed.

Section PrintSim.
  Variable s : interp.
  Variable toks : list token.
  Hypothesis Htoks : fst (cur_tokens s) = Ok toks.

  Definition pbody (F nest : nat) (st : bool * bytes) : M ((bool * bytes) + (bool * bytes)) :=
    let '(semi, text) := st in
    t <- peek_next_token ;;
    match t with
    | None => ret (inr st)
    | Some TColon => ret (inr st)
    | Some TElse => ret (inr st)
    | Some TSemicolon => next_token ;;; ret (inl (true, text))
    | Some TComma => next_token ;;; ret (inl (false, text ++ [9%N]))
    | Some _ => v <- Eval.expr F nest ;; ret (inl (false, text ++ show_value v))
    end.

  Lemma print_is_pbody F nest :
    evaluate_print_statement F nest =
    (r <- repeat_m F (pbody F nest) (false, []) ;;
     let '(semi, text) := r in push_output (OPrint (if semi then text else text ++ [10%N]))).
  Proof. reflexivity. Qed.

  (* the loop, from any accumulator, over any legal spelling of the items *)
  Lemma print_loop rest items ts : IRenders rest items ts ->
    forall nest i, nest + idepth items < max_nesting -> skipn i toks = ts ++ rest ->
    exists K0 F0, forall F, F0 <= F -> forall k, K0 <= k -> forall semi text r o,
      exists i' r' o', W s o o' /\
        repeat_m k (pbody F nest) (semi, text) (at_idx s i r o) =
        match pden s items semi text with
        | Ok st => (Ok st, at_idx s (i + length ts) r' o')
        | Err er l => (Err er l, at_idx s i' r' o')
        | Panic p => (Panic p, at_idx s i' r' o')
        | OutOfFuel => (OutOfFuel, at_idx s i' r' o')
        | OracleMiss => (OracleMiss, at_idx s i' r' o')
        end.
  Proof.
    induction 1 as [Hend|r0 ts H IH|r0 ts H IH|e te r0 ts He Hst H IH]; intros nest i Hn Hsk.
    - exists 1, 0. intros F _ k Hk semi text r o. destruct k as [|k]; [lia|].
      exists i, (S r), o. split; [apply W_refl|].
      rewrite repeat_m_S. unfold pbody at 1. rewrite bind_assoc.
      erewrite bind_ok by apply (peek_at s toks Htoks).
      cbn [app] in Hsk. cbn [pden length]. rewrite Nat.add_0_r.
      destruct rest as [|t rest'].
      + rewrite (skipn_nil_nth _ _ Hsk). reflexivity.
      + destruct (skipn_cons_nth _ _ _ _ Hsk) as [Hnth _]. rewrite Hnth.
        destruct t; try discriminate Hend; reflexivity.
    - cbn [idepth] in Hn. cbn [app] in Hsk. destruct (skipn_cons_nth _ _ _ _ Hsk) as [Hnth Hsk'].
      destruct (IH nest (S i) Hn Hsk') as (K0 & F0 & HI).
      exists (S K0), F0. intros F HF k Hk semi text r o. destruct k as [|k]; [lia|].
      destruct (HI F HF k ltac:(lia) true text (S (S r)) o) as (i' & r' & o' & HW & Hrun).
      exists i', r', o'. split; [exact HW|].
      rewrite repeat_m_S. unfold pbody at 1. rewrite bind_assoc.
      erewrite bind_ok by apply (peek_at s toks Htoks). rewrite Hnth. cbv iota. rewrite bind_assoc.
      erewrite bind_ok by (apply (next_some s toks Htoks); exact Hnth).
      rewrite bind_ret'. refine (eq_trans Hrun _).
      cbn [pden length]. replace (S i + length ts) with (i + S (length ts)) by lia. reflexivity.
    - cbn [idepth] in Hn. cbn [app] in Hsk. destruct (skipn_cons_nth _ _ _ _ Hsk) as [Hnth Hsk'].
      destruct (IH nest (S i) Hn Hsk') as (K0 & F0 & HI).
      exists (S K0), F0. intros F HF k Hk semi text r o. destruct k as [|k]; [lia|].
      destruct (HI F HF k ltac:(lia) false (text ++ [9%N]) (S (S r)) o) as (i' & r' & o' & HW & Hrun).
      exists i', r', o'. split; [exact HW|].
      rewrite repeat_m_S. unfold pbody at 1. rewrite bind_assoc.
      erewrite bind_ok by apply (peek_at s toks Htoks). rewrite Hnth. cbv iota. rewrite bind_assoc.
      erewrite bind_ok by (apply (next_some s toks Htoks); exact Hnth).
      rewrite bind_ret'. refine (eq_trans Hrun _).
      cbn [pden length]. replace (S i + length ts) with (i + S (length ts)) by lia. reflexivity.
    - cbn [idepth] in Hn.
      assert (Hsk1 : skipn i toks = te ++ (ts ++ rest)) by (rewrite app_assoc; exact Hsk).
      destruct (expr_sem_at s toks Htoks e te He nest i (ts ++ rest) Hsk1 Hst ltac:(lia)) as (fe & Hfe).
      pose proof (skipn_app_len _ _ _ _ Hsk1) as Hsk2.
      destruct (IH nest (i + length te) ltac:(lia) Hsk2) as (K0 & F0 & HI).
      exists (S K0), (Nat.max fe F0). intros F HF k Hk semi text r o. destruct k as [|k]; [lia|].
      destruct (renders_head _ _ _ He) as (t & te' & Ete & Ht).
      assert (Hnth : nth_error toks i = Some t).
      { rewrite Ete in Hsk1. cbn [app] in Hsk1. apply (skipn_cons_nth _ _ _ _ Hsk1). }
      destruct (Hfe F ltac:(lia) (S r) o) as (i1 & r1 & o1 & Hev & Hi1 & HW1).
      assert (Hstep : repeat_m (S k) (pbody F nest) (semi, text) (at_idx s i r o) =
                      match den s e with
                      | Ok v => repeat_m k (pbody F nest) (false, text ++ show_value v) (at_idx s i1 r1 o1)
                      | Err er l => (Err er l, at_idx s i1 r1 o1)
                      | Panic p => (Panic p, at_idx s i1 r1 o1)
                      | OutOfFuel => (OutOfFuel, at_idx s i1 r1 o1)
                      | OracleMiss => (OracleMiss, at_idx s i1 r1 o1)
                      end).
      { rewrite repeat_m_S. unfold pbody at 1. rewrite bind_assoc.
        erewrite bind_ok by apply (peek_at s toks Htoks). rewrite Hnth. cbv iota.
        match goal with |- bind ?m _ _ = _ =>
          replace m with (v <- Eval.expr F nest ;; ret (@inl (bool * bytes) (bool * bytes) (false, text ++ show_value v)))
            by (destruct t; try reflexivity; contradiction)
        end.
        rewrite bind_assoc. unfold Eval.expr. erewrite bind_run by exact Hev.
        destruct (den s e) as [v|er l|pp| |]; try reflexivity. }
      rewrite Hstep. cbn [pden].
      destruct (den s e) as [v|er l|pp| |].
      + rewrite (Hi1 v eq_refl).
        destruct (HI F ltac:(lia) k ltac:(lia) false (text ++ show_value v) r1 o1) as (i' & r' & o' & HW & Hrun).
        exists i', r', o'. split; [eapply W_trans; eassumption|].
        refine (eq_trans Hrun _). rewrite app_length, Nat.add_assoc. reflexivity.
      + exists i1, r1, o1. split; [exact HW1 | reflexivity].
      + exists i1, r1, o1. split; [exact HW1 | reflexivity].
      + exists i1, r1, o1. split; [exact HW1 | reflexivity].
      + exists i1, r1, o1. split; [exact HW1 | reflexivity].
  Qed.

  (* model side: the PRINT statement on the token stream *)
  Variables (items : list mitem) (ts rest : list token) (i : nat).
  Hypothesis Htrace : enable_tracing s = false.
  (* PRINT or its abbreviation ? *)
  Variable hd : token.
  Hypothesis Hhd : hd = TPrint \/ hd = TQuestionMark.
  Hypothesis Hskip : skipn i toks = hd :: ts ++ rest.
  Hypothesis Hren : IRenders rest items ts.
  Variable d : nat.
  Hypothesis Hd : Nat.eqb d max_nesting = false.
  Hypothesis Hdepth : S d + idepth items < max_nesting.

  Lemma model_print : exists fuel0, forall fuel, fuel0 <= fuel -> forall r o,
    exists i' r' o', W s o o' /\
      evaluate_statement fuel d (at_idx s i r o) =
      match pden s items false [] with
      | Ok (semi, text) =>
          (Ok tt, at_idx s (i + 1 + length ts) r' (o' ++ [OPrint (if semi then text else text ++ [10%N])]))
      | Err er l => (Err er l, at_idx s i' r' o')
      | Panic pp => (Panic pp, at_idx s i' r' o')
      | OutOfFuel => (OutOfFuel, at_idx s i' r' o')
      | OracleMiss => (OracleMiss, at_idx s i' r' o')
      end.
  Proof.
    destruct (skipn_cons_nth _ _ _ _ Hskip) as [H0 Hs1].
    destruct (print_loop rest items ts Hren (S d) (S i) Hdepth Hs1) as (K0 & F0 & HL).
    exists (S (Nat.max K0 F0)). intros fuel Hf r o.
    destruct fuel as [|f]; [lia|].
    destruct (HL f ltac:(lia) f ltac:(lia) false [] (S r) o) as (i' & r' & o' & HW & Hrun).
    exists i', r', o'. split; [exact HW|].
    cbn [evaluate_statement]. rewrite Hd.
    unfold evaluate_statement_body.
    rewrite bind_get_run. change (enable_tracing (at_idx s i r o)) with (enable_tracing s).
    rewrite Htrace. cbv iota.
    rewrite (bind_ok _ _ _ _ _ (eq_refl : ret tt (at_idx s i r o) = (Ok tt, at_idx s i r o))).
    erewrite bind_ok by (apply (next_some s toks Htoks); exact H0). cbv iota beta.
    destruct Hhd as [->| ->]; rewrite print_is_pbody;
      (destruct (pden s items false []) as [[semi text]|er l|pp| |]; (erewrite bind_run by exact Hrun); try reflexivity);
      unfold push_output, modify; cbn [fst snd];
      replace (S i + length ts) with (i + 1 + length ts) by lia; reflexivity.
  Qed.
End PrintSim.

(* reference side *)
Fixpoint isize (items : list pitem) : nat :=
  match items with
  | [] => 0
  | PExpr e :: r => Nat.max (xsize e) (isize r)
  | _ :: r => isize r
  end.

Lemma ref_print_items F st s : same_store st s ->
  forall items mitems, tr_items items = Some mitems -> isize items <= F ->
  forall semi text,
  print_items F st items semi text =
  match pden s mitems semi text with
  | Ok st' => EOk st' st
  | Err er _ => EErr (rerr_of er) None
  | _ => EFuel
  end.
Proof.
  intros Hrel. induction items as [|it items IH]; intros mitems Htr HF semi text.
  - inversion Htr; subst. reflexivity.
  - destruct it as [e| |]; cbn [tr_items] in Htr; cbn [isize] in HF.
    + destruct (tr e) as [e'|] eqn:Ee; [|discriminate].
      destruct (tr_items items) as [r'|] eqn:Er; [|discriminate].
      inversion Htr; subst mitems. cbn [print_items pden]. unfold RefSem.ev.
      rewrite (ref_expr_is_den e e' st s F Ee (same_store_reads _ _ Hrel) ltac:(lia)).
      pose proof (den_plain s e e' Ee) as Hp.
      destruct (den s e') as [v|er l|pp| |]; cbn [conv plain] in *; try contradiction.
      * apply (IH r' eq_refl ltac:(lia)).
      * destruct er; try contradiction; destruct l; try contradiction; reflexivity.
    + destruct (tr_items items) as [r'|] eqn:Er; [|discriminate]. inversion Htr; subst mitems.
      cbn [print_items pden]. apply (IH r' eq_refl HF).
    + destruct (tr_items items) as [r'|] eqn:Er; [|discriminate]. inversion Htr; subst mitems.
      cbn [print_items pden]. apply (IH r' eq_refl HF).
Qed.

Lemma pden_plain s : forall items mitems, tr_items items = Some mitems ->
  forall semi text, match pden s mitems semi text with
                    | Ok _ => True
                    | Err ETypeMismatch None | Err EDivisionByZero None => True
                    | _ => False
                    end.
Proof.
  induction items as [|it items IH]; intros mitems Htr semi text.
  - inversion Htr; subst. exact I.
  - destruct it as [e| |]; cbn [tr_items] in Htr.
    + destruct (tr e) as [e'|] eqn:Ee; [|discriminate].
      destruct (tr_items items) as [r'|] eqn:Er; [|discriminate].
      inversion Htr; subst mitems. cbn [pden].
      pose proof (den_plain s e e' Ee) as Hp.
      destruct (den s e') as [v|er l|pp| |]; cbn [plain] in Hp; try contradiction; [apply (IH r' eq_refl)|exact Hp].
    + destruct (tr_items items) as [r'|] eqn:Er; [|discriminate]. inversion Htr; subst mitems.
      cbn [pden]. apply (IH r' eq_refl).
    + destruct (tr_items items) as [r'|] eqn:Er; [|discriminate]. inversion Htr; subst mitems.
      cbn [pden]. apply (IH r' eq_refl).
Qed.

(* The simulation step for PRINT: the reference interpreter appends one output
   record; the model pushes one Print record with the same text (behind any
   warnings); stores and the relation are untouched; the cursor is just past
   the statement.  Or both fail with the same error kind. *)
Theorem print_statement_simulates s toks items mitems ts rest i p after li st d hd :
  fst (cur_tokens s) = Ok toks -> enable_tracing s = false ->
  hd = TPrint \/ hd = TQuestionMark ->
  skipn i toks = hd :: ts ++ rest ->
  tr_items items = Some mitems -> IRenders rest mitems ts ->
  Nat.eqb d max_nesting = false -> S d + idepth mitems < max_nesting ->
  same_store st s ->
  exists fuel0, forall fuel, fuel0 <= fuel -> forall r o,
    match exec (isize items) p (SPrint items) after li st with
    | Next pc st' =>
        pc = after /\
        exists text, st' = add_out text st /\
        exists s' ow r', evaluate_statement fuel d (at_idx s i r o) = (Ok tt, s')
          /\ W s o ow
          /\ s' = at_idx s (i + 1 + length ts) r' (ow ++ [OPrint text])
          /\ same_store st' s'
    | Fail er line st' =>
        line = line_no p li /\ st' = st /\
        exists ie l s', evaluate_statement fuel d (at_idx s i r o) = (Err ie l, s')
          /\ rerr_of ie = er /\ same_store st s'
    | Done _ | NoFuel => False
    end.
Proof.
  intros Htoks Htrace Hhd Hskip Htr Hren Hd Hdepth Hrel.
  destruct (model_print s toks Htoks mitems ts rest i Htrace hd Hhd Hskip Hren d Hd Hdepth) as (f0 & Hm).
  exists f0. intros fuel Hf r o.
  destruct (Hm fuel Hf r o) as (i' & r' & o' & HW & Hrun). clear Hm.
  cbn [exec].
  rewrite (ref_print_items (isize items) st s Hrel items mitems Htr (le_n _) false []).
  pose proof (pden_plain s items mitems Htr false []) as Hp.
  destruct (pden s mitems false []) as [[semi text]|er l|pp| |]; try contradiction.
  - split; [reflexivity|]. eexists. split; [reflexivity|].
    eexists _, o', r'. split; [exact Hrun|]. split; [exact HW|]. split; [reflexivity|].
    destruct Hrel as [Hf1 Hv1]. split; [exact Hf1 | exact Hv1].
  - destruct er; try contradiction; destruct l; try contradiction;
      (split; [reflexivity|]; split; [reflexivity|];
       eexists _, _, _; split; [exact Hrun|]; split; [reflexivity|];
       destruct Hrel as [Hf1 Hv1]; split; [exact Hf1 | exact Hv1]).
Qed.
