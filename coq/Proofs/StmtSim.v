(* Proofs/StmtSim.v — C03: statement-level simulation, model vs reference.

   The expression-level theorem (RefProofs.ref_expr_is_den + ExprSem.expr_sem)
   says the token walker and the reference evaluator compute the same value.
   Here that is lifted to whole STATEMENTS: for an assignment statement
   `v = e` (with or without LET), spelled by ANY legal token rendering of the
   tree, executed by the model's statement evaluator from any cursor position
   on any line, versus the reference interpreter's [exec] on the tree
   [SLet v [] e]:

     - both succeed or both fail, with the same error kind;
     - on success the model's cursor is just past the statement, nothing but
       the variable store, the cursor, the read counter and (warnings only)
       the outputs changed, and the two stores are related again
       ([same_store]), so the theorem composes along a program;
     - on failure neither store changed.

   [same_store] is the simulation relation on stores: frames and variables
   agree pointwise.  It implies [same_reads] (what the expression theorem
   needs) and, unlike [same_reads], is preserved by assignment. *)
From Coq Require Import List NArith ZArith Bool Lia.
From Abasic Require Import Model.Bytes Model.Num Model.Token Model.Data Model.Lexer Gen.Tables
     Model.State Model.Eval Model.Interp Ref.RefSem Proofs.ExprSem Proofs.RefProofs.
Import ListNotations.
Local Open Scope nat_scope.

(* ------------------------------------------------------------------ *)
(* the simulation relation on stores *)

Definition same_store (st : rstate) (s : interp) : Prop :=
  (forall name, lookup_frames name (r_frames st) = find_in_frames name (rev (stack s)))
  /\ (forall name, lookup name (r_vars st) = alist_get name (variables s)).

Lemma default_agrees name : default_of name = default_value name.
Proof. reflexivity. Qed.

Lemma kind_agrees name x : kind_ok name x = type_matches name x.
Proof. destruct x; reflexivity. Qed.

Lemma same_store_reads st s : same_store st s -> same_reads st s.
Proof.
  intros [Hf Hv] name. unfold read_var, lookup_var. rewrite Hf, Hv. reflexivity.
Qed.

Lemma lookup_is_alist_get {V} k (l : list (bytes * V)) : lookup k l = alist_get k l.
Proof. induction l as [|[k' v] l IH]; cbn [lookup alist_get]; [reflexivity | rewrite IH; reflexivity]. Qed.

Lemma update_is_alist_set {V} k (v : V) l : update k v l = alist_set k v l.
Proof. induction l as [|[k' v'] l IH]; cbn [update alist_set]; [reflexivity | rewrite IH; reflexivity]. Qed.

Lemma bytes_eqb_refl k : bytes_eqb k k = true.
Proof. apply bytes_eqb_eq; reflexivity. Qed.

Lemma alist_get_set {V} k v (x : V) l :
  alist_get k (alist_set v x l) = if bytes_eqb k v then Some x else alist_get k l.
Proof.
  induction l as [|[k' x'] l IH]; cbn [alist_set alist_get].
  - destruct (bytes_eqb k v); reflexivity.
  - destruct (bytes_eqb v k') eqn:Evk; cbn [alist_get].
    + apply bytes_eqb_eq in Evk; subst k'. destruct (bytes_eqb k v); reflexivity.
    + destruct (bytes_eqb k k') eqn:Ekk.
      * apply bytes_eqb_eq in Ekk; subst k'.
        destruct (bytes_eqb k v) eqn:Ekv; [|reflexivity].
        apply bytes_eqb_eq in Ekv; subst v. rewrite bytes_eqb_refl in Evk. discriminate.
      * exact IH.
Qed.

(* assignment preserves the relation, whatever else (cursor, counters,
   outputs) differs between the two model states *)
Lemma same_store_assign st s s' v x :
  same_store st s -> stack s' = stack s ->
  variables s' = alist_set v x (variables s) ->
  same_store (set_vars' (update v x (r_vars st)) st) s'.
Proof.
  intros [Hf Hv] Hs Hvars. split; intros name.
  - rewrite Hs. destruct st; exact (Hf name).
  - rewrite Hvars. replace (r_vars (set_vars' (update v x (r_vars st)) st)) with (update v x (r_vars st))
      by (destruct st; reflexivity).
    rewrite update_is_alist_set, lookup_is_alist_get, !alist_get_set.
    rewrite <- lookup_is_alist_get, Hv. reflexivity.
Qed.

(* ------------------------------------------------------------------ *)
(* the expression fragment never panics, runs out of fuel or misses the
   oracle: its fold is a value, TYPE MISMATCH or DIVISION BY ZERO *)

Definition plain (R : res value) : Prop :=
  match R with
  | Ok _ => True
  | Err ETypeMismatch None | Err EDivisionByZero None => True
  | _ => False
  end.

Lemma den_plain s : forall e e', tr e = Some e' -> plain (den s e').
Proof.
  induction e as [x|b|v|a idx|a IH|a IH|a IH|op a IHa b IHb|a IH|a IH|a IH|f args];
    intros e' Htr; cbn [tr] in Htr; try discriminate.
  - inversion Htr; exact I.
  - inversion Htr; exact I.
  - inversion Htr; exact I.
  - destruct (tr a) as [a'|]; [|discriminate]. inversion Htr; subst. cbn [den].
    specialize (IH a' eq_refl). destruct (den s a') as [[x|x]|er l|pp| |]; try exact IH; exact I.
  - destruct (tr a) as [a'|]; [|discriminate]. inversion Htr; subst. cbn [den].
    specialize (IH a' eq_refl). destruct (den s a') as [[x|x]|er l|pp| |]; try exact IH; exact I.
  - destruct (tr a) as [a'|]; [|discriminate]. inversion Htr; subst. cbn [den].
    specialize (IH a' eq_refl). destruct (den s a') as [[x|x]|er l|pp| |]; try exact IH; exact I.
  - destruct (tr a) as [a'|]; [|discriminate]. destruct (tr b) as [b'|]; [|discriminate].
    inversion Htr; subst. cbn [den].
    specialize (IHa a' eq_refl). specialize (IHb b' eq_refl).
    destruct (den s a') as [v|er l|pp| |]; try exact IHa.
    destruct (den s b') as [w|er l|pp| |]; try exact IHb.
    destruct op as [| |c| | | |]; destruct v as [x|x], w as [y|y]; cbn; try exact I.
    destruct (f64_eqb y f64_zero); exact I.
  - destruct (tr a) as [a'|]; [|discriminate]. inversion Htr; subst. cbn [den].
    specialize (IH a' eq_refl). destruct (den s a') as [[x|x]|er l|pp| |]; try exact IH; exact I.
  - destruct (tr a) as [a'|]; [|discriminate]. inversion Htr; subst. cbn [den].
    specialize (IH a' eq_refl). destruct (den s a') as [[x|x]|er l|pp| |]; try exact IH; exact I.
Qed.

(* ------------------------------------------------------------------ *)
(* the assignment statement *)

Definition rerr_of (e : ierror) : rerr :=
  match e with EDivisionByZero => RDivisionByZero | _ => RTypeMismatch end.

Section LetSim.
  Variable s : interp.
  Variable toks : list token.
  Hypothesis Htoks : fst (cur_tokens s) = Ok toks.
  Hypothesis Htrace : enable_tracing s = false.

  (* the tokens of the statement start at index [i] of the current line:
     [v = <ts>] followed by [rest] (the end of the line, or a colon, ...) *)
  Variables (v : bytes) (e : rexpr) (e' : expr) (ts rest : list token) (i : nat).
  Hypothesis Hskip : skipn i toks = TSymbol v :: TEquals :: ts ++ rest.
  Hypothesis Hstop : stops 0 rest = true.
  Hypothesis Htr : tr e = Some e'.
  Hypothesis Hren : Renders 0 e' ts.
  Hypothesis Hdepth : 1 + pdepth e' < max_nesting.

  (* reference side *)
  Variables (p : rprogram) (after : rpc) (li : nat) (st : rstate).
  Hypothesis Hrel : same_store st s.

  Lemma ref_let F : xsize e <= F ->
    exec F p (SLet v [] e) after li st =
    match den s e' with
    | Ok x => if type_matches v x
              then Next after (set_vars' (update v x (r_vars st)) st)
              else Fail RTypeMismatch (line_no p li) st
    | Err er _ => Fail (rerr_of er) (line_no p li) st
    | _ => NoFuel
    end.
  Proof.
    intros HF. cbn [exec eval_subscripts]. unfold RefSem.ev.
    rewrite (ref_expr_is_den e e' st s F Htr (same_store_reads _ _ Hrel) HF).
    pose proof (den_plain s e e' Htr) as Hp.
    destruct (den s e') as [x|er l|pp| |]; cbn [conv]; try reflexivity.
    - unfold store_scalar. rewrite kind_agrees. destruct (type_matches v x); reflexivity.
    - destruct er; cbn [plain] in Hp; try contradiction; destruct l; try contradiction; reflexivity.
  Qed.

  (* model side: the statement evaluator on the token stream *)
  Lemma model_let : exists fuel0, forall fuel, fuel0 <= fuel -> forall r o,
    exists i' r' o', W s o o' /\
      evaluate_statement fuel 0 (at_idx s i r o) =
      match den s e' with
      | Ok x => if type_matches v x
                then (Ok tt, set_variables (alist_set v x (variables s))
                               (at_idx s (i + 2 + length ts) r' o'))
                else (Err ETypeMismatch None, at_idx s (i + 2 + length ts) r' o')
      | Err er l => (Err er l, at_idx s i' r' o')
      | Panic pp => (Panic pp, at_idx s i' r' o')
      | OutOfFuel => (OutOfFuel, at_idx s i' r' o')
      | OracleMiss => (OracleMiss, at_idx s i' r' o')
      end.
  Proof.
    destruct (skipn_cons_nth _ _ _ _ Hskip) as [H0 Hs1].
    destruct (skipn_cons_nth _ _ _ _ Hs1) as [H1 Hs2].
    destruct (expr_sem_at s toks Htoks e' ts Hren 1 (S (S i)) rest Hs2 Hstop Hdepth) as (f0 & Hex).
    exists (S (S f0)). intros fuel Hf r o.
    destruct fuel as [|f]; [lia|].
    assert (Hf' : f0 <= f) by lia.
    destruct (Hex f Hf' (S (S (S r))) o) as (i' & r' & o' & Heq & Hidx & HW).
    exists i', r', o'. split; [exact HW|].
    cbn [evaluate_statement]. change (Nat.eqb 0 max_nesting) with false. cbv iota.
    unfold evaluate_statement_body.
    rewrite bind_get_run. change (enable_tracing (at_idx s i r o)) with (enable_tracing s).
    rewrite Htrace. cbv iota.
    rewrite (bind_ok _ _ _ _ _ (eq_refl : ret tt (at_idx s i r o) = (Ok tt, at_idx s i r o))).
    erewrite bind_ok by (apply (next_some s toks Htoks); exact H0). cbv iota beta.
    unfold evaluate_assignment_statement, parse_optional_array_index.
    rewrite bind_assoc.
    erewrite bind_ok by (apply (peek_is_at s toks Htoks)).
    rewrite H1. change (token_eqb TEquals TLeftParen) with false. cbn [negb].
    rewrite (bind_ok _ _ _ _ _ (eq_refl : ret None (at_idx s (S i) (S (S r)) o) = (Ok None, _))).
    erewrite bind_ok by (apply (expect_ok s toks Htoks _ _ _ TEquals TEquals H1); reflexivity).
    unfold Eval.expr.
    erewrite bind_run by exact Heq.
    destruct (den s e') as [x|er l|pp| |]; try reflexivity.
    rewrite (Hidx x eq_refl).
    replace (S (S i) + length ts) with (i + 2 + length ts) by lia.
    unfold assign_value. cbn [lv_index lv_sym]. unfold variables_set.
    destruct (type_matches v x); reflexivity.
  Qed.

  (* The simulation step: run the statement on both sides. *)
  Theorem let_statement_simulates : exists fuel0, forall fuel, fuel0 <= fuel -> forall r o,
    match exec (xsize e) p (SLet v [] e) after li st with
    | Next pc st' =>
        pc = after /\
        exists s', evaluate_statement fuel 0 (at_idx s i r o) = (Ok tt, s')
          /\ same_store st' s'
          /\ loc s' = mkloc (loc_line (loc s)) (i + 2 + length ts)
          /\ W s o (outputs s')
          /\ (exists x r', s' = set_variables (alist_set v x (variables s))
                                (at_idx s (i + 2 + length ts) r' (outputs s')))
    | Fail er line st' =>
        line = line_no p li /\ st' = st /\
        exists ie l s', evaluate_statement fuel 0 (at_idx s i r o) = (Err ie l, s')
          /\ rerr_of ie = er /\ same_store st s'
    | Done _ | NoFuel => False
    end.
  Proof.
    destruct model_let as (f0 & Hm). exists f0. intros fuel Hf r o.
    destruct (Hm fuel Hf r o) as (i' & r' & o' & HW & Hrun). clear Hm.
    rewrite (ref_let (xsize e) (le_n _)).
    pose proof (den_plain s e e' Htr) as Hp.
    destruct (den s e') as [x|er l|pp| |]; cbn [plain] in Hp; try contradiction.
    - destruct (type_matches v x).
      + split; [reflexivity|]. eexists. split; [exact Hrun|].
        split; [apply (same_store_assign st s _ v x Hrel); reflexivity|].
        split; [reflexivity|]. split; [exact HW|].
        exists x, r'. reflexivity.
      + split; [reflexivity|]. split; [reflexivity|].
        eexists _, _, _. split; [exact Hrun|]. split; [reflexivity|].
        destruct Hrel as [Hf1 Hv1]. split; [exact Hf1 | exact Hv1].
    - split; [reflexivity|]. split; [reflexivity|].
      eexists _, _, _. split; [exact Hrun|]. split; [reflexivity|].
      destruct Hrel as [Hf1 Hv1]. split; [exact Hf1 | exact Hv1].
  Qed.
End LetSim.
