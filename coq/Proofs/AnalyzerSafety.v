(* Proofs/AnalyzerSafety.v — C05: the static analysis never panics.

   The Rust analyzer has four panic sites: tokens_for_line(..).unwrap() under
   every cursor operation, err.location.unwrap() and the explicit panic! when a
   diagnostic's location cannot be mapped to the source, and the unwrap() of
   the symbol warnings' locations.  The model keeps all of them (res = Panic).
   This file proves that none is reachable, for every text:

     analysis_never_panics : an_result (analyze fuel text) is never Panic.

   The invariant: the stored program T is fixed; the cursor is always a
   location [okl] — on a stored line, at most one past its last token — every
   error that carries a location carries an [okl] one, an error without one is
   never DATA TYPE MISMATCH (the only kind whose location is looked up in the
   DATA cursor), and every logged symbol access is at an [okl] location.  Pass 1
   maps every [okl] location to a source range (the source map has the token
   ranges of every stored line: [PM]).  *)
From Coq Require Import List NArith ZArith Bool Lia.
From Abasic Require Import Model.Bytes Model.Num Model.Token Model.Data Model.Lexer Gen.Tables
     Model.State Model.Eval Model.Interp Model.Analyzer.
Import ListNotations.
Local Open Scope nat_scope.

Definition tt_ {A} (a : A) : Prop := True.

Section Ctx.
  Variable T : list (N * list token).

  Definition okl (l : location) : Prop :=
    exists n ts, loc_line l = Some n /\ toks_get n T = Some ts /\ loc_idx l <= length ts.

  Definition inC (s : interp) : Prop := st_toks s = T /\ okl (loc s).

  (* the error kinds the analysis can report: not DATA TYPE MISMATCH (located
     through the DATA cursor), not a tokenizer error (located through the
     line's error range) *)
  Definition eok (e : ierror) : Prop :=
    match e with EDataTypeMismatch | ESyntaxTok _ => False | _ => True end.

  Definition post {A} (Q : A -> Prop) (r : res A) : Prop :=
    match r with
    | Ok a => Q a
    | Err e (Some l) => okl l /\ eok e
    | Err e None => eok e
    | Panic _ | OracleMiss => False
    | OutOfFuel => True
    end.

  Lemma post_weaken {A} (Q Q' : A -> Prop) r : (forall a, Q a -> Q' a) -> post Q r -> post Q' r.
  Proof. intros H. destruct r as [a|e [l|]|p| |]; cbn [post]; auto. Qed.

  Lemma okl_prev l : okl l -> okl (prev_location l).
  Proof.
    intros (n & ts & H1 & H2 & H3). exists n, ts. unfold prev_location. cbn [loc_line loc_idx].
    repeat split; try assumption. lia.
  Qed.

  (* ---------------------------------------------------------------- *)
  (* the interpreter monad: cursor operations *)

  Definition msafe {A} (Q : A -> Prop) (m : M A) : Prop :=
    forall s, inC s -> inC (snd (m s)) /\ st_keys (snd (m s)) = st_keys s /\ post Q (fst (m s)).

  Lemma msafe_weaken {A} (Q Q' : A -> Prop) (m : M A) :
    (forall a, Q a -> Q' a) -> msafe Q m -> msafe Q' m.
  Proof.
    intros H Hm s Hs. destruct (Hm s Hs) as (H1 & H2 & H3). split; [exact H1|split; [exact H2|]].
    eapply post_weaken; eassumption.
  Qed.

  Lemma peek_C s n ts :
    st_toks s = T -> loc_line (loc s) = Some n -> toks_get n T = Some ts ->
    peek_next_token s = (Ok (nth_error ts (loc_idx (loc s))), set_reads (S (reads s)) s).
  Proof.
    intros HT Hl Hg. unfold peek_next_token, cur_tokens, bind, modify, get, ret, tokens_for_line.
    cbn. rewrite Hl, HT, Hg. reflexivity.
  Qed.

  Lemma inC_reads s r : inC s -> inC (set_reads r s).
  Proof. intros H. exact H. Qed.

  Lemma inC_adv s n ts t :
    st_toks s = T -> loc_line (loc s) = Some n -> toks_get n T = Some ts ->
    nth_error ts (loc_idx (loc s)) = Some t ->
    inC (set_loc (mkloc (loc_line (loc s)) (S (loc_idx (loc s)))) s).
  Proof.
    intros HT Hl Hg Hn. split; [exact HT|]. exists n, ts. cbn. repeat split; try assumption.
    assert (loc_idx (loc s) < length ts) by (apply nth_error_Some; congruence). lia.
  Qed.

  Lemma msafe_peek : msafe tt_ peek_next_token.
  Proof.
    intros s Hs. destruct Hs as [HT (n & ts & Hl & Hg & Hb)].
    rewrite (peek_C s n ts HT Hl Hg). cbn [fst snd post].
    split; [split; [exact HT | exists n, ts; auto] | split; [reflexivity | exact I]].
  Qed.

  Lemma msafe_next_token : msafe tt_ next_token.
  Proof.
    intros s Hs. pose proof Hs as [HT (n & ts & Hl & Hg & Hb)].
    unfold next_token, bind. rewrite (peek_C s n ts HT Hl Hg).
    destruct (nth_error ts (loc_idx (loc s))) as [t|] eqn:E; cbn [fst snd post].
    - split; [|split; [reflexivity | exact I]].
      apply (inC_adv (set_reads (S (reads s)) s) n ts t); assumption.
    - split; [exact Hs | split; [reflexivity | exact I]].
  Qed.

  Ltac fin3 := split; [assumption | split; [assumption | first [exact I | assumption | idtac]]].

  Lemma msafe_next_unwrapped : msafe tt_ next_unwrapped_token.
  Proof.
    intros s Hs. destruct (msafe_next_token s Hs) as (H1 & H2 & H3).
    unfold next_unwrapped_token, bind. destruct (next_token s) as [[[t|]|e l|p| |] s1]; cbn [fst snd] in *;
      try fin3.
    cbn [post]. destruct H1 as [_ Hl]. split; [exact Hl | exact I].
  Qed.

  Lemma msafe_expect t : msafe tt_ (expect_next_token t).
  Proof.
    intros s Hs. destruct (msafe_next_unwrapped s Hs) as (H1 & H2 & H3).
    unfold expect_next_token, bind. destruct (next_unwrapped_token s) as [[t'|e l|p| |] s1]; cbn [fst snd] in *;
      try fin3.
    destruct (token_eqb t' t); cbn [fst snd ret fail]; fin3.
  Qed.

  Lemma msafe_accept t : msafe tt_ (accept_next_token t).
  Proof.
    intros s Hs. pose proof Hs as [HT (n & ts & Hl & Hg & Hb)].
    unfold accept_next_token, bind. rewrite (peek_C s n ts HT Hl Hg).
    destruct (nth_error ts (loc_idx (loc s))) as [t'|] eqn:E; cbn [fst snd post].
    - destruct (token_eqb t' t); cbn [fst snd post].
      + split; [|split; [reflexivity | exact I]].
        apply (inC_adv (set_reads (S (reads s)) s) n ts t'); assumption.
      + split; [exact Hs | split; [reflexivity | exact I]].
    - split; [exact Hs | split; [reflexivity | exact I]].
  Qed.

  Lemma msafe_peek_is t : msafe tt_ (peek_is t).
  Proof.
    intros s Hs. destruct (msafe_peek s Hs) as (H1 & H2 & H3).
    unfold peek_is, bind. destruct (peek_next_token s) as [[t'|e l|p| |] s1]; cbn [fst snd] in *; fin3.
  Qed.

  Lemma msafe_try {B} (g : token -> option B) : msafe tt_ (try_next_token g).
  Proof.
    intros s Hs. pose proof Hs as [HT (n & ts & Hl & Hg & Hb)].
    unfold try_next_token, bind. rewrite (peek_C s n ts HT Hl Hg).
    destruct (nth_error ts (loc_idx (loc s))) as [t'|] eqn:E; cbn [fst snd post].
    - destruct (g t'); cbn [fst snd post].
      + split; [|split; [reflexivity | exact I]].
        apply (inC_adv (set_reads (S (reads s)) s) n ts t'); assumption.
      + split; [exact Hs | split; [reflexivity | exact I]].
    - split; [exact Hs | split; [reflexivity | exact I]].
  Qed.

  Lemma msafe_get {A} (f : interp -> A) : msafe tt_ (get f).
  Proof. intros s Hs. split; [exact Hs | split; [reflexivity | exact I]]. Qed.

  Lemma msafe_get_loc : msafe okl (get loc).
  Proof. intros s Hs. split; [exact Hs | split; [reflexivity | apply Hs]]. Qed.

  Lemma msafe_define_function name args : msafe tt_ (define_function name args).
  Proof.
    intros s Hs. unfold define_function, bind, get. cbn [fst snd].
    destruct (loc_line (loc s)); cbn [fst snd modify fail post];
      (split; [exact Hs | split; [reflexivity | exact I]]).
  Qed.

  Lemma msafe_reset_data : msafe tt_ reset_data_cursor.
  Proof. intros s Hs. split; [exact Hs | split; [reflexivity | exact I]]. Qed.

  (* ---------------------------------------------------------------- *)
  (* the analyzer monad *)

  Definition okA (a : access) : Prop := okl (snd (fst a)).

  Definition asafe {A} (Q : A -> Prop) (m : MA A) : Prop :=
    forall st, inC (fst st) -> Forall okA (snd st) ->
      inC (fst (snd (m st))) /\ st_keys (fst (snd (m st))) = st_keys (fst st)
      /\ Forall okA (snd (snd (m st))) /\ post Q (fst (m st)).

  Lemma asafe_weaken {A} (Q Q' : A -> Prop) (m : MA A) :
    (forall a, Q a -> Q' a) -> asafe Q m -> asafe Q' m.
  Proof.
    intros H Hm st H1 H2. destruct (Hm st H1 H2) as (A1 & A2 & A3 & A4).
    split; [exact A1|split; [exact A2|split; [exact A3|]]].
    eapply post_weaken; eassumption.
  Qed.

  Lemma asafe_ret {A} (Q : A -> Prop) a : Q a -> asafe Q (aret a).
  Proof. intros H st H1 H2. split; [exact H1 | split; [reflexivity | split; [exact H2 | exact H]]]. Qed.

  Lemma asafe_fail {A} (Q : A -> Prop) e : eok e -> asafe Q (afail e).
  Proof. intros H st H1 H2. split; [exact H1 | split; [reflexivity | split; [exact H2 | exact H]]]. Qed.

  Lemma asafe_fuel {A} (Q : A -> Prop) : asafe Q (fun s : astate => (@OutOfFuel A, s)).
  Proof. intros st H1 H2. split; [exact H1 | split; [reflexivity | split; [exact H2 | exact I]]]. Qed.

  Lemma asafe_log sym l w : okl l -> asafe tt_ (log_access sym l w).
  Proof.
    intros H st H1 H2. unfold log_access. cbn [fst snd].
    split; [exact H1 | split; [reflexivity | split; [|exact I]]].
    apply Forall_app. split; [exact H2 | constructor; [exact H | constructor]].
  Qed.

  Lemma asafe_lift {A} (Q : A -> Prop) (m : M A) : msafe Q m -> asafe Q (lift m).
  Proof.
    intros H st H1 H2. unfold lift. destruct (H (fst st) H1) as (A1 & A2 & A3).
    destruct (m (fst st)) as [r p]. cbn [fst snd] in *.
    split; [exact A1 | split; [exact A2 | split; [exact H2 | exact A3]]].
  Qed.

  Lemma asafe_bind {A B} (Q : A -> Prop) (Q' : B -> Prop) (m : MA A) (f : A -> MA B) :
    asafe Q m -> (forall a, Q a -> asafe Q' (f a)) -> asafe Q' (abind m f).
  Proof.
    intros Hm Hf st H1 H2. unfold abind. destruct (Hm st H1 H2) as (A1 & A2 & A3 & A4).
    destruct (m st) as [[a|e l|p| |] st1]; cbn [fst snd] in *;
      try (split; [exact A1 | split; [exact A2 | split; [exact A3 | exact A4]]]).
    destruct (Hf a A4 st1 A1 A3) as (B1 & B2 & B3 & B4).
    split; [exact B1 | split; [congruence | split; [exact B3 | exact B4]]].
  Qed.

  Lemma asafe_repeat {S R} n (body : S -> MA (S + R)) :
    (forall acc, asafe tt_ (body acc)) -> forall acc, asafe tt_ (arepeat n body acc).
  Proof.
    intros Hb. induction n as [|n IH]; intros acc; cbn [arepeat].
    - apply asafe_fuel.
    - eapply asafe_bind; [apply Hb|]. intros [acc'|r] _; [apply IH | apply asafe_ret; exact I].
  Qed.

  Ltac as_step leaf :=
    lazymatch goal with
    | |- asafe _ (aret _) => apply asafe_ret; first [ exact I | assumption ]
    | |- asafe _ (afail _) => apply asafe_fail; exact I
    | |- asafe _ (log_access _ _ _) => apply asafe_log; assumption
    | |- asafe _ (abind _ _) =>
        first [ eapply asafe_bind; [ solve [leaf] | intros ? ? ]
              | eapply (asafe_bind tt_); [ | intros ? _ ] ]
    | |- asafe _ (arepeat _ _ _) => apply asafe_repeat; intro
    | |- asafe _ (match ?x with _ => _ end) => destruct x
    | |- _ => solve [leaf]
    end.
  Ltac as_walk leaf := repeat (as_step leaf).

  Ltac lift_leaf :=
    first [ apply asafe_lift;
            first [ apply msafe_peek | apply msafe_next_token | apply msafe_next_unwrapped | apply msafe_expect
                  | apply msafe_accept | apply msafe_peek_is | apply msafe_try | apply msafe_get_loc
                  | apply msafe_get | apply msafe_define_function | apply msafe_reset_data ] ].

  Lemma as_check t e : asafe tt_ (check t e).
  Proof. unfold check. destruct (vtype_eqb t e); [apply asafe_ret; exact I | apply asafe_fail; exact I]. Qed.
  Lemma as_check_number t : asafe tt_ (check_number t).
  Proof. apply as_check. Qed.
  Lemma as_get_loc : asafe okl aget_loc.
  Proof. unfold aget_loc. apply asafe_lift, msafe_get_loc. Qed.
  Lemma as_prev_loc : asafe okl prev_loc.
  Proof.
    unfold prev_loc. eapply asafe_bind; [apply as_get_loc|]. intros l Hl. apply asafe_ret, okl_prev, Hl.
  Qed.
  Lemma as_enter_nesting n : asafe tt_ (enter_nesting n).
  Proof. unfold enter_nesting. destruct (Nat.eqb n max_nesting); [apply asafe_fail; exact I | apply asafe_ret; exact I]. Qed.

  Ltac base_leaf :=
    first [ apply as_check_number | apply as_check | apply as_prev_loc | apply as_get_loc
          | apply as_enter_nesting | lift_leaf ].
  (* a leaf with a stronger postcondition where only tt_ is needed *)
  Ltac weak leaf := first [ leaf | eapply asafe_weaken; [ | leaf ]; intros; exact I ].

  Section AExprS.
    Variable fuel : nat.
    Variable rec : MA vtype.
    Hypothesis Hrec : asafe tt_ rec.

    Ltac leaf := weak ltac:(first [ apply Hrec | base_leaf ]).

    Lemma as_array_index : asafe tt_ (an_array_index fuel rec).
    Proof. unfold an_array_index; as_walk leaf. Qed.
    Lemma as_unary_arg : asafe tt_ (an_unary_number_function_arg rec).
    Proof. unfold an_unary_number_function_arg; as_walk leaf. Qed.
    Lemma as_check_arguments args : forall i n, asafe tt_ (an_check_arguments rec args i n).
    Proof.
      induction args as [|a args IH]; intros i n; cbn [an_check_arguments];
        as_walk ltac:(first [apply IH|leaf]).
    Qed.
    Lemma as_user_function_call name l : okl l -> asafe tt_ (an_user_function_call rec name l).
    Proof. intros Hl. unfold an_user_function_call; as_walk ltac:(first [apply as_check_arguments|leaf]). Qed.
    Lemma as_function_call name l : okl l -> asafe tt_ (an_function_call rec name l).
    Proof.
      intros Hl. unfold an_function_call;
        as_walk ltac:(first [apply as_unary_arg|apply as_user_function_call; assumption|leaf]).
    Qed.
    Lemma as_term : asafe tt_ (an_term fuel rec).
    Proof.
      unfold an_term;
        as_walk ltac:(first [apply as_function_call; assumption|apply as_array_index|leaf]).
    Qed.
    Lemma as_paren : asafe tt_ (an_paren fuel rec).
    Proof. unfold an_paren; as_walk ltac:(first [apply as_term|leaf]). Qed.
    Lemma as_unary : asafe tt_ (an_unary fuel rec).
    Proof. unfold an_unary; as_walk ltac:(first [apply as_term|apply as_paren|leaf]). Qed.
    Lemma as_tier {O} (get_op : MA (option O)) operand comb :
      asafe tt_ get_op -> asafe tt_ operand -> (forall a b, asafe tt_ (comb a b)) ->
      asafe tt_ (an_tier fuel get_op operand comb).
    Proof. intros H1 H2 H3. unfold an_tier; as_walk ltac:(first [apply H1|apply H2|apply H3|leaf]). Qed.
    Lemma as_both_numbers v w : asafe tt_ (both_numbers v w).
    Proof. unfold both_numbers; as_walk leaf. Qed.
    Lemma as_accept_as t : asafe tt_ (an_accept_as t).
    Proof. unfold an_accept_as; as_walk leaf. Qed.
    Lemma as_or : asafe tt_ (an_or fuel rec).
    Proof.
      unfold an_or, an_and, an_equality, an_addsub, an_muldiv, an_exponent.
      repeat (apply as_tier;
              [ first [apply as_accept_as | lift_leaf]
              | | intros; first [apply as_both_numbers | as_walk leaf] ]).
      apply as_unary.
    Qed.
  End AExprS.

  Lemma as_analyze_expression fuel : forall n, asafe tt_ (analyze_expression fuel n).
  Proof.
    induction fuel as [|k IH]; intros n; cbn [analyze_expression].
    - apply asafe_fuel.
    - destruct (Nat.eqb n max_nesting); [apply asafe_fail; exact I|]. apply as_or, IH.
  Qed.

  Definition oklv (lv : alvalue) : Prop := okl (alv_loc lv).

  Section AStmtS.
    Variable fuel nest : nat.
    Variable rec : MA unit.
    Hypothesis Hrec : asafe tt_ rec.

    Lemma as_aexpr : asafe tt_ (aexpr fuel nest).
    Proof. apply as_analyze_expression. Qed.

    Ltac leaf := weak ltac:(first [ apply as_aexpr | apply Hrec | base_leaf ]).

    Lemma as_optional_index : asafe tt_ (an_optional_array_index fuel nest).
    Proof. unfold an_optional_array_index; as_walk ltac:(first [apply as_array_index; apply as_aexpr|leaf]). Qed.
    Lemma as_goto_or_gosub : asafe tt_ an_goto_or_gosub.
    Proof. unfold an_goto_or_gosub; as_walk leaf. Qed.
    Lemma as_statement_or_goto : asafe tt_ (an_statement_or_goto rec).
    Proof. unfold an_statement_or_goto; as_walk ltac:(first [apply as_goto_or_gosub|leaf]). Qed.
    Lemma as_if : asafe tt_ (an_if fuel nest rec).
    Proof. unfold an_if; as_walk ltac:(first [apply as_statement_or_goto|leaf]). Qed.
    Lemma as_assign lv t : oklv lv -> asafe tt_ (an_assign lv t).
    Proof. intros H. unfold an_assign. unfold oklv in H. as_walk leaf. Qed.
    Lemma as_assignment sym : asafe tt_ (an_assignment fuel nest sym).
    Proof.
      unfold an_assignment;
        as_walk ltac:(first [apply as_optional_index|apply as_assign; assumption|leaf]).
    Qed.
    Lemma as_let : asafe tt_ (an_let fuel nest).
    Proof. unfold an_let; as_walk ltac:(first [apply as_assignment|leaf]). Qed.
    Lemma as_parse_lvalue : asafe oklv (an_parse_lvalue fuel nest).
    Proof.
      unfold an_parse_lvalue.
      eapply (asafe_bind tt_); [lift_leaf|]. intros t _.
      destruct t as [t|]; [|apply asafe_fail; exact I].
      destruct t; try (apply asafe_fail; exact I).
      eapply asafe_bind; [apply as_prev_loc|]. intros l Hl.
      eapply (asafe_bind tt_); [apply as_optional_index|]. intros ar _.
      apply asafe_ret. exact Hl.
    Qed.
    Lemma as_read : asafe tt_ (an_read fuel nest).
    Proof.
      unfold an_read. apply asafe_repeat. intros [].
      eapply asafe_bind; [apply as_parse_lvalue|]. intros lv Hlv.
      eapply (asafe_bind tt_); [apply as_assign; exact Hlv|]. intros _ _.
      as_walk leaf.
    Qed.
    Lemma as_input : asafe tt_ (an_input fuel nest).
    Proof.
      unfold an_input. eapply asafe_bind; [apply as_parse_lvalue|]. intros lv Hlv. apply asafe_log. exact Hlv.
    Qed.
    Lemma as_dim : asafe tt_ (an_dim fuel nest).
    Proof.
      unfold an_dim. eapply asafe_bind; [apply as_parse_lvalue|]. intros lv Hlv. apply asafe_log. exact Hlv.
    Qed.
    Lemma as_print : asafe tt_ (an_print fuel nest).
    Proof. unfold an_print; as_walk leaf. Qed.
    Lemma as_for : asafe tt_ (an_for fuel nest).
    Proof. unfold an_for; as_walk leaf. Qed.
    Lemma as_next : asafe tt_ an_next.
    Proof. unfold an_next; as_walk leaf. Qed.
    Lemma as_def : asafe tt_ (an_def fuel nest).
    Proof. unfold an_def; as_walk leaf. Qed.

    Lemma as_statement_body : asafe tt_ (an_statement_body fuel nest rec).
    Proof.
      unfold an_statement_body.
      as_walk ltac:(first [ apply as_dim | apply as_print | apply as_input | apply as_if | apply as_goto_or_gosub
                          | apply as_for | apply as_next | apply as_def | apply as_read | apply as_let
                          | apply as_assignment | leaf ]).
    Qed.
  End AStmtS.

  Lemma as_analyze_statement fuel : forall n, asafe tt_ (analyze_statement fuel n).
  Proof.
    induction fuel as [|k IH]; intros n; cbn [analyze_statement].
    - apply asafe_fuel.
    - destruct (Nat.eqb n max_nesting); [apply asafe_fail; exact I|]. apply as_statement_body, IH.
  Qed.
End Ctx.

(* ------------------------------------------------------------------ *)
(* the source map built by pass 1 covers every location of the stored program *)

From Abasic Require Import Proofs.StoreProofs Proofs.Safety Proofs.AnalyzerFrame.
Local Open Scope nat_scope.

Definition PM (T : list (N * list token)) (m : source_map) : Prop :=
  forall n ts, toks_get n T = Some ts ->
    ts <> [] /\ exists fl lr trs, sm_lookup n (sm_lines m) = Some fl /\ nth_error (sm_ranges m) fl = Some lr
      /\ lr_token_ranges lr = Some trs /\ length trs = length ts.

Lemma PM_maps T m l : PM T m -> okl T l -> map_location_to_source m l <> None.
Proof.
  intros HP (n & ts & Hl & Hg & Hb). destruct (HP n ts Hg) as (Hne & fl & lr & trs & H1 & H2 & H3 & H4).
  unfold map_location_to_source. rewrite Hl, H1, H2, H3.
  assert (Hlen : length trs <> 0) by (rewrite H4; destruct ts; [congruence | discriminate]).
  destruct (Nat.eqb (loc_idx l) (length trs) && negb (Nat.eqb (length trs) 0)) eqn:E.
  - destruct (nth_error trs (Nat.pred (length trs))) eqn:En; [discriminate|].
    apply nth_error_None in En. lia.
  - destruct (nth_error trs (loc_idx l)) eqn:En; [discriminate|].
    apply nth_error_None in En.
    apply andb_false_iff in E. destruct E as [E|E].
    + apply Nat.eqb_neq in E. lia.
    + apply negb_false_iff, Nat.eqb_eq in E. lia.
Qed.

Lemma PM_more_ranges T lines ranges lr :
  PM T (mkmap lines ranges) -> PM T (mkmap lines (ranges ++ [lr])).
Proof.
  intros HP n ts Hg. destruct (HP n ts Hg) as (Hne & fl & lr0 & trs & H1 & H2 & H3 & H4).
  split; [exact Hne|]. exists fl, lr0, trs. cbn [sm_lines sm_ranges] in *. repeat split; try assumption.
  rewrite nth_error_app1; [exact H2|]. apply nth_error_Some. congruence.
Qed.

(* the diagnostics of pass 1 name file lines already seen *)
Definition p1msg (k : nat) (msg : message) : Prop :=
  match msg with
  | MWarning fl None _ => fl < k
  | MError fl (ESyntaxTok _) _ => fl < k
  | _ => False
  end.

Lemma p1msg_mono k k' msg : k <= k' -> p1msg k msg -> p1msg k' msg.
Proof. intros H. destruct msg as [fl [l|] t|fl e l]; cbn [p1msg]; try tauto; [lia|]. destruct e; try tauto. lia. Qed.

Lemma p1msg_maps m msg : p1msg (length (sm_ranges m)) msg -> map_to_source m msg <> None.
Proof.
  destruct msg as [fl [l|] t|fl e l]; cbn [p1msg map_to_source]; try tauto.
  - intros H. destruct (nth_error (sm_ranges m) fl) eqn:E; [discriminate|]. apply nth_error_None in E. lia.
  - destruct e; try tauto. intros H.
    destruct (nth_error (sm_ranges m) fl) as [lr|] eqn:E; [|apply nth_error_None in E; lia].
    destruct (lr_error_range lr); discriminate.
Qed.

(* what pass 1 maintains *)
Record PP (i : nat) (p : pass1) : Prop := {
  pp_wf : wf (p_prog p);
  pp_map : PM (st_toks (p_prog p)) (p_map p);
  pp_len : length (sm_ranges (p_map p)) = i;
  pp_msgs : Forall (p1msg i) (p_msgs p) }.

Lemma PP_init : PP 0 (mkpass1 init_interp [] (mkmap [] []) []).
Proof. split; [apply wf_init| |reflexivity|constructor]. intros n ts H. discriminate. Qed.

Lemma sm_expand m : m = mkmap (sm_lines m) (sm_ranges m).
Proof. destruct m; reflexivity. Qed.

Lemma Forall_p1_S i msgs : Forall (p1msg i) msgs -> Forall (p1msg (S i)) msgs.
Proof. apply Forall_impl. intros a. apply p1msg_mono. lia. Qed.

Lemma Forall_p1_snoc i msgs msg : Forall (p1msg i) msgs -> p1msg (S i) msg -> Forall (p1msg (S i)) (msgs ++ [msg]).
Proof. intros H1 H2. apply Forall_app. split; [apply Forall_p1_S, H1 | constructor; [exact H2 | constructor]]. Qed.

Lemma PP_line i line p : PP i p -> PP (S i) (pass1_line i line p).
Proof.
  intros [Hwf Hm Hlen Hmsgs]. rewrite (sm_expand (p_map p)) in Hm. unfold pass1_line.
  assert (Hl1 : forall lr, length (sm_ranges (p_map p) ++ [lr]) = S i)
    by (intros lr; rewrite app_length, Hlen; cbn; lia).
  destruct line as [|b line'].
  { split; cbn [p_prog p_map p_msgs sm_ranges]; [exact Hwf | apply PM_more_ranges; exact Hm | apply Hl1 | apply Forall_p1_S, Hmsgs]. }
  destruct (parse_line_number (b :: line')) as [[n e]|].
  2:{ split; cbn [p_prog p_map p_msgs sm_ranges]; [exact Hwf | apply PM_more_ranges; exact Hm | apply Hl1 |].
      apply Forall_p1_snoc; [exact Hmsgs | cbn; lia]. }
  assert (Hm0 : Forall (p1msg (S i))
                  (if store_has n (p_prog p)
                   then p_msgs p ++ [MWarning i None (bs "Redefinition of pre-existing BASIC line.")]
                   else p_msgs p)).
  { destruct (store_has n (p_prog p)); [apply Forall_p1_snoc; [exact Hmsgs | cbn; lia] | apply Forall_p1_S, Hmsgs]. }
  destruct (tokenize (b :: line') e) as [ts|ts0 err].
  - destruct ts as [|t ts].
    { split; cbn [p_prog p_map p_msgs sm_ranges]; [exact Hwf | apply PM_more_ranges; exact Hm | apply Hl1 |].
      apply Forall_app. split; [exact Hm0 | constructor; [cbn; lia | constructor]]. }
    split; cbn [p_prog p_map p_msgs sm_ranges]; [apply wf_set_numbered_line, Hwf | | apply Hl1 | exact Hm0].
    destruct (set_numbered_line_store n (map fst (t :: ts)) (p_prog p)) as [-> _].
    intros k tk Hk. change (toks_get k (st_toks (store_set n (map fst (t :: ts)) (p_prog p))))
      with (abs (store_set n (map fst (t :: ts)) (p_prog p)) k) in Hk.
    rewrite abs_store_set in Hk. unfold aupd in Hk. cbn [sm_lines sm_ranges sm_lookup].
    destruct (n =? k)%N eqn:E.
    + cbn [map] in Hk. inversion Hk; subst tk. split; [discriminate|].
      exists (length (sm_ranges (p_map p))), (mkranges e (Some (map snd (t :: ts))) None (length (b :: line'))),
             (map snd (t :: ts)).
      repeat split.
      * rewrite nth_error_app2 by apply le_n. rewrite Nat.sub_diag. reflexivity.
      * cbn [map length]. rewrite !map_length. reflexivity.
    + destruct (Hm k tk Hk) as (Hne & fl & lr0 & trs & H1 & H2 & H3 & H4).
      split; [exact Hne|]. exists fl, lr0, trs. cbn [sm_lines sm_ranges] in *. repeat split; try assumption.
      rewrite nth_error_app1; [exact H2|]. apply nth_error_Some. congruence.
  - destruct (error_range err (length (b :: line'))) as [a c].
    split; cbn [p_prog p_map p_msgs sm_ranges]; [exact Hwf | apply PM_more_ranges; exact Hm | apply Hl1 |].
    apply Forall_app. split; [exact Hm0 | constructor; [cbn; lia | constructor]].
Qed.

Lemma PP_lines lines : forall i p, PP i p -> PP (i + length lines) (pass1_lines i lines p).
Proof.
  induction lines as [|l r IH]; intros i p H; cbn [pass1_lines length].
  - rewrite Nat.add_0_r. exact H.
  - rewrite Nat.add_succ_r. apply (IH (S i)), PP_line, H.
Qed.

(* ------------------------------------------------------------------ *)
(* the walk over the stored lines *)

Section Walk.
  Variable T : list (N * list token).
  Variable m : source_map.
  Hypothesis HPM : PM T m.

  (* on a stored line, or (empty program) on the empty immediate line *)
  Definition WI (st : astate) : Prop :=
    st_toks (fst st) = T /\ Forall (okA T) (snd st)
    /\ (okl T (loc (fst st)) \/ (loc_line (loc (fst st)) = None /\ immediate (fst st) = [])).

  Lemma has_next_C s : inC T s -> exists b, has_next_token s = (Ok b, set_reads (S (reads s)) s).
  Proof.
    intros [HT (n & ts & Hl & Hg & Hb)]. unfold has_next_token, bind. rewrite (peek_C T s n ts HT Hl Hg).
    eexists. reflexivity.
  Qed.

  Lemma has_next_imm s : loc_line (loc s) = None -> immediate s = [] ->
    has_next_token s = (Ok false, set_reads (S (reads s)) s).
  Proof.
    intros Hl Hi. unfold has_next_token, peek_next_token, cur_tokens, bind, modify, get, ret, tokens_for_line.
    cbn. rewrite Hl. cbn. rewrite Hi. destruct (loc_idx (loc s)); reflexivity.
  Qed.

  Lemma populate_ok e l s : inC T s -> post T (@tt_ unit) (Err e l) ->
    exists l0, populate_error_location e l s = Some l0 /\ okl T l0 /\ eok e.
  Proof.
    intros [_ Hs] Hp. unfold populate_error_location. destruct l as [l|]; cbn [post] in Hp.
    - exists l. split; [reflexivity | exact Hp].
    - exists (prev_location (loc s)). split; [|split; [apply okl_prev, Hs | exact Hp]].
      destruct e; try reflexivity. contradiction.
  Qed.

  Definition quiet {A} (r : res A) : Prop := forall p, r <> Panic p.
  (* a diagnostic of the walk: it maps to a source position, and is not a
     tokenizer error *)
  Definition gmsg (msg : message) : Prop :=
    map_to_source m msg <> None /\ match msg with MError _ (ESyntaxTok _) _ => False | _ => True end.
  Definition calm (r : res (option message)) : Prop :=
    match r with Ok (Some msg) => gmsg msg | Ok None | OutOfFuel => True | _ => False end.

  Lemma walk_line_safe fuel : forall stmts st, WI st ->
    calm (fst (walk_line fuel stmts m st)) /\ WI (snd (walk_line fuel stmts m st))
    /\ st_keys (fst (snd (walk_line fuel stmts m st))) = st_keys (fst st).
  Proof.
    induction stmts as [|k IH]; intros st (HT & Hacc & Hloc); cbn [walk_line].
    - split; [exact I|]. split; [split; [exact HT | split; assumption] | reflexivity].
    - destruct Hloc as [Hok|[Hl Hi]].
      + assert (HC : inC T (fst st)) by (split; assumption).
        destruct (has_next_C (fst st) HC) as (b & ->).
        destruct b.
        * pose proof (as_analyze_statement T fuel 0 (set_reads (S (reads (fst st))) (fst st), snd st) HC Hacc)
            as (A1 & A2 & A3 & A4).
          destruct (analyze_statement fuel 0 (set_reads (S (reads (fst st))) (fst st), snd st))
            as [[u|e l|p| |] st'] eqn:Ea; cbn [fst snd] in *.
          -- destruct (IH st') as (B1 & B2 & B3).
             { destruct A1 as [A1 A1']. split; [exact A1 | split; [exact A3 | left; exact A1']]. }
             split; [exact B1 | split; [exact B2 | rewrite B3; exact A2]].
          -- destruct (populate_ok e l (fst st') A1 A4) as (l0 & -> & Hl0 & He).
             pose proof (PM_maps T m l0 HPM Hl0) as Hmap.
             destruct (map_location_to_source m l0) as [[fl r]|] eqn:Em; [|congruence].
             cbn [fst snd]. split.
             { unfold calm, gmsg. destruct e; cbn [eok] in He; try contradiction;
                 (split; [cbn [map_to_source]; rewrite Em; discriminate | exact I]). }
             destruct A1 as [A1 A1']. split; [split; [exact A1 | split; [exact A3 | left; exact A1']] | exact A2].
          -- contradiction.
          -- split; [exact I|]. destruct A1 as [A1 A1'].
             split; [split; [exact A1 | split; [exact A3 | left; exact A1']] | exact A2].
          -- contradiction.
        * cbn [fst snd]. split; [exact I|].
          split; [split; [exact HT | split; [exact Hacc | left; exact Hok]] | reflexivity].
      + rewrite (has_next_imm (fst st) Hl Hi). cbn [fst snd]. split; [exact I|].
        split; [split; [exact HT | split; [exact Hacc | right; split; assumption]] | reflexivity].
  Qed.

  Lemma next_line_safe s :
    (forall k, In k (st_keys s) -> toks_get k T <> None) ->
    exists b s', next_line s = (Ok b, s') /\ st_toks s' = st_toks s /\ st_keys s' = st_keys s
      /\ immediate s' = immediate s
      /\ (b = true -> okl T (loc s'))
      /\ (b = false -> loc s' = loc s).
  Proof.
    intros HK. unfold next_line, bind, get. cbn [fst snd].
    destruct (loc_line (loc s)) as [n|]; [|exists false, s; repeat split; discriminate].
    unfold store_after. destruct (keys_after n (st_keys s)) as [n'|] eqn:E; cbn [fst snd modify ret].
    - exists true. eexists. split; [reflexivity|]. repeat split; try discriminate.
      intros _. pose proof (HK n' (keys_after_In _ _ _ E)) as Hn.
      destruct (toks_get n' T) as [ts|] eqn:Eg; [|congruence].
      exists n', ts. cbn. repeat split; try assumption. lia.
    - exists false, s. repeat split; discriminate.
  Qed.

  Lemma walk_lines_safe fuel (G : message -> Prop) : (forall msg, gmsg msg -> G msg) ->
    forall n msgs st,
    (forall k, In k (st_keys (fst st)) -> toks_get k T <> None) -> WI st -> Forall G msgs ->
    quiet (fst (fst (walk_lines fuel n m msgs st)))
    /\ Forall (okA T) (snd (snd (walk_lines fuel n m msgs st)))
    /\ Forall G (snd (fst (walk_lines fuel n m msgs st))).
  Proof.
    intros HG. induction n as [|n IH]; intros msgs st HK HW HM; cbn [walk_lines].
    - split; [discriminate | split; [apply HW | exact HM]].
    - destruct (walk_line_safe fuel (S (length (match fst (cur_tokens (fst st)) with Ok ts => ts | _ => [] end))) st HW)
        as (B1 & B2 & B3).
      destruct (walk_line fuel _ m st) as [[om|e l|p| |] st'] eqn:Ew; cbn [fst snd] in *.
      + assert (HM' : Forall G (match om with Some msg => msgs ++ [msg] | None => msgs end)).
        { destruct om as [msg|]; [|exact HM]. apply Forall_app. split; [exact HM|].
          constructor; [apply HG; exact B1 | constructor]. }
        destruct (next_line_safe (fst st')) as (b & s' & En & N1 & N2 & N3 & N4 & N5).
        { intros k Hk. apply HK. rewrite <- B3. exact Hk. }
        rewrite En. destruct B2 as (W1 & W2 & W3).
        destruct b; cbn [fst snd].
        * apply IH; cbn [fst snd].
          -- intros k Hk. apply HK. rewrite <- B3, <- N2. exact Hk.
          -- split; [exact (eq_trans N1 W1) | split; [exact W2 | left; apply N4; reflexivity]].
          -- exact HM'.
        * split; [discriminate | split; [exact W2 | exact HM']].
      + contradiction.
      + contradiction.
      + split; [intros pp Hpp; discriminate Hpp | split; [apply B2 | exact HM]].
      + contradiction.
  Qed.
End Walk.

(* ------------------------------------------------------------------ *)
(* the symbol warnings *)

Lemma accesses_of_In sym w acc l : In l (accesses_of sym w acc) -> exists a, In a acc /\ snd (fst a) = l.
Proof.
  unfold accesses_of. intros H. apply in_map_iff in H. destruct H as (a & Ha & Hin).
  apply filter_In in Hin. exists a. split; [apply Hin | exact Ha].
Qed.

Lemma symbol_warnings_In acc w : In w (symbol_warnings acc) -> exists a, In a acc /\ snd (fst a) = snd (fst w).
Proof.
  unfold symbol_warnings. intros H. apply in_flat_map in H. destruct H as (sym & _ & H).
  destruct (accesses_of sym false acc) as [|r0 rs] eqn:Er; destruct (accesses_of sym true acc) as [|w0 ws] eqn:Ew;
    try contradiction; apply in_map_iff in H; destruct H as (l & <- & Hl); cbn [fst snd].
  - apply (accesses_of_In sym true acc). rewrite Ew. exact Hl.
  - apply (accesses_of_In sym false acc). rewrite Er. exact Hl.
Qed.

Lemma symbol_messages_good T m ws : PM T m ->
  Forall (fun w => okl T (snd (fst w))) ws ->
  exists sm, symbol_messages m ws = Some sm
    /\ Forall (fun msg => map_to_source m msg <> None
                          /\ match msg with MError _ (ESyntaxTok _) _ => False | _ => True end) sm.
Proof.
  intros HP. induction ws as [|w ws IH]; intros H; cbn [symbol_messages].
  - exists []. split; [reflexivity | constructor].
  - inversion H as [|? ? Hw Hws]; subst. destruct (IH Hws) as (sm & -> & Hsm).
    destruct w as [[sym l] u]. cbn [symbol_message fst snd] in *.
    pose proof (PM_maps T m l HP Hw) as Hm.
    destruct (map_location_to_source m l) as [[fl r]|] eqn:Em; [|congruence].
    eexists. split; [reflexivity|]. constructor; [|exact Hsm].
    split; [cbn [map_to_source]; rewrite Em; discriminate | exact I].
Qed.

(* ------------------------------------------------------------------ *)
(* the analysis as a whole *)

Definition pass1_of' (text : bytes) : pass1 :=
  pass1_lines 0 (split_lines text) (mkpass1 init_interp [] (mkmap [] []) []).

Lemma an_result_walk fuel text :
  exists n r msgs st,
    walk_lines fuel n (p_map (pass1_of' text)) (p_msgs (pass1_of' text))
               (snd (run_from_first_numbered_line (p_prog (pass1_of' text))), []) = (r, msgs, st)
    /\ an_result (analyze fuel text) =
       match r with
       | Ok _ => match symbol_messages (p_map (pass1_of' text)) (symbol_warnings (snd st)) with
                 | Some _ => Ok tt
                 | None => Panic PUnwrapLine
                 end
       | other => other
       end.
Proof.
  unfold analyze. fold (pass1_of' text).
  destruct (walk_lines _ _ _ _ _) as [[r msgs] st] eqn:Ew.
  eexists _, r, msgs, st. split; [exact Ew|].
  destruct r as [u|e l|pp| |]; cbn; try reflexivity.
  destruct (symbol_messages _ _); reflexivity.
Qed.

Lemma rffl_fields s :
  let s' := snd (run_from_first_numbered_line s) in
  st_toks s' = st_toks s /\ st_keys s' = st_keys s /\ immediate s' = []
  /\ loc s' = match store_first s with Some n => mkloc (Some n) 0 | None => imm0 end.
Proof.
  unfold run_from_first_numbered_line, reset_runtime_state, reset_data_cursor, program_end.
  rewrite set_imm_is_modify. unfold modify, bind, imm_reset. cbn [snd fst].
  match goal with |- context [store_first ?x] => change (store_first x) with (store_first s) end.
  destruct (store_first s); destruct s; cbn; repeat split.
Qed.

(* everything the walk establishes, for a predicate [G] on diagnostics that
   the pass-1 diagnostics satisfy and that every mappable non-tokenizer
   diagnostic satisfies *)
Lemma analysis_facts fuel text (G : message -> Prop) :
  (forall msg, map_to_source (p_map (pass1_of' text)) msg <> None ->
               match msg with MError _ (ESyntaxTok _) _ => False | _ => True end -> G msg) ->
  Forall G (p_msgs (pass1_of' text)) ->
  (forall p, an_result (analyze fuel text) <> Panic p) /\ Forall G (an_messages (analyze fuel text)).
Proof.
  intros HG HG1.
  unfold analyze. fold (pass1_of' text).
  set (P := pass1_of' text) in *.
  assert (HPP : PP (0 + length (split_lines text)) P) by (apply PP_lines, PP_init).
  destruct HPP as [Hwf HPM _ _].
  set (T := st_toks (p_prog P)) in *.
  destruct (rffl_fields (p_prog P)) as (F1 & F2 & F3 & F4).
  set (s0 := snd (run_from_first_numbered_line (p_prog P))) in *.
  destruct (wf_store _ Hwf) as (_ & Hkeys & _).
  assert (HK : forall k, In k (st_keys (fst (s0, @nil access))) -> toks_get k T <> None).
  { cbn [fst]. intros k Hk. rewrite F2 in Hk. apply Hkeys. exact Hk. }
  assert (HW : WI T (s0, [])).
  { split; [exact F1|]. split; [constructor|]. cbn [fst]. rewrite F4.
    unfold store_first. destruct (st_keys (p_prog P)) as [|k ks] eqn:Ek; cbn [hd_error].
    - right. split; [reflexivity | exact F3].
    - left. assert (Hin : toks_get k T <> None) by (apply Hkeys; left; reflexivity).
      destruct (toks_get k T) as [ts|] eqn:Eg; [|congruence].
      exists k, ts. cbn. repeat split; try assumption. lia. }
  assert (HG' : forall msg, gmsg (p_map P) msg -> G msg) by (intros msg [H1 H2]; apply HG; assumption).
  destruct (walk_lines_safe T (p_map P) HPM fuel G HG' (S (length (st_keys s0))) (p_msgs P) (s0, []) HK HW HG1)
    as (Q1 & Q2 & Q3).
  destruct (walk_lines fuel (S (length (st_keys s0))) (p_map P) (p_msgs P) (s0, [])) as [[r msgs] st].
  cbn [fst snd] in Q1, Q2, Q3.
  destruct r as [u|e l|pp| |]; cbn [an_result an_messages]; try (split; [intros p; discriminate | exact Q3]).
  - assert (Hs : Forall (fun w => okl T (snd (fst w))) (symbol_warnings (snd st))).
    { apply Forall_forall. intros w Hw. destruct (symbol_warnings_In _ _ Hw) as (a & Ha & <-).
      exact (proj1 (Forall_forall _ _) Q2 a Ha). }
    pose proof (symbol_messages_good T (p_map P) (symbol_warnings (snd st)) HPM Hs) as (sm & -> & Hsm).
    cbn [an_result an_messages]. split; [intros p; discriminate|].
    apply Forall_app. split; [exact Q3|].
    eapply Forall_impl; [|exact Hsm]. intros msg [H1 H2]. apply HG; assumption.
  - split; [exact Q1 | exact Q3].
Qed.

Theorem analysis_never_panics fuel text : forall p, an_result (analyze fuel text) <> Panic p.
Proof.
  apply (analysis_facts fuel text (fun _ => True)); [intros; exact I|].
  apply Forall_forall. intros; exact I.
Qed.

(* every diagnostic the analysis reports maps to a source position *)
Theorem analysis_messages_map fuel text :
  Forall (fun msg => map_to_source (an_map (analyze fuel text)) msg <> None) (an_messages (analyze fuel text)).
Proof.
  assert (Hmap : an_map (analyze fuel text) = p_map (pass1_of' text)).
  { unfold analyze. fold (pass1_of' text). destruct (walk_lines _ _ _ _ _) as [[r msgs] st].
    destruct r; try reflexivity. destruct (symbol_messages _ _); reflexivity. }
  rewrite Hmap.
  apply (analysis_facts fuel text (fun msg => map_to_source (p_map (pass1_of' text)) msg <> None)).
  - intros msg H _. exact H.
  - assert (HPP : PP (0 + length (split_lines text)) (pass1_of' text)) by (apply PP_lines, PP_init).
    destruct HPP as [_ _ Hlen Hmsgs].
    eapply Forall_impl; [|exact Hmsgs]. intros msg H. apply p1msg_maps. rewrite Hlen. exact H.
Qed.

(* ------------------------------------------------------------------ *)
(* with the range theorems of Proofs/AnalyzerProofs.v: every diagnostic of the
   analysis maps to a position, on an existing file line, inside it, on
   character boundaries *)
From Abasic Require Import Proofs.AnalyzerProofs.
Local Open Scope nat_scope.

Theorem diagnostics_well_formed fuel text :
  Forall (fun l => valid_utf8 l = true) (split_lines text) ->
  Forall (fun msg => exists fl r line,
            map_to_source (an_map (analyze fuel text)) msg = Some (fl, r)
            /\ nth_error (split_lines text) fl = Some line /\ range_ok line r)
         (an_messages (analyze fuel text)).
Proof.
  intros Hv.
  assert (Hmap : an_map (analyze fuel text) = p_map (pass1_of' text)).
  { unfold analyze. fold (pass1_of' text). destruct (walk_lines _ _ _ _ _) as [[r msgs] st].
    destruct r; try reflexivity. destruct (symbol_messages _ _); reflexivity. }
  assert (H : Forall (fun msg => map_to_source (p_map (pass1_of' text)) msg <> None
                                 /\ msg_ok (sm_ranges (p_map (pass1_of' text))) msg)
                     (an_messages (analyze fuel text))).
  { apply (analysis_facts fuel text).
    - intros msg H1 H2. split; [exact H1|]. destruct msg as [fl l t|fl e l]; [exact I|].
      destruct e; try exact I. contradiction.
    - assert (HPP : PP (0 + length (split_lines text)) (pass1_of' text)) by (apply PP_lines, PP_init).
      destruct HPP as [_ _ Hlen Hmsgs].
      pose proof (q_msgs _ _ (pass1_inv text Hv)) as Hok.
      change (pass1_of text) with (pass1_of' text) in Hok.
      apply Forall_forall. intros msg Hin. split.
      + apply p1msg_maps. rewrite Hlen. exact (proj1 (Forall_forall _ _) Hmsgs msg Hin).
      + exact (proj1 (Forall_forall _ _) Hok msg Hin). }
  eapply Forall_impl; [|exact H]. intros msg [H1 H2]. rewrite Hmap.
  destruct (map_to_source (p_map (pass1_of' text)) msg) as [[fl r]|] eqn:E; [|congruence].
  pose proof (mapped_in_bounds fuel text msg fl r Hv) as Hb. cbv zeta in Hb. rewrite Hmap in Hb.
  destruct (Hb H2 E) as (line & Hl & Hr). exists fl, r, line. split; [reflexivity | split; assumption].
Qed.
