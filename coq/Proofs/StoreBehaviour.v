(* Proofs/StoreBehaviour.v — behaviour depends on the stored program only as a
   map from line numbers to tokens (consequences of Proofs/StoreExt.v):

   - RUN from two idle interpreters whose programs are equal AS MAPS, with
     the same generator state, flags and oracle, produces the same rows
     forever after (C10 generalised from equal stores to equal maps);
   - order of entry is irrelevant (C04): two sequences of numbered-line
     entries typed into a fresh interpreter that leave the same map leave
     interpreters no later session can tell apart;
   - a reloaded listing behaves identically (C14): RUN, and everything
     after it, in the original interpreter and in a fresh one into which the
     LIST output was typed — same flag setting, same seed — produce the same
     rows: printed output, errors and their lines, input requests, the DATA
     items READ sees. *)
From Coq Require Import List NArith ZArith Bool Lia.
From Abasic Require Import Model.Bytes Model.Num Model.Token Model.Data Model.Lexer Gen.Tables
     Model.State Model.Eval Model.Interp Proofs.Monad Proofs.Frames Proofs.StoreProofs Proofs.ResetProofs
     Proofs.ListProofs Proofs.StoreExt.
Import ListNotations.

(* ------------------------------------------------------------------ *)
(* 1. RUN depends on the program as a map *)

Definition same_program (s t : interp) : Prop :=
  (forall k, abs s k = abs t k) /\ st_keys s = st_keys t.

Lemma clean_sim s t :
  same_program s t -> state s = state t -> outputs s = outputs t -> reads s = reads t ->
  rng s = rng t -> enable_warnings s = enable_warnings t -> enable_tracing s = enable_tracing t ->
  pow_oracle s = pow_oracle t ->
  sim (clean s) (clean t).
Proof.
  intros [Ha Hk] Hs Ho Hr Hg Hw Ht Hp. unfold sim, clean, store_first, erase. cbn.
  rewrite Hk, Hs, Ho, Hr, Hg, Hw, Ht, Hp. repeat split. exact Ha.
Qed.

Theorem run_step_depends_on_map fuel s t :
  state s = Idle -> state t = Idle -> same_program s t ->
  rng s = rng t -> enable_warnings s = enable_warnings t -> enable_tracing s = enable_tracing t ->
  pow_oracle s = pow_oracle t -> outputs s = outputs t ->
  orow_same (fst (step fuel s (HLine (bs "RUN")))) (fst (step fuel t (HLine (bs "RUN"))))
  /\ sim (snd (step fuel s (HLine (bs "RUN")))) (snd (step fuel t (HLine (bs "RUN")))).
Proof.
  intros Hi1 Hi2 Hp Hg Hw Ht Ho Hout.
  unfold step, legal. rewrite Hi1, Hi2. cbn [negb].
  unfold start_evaluating.
  rewrite (evaluate_impl_RUN fuel (set_reads 0 s)) by exact Hi1.
  rewrite (evaluate_impl_RUN fuel (set_reads 0 t)) by exact Hi2.
  assert (Hc : sim (clean (set_reads 0 s)) (clean (set_reads 0 t))).
  { apply clean_sim; [exact Hp | cbn; congruence | exact Hout | reflexivity | exact Hg | exact Hw | exact Ht | exact Ho]. }
  destruct (respects_run_next_statement fuel _ _ Hc) as [E S].
  destruct (postprocess_sim _ _ E S) as [E' S'].
  destruct (postprocess (run_next_statement fuel (clean (set_reads 0 s)))) as [r1 s1].
  destruct (postprocess (run_next_statement fuel (clean (set_reads 0 t)))) as [r2 t1].
  cbn [fst snd] in E', S'. subst r2.
  pose proof (make_row_sim r1 (Some (bs "RUN")) s1 t1 S') as M.
  destruct (make_row r1 (Some (bs "RUN")) s1), (make_row r1 (Some (bs "RUN")) t1). exact M.
Qed.

Theorem run_depends_on_map fuel s t ops :
  state s = Idle -> state t = Idle -> same_program s t ->
  rng s = rng t -> enable_warnings s = enable_warnings t -> enable_tracing s = enable_tracing t ->
  pow_oracle s = pow_oracle t -> outputs s = outputs t ->
  Forall2 orow_same (run_ops fuel s (HLine (bs "RUN") :: ops)) (run_ops fuel t (HLine (bs "RUN") :: ops))
  /\ sim (run_state fuel s (HLine (bs "RUN") :: ops)) (run_state fuel t (HLine (bs "RUN") :: ops)).
Proof.
  intros Hi1 Hi2 Hp Hg Hw Ht Ho Hout. cbn [run_ops run_state].
  destruct (run_step_depends_on_map fuel s t Hi1 Hi2 Hp Hg Hw Ht Ho Hout) as [A B].
  destruct (step fuel s (HLine (bs "RUN"))) as [rw1 s1], (step fuel t (HLine (bs "RUN"))) as [rw2 t1].
  cbn [fst snd] in *. destruct (history_sim fuel ops s1 t1 B) as [C D].
  split; [constructor; assumption | exact D].
Qed.

(* ------------------------------------------------------------------ *)
(* 2. numbered-line entries typed into a fresh interpreter *)

(* an interpreter that holds a program and nothing else *)
Definition prog_state (o : list (Z * Z * Z)) (T : list (N * list token)) (K : list N) : interp :=
  mkinterp T K [] imm0 None [] [] None [] None [] Idle 0 [] [] false false o 0.

Lemma fresh_is_prog o : fresh o = prog_state o [] [].
Proof. reflexivity. Qed.

Definition is_edit (op : hostop) : Prop := exists l n v, op = HLine l /\ edit_of l = Some (n, v).

Lemma edit_step_prog fuel o T K l n v :
  edit_of l = Some (n, v) ->
  snd (step fuel (prog_state o T K) (HLine l))
  = prog_state o (st_toks (store_set n v (prog_state o T K))) (st_keys (store_set n v (prog_state o T K))).
Proof.
  intros Hedit. unfold step, legal. cbn [state prog_state negb].
  change (set_reads 0 (prog_state o T K)) with (prog_state o T K).
  unfold start_evaluating, evaluate_impl. rewrite bind_get. cbn [state prog_state].
  rewrite set_imm_is_modify, bind_modify.
  unfold edit_of in Hedit.
  destruct (command_of l); [discriminate|].
  destruct (parse_line_number l) as [[n' k]|]; [|discriminate].
  destruct (tokenize l k) as [ts|ts e]; [|discriminate].
  inversion Hedit; subst n' v.
  rewrite set_numbered_line_split.
  unfold set_numbered_tail, reset_data_cursor, program_end.
  rewrite !set_imm_is_modify.
  repeat (unfold bind at 1; unfold modify at 1).
  unfold postprocess, make_row, take_outputs. cbn [snd].
  unfold imm_reset, store_set, prog_state. cbn.
  destruct (map fst ts); reflexivity.
Qed.

Lemma edits_prog fuel o : forall ops T K, Forall is_edit ops ->
  exists T' K', run_state fuel (prog_state o T K) ops = prog_state o T' K'.
Proof.
  induction ops as [|op r IH]; intros T K Hall; cbn [run_state]; [eauto|].
  inversion Hall as [|? ? (l & n & v & -> & He) Hr]; subst.
  rewrite (edit_step_prog fuel o T K l n v He). apply IH. exact Hr.
Qed.

(* order of entry is irrelevant: same map, same behaviour ever after *)
Theorem entry_order_irrelevant fuel o ops1 ops2 :
  Forall is_edit ops1 -> Forall is_edit ops2 ->
  let s1 := run_state fuel (fresh o) ops1 in
  let s2 := run_state fuel (fresh o) ops2 in
  (forall k, abs s1 k = abs s2 k) ->
  forall ops, Forall2 orow_same (run_ops fuel s1 ops) (run_ops fuel s2 ops)
              /\ same_program (run_state fuel s1 ops) (run_state fuel s2 ops).
Proof.
  intros H1 H2 s1 s2 Habs ops.
  assert (Hok1 : store_ok s1) by (apply store_ok_reachable, store_ok_init).
  assert (Hok2 : store_ok s2) by (apply store_ok_reachable, store_ok_init).
  assert (Hk : st_keys s1 = st_keys s2).
  { destruct Hok1 as (A1 & B1 & _), Hok2 as (A2 & B2 & _). apply sorted_same_members; try assumption.
    intros k. rewrite B1, B2. unfold abs in Habs. rewrite (Habs k). tauto. }
  destruct (edits_prog fuel o ops1 [] [] H1) as (T1 & K1 & E1).
  destruct (edits_prog fuel o ops2 [] [] H2) as (T2 & K2 & E2).
  rewrite <- fresh_is_prog in E1, E2. fold s1 in E1. fold s2 in E2.
  assert (Hsim : sim s1 s2).
  { rewrite E1, E2 in *. unfold sim, prog_state, erase. cbn. cbn in Hk. rewrite Hk. repeat split. exact Habs. }
  destruct (history_sim fuel ops s1 s2 Hsim) as [A B]. split; [exact A|].
  split; [exact (sim_st_toks _ _ B) | exact (sim_st_keys _ _ B)].
Qed.

(* ------------------------------------------------------------------ *)
(* 3. the reloaded listing behaves identically *)

Lemma listing_edits s : (forall n ts, abs s n = Some ts -> line_roundtrips n ts) -> store_ok s ->
  Forall is_edit (map HLine (listing s)).
Proof.
  intros Hrt (Hs & Hk & Hne). unfold listing. rewrite map_map. apply Forall_forall. intros op Hin.
  apply in_map_iff in Hin as (n & <- & Hin).
  exists (listing_line n (get_toks s n)), n, (get_toks s n). split; [reflexivity|].
  apply Hrt. unfold abs, get_toks. apply Hk in Hin. destruct (toks_get n (st_toks s)); [reflexivity | congruence].
Qed.

Theorem reload_behaves_alike fuel s w b seed ops :
  state s = Idle -> outputs s = [] -> store_ok s ->
  (forall n ts, abs s n = Some ts -> line_roundtrips n ts) ->
  let s' := run_state fuel (fresh (pow_oracle s)) (map HLine (listing s)) in
  let session := HFlags w b :: HRand seed :: HLine (bs "RUN") :: ops in
  Forall2 orow_same (run_ops fuel s session) (run_ops fuel s' session).
Proof.
  intros Hidle Hout Hok Hrt s' session.
  destruct (reload_store fuel (pow_oracle s) s Hok Hrt) as (Habs & Hkeys & _). fold s' in Habs, Hkeys.
  destruct (edits_prog fuel (pow_oracle s) (map HLine (listing s)) [] [] (listing_edits s Hrt Hok)) as (T & K & E).
  rewrite <- fresh_is_prog in E. fold s' in E.
  unfold session. cbn [run_ops].
  (* the flag setting: no row, the flags are set *)
  assert (F1 : step fuel s (HFlags w b) = (None, set_flags w b s)) by reflexivity.
  assert (F2 : step fuel s' (HFlags w b) = (None, set_flags w b s')) by reflexivity.
  rewrite F1, F2. constructor; [exact I|].
  (* the seed: one row, the generator is set, the output queue drained *)
  set (a := set_flags w b s). set (a' := set_flags w b s').
  assert (R : forall x, step fuel x (HRand seed) =
              (Some (fst (make_row (Ok tt) None (set_rng (rng_new seed) (set_reads 0 x)))),
               set_outputs [] (set_rng (rng_new seed) (set_reads 0 x)))) by reflexivity.
  rewrite (R a), (R a').
  constructor.
  { (* the row of the seeding call: both queues are empty *)
    unfold a, a'. rewrite E. unfold make_row, take_outputs, row_same. cbn. rewrite Hidle, Hout. repeat split. }
  apply run_depends_on_map.
  - exact Hidle.
  - unfold a'. rewrite E. reflexivity.
  - split; [intros k; symmetry; apply Habs | symmetry; exact Hkeys].
  - reflexivity.
  - reflexivity.
  - reflexivity.
  - unfold a'. rewrite E. reflexivity.
  - reflexivity.
Qed.
