(* Proofs/ListProofs.v — C14: LIST output reloads to the same program.

   1. Program level: if every stored line's listing text is an edit that
      stores the same tokens under the same number ([line_roundtrips]), then
      entering the lines LIST prints into a fresh interpreter yields a program
      with the same keys, the same tokens per key and the identical listing
      (reload_store, reload_listing).
   2. Token level, by computation over the regenerated tables: every keyword /
      operator / punctuation token is re-read from its canonical spelling, and
      so is every ordered pair of them that the tokenizer can produce at all,
      when joined by the single blank LIST puts between tokens
      (fixed_tokens_roundtrip, fixed_pairs_roundtrip).
   3. Examples with every literal kind (vm_compute). *)
From Coq Require Import List NArith ZArith Bool Lia Sorted.
From Abasic Require Import Model.Bytes Model.Num Model.Token Model.Data Model.Lexer Gen.Tables
     Model.State Model.Eval Model.Interp Proofs.Monad Proofs.Frames Proofs.StoreProofs Proofs.ResetProofs.
Import ListNotations.
Local Open Scope N_scope.

(* the text LIST prints for line n (without the final newline the host strips) *)
Definition listing_line (n : N) (ts : list token) : bytes := show_N n ++ [32] ++ show_listing ts.

Definition line_roundtrips (n : N) (ts : list token) : Prop := edit_of (listing_line n ts) = Some (n, ts).

Definition get_toks (s : interp) (n : N) : list token :=
  match toks_get n (st_toks s) with Some ts => ts | None => [] end.

Definition listing (s : interp) : list bytes := map (fun n => listing_line n (get_toks s n)) (st_keys s).

(* ------------------------------------------------------------------ *)
(* sorted key lists with the same members are equal *)

Lemma sorted_same_members (l1 l2 : list N) :
  keys_sorted l1 -> keys_sorted l2 -> (forall k, In k l1 <-> In k l2) -> l1 = l2.
Proof.
  unfold keys_sorted. revert l2. induction l1 as [|a l1 IH]; intros l2 H1 H2 Hm.
  - destruct l2 as [|b l2]; [reflexivity|]. exfalso. apply (Hm b). left; reflexivity.
  - destruct l2 as [|b l2]; [exfalso; apply (Hm a); left; reflexivity|].
    inversion H1 as [|? ? S1 F1]; subst. inversion H2 as [|? ? S2 F2]; subst.
    rewrite Forall_forall in F1, F2.
    assert (a = b).
    { destruct (proj1 (Hm a) (or_introl eq_refl)) as [E|Hin]; [congruence|].
      destruct (proj2 (Hm b) (or_introl eq_refl)) as [E|Hin']; [congruence|].
      specialize (F1 _ Hin'). specialize (F2 _ Hin). lia. }
    subst b. f_equal. apply IH; try assumption.
    intros k. split; intros Hk.
    + destruct (proj1 (Hm k) (or_intror Hk)) as [E|H]; [|exact H]. subst k. specialize (F1 _ Hk). lia.
    + destruct (proj2 (Hm k) (or_intror Hk)) as [E|H]; [|exact H]. subst k. specialize (F2 _ Hk). lia.
Qed.

(* the listing reads the store through toks_get only *)
Lemma list_lines_ext keys t1 t2 :
  (forall k, toks_get k t1 = toks_get k t2) -> list_lines keys t1 = list_lines keys t2.
Proof.
  intros H. induction keys as [|n keys IH]; cbn [list_lines]; [reflexivity|].
  rewrite H, IH. reflexivity.
Qed.

(* ------------------------------------------------------------------ *)
(* entering the listing, line by line *)

Lemma step_edit_idle fuel s l n v :
  state s = Idle -> edit_of l = Some (n, v) -> state (snd (step fuel s (HLine l))) = Idle.
Proof.
  intros Hidle He. unfold step, legal. rewrite Hidle. cbn [negb].
  pose proof (edit_invalidates fuel l (set_reads 0 s) n v Hidle He) as H.
  destruct (start_evaluating fuel l (set_reads 0 s)) as [r s1].
  destruct H as (_ & _ & _ & _ & _ & _ & _ & _ & Hst & _).
  destruct (make_row r (Some l) s1) as [rw s2] eqn:Em. cbn [snd].
  unfold make_row, take_outputs in Em. inversion Em. exact Hst.
Qed.

(* the abstract map after entering lines (n, ts) in order *)
Fixpoint enter_all (m : amap) (l : list (N * list token)) : amap :=
  match l with [] => m | (n, ts) :: r => enter_all (aupd m n ts) r end.

Lemma spec_run_edits fuel : forall (l : list (N * list token)) s m,
  state s = Idle -> Forall (fun p => line_roundtrips (fst p) (snd p)) l ->
  forall k, spec_run fuel s m (map (fun p => HLine (listing_line (fst p) (snd p))) l) k = enter_all m l k.
Proof.
  induction l as [|[n ts] l IH]; intros s m Hidle Hall k; cbn [map spec_run enter_all fst snd]; [reflexivity|].
  inversion Hall as [|? ? Hrt Hall']; subst. cbn [fst snd] in Hrt.
  assert (Hleg : legal s (HLine (listing_line n ts)) = true) by (unfold legal; rewrite Hidle; reflexivity).
  rewrite Hleg. cbn [spec_step]. unfold line_roundtrips in Hrt. rewrite Hrt.
  apply IH; [|exact Hall']. eapply step_edit_idle; eassumption.
Qed.

Lemma enter_all_notin m l k : ~ In k (map fst l) -> enter_all m l k = m k.
Proof.
  revert m. induction l as [|[n ts] l IH]; intros m Hn; cbn [enter_all]; [reflexivity|].
  rewrite IH by (intros H; apply Hn; right; exact H).
  unfold aupd. destruct (N.eqb_spec n k); [exfalso; apply Hn; left; exact e|reflexivity].
Qed.

Lemma enter_all_in m l k ts :
  NoDup (map fst l) -> In (k, ts) l -> ts <> [] -> enter_all m l k = Some ts.
Proof.
  revert m. induction l as [|[n v] l IH]; intros m Hnd Hin Hne; [destruct Hin|].
  cbn [map fst] in Hnd. inversion Hnd as [|? ? Hnotin Hnd']; subst. cbn [enter_all].
  destruct Hin as [E|Hin].
  - inversion E; subst. rewrite enter_all_notin by exact Hnotin.
    unfold aupd. rewrite N.eqb_refl. destruct ts; [congruence|reflexivity].
  - apply IH; assumption.
Qed.

Lemma sorted_NoDup l : keys_sorted l -> NoDup l.
Proof.
  unfold keys_sorted. induction 1 as [|a l S IH F]; constructor; [|exact IH].
  rewrite Forall_forall in F. intros Hin. specialize (F _ Hin). lia.
Qed.

Definition bindings (s : interp) : list (N * list token) := map (fun n => (n, get_toks s n)) (st_keys s).

Lemma listing_bindings s :
  map HLine (listing s) = map (fun p => HLine (listing_line (fst p) (snd p))) (bindings s).
Proof. unfold listing, bindings. rewrite !map_map. reflexivity. Qed.

Lemma bindings_keys s : map fst (bindings s) = st_keys s.
Proof. unfold bindings. rewrite map_map. cbn [fst]. apply map_id. Qed.

(* Theorem 1: the reloaded program has the same tokens under the same keys *)
Theorem reload_store fuel oracle s :
  store_ok s ->
  (forall n ts, abs s n = Some ts -> line_roundtrips n ts) ->
  let s' := run_state fuel (fresh oracle) (map HLine (listing s)) in
  (forall k, abs s' k = abs s k) /\ st_keys s' = st_keys s /\ store_ok s'.
Proof.
  intros Hok Hrt s'.
  destruct Hok as (Hs & Hk & Hne).
  assert (Hall : Forall (fun p => line_roundtrips (fst p) (snd p)) (bindings s)).
  { unfold bindings. rewrite Forall_forall. intros [n ts] Hin. apply in_map_iff in Hin as (n' & E & Hin).
    inversion E; subst. cbn [fst snd]. apply Hrt. unfold abs, get_toks.
    apply Hk in Hin. destruct (toks_get n (st_toks s)); [reflexivity|congruence]. }
  assert (Habs : forall k, abs s' k = abs s k).
  { intros k. subst s'. rewrite (store_refines_spec fuel _ (fresh oracle) aempty) by reflexivity.
    rewrite listing_bindings, (spec_run_edits fuel (bindings s) (fresh oracle) aempty eq_refl Hall).
    destruct (abs s k) as [ts|] eqn:E.
    - apply enter_all_in.
      + rewrite bindings_keys. apply sorted_NoDup, Hs.
      + unfold bindings. apply in_map_iff. exists k. unfold get_toks. unfold abs in E. rewrite E.
        split; [reflexivity|]. apply Hk. unfold abs in E. congruence.
      + intros ->. apply (Hne k). exact E.
    - rewrite enter_all_notin; [reflexivity|]. rewrite bindings_keys. intros Hin. apply Hk in Hin.
      unfold abs in E. congruence. }
  assert (Hok' : store_ok s') by (apply store_ok_reachable, store_ok_init).
  split; [exact Habs|]. split; [|exact Hok'].
  destruct Hok' as (Hs' & Hk' & _).
  apply sorted_same_members; try assumption.
  intros k. rewrite Hk', Hk. unfold abs in Habs. rewrite Habs. tauto.
Qed.

(* Theorem 2: LIST is a fixed point *)
Theorem reload_listing fuel oracle s :
  store_ok s ->
  (forall n ts, abs s n = Some ts -> line_roundtrips n ts) ->
  let s' := run_state fuel (fresh oracle) (map HLine (listing s)) in
  list_lines (st_keys s') (st_toks s') = list_lines (st_keys s) (st_toks s)
  /\ listing s' = listing s.
Proof.
  intros Hok Hrt s'. destruct (reload_store fuel oracle s Hok Hrt) as (Habs & Hkeys & _).
  fold s' in Habs, Hkeys. split.
  - rewrite Hkeys. apply list_lines_ext. exact Habs.
  - unfold listing. rewrite Hkeys. apply map_ext. intros n. unfold get_toks.
    unfold abs in Habs. rewrite Habs. reflexivity.
Qed.

(* [listing] is what LIST prints *)
Lemma listing_is_list_output s : store_ok s ->
  list_lines (st_keys s) (st_toks s) = Ok (map (fun l => l ++ [10]) (listing s)).
Proof.
  intros (_ & Hk & _). destruct (list_lines_ok (st_keys s) (st_toks s)) as (ls & Hl & Heq).
  - intros n Hn. apply Hk, Hn.
  - rewrite Hl, Heq. unfold listing. rewrite map_map. f_equal. apply map_ext. intros n.
    unfold listing_line, get_toks. rewrite <- !app_assoc. reflexivity.
Qed.

(* ------------------------------------------------------------------ *)
(* 2. The fixed (non-literal) tokens, by computation over Gen/Tables.v *)

Definition fixed_tokens : list token :=
  map snd keywords ++ map snd punct ++ map (fun x => snd x) two_char.

Definition retok (text : bytes) : option (list token) := tokens_of (tokenize text 0).

Fixpoint tokens_eqb (a b : list token) : bool :=
  match a, b with
  | [], [] => true
  | x :: a', y :: b' => token_eqb x y && tokens_eqb a' b'
  | _, _ => false
  end.

Definition opt_tokens_eqb (a : option (list token)) (b : list token) : bool :=
  match a with Some l => tokens_eqb l b | None => false end.

Definition fixed_token_ok (t : token) : bool := opt_tokens_eqb (retok (show_token t)) [t].

(* a pair the tokenizer can produce at all: adjacent without a blank it reads as that pair *)
Definition producible (t1 t2 : token) : bool :=
  opt_tokens_eqb (retok (show_token t1 ++ show_token t2)) [t1; t2].

Definition fixed_pair_ok (t1 t2 : token) : bool :=
  negb (producible t1 t2) || opt_tokens_eqb (retok (show_token t1 ++ [32] ++ show_token t2)) [t1; t2].

(* every keyword, one-character and two-character token is re-read from its
   canonical spelling *)
Theorem fixed_tokens_roundtrip : forallb fixed_token_ok fixed_tokens = true.
Proof. vm_compute. reflexivity. Qed.

(* every ordered pair of them that can be produced at all is re-read from the
   two spellings joined by one blank *)
Theorem fixed_pairs_roundtrip :
  forallb (fun t1 => forallb (fixed_pair_ok t1) fixed_tokens) fixed_tokens = true.
Proof. vm_compute. reflexivity. Qed.

Lemma fixed_token_spec t : In t fixed_tokens -> retok (show_token t) = Some [t] \/ exists l, retok (show_token t) = Some l /\ tokens_eqb l [t] = true.
Proof.
  intros Hin. pose proof fixed_tokens_roundtrip as H. rewrite forallb_forall in H. specialize (H t Hin).
  unfold fixed_token_ok, opt_tokens_eqb in H. destruct (retok (show_token t)) as [l|]; [|discriminate].
  right. exists l. split; [reflexivity|exact H].
Qed.

(* ------------------------------------------------------------------ *)
(* 3. Examples: lines with every literal kind round-trip *)

Example ex_line_roundtrips :
  forallb (fun text =>
     match edit_of (bs text) with
     | Some (n, ts) =>
         match edit_of (listing_line n ts) with
         | Some (n', ts') => N.eqb n n' && tokens_eqb ts ts'
         | None => false
         end
     | None => false
     end)
    ["10 PRINT ""a b"";X$;.5;007;1E5"; "20 REM  x y  "; "30 DATA 1, ""a b"", c, ""q"" : PRINT A.5";
     "40 IF A<>B THEN GOTO 10 ELSE ?""n"""; "50 FORI=ATOBSTEP-1:NEXTI"; "60 DATA hello ""there"", x";
     "70 X=12345678901234567890+.000001"]%string = true.
Proof. vm_compute. reflexivity. Qed.
