(* Proofs/InputProofs.v — the INPUT statement (C08).

   Whenever a program reaches INPUT the interpreter reports that it awaits
   input, having changed nothing but the state flag (and the hook counters /
   the trace record); the cursor is left ON the INPUT token, so that after a
   reply exactly the INPUT statement is executed again, wherever it sits.
   A reply whose first item suits the target is stored exactly as the
   assignment of that value would store it; surplus items give EXTRA IGNORED;
   text offered to a numeric target gives REENTER and the same request again.

   Layout
     0. helpers (token equality, coerce_data, the trace prefix, rewind)
     1. the engine: evaluate_statement on an INPUT token, for any target
     2. scalar targets:   input_awaits, input_accepts_scalar, input_reenter
     3. array targets:    the same under an abstract subscript evaluation,
                          and concretely for subscripts C02's theorem covers
     4. the host API:     run_next_statement / continue_evaluating / provide_input
     5. non-vacuity examples (vm_compute) *)
From Coq Require Import List NArith ZArith Bool Lia.
From Abasic Require Import Model.Bytes Model.Num Model.Token Model.Data Model.Lexer Gen.Tables
     Model.State Model.Eval Model.Interp Proofs.Monad Proofs.Frames Proofs.StoreProofs
     Proofs.ExprSem Proofs.Safety.
Import ListNotations.
Local Open Scope nat_scope.

(* ------------------------------------------------------------------ *)
(* 0. Helpers *)

Lemma token_eqb_input t : token_eqb t TInput = true <-> t = TInput.
Proof. destruct t; cbn; split; intros H; try reflexivity; discriminate. Qed.

Lemma token_eqb_lparen t : token_eqb t TLeftParen = true <-> t = TLeftParen.
Proof. destruct t; cbn; split; intros H; try reflexivity; discriminate. Qed.

Lemma token_eqb_input_false t : t <> TInput -> token_eqb t TInput = false.
Proof.
  intros H. destruct (token_eqb t TInput) eqn:E; [|reflexivity].
  apply token_eqb_input in E. contradiction.
Qed.

(* Value::coerce_from_data_element always produces a value of the variable's type *)
Lemma coerce_data_type_matches v e val : coerce_data v e = Ok val -> type_matches v val = true.
Proof.
  unfold coerce_data, type_matches. destruct (ends_with_dollar v) eqn:E, e; intros H;
    inversion H; subst; try rewrite E; reflexivity.
Qed.

(* ... and fails in exactly one way: text offered to a numeric variable *)
Lemma coerce_data_cases v e :
  (exists val, coerce_data v e = Ok val)
  \/ (coerce_data v e = Err EDataTypeMismatch None
      /\ ends_with_dollar v = false /\ exists t, e = DStr t).
Proof.
  unfold coerce_data. destruct (ends_with_dollar v), e; eauto.
Qed.

Lemma coerce_data_reenter v t : ends_with_dollar v = false ->
  coerce_data v (DStr t) = Err EDataTypeMismatch None.
Proof. unfold coerce_data. intros ->. reflexivity. Qed.

Lemma coerce_data_number v x : ends_with_dollar v = false -> coerce_data v (DNum x) = Ok (VNum x).
Proof. unfold coerce_data. intros ->. reflexivity. Qed.

Lemma coerce_data_string v t : ends_with_dollar v = true -> coerce_data v (DStr t) = Ok (VStr t).
Proof. unfold coerce_data. intros ->. reflexivity. Qed.

(* the reply parser never returns an empty list *)
Lemma parse_data_nonempty text : exists first more consumed, parse_data text = (first :: more, consumed).
Proof.
  unfold parse_data. pose proof (dp_run_nonempty (utf8_chars text) false [] [] 0) as H.
  destruct (dp_run (utf8_chars text) false [] [] 0) as [[|first more] consumed]; cbn [fst] in H;
    [congruence|eauto].
Qed.

(* The record a traced statement starts with. *)
Definition trace_of (s : interp) : list output :=
  if enable_tracing s
  then match loc_line (loc s) with Some n => [OTrace n] | None => [] end
  else [].

(* EXTRA IGNORED, or nothing *)
Definition excess_of (more : list data_elem) (consumed : nat) (text : bytes) : bool :=
  match more with [] => Nat.ltb consumed (length text) | _ => true end.

Definition extra_of (more : list data_elem) (consumed : nat) (text : bytes) : list output :=
  if excess_of more consumed text then [OExtraIgnored] else [].

Lemma excess_of_iff more consumed text :
  excess_of more consumed text = true <-> (more <> [] \/ consumed < length text).
Proof.
  unfold excess_of. destruct more as [|x more].
  - rewrite Nat.ltb_lt. split; [auto|]. intros [H|H]; [congruence|exact H].
  - split; [intros _; left; discriminate|reflexivity].
Qed.

Lemma extra_of_yes more consumed text :
  (more <> [] \/ consumed < length text) -> extra_of more consumed text = [OExtraIgnored].
Proof. intros H. apply excess_of_iff in H. unfold extra_of. rewrite H. reflexivity. Qed.

Lemma extra_of_no consumed text : length text <= consumed -> extra_of [] consumed text = [].
Proof.
  intros H. unfold extra_of, excess_of. destruct (Nat.ltb_spec consumed (length text)); [lia|reflexivity].
Qed.

Lemma evaluate_statement_S f n :
  evaluate_statement (S f) n =
  if Nat.eqb n max_nesting then fail EStackOverflow
  else evaluate_statement_body f (S n) (evaluate_statement f (S n)).
Proof. reflexivity. Qed.

(* a state is the canonical form of itself *)
Lemma at_idx_here s o r :
  set_reads r (set_outputs o s) = at_idx s (loc_idx (loc s)) r o.
Proof. destruct s as [? ? ? [? ?] ? ? ? ? ? ? ? ? ? ? ? ? ? ? ?]; reflexivity. Qed.

Lemma cur_tokens_ext s s' :
  st_toks s' = st_toks s -> immediate s' = immediate s -> loc_line (loc s') = loc_line (loc s) ->
  fst (cur_tokens s') = fst (cur_tokens s).
Proof.
  intros H1 H2 H3. unfold cur_tokens. rewrite !bind_get. unfold tokens_for_line.
  rewrite H1, H2, H3. destruct (loc_line (loc s)) as [n|]; [|reflexivity].
  destruct (toks_get n (st_toks s)); reflexivity.
Qed.

(* ------------------------------------------------------------------ *)
(* 1. The engine *)

Section Engine.
  Variable s : interp.
  Variable toks : list token.
  Hypothesis Htoks : fst (cur_tokens s) = Ok toks.

  (* rewind_before_token(Input): from any cursor [j], the loop stops on the
     highest index below [j] that holds an INPUT token. *)
  Lemma rewind_loop_at : forall j i,
    i < j -> nth_error toks i = Some TInput ->
    (forall k, i < k < j -> nth_error toks k <> Some TInput) ->
    forall j' r o,
      rewind_loop j TInput (at_idx s j' r o) = (Ok tt, at_idx s i (r + (j - i)) o).
  Proof.
    induction j as [|j IH]; intros i Hij Hi Hno j' r o; [lia|].
    cbn [rewind_loop]. rewrite bind_modify.
    change (set_loc _ (at_idx s j' r o)) with (at_idx s j r o).
    erewrite bind_ok by apply (peek_is_at s toks Htoks).
    destruct (Nat.eq_dec j i) as [->|Hne].
    - rewrite Hi. change (token_eqb TInput TInput) with true. cbv iota.
      replace (r + (S i - i)) with (S r) by lia. reflexivity.
    - assert (E : match nth_error toks j with Some t => token_eqb t TInput | None => false end = false).
      { destruct (nth_error toks j) as [t|] eqn:Ej; [|reflexivity].
        apply token_eqb_input_false. intros ->. apply (Hno j); [lia|exact Ej]. }
      rewrite E. rewrite (IH i) by (try assumption; try lia; intros k Hk; apply Hno; lia).
      replace (S r + (j - i)) with (r + (S j - i)) by lia. reflexivity.
  Qed.

  Lemma await_at i j r o :
    i < j -> nth_error toks i = Some TInput ->
    (forall k, i < k < j -> nth_error toks k <> Some TInput) ->
    rewind_program_and_await_input (at_idx s j r o)
    = (Ok tt, set_state AwaitingInput (at_idx s i (r + (j - i)) o)).
  Proof.
    intros Hij Hi Hno. unfold rewind_program_and_await_input, rewind_before_token.
    rewrite bind_assoc, bind_get.
    change (loc_idx (loc (at_idx s j r o))) with j.
    erewrite bind_ok by (apply rewind_loop_at; eassumption).
    reflexivity.
  Qed.

  (* the trace prefix of evaluate_statement *)
  Lemma trace_at i r o :
    (if enable_tracing s
     then (l <- get_line_number ;;
           match l with Some n => push_output (OTrace n) | None => ret tt end)
     else ret tt) (at_idx s i r o)
    = (Ok tt, at_idx s i r (o ++ trace_of s)).
  Proof.
    unfold trace_of. destruct (enable_tracing s).
    - unfold get_line_number. rewrite bind_assoc, bind_get, bind_ret.
      change (loc_line (loc (at_idx s i r o))) with (loc_line (loc s)).
      destruct (loc_line (loc s)); [reflexivity|]. rewrite app_nil_r. reflexivity.
    - rewrite app_nil_r. reflexivity.
  Qed.

  (* evaluate_statement on an INPUT token: trace, consume the token, dispatch *)
  Lemma statement_is_input f n i r o :
    nth_error toks i = Some TInput -> n < max_nesting ->
    evaluate_statement (S f) n (at_idx s i r o)
    = evaluate_input_statement f (S n) (at_idx s (S i) (S r) (o ++ trace_of s)).
  Proof.
    intros Hi Hn. rewrite evaluate_statement_S.
    replace (Nat.eqb n max_nesting) with false by (symmetry; apply Nat.eqb_neq; lia).
    unfold evaluate_statement_body. rewrite bind_get.
    change (enable_tracing (at_idx s i r o)) with (enable_tracing s).
    erewrite bind_ok by apply trace_at.
    erewrite bind_ok by (apply (next_some s toks Htoks); exact Hi).
    reflexivity.
  Qed.
End Engine.

Section Engine2.
  Variable s : interp.
  Variable toks : list token.
  Hypothesis Htoks : fst (cur_tokens s) = Ok toks.

  (* Interpreter::take_input *)
  Lemma take_input_none i r o : input s = None ->
    take_input (at_idx s i r o) = (Ok None, at_idx s i r o).
  Proof.
    intros Hin. unfold take_input. rewrite bind_get.
    change (input (at_idx s i r o)) with (input s). rewrite Hin. reflexivity.
  Qed.

  Lemma take_input_some i r o text elems c :
    input s = Some text -> parse_data text = (elems, c) ->
    take_input (at_idx s i r o)
    = (Ok (Some (elems, Nat.ltb c (length text))), at_idx (set_input None s) i r o).
  Proof.
    intros Hin Hp. unfold take_input. rewrite bind_get.
    change (input (at_idx s i r o)) with (input s). rewrite Hin.
    rewrite bind_modify, Hp. reflexivity.
  Qed.

  Lemma cur_tokens_taken : fst (cur_tokens (set_input None s)) = Ok toks.
  Proof. rewrite <- Htoks. apply cur_tokens_ext; reflexivity. Qed.

  (* --- no reply pending: suspend --- *)
  Lemma input_awaits_at f n i r o :
    nth_error toks i = Some TInput -> n < max_nesting -> input s = None ->
    evaluate_statement (S f) n (at_idx s i r o)
    = (Ok tt, set_state AwaitingInput (at_idx s i (S (S r)) (o ++ trace_of s))).
  Proof.
    intros Hi Hn Hin. rewrite (statement_is_input s toks Htoks) by assumption.
    unfold evaluate_input_statement.
    erewrite bind_ok by (apply take_input_none; exact Hin).
    rewrite (await_at s toks Htoks i (S i)) by (try assumption; lia).
    replace (S r + (S i - i)) with (S (S r)) by lia. reflexivity.
  Qed.

  (* --- a reply is pending: parse the target, then store or ask again --- *)
  Definition taken (i r : nat) (o : list output) : interp :=
    at_idx (set_input None s) (S i) (S r) (o ++ trace_of s).

  Lemma input_reply_at f n i r o text first more consumed lv s2 :
    nth_error toks i = Some TInput -> n < max_nesting ->
    input s = Some text -> parse_data text = (first :: more, consumed) ->
    parse_lvalue f (S n) (taken i r o) = (Ok lv, s2) ->
    evaluate_statement (S f) n (at_idx s i r o)
    = match coerce_data (lv_sym lv) first with
      | Ok val =>
          (assign_value lv val ;;;
           if excess_of more consumed text then push_output OExtraIgnored else ret tt) s2
      | Err EDataTypeMismatch _ => (push_output OReenter ;;; rewind_program_and_await_input) s2
      | Err e l => (Err e l, s2)
      | _ => (Panic PCellIndex, s2)
      end.
  Proof.
    intros Hi Hn Hin Hp Hlv. rewrite (statement_is_input s toks Htoks) by assumption.
    unfold evaluate_input_statement.
    erewrite bind_ok by (apply take_input_some; eassumption).
    fold (taken i r o). cbv iota beta. rewrite (bind_ok _ _ _ _ _ Hlv).
    unfold excess_of.
    destruct (coerce_data (lv_sym lv) first) as [val|e l|p| |]; try reflexivity.
    destruct e; reflexivity.
  Qed.

  (* the target of a scalar INPUT *)
  Lemma parse_lvalue_scalar_at f n j r o v :
    nth_error toks j = Some (TSymbol v) -> nth_error toks (S j) <> Some TLeftParen ->
    parse_lvalue f n (at_idx s j r o) = (Ok (mklv v None), at_idx s (S j) (S (S r)) o).
  Proof.
    intros Hv Hnp. unfold parse_lvalue.
    erewrite bind_ok by (apply (next_some s toks Htoks); exact Hv).
    unfold parse_optional_array_index. rewrite bind_assoc.
    erewrite bind_ok by apply (peek_is_at s toks Htoks).
    assert (E : match nth_error toks (S j) with Some t => token_eqb t TLeftParen | None => false end = false).
    { destruct (nth_error toks (S j)) as [t|]; [|reflexivity].
      destruct (token_eqb t TLeftParen) eqn:E; [|reflexivity].
      apply token_eqb_lparen in E. subst t. congruence. }
    rewrite E. reflexivity.
  Qed.
End Engine2.

(* ------------------------------------------------------------------ *)
(* 2. Scalar targets.

   Throughout: [toks] are the tokens of the current line, the cursor
   [loc_idx (loc s)] is ON the INPUT token; [trace_of s] is the one TRACE
   record a numbered line emits when tracing is on (else nothing). *)

Lemma at_idx_start s : at_idx s (loc_idx (loc s)) (reads s) (outputs s) = s.
Proof. apply at_idx_self. Qed.

Lemma awaiting_state_eq s r o :
  set_state AwaitingInput (at_idx (set_input None s) (loc_idx (loc s)) r o)
  = set_reads r (set_state AwaitingInput (set_input None (set_outputs o s))).
Proof. destruct s as [? ? ? [? ?] ? ? ? ? ? ? ? ? ? ? ? ? ? ? ?]; reflexivity. Qed.

(* C08, first sentence.  Nothing but the state flag (and the hook counter, and
   the trace record) changes; the cursor is back ON the INPUT token. *)
Theorem input_awaits : forall fuel n s toks,
  fst (cur_tokens s) = Ok toks ->
  nth_error toks (loc_idx (loc s)) = Some TInput ->
  input s = None ->
  1 <= fuel -> n < max_nesting ->
  evaluate_statement fuel n s
  = (Ok tt, set_reads (2 + reads s)
              (set_state AwaitingInput (set_outputs (outputs s ++ trace_of s) s))).
Proof.
  intros fuel n s toks Htoks Hi Hin Hf Hn. destruct fuel as [|f]; [lia|].
  rewrite <- (at_idx_start s) at 1.
  rewrite (input_awaits_at s toks Htoks) by assumption.
  f_equal. destruct s as [? ? ? [? ?] ? ? ? ? ? ? ? ? ? ? ? ? ? ? ?]; reflexivity.
Qed.

(* the same, field by field *)
Corollary input_awaits_frame : forall fuel n s toks,
  fst (cur_tokens s) = Ok toks ->
  nth_error toks (loc_idx (loc s)) = Some TInput ->
  input s = None ->
  1 <= fuel -> n < max_nesting ->
  let r := evaluate_statement fuel n s in
  let s' := snd r in
  fst r = Ok tt
  /\ state s' = AwaitingInput
  /\ loc s' = loc s                       (* the cursor is ON the INPUT token again *)
  /\ input s' = None
  /\ outputs s' = outputs s ++ trace_of s
  /\ reads s' = 2 + reads s
  /\ variables s' = variables s /\ arrays s' = arrays s /\ stack s' = stack s
  /\ loops s' = loops s /\ data_it s' = data_it s /\ functions s' = functions s
  /\ breakpoint s' = breakpoint s /\ rng s' = rng s
  /\ st_toks s' = st_toks s /\ st_keys s' = st_keys s /\ immediate s' = immediate s
  /\ enable_warnings s' = enable_warnings s /\ enable_tracing s' = enable_tracing s
  /\ pow_oracle s' = pow_oracle s.
Proof.
  intros fuel n s toks Htoks Hi Hin Hf Hn. cbv zeta.
  rewrite (input_awaits fuel n s toks) by assumption. cbn [fst snd].
  repeat split; try reflexivity. exact Hin.
Qed.

(* C08, second sentence: the semantic form.  With a reply pending, the
   statement is: consume the reply and the two tokens INPUT [v], then do exactly
   what the assignment statement does with the value ([assign_value], the
   function [evaluate_assignment_statement] ends with), then EXTRA IGNORED if
   anything of the reply is left. *)
Theorem input_accept_is_assignment : forall fuel n s toks v text first more consumed val,
  fst (cur_tokens s) = Ok toks ->
  let i := loc_idx (loc s) in
  nth_error toks i = Some TInput ->
  nth_error toks (S i) = Some (TSymbol v) ->
  nth_error toks (S (S i)) <> Some TLeftParen ->
  input s = Some text ->
  parse_data text = (first :: more, consumed) ->
  coerce_data v first = Ok val ->
  1 <= fuel -> n < max_nesting ->
  evaluate_statement fuel n s
  = (assign_value (mklv v None) val ;;;
     if excess_of more consumed text then push_output OExtraIgnored else ret tt)
      (set_input None (at_idx s (S (S i)) (3 + reads s) (outputs s ++ trace_of s))).
Proof.
  intros fuel n s toks v text first more consumed val Htoks i Hi Hv Hnp Hin Hp Hc Hf Hn.
  destruct fuel as [|f]; [lia|].
  rewrite <- (at_idx_start s) at 1. fold i.
  erewrite (input_reply_at s toks Htoks) by
    (try eassumption;
     apply (parse_lvalue_scalar_at _ toks (cur_tokens_taken s toks Htoks)); eassumption).
  cbn [lv_sym]. rewrite Hc. reflexivity.
Qed.

(* ... and the explicit state. *)
Theorem input_accepts_scalar : forall fuel n s toks v text first more consumed val,
  fst (cur_tokens s) = Ok toks ->
  let i := loc_idx (loc s) in
  nth_error toks i = Some TInput ->
  nth_error toks (S i) = Some (TSymbol v) ->
  nth_error toks (S (S i)) <> Some TLeftParen ->
  input s = Some text ->
  parse_data text = (first :: more, consumed) ->
  coerce_data v first = Ok val ->
  1 <= fuel -> n < max_nesting ->
  evaluate_statement fuel n s
  = (Ok tt,
     set_outputs (outputs s ++ trace_of s ++ extra_of more consumed text)
       (set_variables (alist_set v val (variables s))
          (set_input None
             (set_reads (3 + reads s)
                (set_loc (mkloc (loc_line (loc s)) (S (S i))) s))))).
Proof.
  intros fuel n s toks v text first more consumed val Htoks i Hi Hv Hnp Hin Hp Hc Hf Hn.
  rewrite (input_accept_is_assignment fuel n s toks v text first more consumed val) by assumption.
  fold i. unfold assign_value. cbn [lv_index lv_sym]. unfold variables_set.
  rewrite (coerce_data_type_matches _ _ _ Hc). rewrite bind_modify.
  unfold extra_of. destruct (excess_of more consumed text).
  - unfold push_output, modify. f_equal.
    destruct s as [? ? ? [? ?] ? ? ? ? ? ? ? ? ? ? ? ? ? ? ?]; cbn. rewrite <- app_assoc. reflexivity.
  - unfold ret. f_equal.
    destruct s as [? ? ? [? ?] ? ? ? ? ? ? ? ? ? ? ? ? ? ? ?]; cbn. rewrite app_nil_r. reflexivity.
Qed.

Corollary input_accepts_scalar_frame : forall fuel n s toks v text first more consumed val,
  fst (cur_tokens s) = Ok toks ->
  let i := loc_idx (loc s) in
  nth_error toks i = Some TInput ->
  nth_error toks (S i) = Some (TSymbol v) ->
  nth_error toks (S (S i)) <> Some TLeftParen ->
  input s = Some text ->
  parse_data text = (first :: more, consumed) ->
  coerce_data v first = Ok val ->
  1 <= fuel -> n < max_nesting ->
  let r := evaluate_statement fuel n s in
  let s' := snd r in
  fst r = Ok tt
  /\ variables s' = alist_set v val (variables s)
  /\ variables s' = variables (snd (variables_set v val s))        (* what LET v = val stores *)
  /\ type_matches v val = true
  /\ input s' = None
  /\ loc s' = mkloc (loc_line (loc s)) (S (S i))                   (* just after the target *)
  /\ outputs s' = outputs s ++ trace_of s ++ extra_of more consumed text
  /\ (extra_of more consumed text = [OExtraIgnored] <-> (more <> [] \/ consumed < length text))
  /\ (extra_of more consumed text = [] <-> ~ (more <> [] \/ consumed < length text))
  /\ reads s' = 3 + reads s
  /\ state s' = state s
  /\ arrays s' = arrays s /\ stack s' = stack s
  /\ loops s' = loops s /\ data_it s' = data_it s /\ functions s' = functions s
  /\ breakpoint s' = breakpoint s /\ rng s' = rng s
  /\ st_toks s' = st_toks s /\ st_keys s' = st_keys s /\ immediate s' = immediate s
  /\ enable_warnings s' = enable_warnings s /\ enable_tracing s' = enable_tracing s
  /\ pow_oracle s' = pow_oracle s.
Proof.
  intros fuel n s toks v text first more consumed val Htoks i Hi Hv Hnp Hin Hp Hc Hf Hn. cbv zeta.
  rewrite (input_accepts_scalar fuel n s toks v text first more consumed val) by assumption.
  cbn [fst snd]. pose proof (coerce_data_type_matches _ _ _ Hc) as Htm.
  assert (Hx : extra_of more consumed text = [OExtraIgnored] <-> (more <> [] \/ consumed < length text)).
  { rewrite <- excess_of_iff. unfold extra_of. destruct (excess_of more consumed text);
      split; intros H; try reflexivity; discriminate. }
  assert (Hy : extra_of more consumed text = [] <-> ~ (more <> [] \/ consumed < length text)).
  { rewrite <- excess_of_iff. unfold extra_of. destruct (excess_of more consumed text);
      split; intros H; try reflexivity; try discriminate; congruence. }
  repeat (split; [reflexivity|]).
  split. { unfold variables_set. rewrite Htm. reflexivity. }
  split; [exact Htm|].
  repeat (split; [reflexivity|]).
  split; [exact Hx|]. split; [exact Hy|].
  repeat split; reflexivity.
Qed.

(* C08, third sentence: text offered to a numeric variable.  REENTER, and the
   state is the one [input_awaits] describes: awaiting input, the cursor back ON
   the INPUT token, the reply consumed, everything else untouched. *)
Theorem input_reenter : forall fuel n s toks v text first more consumed,
  fst (cur_tokens s) = Ok toks ->
  let i := loc_idx (loc s) in
  nth_error toks i = Some TInput ->
  nth_error toks (S i) = Some (TSymbol v) ->
  nth_error toks (S (S i)) <> Some TLeftParen ->
  input s = Some text ->
  parse_data text = (first :: more, consumed) ->
  coerce_data v first = Err EDataTypeMismatch None ->
  1 <= fuel -> n < max_nesting ->
  evaluate_statement fuel n s
  = (Ok tt,
     set_reads (5 + reads s)
       (set_state AwaitingInput
          (set_input None
             (set_outputs (outputs s ++ trace_of s ++ [OReenter]) s)))).
Proof.
  intros fuel n s toks v text first more consumed Htoks i Hi Hv Hnp Hin Hp Hc Hf Hn.
  destruct fuel as [|f]; [lia|].
  rewrite <- (at_idx_start s) at 1. fold i.
  pose proof (cur_tokens_taken s toks Htoks) as Htoks1.
  erewrite (input_reply_at s toks Htoks) by
    (try eassumption; apply (parse_lvalue_scalar_at _ toks Htoks1); eassumption).
  cbn [lv_sym]. rewrite Hc.
  unfold push_output. rewrite bind_modify.
  match goal with
  | |- rewind_program_and_await_input ?st = _ =>
      change st with (at_idx (set_input None s) (S (S i)) (S (S (S (reads s))))
                             ((outputs s ++ trace_of s) ++ [OReenter]))
  end.
  rewrite (await_at _ toks Htoks1 i) by (try assumption; try lia; intros k Hk;
    assert (k = S i) by lia; subst k; rewrite Hv; discriminate).
  replace (S (S (S (reads s))) + (S (S i) - i)) with (5 + reads s) by lia.
  rewrite <- app_assoc. f_equal. apply awaiting_state_eq.
Qed.

(* the premise in the words of the property: a numeric variable, a text item *)
Corollary input_reenter_text : forall fuel n s toks v text t more consumed,
  fst (cur_tokens s) = Ok toks ->
  let i := loc_idx (loc s) in
  nth_error toks i = Some TInput ->
  nth_error toks (S i) = Some (TSymbol v) ->
  nth_error toks (S (S i)) <> Some TLeftParen ->
  input s = Some text ->
  parse_data text = (DStr t :: more, consumed) ->
  ends_with_dollar v = false ->
  1 <= fuel -> n < max_nesting ->
  evaluate_statement fuel n s
  = (Ok tt,
     set_reads (5 + reads s)
       (set_state AwaitingInput
          (set_input None
             (set_outputs (outputs s ++ trace_of s ++ [OReenter]) s)))).
Proof.
  intros. eapply input_reenter; eauto. apply coerce_data_reenter; assumption.
Qed.

Corollary input_reenter_frame : forall fuel n s toks v text first more consumed,
  fst (cur_tokens s) = Ok toks ->
  let i := loc_idx (loc s) in
  nth_error toks i = Some TInput ->
  nth_error toks (S i) = Some (TSymbol v) ->
  nth_error toks (S (S i)) <> Some TLeftParen ->
  input s = Some text ->
  parse_data text = (first :: more, consumed) ->
  coerce_data v first = Err EDataTypeMismatch None ->
  1 <= fuel -> n < max_nesting ->
  let r := evaluate_statement fuel n s in
  let s' := snd r in
  fst r = Ok tt
  /\ state s' = AwaitingInput
  /\ loc s' = loc s                       (* ON the INPUT token again *)
  /\ input s' = None
  /\ outputs s' = outputs s ++ trace_of s ++ [OReenter]
  /\ reads s' = 5 + reads s
  /\ variables s' = variables s /\ arrays s' = arrays s /\ stack s' = stack s
  /\ loops s' = loops s /\ data_it s' = data_it s /\ functions s' = functions s
  /\ breakpoint s' = breakpoint s /\ rng s' = rng s
  /\ st_toks s' = st_toks s /\ st_keys s' = st_keys s /\ immediate s' = immediate s
  /\ enable_warnings s' = enable_warnings s /\ enable_tracing s' = enable_tracing s
  /\ pow_oracle s' = pow_oracle s.
Proof.
  intros fuel n s toks v text first more consumed Htoks i Hi Hv Hnp Hin Hp Hc Hf Hn. cbv zeta.
  rewrite (input_reenter fuel n s toks v text first more consumed) by assumption.
  cbn [fst snd]. repeat split; reflexivity.
Qed.

(* "the same request again": but for the REENTER record and the hook counter,
   the state after a refused reply IS the state of the first request. *)
Corollary input_reenter_same_request : forall fuel n s toks v text first more consumed,
  fst (cur_tokens s) = Ok toks ->
  let i := loc_idx (loc s) in
  nth_error toks i = Some TInput ->
  nth_error toks (S i) = Some (TSymbol v) ->
  nth_error toks (S (S i)) <> Some TLeftParen ->
  input s = Some text ->
  parse_data text = (first :: more, consumed) ->
  coerce_data v first = Err EDataTypeMismatch None ->
  1 <= fuel -> n < max_nesting ->
  let first_request := snd (evaluate_statement fuel n (set_input None s)) in
  evaluate_statement fuel n s
  = (Ok tt, set_reads (3 + reads first_request)
              (set_outputs (outputs first_request ++ [OReenter]) first_request)).
Proof.
  intros fuel n s toks v text first more consumed Htoks i Hi Hv Hnp Hin Hp Hc Hf Hn. cbv zeta.
  rewrite (input_reenter fuel n s toks v text first more consumed) by assumption.
  rewrite (input_awaits fuel n (set_input None s) toks); try assumption; try reflexivity;
    [|exact (cur_tokens_taken s toks Htoks)].
  cbn [snd]. f_equal.
  destruct s as [? ? ? [? ?] ? ? ? ? ? ? ? ? ? ? ? ? ? ? ?]; cbn. rewrite <- app_assoc. reflexivity.
Qed.

(* Every reply to a scalar INPUT is either stored or refused with REENTER:
   the other branches of the model's match are dead. *)
Theorem input_reply_total : forall fuel n s toks v text,
  fst (cur_tokens s) = Ok toks ->
  let i := loc_idx (loc s) in
  nth_error toks i = Some TInput ->
  nth_error toks (S i) = Some (TSymbol v) ->
  nth_error toks (S (S i)) <> Some TLeftParen ->
  input s = Some text ->
  1 <= fuel -> n < max_nesting ->
  exists first more consumed,
    parse_data text = (first :: more, consumed)
    /\ ((exists val, coerce_data v first = Ok val
                     /\ variables (snd (evaluate_statement fuel n s)) = alist_set v val (variables s)
                     /\ state (snd (evaluate_statement fuel n s)) = state s)
        \/ (coerce_data v first = Err EDataTypeMismatch None
            /\ ends_with_dollar v = false /\ (exists t, first = DStr t)
            /\ variables (snd (evaluate_statement fuel n s)) = variables s
            /\ state (snd (evaluate_statement fuel n s)) = AwaitingInput))
    /\ fst (evaluate_statement fuel n s) = Ok tt.
Proof.
  intros fuel n s toks v text Htoks i Hi Hv Hnp Hin Hf Hn.
  destruct (parse_data_nonempty text) as (first & more & consumed & Hp).
  exists first, more, consumed. split; [exact Hp|].
  destruct (coerce_data_cases v first) as [[val Hc]|(Hc & Hd & Ht)].
  - rewrite (input_accepts_scalar fuel n s toks v text first more consumed val) by assumption.
    cbn [fst snd]. split; [|reflexivity]. left. exists val. repeat split; try reflexivity. exact Hc.
  - rewrite (input_reenter fuel n s toks v text first more consumed) by assumption.
    cbn [fst snd]. split; [|reflexivity]. right. repeat split; try reflexivity; assumption.
Qed.

(* ------------------------------------------------------------------ *)
(* 3. Any target (scalar or array cell, whatever its subscripts).

   With a reply pending the statement is: trace, consume INPUT, take the reply,
   parse the target [lv] (for an array cell this evaluates the subscripts),
   then do exactly what the assignment statement ends with — [assign_value lv
   val] — and EXTRA IGNORED if anything is left; or REENTER and await again. *)
Theorem input_reply_any_target : forall fuel n s toks text first more consumed lv s2,
  fst (cur_tokens s) = Ok toks ->
  let i := loc_idx (loc s) in
  nth_error toks i = Some TInput ->
  input s = Some text ->
  parse_data text = (first :: more, consumed) ->
  n < max_nesting ->
  parse_lvalue fuel (S n)
     (at_idx (set_input None s) (S i) (S (reads s)) (outputs s ++ trace_of s)) = (Ok lv, s2) ->
  evaluate_statement (S fuel) n s
  = match coerce_data (lv_sym lv) first with
    | Ok val =>
        (assign_value lv val ;;;
         if excess_of more consumed text then push_output OExtraIgnored else ret tt) s2
    | Err EDataTypeMismatch _ => (push_output OReenter ;;; rewind_program_and_await_input) s2
    | Err e l => (Err e l, s2)
    | _ => (Panic PCellIndex, s2)
    end.
Proof.
  intros fuel n s toks text first more consumed lv s2 Htoks i Hi Hin Hp Hn Hlv.
  rewrite <- (at_idx_start s) at 1. fold i.
  apply (input_reply_at s toks Htoks fuel n i (reads s) (outputs s) text first more consumed lv s2); assumption.
Qed.

(* ------------------------------------------------------------------ *)
(* 4. The host API: a reply makes the interpreter Running with the reply
      pending, and the next call executes the statement under the cursor —
      which is the INPUT token the interpreter rewound to — and nothing before
      it.  [after_statement] is the fixed tail of run_next_statement
      (advance to the next line / return to Idle). *)

Definition after_statement : M unit :=
  h2 <- has_next_token ;;
  if h2 then ret tt
  else
    n <- next_line ;;
    if n then ret tt
    else set_and_goto_immediate_line [] ;;; return_to_idle_state.

Lemma has_next_token_eq s : line_exists s (loc s) ->
  has_next_token s =
  (Ok (match nth_error (cur_toks s) (loc_idx (loc s)) with Some _ => true | None => false end), bump s).
Proof. intros H. unfold has_next_token. rewrite Safety.bind_run, (peek_eq s H). reflexivity. Qed.

Theorem provide_input_spec text s : state s = AwaitingInput ->
  provide_input text s = (Ok tt, set_state Running (set_input (Some text) s)).
Proof. intros H. unfold provide_input. rewrite H. reflexivity. Qed.

Theorem reply_resumes_at_input : forall fuel text s,
  state s = AwaitingInput -> line_exists s (loc s) ->
  nth_error (cur_toks s) (loc_idx (loc s)) = Some TInput ->
  let s1 := snd (provide_input text s) in
  state s1 = Running /\ input s1 = Some text /\ loc s1 = loc s
  /\ continue_evaluating fuel s1
     = postprocess ((evaluate_statement fuel 0 ;;; after_statement) (bump s1)).
Proof.
  intros fuel text s Hst Hl Hi s1. subst s1. rewrite (provide_input_spec text s Hst). cbn [snd].
  repeat split.
  unfold continue_evaluating. change (state (set_state Running (set_input (Some text) s))) with Running.
  cbv iota. f_equal. unfold run_next_statement. rewrite StoreProofs.bind_modify.
  set (s1 := set_state Running (set_input (Some text) s)).
  assert (E : set_state Running s1 = s1) by reflexivity. rewrite E.
  assert (Hl1 : line_exists s1 (loc s1)) by exact Hl.
  rewrite Safety.bind_run, (has_next_token_eq s1 Hl1).
  change (cur_toks s1) with (cur_toks s). change (loc s1) with (loc s). rewrite Hi. reflexivity.
Qed.
