(* Proofs/LoadProofs.v — C15: loading a file equals typing it in.

   For a file whose lines are all numbered, non-empty and tokenizable
   ([wf_line]: entering the line is an edit that stores at least one token):
     - pass 1 of the analyzer stores exactly what entering the lines one by one
       stores, and the two interpreter states are EQUAL (pass1_is_typing);
     - the analysis' walk changes only cursor-like fields (AnalyzerFrame), and
       into_interpreter resets those, so the loaded interpreter is the typed-in
       interpreter but for the hook counter (load_equals_typing) — whatever the
       analysis found (the --skip-check path uses the same loader). *)
From Coq Require Import List NArith ZArith Bool Lia.
From Abasic Require Import Model.Bytes Model.Num Model.Token Model.Data Model.Lexer Gen.Tables
     Model.State Model.Eval Model.Interp Model.Analyzer Proofs.Monad Proofs.Frames Proofs.StoreProofs
     Proofs.Safety Proofs.AnalyzerFrame Proofs.AnalyzerProofs.
Import ListNotations.
Local Open Scope nat_scope.

Definition wf_line (line : bytes) : Prop :=
  exists n toks, edit_of line = Some (n, toks) /\ toks <> [].

(* a state in which nothing refers into the program and no call is in progress *)
Definition settled (s : interp) : Prop :=
  breakpoint s = None /\ stack s = [] /\ loops s = [] /\ data_it s = None /\ functions s = []
  /\ immediate s = [] /\ loc s = imm0 /\ reads s = 0 /\ outputs s = [] /\ state s = Idle.

Lemma settled_init : settled init_interp.
Proof. unfold settled, init_interp. cbn. repeat split. Qed.

Lemma edit_of_inv line n toks :
  edit_of line = Some (n, toks) ->
  command_of line = None /\ exists e ts, parse_line_number line = Some (n, e)
                                        /\ tokenize line e = TokOk ts /\ map fst ts = toks.
Proof.
  unfold edit_of. destruct (command_of line); [discriminate|].
  destruct (parse_line_number line) as [[n' e]|]; [|discriminate].
  destruct (tokenize line e) as [ts|ts err] eqn:Et; [|discriminate].
  intros H; inversion H; subst. split; [reflexivity|]. exists e, ts. repeat split; assumption.
Qed.

(* what storing a line does to a settled state *)
Definition stored (n : N) (toks : list token) (s : interp) : interp := store_set n toks s.

Lemma set_numbered_line_settled n toks s :
  settled s -> snd (set_numbered_line n toks s) = stored n toks s /\ settled (stored n toks s).
Proof.
  intros (H1 & H2 & H3 & H4 & H5 & H6 & H7 & H8 & H9 & H10).
  unfold set_numbered_line, reset_data_cursor, program_end. rewrite set_imm_is_modify.
  unfold modify, bind, stored. cbn [snd fst].
  unfold imm_reset, store_set.
  destruct s as [tk ks im lc bp st lp di fs inp outs stt rg vs ars w tr orc rd]; cbn in *; subst.
  destruct toks; cbn; split; try reflexivity; unfold settled; cbn; repeat split.
Qed.

(* entering a well-formed line from a settled state *)
Lemma step_line_settled fuel s line n toks :
  settled s -> edit_of line = Some (n, toks) ->
  snd (step fuel s (HLine line)) = stored n toks s.
Proof.
  intros Hs He. pose proof Hs as (H1 & H2 & H3 & H4 & H5 & H6 & H7 & H8 & H9 & H10).
  destruct (edit_of_inv line n toks He) as (Hc & e & ts & Hp & Ht & Hm).
  unfold step, legal. rewrite H10. cbn [negb].
  unfold start_evaluating, evaluate_impl. rewrite bind_get.
  change (state (set_reads 0 s)) with (state s). rewrite H10.
  rewrite set_imm_is_modify, bind_modify, Hc, Hp, Ht, Hm.
  assert (E : imm_reset [] (set_reads 0 s) = s).
  { unfold imm_reset. destruct s as [tk ks im lc bp st lp di fs inp outs stt rg vs ars w tr orc rd]; cbn in *; subst. reflexivity. }
  rewrite E. destruct (set_numbered_line_settled n toks s Hs) as [Hsn Hst].
  destruct (set_numbered_line n toks s) as [r s1] eqn:Es. cbn [snd] in Hsn. subst s1.
  assert (Hr : r = Ok tt).
  { revert Es. unfold set_numbered_line, reset_data_cursor, program_end. rewrite set_imm_is_modify.
    unfold modify, bind. cbn. intros H; inversion H; reflexivity. }
  subst r. cbn [postprocess]. unfold make_row, take_outputs. cbn [snd].
  destruct Hst as (_ & _ & _ & _ & _ & _ & _ & _ & Ho & _).
  destruct (stored n toks s) as [tk ks im lc bp st lp di fs inp outs stt rg vs ars w tr orc rd]; cbn in *; subst. reflexivity.
Qed.

(* pass 1 on a well-formed line *)
Lemma pass1_line_prog i line p n toks :
  edit_of line = Some (n, toks) -> toks <> [] ->
  p_prog (pass1_line i line p) = snd (set_numbered_line n toks (p_prog p)).
Proof.
  intros He Hne. destruct (edit_of_inv line n toks He) as (Hc & e & ts & Hp & Ht & Hm).
  unfold pass1_line.
  destruct line as [|b0 rest] eqn:El; [cbn in Hp; discriminate|]. rewrite <- El in *.
  rewrite Hp, Ht.
  destruct ts as [|t0 ts0] eqn:Ets; [exfalso; apply Hne; rewrite <- Hm; reflexivity|]. rewrite <- Ets in *.
  cbn [p_prog]. rewrite Hm. reflexivity.
Qed.

Theorem pass1_is_typing fuel : forall lines i p s,
  Forall wf_line lines -> settled s -> p_prog p = s ->
  p_prog (pass1_lines i lines p) = run_state fuel s (map HLine lines)
  /\ settled (run_state fuel s (map HLine lines)).
Proof.
  induction lines as [|line lines IH]; intros i p s Hwf Hs Hp; cbn [pass1_lines map run_state].
  - split; assumption.
  - inversion Hwf as [|? ? (n & toks & He & Hne) Hwf']; subst.
    destruct (set_numbered_line_settled n toks (p_prog p) Hs) as [Hsn Hst].
    apply IH; [exact Hwf'| |].
    + rewrite (step_line_settled fuel (p_prog p) line n toks Hs He). exact Hst.
    + rewrite (pass1_line_prog i line p n toks He Hne), Hsn.
      symmetry. apply step_line_settled; assumption.
Qed.

(* ------------------------------------------------------------------ *)
(* into_interpreter *)

Definition rt_reset (s : interp) : interp := snd (reset_runtime_state s).

Lemma rt_reset_eq s :
  rt_reset s = mkinterp (st_toks s) (st_keys s) [] imm0 None [] [] None [] (input s) (outputs s) (state s)
                        (rng s) (variables s) (arrays s) (enable_warnings s) (enable_tracing s)
                        (pow_oracle s) (reads s).
Proof.
  unfold rt_reset, reset_runtime_state, reset_data_cursor, program_end. rewrite set_imm_is_modify.
  unfold modify, bind, imm_reset. cbn. destruct s; reflexivity.
Qed.

Lemma rt_reset_AF a b : AF a b -> set_reads 0 (rt_reset b) = set_reads 0 (rt_reset a).
Proof.
  intros (H1 & H2 & H3 & H4 & H5 & H6 & H7 & H8 & H9 & H10 & H11 & H12 & H13 & H14 & H15).
  rewrite !rt_reset_eq. rewrite H1, H2, H7, H8, H9, H10, H11, H12, H13, H14, H15. reflexivity.
Qed.

Lemma rt_reset_run_from_first s :
  set_reads 0 (rt_reset (snd (run_from_first_numbered_line s))) = set_reads 0 (rt_reset s).
Proof.
  rewrite !rt_reset_eq.
  unfold run_from_first_numbered_line, reset_runtime_state, reset_data_cursor, program_end.
  rewrite set_imm_is_modify. unfold modify, bind, imm_reset. cbn [snd fst].
  match goal with |- context [store_first ?x] => destruct (store_first x) end; destruct s; reflexivity.
Qed.

Lemma rt_reset_settled s : settled s -> set_reads 0 (rt_reset s) = set_reads 0 s.
Proof.
  intros (H1 & H2 & H3 & H4 & H5 & H6 & H7 & H8 & H9 & H10). rewrite rt_reset_eq.
  destruct s; cbn in *; subst. reflexivity.
Qed.

Lemma an_program_walk fuel text :
  exists n r msgs st,
    walk_lines fuel n (p_map (pass1_of text)) (p_msgs (pass1_of text))
               (snd (run_from_first_numbered_line (p_prog (pass1_of text))), []) = (r, msgs, st)
    /\ an_program (analyze fuel text) = fst st.
Proof.
  unfold analyze. fold (pass1_of text).
  destruct (walk_lines _ _ _ _ _) as [[r msgs] st] eqn:Ew.
  eexists _, r, msgs, st. split; [exact Ew|].
  destruct r as [u|e l|pp| |]; cbn; try reflexivity.
  destruct (symbol_messages _ _); reflexivity.
Qed.

Lemma an_program_AF fuel text :
  AF (snd (run_from_first_numbered_line (p_prog (pass1_of text)))) (an_program (analyze fuel text)).
Proof.
  destruct (an_program_walk fuel text) as (n & r & msgs & st & Ew & Ea).
  pose proof (af_walk_lines_eq fuel (p_map (pass1_of text)) n (p_msgs (pass1_of text))
                (snd (run_from_first_numbered_line (p_prog (pass1_of text)))) [] r msgs st Ew) as H.
  exact (eq_ind_r (AF (snd (run_from_first_numbered_line (p_prog (pass1_of text))))) H Ea).
Qed.

(* The loaded interpreter is the typed-in interpreter (but for the hook counter). *)
Theorem load_equals_typing fuel fuel' text :
  Forall wf_line (split_lines text) ->
  set_reads 0 (into_interpreter (analyze fuel text))
  = set_reads 0 (run_state fuel' init_interp (map HLine (split_lines text))).
Proof.
  intros Hwf.
  destruct (pass1_is_typing fuel' (split_lines text) 0 (mkpass1 init_interp [] (mkmap [] []) []) init_interp
              Hwf settled_init eq_refl) as [Hp Hs].
  fold (pass1_of text) in Hp.
  unfold into_interpreter. fold (rt_reset (an_program (analyze fuel text))).
  rewrite (rt_reset_AF _ _ (an_program_AF fuel text)).
  rewrite rt_reset_run_from_first, Hp. apply rt_reset_settled, Hs.
Qed.

(* ------------------------------------------------------------------ *)
(* The command line: options are applied to whichever interpreter is used.

   StdioInterpreter::new / load_source_file (abasic-cli): the interpreter the
   session talks to is [configure w t seed] applied to a fresh interpreter
   (interactive / piped mode), resp. to the interpreter loaded from the file
   (file mode: into_interpreter, then configure_interpreter). *)

Definition configure (w t : bool) (seed : N) (s : interp) : interp :=
  set_rng (rng_new seed) (set_flags w t s).

Definition cli_file_mode (w t : bool) (seed : N) (fuel : nat) (text : bytes) : interp :=
  configure w t seed (into_interpreter (analyze fuel text)).

Definition cli_piped_mode (w t : bool) (seed : N) (fuel : nat) (lines : list bytes) : interp :=
  run_state fuel (configure w t seed init_interp) (map HLine lines).

Lemma settled_configure w t seed s : settled s -> settled (configure w t seed s).
Proof. intros H. exact H. Qed.

Lemma stored_configure w t seed n toks s :
  stored n toks (configure w t seed s) = configure w t seed (stored n toks s).
Proof. unfold stored, store_set, configure. destruct toks; destruct s; reflexivity. Qed.

Lemma typing_commutes_configure fuel w t seed : forall lines s,
  Forall wf_line lines -> settled s ->
  run_state fuel (configure w t seed s) (map HLine lines)
  = configure w t seed (run_state fuel s (map HLine lines)).
Proof.
  induction lines as [|line lines IH]; intros s Hwf Hs; cbn [map run_state]; [reflexivity|].
  inversion Hwf as [|? ? (n & toks & He & Hne) Hwf']; subst.
  rewrite (step_line_settled fuel (configure w t seed s) line n toks (settled_configure w t seed s Hs) He).
  rewrite (step_line_settled fuel s line n toks Hs He).
  rewrite stored_configure. apply IH; [exact Hwf'|].
  exact (proj2 (set_numbered_line_settled n toks s Hs)).
Qed.

Lemma configure_reads w t seed s : set_reads 0 (configure w t seed s) = configure w t seed (set_reads 0 s).
Proof. destruct s; reflexivity. Qed.

(* file mode and piped mode talk to the same interpreter, with the options on *)
Theorem cli_modes_agree w t seed fuel fuel' text :
  Forall wf_line (split_lines text) ->
  set_reads 0 (cli_file_mode w t seed fuel text)
  = set_reads 0 (cli_piped_mode w t seed fuel' (split_lines text))
  /\ enable_warnings (cli_file_mode w t seed fuel text) = w
  /\ enable_tracing (cli_file_mode w t seed fuel text) = t
  /\ rng (cli_file_mode w t seed fuel text) = rng_new seed.
Proof.
  intros Hwf. split; [|repeat split].
  unfold cli_file_mode, cli_piped_mode.
  rewrite (typing_commutes_configure fuel' w t seed (split_lines text) init_interp Hwf settled_init).
  rewrite !configure_reads. f_equal. apply load_equals_typing, Hwf.
Qed.

(* the hook counter is reset at the start of every host call, so the two
   interpreters behave identically from then on *)
Theorem same_behaviour fuel s1 s2 ops :
  set_reads 0 s1 = set_reads 0 s2 ->
  (forall op, In op ops -> match op with HFlags _ _ | HNew => False | _ => True end) ->
  run_ops fuel s1 ops = run_ops fuel s2 ops.
Proof.
  revert s1 s2. induction ops as [|op ops IH]; intros s1 s2 H Hops; cbn [run_ops]; [reflexivity|].
  assert (Hst : state s1 = state s2) by exact (f_equal state H).
  assert (Hor : pow_oracle s1 = pow_oracle s2) by exact (f_equal pow_oracle H).
  assert (E : step fuel s1 op = step fuel s2 op \/ (fst (step fuel s1 op) = fst (step fuel s2 op)
              /\ set_reads 0 (snd (step fuel s1 op)) = set_reads 0 (snd (step fuel s2 op)))).
  { pose proof (Hops op (or_introl eq_refl)) as Hop.
    unfold step, legal. rewrite Hst.
    destruct op; try contradiction; destruct (state s2); cbn [negb];
      first [ left; rewrite ?H, ?Hor; reflexivity | right; split; [reflexivity|exact H] ]. }
  assert (Hops' : forall op', In op' ops -> match op' with HFlags _ _ | HNew => False | _ => True end)
    by (intros op' Hin; apply Hops; right; exact Hin).
  destruct E as [E|[E1 E2]].
  - rewrite E. reflexivity.
  - destruct (step fuel s1 op) as [rw1 s1'], (step fuel s2 op) as [rw2 s2']. cbn [fst snd] in *. subst rw2.
    f_equal. apply IH; assumption.
Qed.
