(* Proofs/RunInv.v — the invariant of a program started by RUN (used by C07).

   [J s]: the immediate line is empty, no breakpoint is pending, the cursor is
   on a numbered line, every GOSUB / function frame returns to a numbered line
   and every FOR loop restarts on a numbered line.

   RUN establishes J (run_establishes_J); every evaluator keeps it, except that
   STOP and END move the cursor to the empty immediate line ([E]) — after which
   the same host call always ends Idle.  Hence: while a program started by RUN
   is Running or AwaitingInput, J holds at every turn boundary
   (continue_keeps_J, reply_keeps_J). *)
From Coq Require Import List NArith ZArith Bool Lia.
From Abasic Require Import Model.Bytes Model.Num Model.Token Model.Data Model.Lexer Gen.Tables
     Model.State Model.Eval Model.Interp Proofs.Monad Proofs.Frames Proofs.StoreProofs Proofs.Safety.
Import ListNotations.
Local Open Scope nat_scope.

Definition numbered (l : location) : Prop := loc_line l <> None.

Record J (s : interp) : Prop := {
  j_imm : immediate s = [];
  j_bp : breakpoint s = None;
  j_loc : numbered (loc s);
  j_stack : Forall (fun fr => numbered (fr_ret fr)) (stack s);
  j_loops : Forall (fun lp => numbered (lp_loc lp)) (loops s) }.

(* the cursor is on the empty immediate line *)
Definition E (s : interp) : Prop := loc_line (loc s) = None /\ immediate s = [].

Definition RJ (s : interp) (r : res unit) (s' : interp) : Prop := J s -> J s'.

Lemma RJ_ocat : ocat RJ.
Proof. split; unfold RJ; auto. Qed.

Lemma J_ext s s' :
  immediate s' = immediate s -> breakpoint s' = breakpoint s -> loc_line (loc s') = loc_line (loc s) ->
  stack s' = stack s -> loops s' = loops s -> J s -> J s'.
Proof.
  intros H1 H2 H3 H4 H5 [A1 A2 A3 A4 A5].
  split; unfold numbered in *; rewrite ?H1, ?H2, ?H3, ?H4, ?H5; assumption.
Qed.

Lemma rj_modify_frame f :
  (forall s, immediate (f s) = immediate s /\ breakpoint (f s) = breakpoint s
             /\ loc_line (loc (f s)) = loc_line (loc s) /\ stack (f s) = stack s /\ loops (f s) = loops s) ->
  orel RJ (modify f).
Proof.
  intros H. apply orel_modify. intros s. destruct (H s) as (H1 & H2 & H3 & H4 & H5).
  unfold RJ. apply J_ext; assumption.
Qed.

Lemma rj_same {A} (m : M A) : (forall s, snd (m s) = s) -> orel RJ m.
Proof. intros H s HJ. rewrite H. exact HJ. Qed.

Ltac rj_frame := apply rj_modify_frame; intros; repeat split; reflexivity.

Lemma rj_tokens_for_line l : orel RJ (tokens_for_line l).
Proof.
  apply rj_same. intros s. unfold tokens_for_line.
  destruct l as [n|]; [destruct (toks_get n (st_toks s))|]; reflexivity.
Qed.

Lemma rj_lift_res {A} (r : res A) : orel RJ (lift_res r).
Proof. apply rj_same. reflexivity. Qed.

Lemma rj_panic {A} p : orel RJ (@panic A p).
Proof. apply rj_same. reflexivity. Qed.

Create HintDb rjdb discriminated.
#[local] Hint Resolve rj_tokens_for_line rj_lift_res rj_panic : rjdb.

Ltac rj_leaf := first [ solve [ auto 3 with rjdb nocore ] | solve [ rj_frame ] ].
Ltac rj_walk := orel_walk RJ_ocat rj_leaf.

(* ---- token cursor ---- *)
Lemma rj_cur_tokens : orel RJ cur_tokens. Proof. unfold cur_tokens; rj_walk. Qed.
#[local] Hint Resolve rj_cur_tokens : rjdb.
Lemma rj_peek : orel RJ peek_next_token. Proof. unfold peek_next_token; rj_walk. Qed.
#[local] Hint Resolve rj_peek : rjdb.
Lemma rj_has_next : orel RJ has_next_token. Proof. unfold has_next_token; rj_walk. Qed.
Lemma rj_advance : orel RJ advance. Proof. unfold advance; rj_walk. Qed.
#[local] Hint Resolve rj_has_next rj_advance : rjdb.
Lemma rj_next_token : orel RJ next_token. Proof. unfold next_token; rj_walk. Qed.
#[local] Hint Resolve rj_next_token : rjdb.
Lemma rj_next_unwrapped : orel RJ next_unwrapped_token. Proof. unfold next_unwrapped_token; rj_walk. Qed.
#[local] Hint Resolve rj_next_unwrapped : rjdb.
Lemma rj_expect t : orel RJ (expect_next_token t). Proof. unfold expect_next_token; rj_walk. Qed.
Lemma rj_accept t : orel RJ (accept_next_token t). Proof. unfold accept_next_token; rj_walk. Qed.
Lemma rj_peek_is t : orel RJ (peek_is t). Proof. unfold peek_is; rj_walk. Qed.
Lemma rj_try {B} (g : token -> option B) : orel RJ (try_next_token g). Proof. unfold try_next_token; rj_walk. Qed.
#[local] Hint Resolve rj_expect rj_accept rj_peek_is rj_try : rjdb.
Lemma rj_discard : orel RJ discard_remaining_tokens. Proof. unfold discard_remaining_tokens; rj_walk. Qed.
Lemma rj_rewind_loop i e : orel RJ (rewind_loop i e).
Proof. induction i as [|i IH]; cbn [rewind_loop]; rj_walk. Qed.
#[local] Hint Resolve rj_discard rj_rewind_loop : rjdb.
Lemma rj_rewind e : orel RJ (rewind_before_token e). Proof. unfold rewind_before_token; rj_walk. Qed.
Lemma rj_get_line_number : orel RJ get_line_number. Proof. unfold get_line_number; rj_walk. Qed.
Lemma rj_is_else : orel RJ is_else_of_then_clause. Proof. unfold is_else_of_then_clause; rj_walk. Qed.
#[local] Hint Resolve rj_rewind rj_get_line_number rj_is_else : rjdb.

(* ---- values, arrays, data, output ---- *)
Lemma rj_variables_set n v : orel RJ (variables_set n v). Proof. unfold variables_set; rj_walk. Qed.
Lemma rj_variables_get n : orel RJ (variables_get n). Proof. unfold variables_get; rj_walk. Qed.
Lemma rj_find_var n : orel RJ (find_variable_value_in_stack n).
Proof. unfold find_variable_value_in_stack; rj_walk. Qed.
Lemma rj_reset_data : orel RJ reset_data_cursor. Proof. unfold reset_data_cursor; rj_walk. Qed.
Lemma rj_push_output o : orel RJ (push_output o). Proof. unfold push_output; rj_walk. Qed.
#[local] Hint Resolve rj_variables_set rj_variables_get rj_find_var rj_reset_data rj_push_output : rjdb.
Lemma rj_warn m : orel RJ (warn m). Proof. unfold warn; rj_walk. Qed.
#[local] Hint Resolve rj_warn : rjdb.
Lemma rj_maybe_warn n : orel RJ (maybe_warn_undeclared_array n).
Proof. unfold maybe_warn_undeclared_array; rj_walk. Qed.
Lemma rj_arrays_create n i : orel RJ (arrays_create n i). Proof. unfold arrays_create; rj_walk. Qed.
#[local] Hint Resolve rj_maybe_warn rj_arrays_create : rjdb.
Lemma rj_maybe_default n d : orel RJ (maybe_create_default_array n d).
Proof. unfold maybe_create_default_array; rj_walk. Qed.
#[local] Hint Resolve rj_maybe_default : rjdb.
Lemma rj_arrays_get n i : orel RJ (arrays_get n i). Proof. unfold arrays_get; rj_walk. Qed.
Lemma rj_arrays_set n i v : orel RJ (arrays_set n i v). Proof. unfold arrays_set; rj_walk. Qed.
Lemma rj_rng_rnd x : orel RJ (rng_rnd x). Proof. unfold rng_rnd; rj_walk. Qed.
#[local] Hint Resolve rj_arrays_get rj_arrays_set rj_rng_rnd : rjdb.

Lemma rj_next_data : orel RJ next_data_element.
Proof.
  intros s HJ. unfold next_data_element.
  assert (K : forall d, J (set_data_it d s)) by (intros d; revert HJ; apply J_ext; reflexivity).
  destruct (data_it s) as [d|].
  - destruct (data_next _ d); apply K.
  - destruct (data_chunks (st_keys s) (st_toks s)); try exact HJ. destruct (data_next _ _); apply K.
Qed.
#[local] Hint Resolve rj_next_data : rjdb.

Lemma rj_eval_unary o v : orel RJ (eval_unary o v). Proof. unfold eval_unary; rj_walk. Qed.
Lemma rj_eval_addsub o a b : orel RJ (eval_addsub o a b). Proof. unfold eval_addsub; rj_walk. Qed.
Lemma rj_eval_muldiv o a b : orel RJ (eval_muldiv o a b). Proof. unfold eval_muldiv; rj_walk. Qed.
Lemma rj_eval_eq o a b : orel RJ (eval_eq o a b). Proof. unfold eval_eq; rj_walk. Qed.
Lemma rj_eval_and a b : orel RJ (eval_and a b). Proof. unfold eval_and; rj_walk. Qed.
Lemma rj_eval_or a b : orel RJ (eval_or a b). Proof. unfold eval_or; rj_walk. Qed.
Lemma rj_eval_pow a b : orel RJ (eval_pow a b). Proof. unfold eval_pow; rj_walk. Qed.
Lemma rj_expect_number v : orel RJ (expect_number v). Proof. unfold expect_number; rj_walk. Qed.
#[local] Hint Resolve rj_eval_unary rj_eval_addsub rj_eval_muldiv rj_eval_eq rj_eval_and rj_eval_or
  rj_eval_pow rj_expect_number : rjdb.

(* ---- loops ---- *)
Lemma Forall_firstn_J {A} (P : A -> Prop) i l : Forall P l -> Forall P (firstn i l).
Proof. intros H. rewrite <- (firstn_skipn i l) in H. apply Forall_app in H. tauto. Qed.

Lemma rj_remove_loop sym : orel RJ (remove_loop_with_name sym).
Proof.
  intros s HJ. unfold remove_loop_with_name. rewrite bind_get.
  destruct (find_loop_rev sym (loops s)) as [i|]; [|exact HJ].
  rewrite bind_modify. cbn [ret fst snd forget].
  destruct HJ as [A1 A2 A3 A4 A5]. split; try assumption. apply Forall_firstn_J, A5.
Qed.
#[local] Hint Resolve rj_remove_loop : rjdb.

Lemma remove_loop_post_J sym s :
  J s -> forall li s', remove_loop_with_name sym s = (Ok (Some li), s') -> numbered (lp_loc li).
Proof.
  intros HJ li s'. unfold remove_loop_with_name. rewrite bind_get.
  destruct (find_loop_rev sym (loops s)) as [i|]; [|cbn; discriminate].
  rewrite bind_modify. cbn [ret]. intros H. inversion H as [[Hn Hs]].
  apply nth_error_In in Hn. pose proof (j_loops _ HJ) as Hall. rewrite Forall_forall in Hall. exact (Hall _ Hn).
Qed.

Lemma rj_start_loop sym a b c : orel RJ (start_loop sym a b c).
Proof.
  unfold start_loop. apply (orel_bind _ RJ_ocat); [rj_leaf|intros _].
  intros s HJ. rewrite bind_get.
  destruct (Nat.eqb (length (loops s)) stack_limit); [exact HJ|].
  rewrite bind_get, bind_modify.
  eapply (oc_trans _ RJ_ocat); [|apply rj_variables_set|exact HJ].
  intros _. destruct HJ as [A1 A2 A3 A4 A5]. split; try assumption.
  cbn. apply Forall_app; split; [exact A5|]. constructor; [exact A3|constructor].
Qed.

Lemma rj_end_loop sym : orel RJ (end_loop sym).
Proof.
  unfold end_loop. apply (orel_bind _ RJ_ocat); [rj_leaf|intros cur].
  destruct cur as [str|x]; [apply (orel_fail _ RJ_ocat)|].
  intros s HJ. rewrite Safety.bind_run.
  pose proof (rj_remove_loop sym s HJ) as HJ1. pose proof (remove_loop_post_J sym s HJ) as Hpost.
  destruct (remove_loop_with_name sym s) as [[li|e l|p| |] s1]; cbn [fst snd forget] in *; try exact HJ1.
  destruct li as [li|]; [|exact HJ1].
  destruct (negb _); [exact HJ1|].
  specialize (Hpost li s1 eq_refl).
  rewrite Safety.bind_run.
  match goal with |- context [if ?c then _ else _] => destruct c end.
  - unfold modify at 1. cbv iota beta.
    eapply (rj_variables_set sym _ _). destruct HJ1 as [A1 A2 A3 A4 A5]. split; try assumption.
    cbn. apply Forall_app; split; [exact A5|]. constructor; [exact Hpost|constructor].
  - cbn [ret]. apply (rj_variables_set sym _ _), HJ1.
Qed.
#[local] Hint Resolve rj_start_loop rj_end_loop : rjdb.

(* ---- jumps ---- *)
Lemma rj_goto n : orel RJ (goto_line_number n).
Proof.
  intros s HJ. unfold goto_line_number. rewrite bind_modify, bind_get.
  destruct (store_has n _); unfold modify, fail; cbn [fst snd forget];
    destruct HJ as [A1 A2 A3 A4 A5]; split; try assumption; try reflexivity.
  cbn. unfold numbered. cbn. discriminate.
Qed.
#[local] Hint Resolve rj_goto : rjdb.

Lemma rj_gosub n : orel RJ (gosub_line_number n).
Proof.
  intros s HJ. unfold gosub_line_number. rewrite bind_get.
  destruct (Nat.eqb (length (stack s)) stack_limit); [exact HJ|].
  rewrite bind_get, Safety.bind_run.
  pose proof (rj_goto n s HJ) as HJ1.
  assert (Hst : stack (snd (goto_line_number n s)) = stack s).
  { unfold goto_line_number. rewrite bind_modify, bind_get. destruct (store_has n _); reflexivity. }
  destruct (goto_line_number n s) as [[[]|e l|p| |] s1]; cbn [fst snd forget] in *; try exact HJ1.
  unfold modify; cbn [fst snd forget].
  destruct HJ1 as [A1 A2 A3 A4 A5]. split; try assumption.
  cbn. apply Forall_app; split; [exact A4|]. constructor; [exact (j_loc _ HJ)|constructor].
Qed.

Lemma J_stack_split s st fr : J s -> stack s = st ++ [fr] ->
  Forall (fun fr => numbered (fr_ret fr)) st /\ numbered (fr_ret fr).
Proof.
  intros HJ Hst. pose proof (j_stack _ HJ) as H. rewrite Hst in H. apply Forall_app in H as [H1 H2].
  split; [exact H1|]. inversion H2; assumption.
Qed.

Lemma rj_return : orel RJ return_to_last_gosub.
Proof.
  intros s HJ. unfold return_to_last_gosub. rewrite bind_modify, bind_get.
  cbn [stack set_breakpoint].
  destruct (rev (stack s)) as [|fr rest] eqn:Erev; unfold modify, fail; cbn [fst snd forget].
  - destruct HJ as [A1 A2 A3 A4 A5]; split; try assumption; reflexivity.
  - assert (Hst : stack s = rev rest ++ [fr]).
    { rewrite <- (rev_involutive (stack s)), Erev. reflexivity. }
    destruct (J_stack_split s _ _ HJ Hst) as [F1 F2].
    destruct HJ as [A1 A2 A3 A4 A5]; split; try assumption; try reflexivity.
Qed.

Lemma rj_define_function name args : orel RJ (define_function name args).
Proof. unfold define_function; rj_walk. Qed.

Lemma rj_pop : orel RJ pop_function_call.
Proof.
  intros s HJ. unfold pop_function_call. rewrite bind_get.
  destruct (rev (stack s)) as [|fr rest] eqn:Erev; unfold modify, panic; cbn [fst snd forget]; [exact HJ|].
  assert (Hst : stack s = rev rest ++ [fr]).
  { rewrite <- (rev_involutive (stack s)), Erev. reflexivity. }
  destruct (J_stack_split s _ _ HJ Hst) as [F1 F2].
  destruct HJ as [A1 A2 A3 A4 A5]; split; try assumption.
Qed.

Lemma rj_push name b : orel RJ (push_function_call name b).
Proof.
  intros s HJ. unfold push_function_call. rewrite bind_get.
  destruct (Nat.eqb (length (stack s)) stack_limit); [exact HJ|].
  rewrite bind_get, bind_modify, bind_get. cbn [functions set_stack].
  assert (HJ1 : J (set_stack (stack s ++ [mkframe (loc s) b]) s)).
  { destruct HJ as [A1 A2 A3 A4 A5]; split; try assumption.
    cbn. apply Forall_app; split; [exact A4|]. constructor; [exact A3|constructor]. }
  destruct (alist_get name (functions s)) as [d|]; unfold modify, panic; cbn [fst snd forget]; [|exact HJ1].
  destruct HJ1 as [A1 A2 A3 A4 A5]; split; try assumption. unfold numbered; cbn; discriminate.
Qed.
#[local] Hint Resolve rj_gosub rj_return rj_define_function rj_pop rj_push : rjdb.

Lemma rj_next_line : orel RJ next_line.
Proof.
  intros s HJ. unfold next_line. rewrite bind_get.
  destruct (loc_line (loc s)) as [n|]; [|exact HJ].
  rewrite bind_get. destruct (store_after n s) as [n'|]; [|exact HJ].
  rewrite bind_modify. cbn [ret fst snd forget].
  destruct HJ as [A1 A2 A3 A4 A5]; split; try assumption. unfold numbered; cbn; discriminate.
Qed.
#[local] Hint Resolve rj_next_line : rjdb.

(* ------------------------------------------------------------------ *)
(* expressions *)

Section ExprJ.
  Variable fuel : nat.
  Variable rec : M value.
  Hypothesis Hrec : orel RJ rec.

  Lemma rj_bind_arguments args : forall i n b, orel RJ (bind_arguments rec args i n b).
  Proof.
    induction args as [|a args IH]; intros i n b; cbn [bind_arguments];
      orel_walk RJ_ocat ltac:(first [ apply Hrec | apply IH | rj_leaf ]).
  Qed.

  Lemma rj_call_body : orel RJ (call_body rec).
  Proof.
    intros s HJ. unfold call_body. pose proof (Hrec s HJ) as H1.
    destruct (rec s) as [[v|e l|p| |] s1]; cbn [fst snd forget] in *; try exact H1.
    - pose proof (rj_pop s1 H1) as H2.
      destruct (pop_function_call s1) as [[u|e l|p| |] s2]; cbn [fst snd forget] in *; exact H2.
    - pose proof (rj_pop s1 H1) as H2.
      destruct (pop_function_call s1) as [[u|e2 l2|p| |] s2]; cbn [fst snd forget] in *; exact H2.
  Qed.

  Lemma rj_user_function_call name : orel RJ (user_function_call rec name).
  Proof.
    unfold user_function_call.
    orel_walk RJ_ocat ltac:(first [ apply rj_bind_arguments | apply rj_call_body | rj_leaf ]).
  Qed.

  Lemma rj_array_index : orel RJ (evaluate_array_index fuel rec).
  Proof. unfold evaluate_array_index; orel_walk RJ_ocat ltac:(first [ apply Hrec | rj_leaf ]). Qed.

  Lemma rj_unary_arg : orel RJ (unary_number_function_arg rec).
  Proof. unfold unary_number_function_arg; orel_walk RJ_ocat ltac:(first [ apply Hrec | rj_leaf ]). Qed.

  Lemma rj_function_call name : orel RJ (function_call rec name).
  Proof.
    unfold function_call.
    orel_walk RJ_ocat ltac:(first [ apply rj_unary_arg | apply rj_user_function_call | rj_leaf ]).
  Qed.

  Lemma rj_unary : orel RJ (unary_operator fuel rec).
  Proof.
    unfold unary_operator, parenthesized_expression, expression_term.
    orel_walk RJ_ocat ltac:(first [ apply Hrec | apply rj_function_call | apply rj_array_index | rj_leaf ]).
  Qed.

  Lemma rj_accept_as {O} t (o : O) : orel RJ (accept_as t o).
  Proof. unfold accept_as; rj_walk. Qed.

  Lemma rj_tier {O} (get_op : M (option O)) operand apply :
    orel RJ get_op -> orel RJ operand -> (forall o a b, orel RJ (apply o a b)) ->
    orel RJ (tier fuel get_op operand apply).
  Proof.
    intros H1 H2 H3. unfold tier.
    orel_walk RJ_ocat ltac:(first [ apply H1 | apply H2 | apply H3 | rj_leaf ]).
  Qed.

  Lemma rj_logical_or : orel RJ (logical_or_expression fuel rec).
  Proof.
    unfold logical_or_expression, logical_and_expression, equality_expression,
      plus_or_minus_expression, multiply_or_divide_expression, exponent_expression.
    repeat (apply rj_tier; [ first [apply rj_accept_as | apply rj_try] | | intros; rj_leaf ]).
    apply rj_unary.
  Qed.
End ExprJ.

Lemma rj_evaluate_expression fuel : forall n, orel RJ (evaluate_expression fuel n).
Proof.
  induction fuel as [|k IH]; intros n; cbn [evaluate_expression].
  - apply (orel_out_of_fuel _ RJ_ocat).
  - destruct (Nat.eqb n max_nesting); [apply (orel_fail _ RJ_ocat)|].
    apply rj_logical_or; apply IH.
Qed.
#[local] Hint Resolve rj_evaluate_expression : rjdb.

(* ------------------------------------------------------------------ *)
(* statements: J is kept, or the cursor ends on the empty immediate line *)

Definition SJ (s : interp) (r : res unit) (s' : interp) : Prop := J s -> J s' \/ E s'.

Lemma sj_of_rj {A} (m : M A) : orel RJ m -> orel SJ m.
Proof. intros H s HJ. left. apply H, HJ. Qed.

(* a J-keeping prefix *)
Lemma sj_bind_l {A B} (m : M A) (f : A -> M B) :
  orel RJ m -> (forall a, orel SJ (f a)) -> orel SJ (bind m f).
Proof.
  intros Hm Hf s HJ. rewrite Safety.bind_run. specialize (Hm s HJ).
  destruct (m s) as [[a|e l|p| |] s1]; cbn [fst snd forget] in *; try (left; exact Hm).
  apply Hf, Hm.
Qed.

(* the cursor-only tail of IF *)
Definition RE (s : interp) (r : res unit) (s' : interp) : Prop := (J s -> J s') /\ (E s -> E s').

Lemma RE_ocat : ocat RE.
Proof. split; unfold RE; intuition. Qed.

Lemma sj_bind_r {A B} (m : M A) (f : A -> M B) :
  orel SJ m -> (forall a, orel RE (f a)) -> orel SJ (bind m f).
Proof.
  intros Hm Hf s HJ. rewrite Safety.bind_run. specialize (Hm s HJ).
  destruct (m s) as [[a|e l|p| |] s1]; cbn [fst snd forget] in *; try exact Hm.
  destruct (Hf a s1) as [H1 H2]. destruct Hm as [Hm|Hm]; [left; auto|right; auto].
Qed.

Lemma re_modify_frame f :
  (forall s, immediate (f s) = immediate s /\ breakpoint (f s) = breakpoint s
             /\ loc_line (loc (f s)) = loc_line (loc s) /\ stack (f s) = stack s /\ loops (f s) = loops s) ->
  orel RE (modify f).
Proof.
  intros H. apply orel_modify. intros s. destruct (H s) as (H1 & H2 & H3 & H4 & H5). split.
  - apply J_ext; assumption.
  - unfold E. rewrite H1, H3. auto.
Qed.

Lemma re_same {A} (m : M A) : (forall s, snd (m s) = s) -> orel RE m.
Proof. intros H s. rewrite H. split; auto. Qed.

Lemma re_tokens_for_line l : orel RE (tokens_for_line l).
Proof.
  apply re_same. intros s. unfold tokens_for_line.
  destruct l as [n|]; [destruct (toks_get n (st_toks s))|]; reflexivity.
Qed.

Ltac re_leaf := first [ solve [ apply re_tokens_for_line ]
                      | solve [ apply re_modify_frame; intros; repeat split; reflexivity ] ].

Lemma re_peek_is t : orel RE (peek_is t).
Proof. unfold peek_is, peek_next_token, cur_tokens; orel_walk RE_ocat re_leaf. Qed.
Lemma re_discard : orel RE discard_remaining_tokens.
Proof. unfold discard_remaining_tokens, cur_tokens; orel_walk RE_ocat re_leaf. Qed.

Lemma bind_assoc {A B C} (m : M A) (f : A -> M B) (g : B -> M C) s :
  bind (bind m f) g s = bind m (fun a => bind (f a) g) s.
Proof. unfold bind. destruct (m s) as [[a|e l|p| |] s1]; reflexivity. Qed.

Lemma orel_ext {A} R (m m' : M A) : (forall s, m s = m' s) -> orel R m -> orel R m'.
Proof. intros H Hm s. rewrite <- H. apply Hm. Qed.

Lemma E_set_imm s : E (snd (set_and_goto_immediate_line [] s)).
Proof. unfold set_and_goto_immediate_line, modify, E. cbn. destruct (breakpoint s); split; reflexivity. Qed.

Lemma sj_program_end : orel SJ program_end.
Proof. intros s _. right. apply E_set_imm. Qed.

Lemma sj_break : orel SJ break_at_current_location.
Proof.
  intros s _. right. unfold break_at_current_location, program_break_at_current_location.
  rewrite bind_modify. unfold get_line_number. rewrite bind_assoc, bind_get, bind_ret.
  unfold push_output. rewrite bind_modify, bind_get, bind_modify. apply E_set_imm.
Qed.

Section StmtJ.
  Variable fuel nest : nat.
  Variable rec : M unit.
  Hypothesis Hrec : orel SJ rec.

  Ltac st_leaf := first [ apply rj_evaluate_expression | rj_leaf ].
  Ltac st_walk := orel_walk RJ_ocat st_leaf.

  Lemma rj_optional_index : orel RJ (parse_optional_array_index fuel nest).
  Proof. unfold parse_optional_array_index; orel_walk RJ_ocat ltac:(first [ apply rj_array_index; apply rj_evaluate_expression | st_leaf ]). Qed.

  Lemma rj_assign_value lv v : orel RJ (assign_value lv v).
  Proof. unfold assign_value; st_walk. Qed.

  Lemma rj_assignment sym : orel RJ (evaluate_assignment_statement fuel nest sym).
  Proof.
    unfold evaluate_assignment_statement.
    orel_walk RJ_ocat ltac:(first [ apply rj_optional_index | apply rj_assign_value | st_leaf ]).
  Qed.

  Lemma rj_let : orel RJ (evaluate_let_statement fuel nest).
  Proof. unfold evaluate_let_statement; orel_walk RJ_ocat ltac:(first [ apply rj_assignment | st_leaf ]). Qed.

  Lemma rj_parse_lvalue : orel RJ (parse_lvalue fuel nest).
  Proof. unfold parse_lvalue; orel_walk RJ_ocat ltac:(first [ apply rj_optional_index | st_leaf ]). Qed.

  Lemma rj_read : orel RJ (evaluate_read_statement fuel nest).
  Proof.
    unfold evaluate_read_statement.
    orel_walk RJ_ocat ltac:(first [ apply rj_parse_lvalue | apply rj_assign_value | st_leaf ]).
  Qed.

  Lemma rj_take_input : orel RJ take_input.
  Proof. unfold take_input; st_walk. Qed.

  Lemma rj_rewind_await : orel RJ rewind_program_and_await_input.
  Proof. unfold rewind_program_and_await_input; st_walk. Qed.

  Lemma rj_input : orel RJ (evaluate_input_statement fuel nest).
  Proof.
    unfold evaluate_input_statement.
    orel_walk RJ_ocat ltac:(first [ apply rj_take_input | apply rj_rewind_await | apply rj_parse_lvalue
                                  | apply rj_assign_value | st_leaf ]).
  Qed.

  Lemma rj_dim : orel RJ (evaluate_dim_statement fuel nest).
  Proof. unfold evaluate_dim_statement; orel_walk RJ_ocat ltac:(first [ apply rj_parse_lvalue | st_leaf ]). Qed.

  Lemma rj_print : orel RJ (evaluate_print_statement fuel nest).
  Proof. unfold evaluate_print_statement; st_walk. Qed.

  Lemma rj_for : orel RJ (evaluate_for_statement fuel nest).
  Proof. unfold evaluate_for_statement; st_walk. Qed.

  Lemma rj_next_stmt : orel RJ evaluate_next_statement.
  Proof. unfold evaluate_next_statement; st_walk. Qed.

  Lemma rj_def : orel RJ (evaluate_def_statement fuel).
  Proof. unfold evaluate_def_statement; st_walk. Qed.

  Lemma rj_goto_stmt : orel RJ evaluate_goto_statement.
  Proof. unfold evaluate_goto_statement; st_walk. Qed.

  Lemma rj_gosub_stmt : orel RJ evaluate_gosub_statement.
  Proof. unfold evaluate_gosub_statement; st_walk. Qed.

  Lemma sj_stmt_or_goto : orel SJ (statement_or_goto_line_number rec).
  Proof.
    unfold statement_or_goto_line_number. apply sj_bind_l; [rj_leaf|intros t].
    destruct t as [t|]; [destruct t|]; try exact Hrec. apply sj_of_rj, rj_goto_stmt.
  Qed.

  Lemma sj_if : orel SJ (evaluate_if_statement fuel nest rec).
  Proof.
    unfold evaluate_if_statement.
    apply sj_bind_l; [apply rj_evaluate_expression|intros c].
    apply sj_bind_l; [rj_leaf|intros _].
    destruct (to_bool c).
    - apply sj_bind_r; [apply sj_stmt_or_goto|intros _].
      apply (orel_bind _ RE_ocat); [apply re_peek_is|intros e].
      destruct e; [apply re_discard|apply (orel_ret _ RE_ocat)].
    - (* the false branch: a scan, then possibly the ELSE statement, last *)
      generalize tt. induction fuel as [|k IH]; intros u; cbn [repeat_m].
      + apply sj_of_rj, (orel_out_of_fuel _ RJ_ocat).
      + eapply orel_ext; [intro; symmetry; apply bind_assoc|].
        apply sj_bind_l; [rj_leaf|intros t].
        destruct t as [t|]; [|apply sj_of_rj, (orel_ret _ RJ_ocat)].
        destruct t; try (eapply orel_ext; [intro; symmetry; apply Safety.bind_ret|]; apply IH).
        * (* ':' *)
          eapply orel_ext; [intro; symmetry; apply bind_assoc|].
          apply sj_bind_l; [rj_leaf|intros _].
          eapply orel_ext; [intro; symmetry; apply Safety.bind_ret|]. apply IH.
        * (* ELSE *)
          eapply orel_ext; [intro; symmetry; apply bind_assoc|].
          apply sj_bind_r; [apply sj_stmt_or_goto|intros _].
          eapply orel_ext; [intro; symmetry; apply bind_assoc|].
          apply (orel_bind _ RE_ocat); [apply re_peek_is|intros e].
          eapply orel_ext; [intro; symmetry; apply bind_assoc|].
          apply (orel_bind _ RE_ocat); [destruct e; [apply re_discard|apply (orel_ret _ RE_ocat)]|intros ?].
          eapply orel_ext; [intro; symmetry; apply Safety.bind_ret|]. apply (orel_ret _ RE_ocat).
  Qed.
End StmtJ.

Section StmtJ2.
  Variable fuel nest : nat.
  Variable rec : M unit.
  Hypothesis Hrec : orel SJ rec.

  Ltac arm :=
    first [ apply sj_break | apply sj_program_end | apply (sj_if fuel nest rec Hrec)
          | apply sj_of_rj;
            first [ apply rj_dim | apply rj_print | apply rj_input | apply rj_goto_stmt | apply rj_gosub_stmt
                  | apply rj_for | apply rj_next_stmt | apply rj_def | apply rj_read | apply rj_let
                  | apply rj_assignment
                  | orel_walk RJ_ocat ltac:(first [ apply rj_evaluate_expression | rj_leaf ]) ] ].

  Lemma sj_statement_body : orel SJ (evaluate_statement_body fuel nest rec).
  Proof.
    unfold evaluate_statement_body.
    apply sj_bind_l; [apply (orel_get _ RJ_ocat)|intros tr].
    apply sj_bind_l; [rj_walk|intros _].
    apply sj_bind_l; [rj_leaf|intros t].
    destruct t as [t|]; [destruct t|]; arm.
  Qed.
End StmtJ2.

Lemma sj_evaluate_statement fuel : forall n, orel SJ (evaluate_statement fuel n).
Proof.
  induction fuel as [|k IH]; intros n; cbn [evaluate_statement].
  - apply sj_of_rj, (orel_out_of_fuel _ RJ_ocat).
  - destruct (Nat.eqb n max_nesting); [apply sj_of_rj, (orel_fail _ RJ_ocat)|].
    apply sj_statement_body; apply IH.
Qed.

(* ------------------------------------------------------------------ *)
(* one turn *)

Lemma has_next_E s : E s -> has_next_token s = (Ok false, set_reads (S (reads s)) s).
Proof.
  intros [H1 H2]. unfold has_next_token, peek_next_token, cur_tokens.
  rewrite Safety.bind_run, bind_modify, Safety.bind_run, bind_get. cbn [loc set_reads].
  rewrite H1. unfold tokens_for_line. cbn [immediate set_reads]. rewrite H2.
  cbn. destruct (loc_idx (loc s)); reflexivity.
Qed.

Lemma next_line_E s : E s -> next_line s = (Ok false, s).
Proof. intros [H1 H2]. unfold next_line. rewrite bind_get, H1. reflexivity. Qed.

Lemma E_set_reads r s : E s -> E (set_reads r s).
Proof. intros H; exact H. Qed.

(* A turn from a J state ends in a J state or Idle — whenever it returns a
   value or an error. *)
Theorem turn_keeps_J fuel s :
  J s ->
  match run_next_statement fuel s with
  | (Ok _, s') => J s' \/ state s' = Idle
  | _ => True
  end.
Proof.
  intros HJ. unfold run_next_statement. rewrite bind_modify.
  assert (HJ0 : J (set_state Running s)) by (revert HJ; apply J_ext; reflexivity).
  rewrite Safety.bind_run. pose proof (rj_has_next _ HJ0) as HJ1.
  destruct (has_next_token (set_state Running s)) as [[h|e l|p| |] s1]; cbn [fst snd forget] in HJ1; try exact I.
  rewrite Safety.bind_run.
  assert (H2 : match (if h then evaluate_statement fuel 0 else ret tt) s1 with
               | (Ok _, s2) => J s2 \/ E s2 | _ => True end).
  { destruct h.
    - pose proof (sj_evaluate_statement fuel 0 s1 HJ1) as H.
      destruct (evaluate_statement fuel 0 s1) as [[u|e l|p| |] s2]; cbn [fst snd forget] in H; auto.
    - cbn [ret]. left; exact HJ1. }
  destruct ((if h then evaluate_statement fuel 0 else ret tt) s1) as [[u|e l|p| |] s2]; try exact I.
  destruct H2 as [HJ2|HE2].
  - rewrite Safety.bind_run. pose proof (rj_has_next _ HJ2) as HJ3.
    destruct (has_next_token s2) as [[h2|e l|p| |] s3]; cbn [fst snd forget] in HJ3; try exact I.
    destruct h2; [left; exact HJ3|].
    rewrite Safety.bind_run. pose proof (rj_next_line _ HJ3) as HJ4.
    destruct (next_line s3) as [[n|e l|p| |] s4]; cbn [fst snd forget] in HJ4; try exact I.
    destruct n; [left; exact HJ4|]. right. reflexivity.
  - rewrite Safety.bind_run, (has_next_E s2 HE2).
    rewrite Safety.bind_run, (next_line_E _ (E_set_reads _ _ HE2)). right. reflexivity.
Qed.

(* the host calls *)
Theorem continue_keeps_J fuel s :
  J s -> state s = Running ->
  let '(r, s') := continue_evaluating fuel s in
  match r with
  | Ok _ => state s' <> Idle -> J s'
  | Err _ _ => state s' = Idle
  | _ => True
  end.
Proof.
  intros HJ Hst. unfold continue_evaluating. rewrite Hst.
  pose proof (turn_keeps_J fuel s HJ) as H.
  destruct (run_next_statement fuel s) as [[u|e l|p| |] s']; cbn [postprocess]; auto.
  intros Hn. destruct H as [H|H]; [exact H|contradiction].
Qed.

Theorem reply_keeps_J text s : J s -> J (snd (provide_input text s)).
Proof.
  intros HJ. unfold provide_input. destruct (state s); try exact HJ.
  cbn [snd]. revert HJ. apply J_ext; reflexivity.
Qed.

(* RUN establishes J whenever the program is still going after the call *)
Lemma command_of_RUN : command_of (bs "RUN") = Some CRun.
Proof. vm_compute. reflexivity. Qed.

Lemma turn_from_E fuel s : E s ->
  match run_next_statement fuel s with
  | (Ok _, s') => state s' = Idle
  | _ => True
  end.
Proof.
  intros HE. unfold run_next_statement. rewrite bind_modify.
  assert (HE0 : E (set_state Running s)) by exact HE.
  rewrite Safety.bind_run, (has_next_E _ HE0). cbn [ret].
  rewrite Safety.bind_run. cbn [ret].
  rewrite Safety.bind_run, (has_next_E _ (E_set_reads _ _ HE0)).
  rewrite Safety.bind_run, (next_line_E _ (E_set_reads _ _ (E_set_reads _ _ HE0))). reflexivity.
Qed.

Lemma run_from_first_J_or_E s :
  let s' := snd (run_from_first_numbered_line s) in
  fst (run_from_first_numbered_line s) = Ok tt /\ (J s' \/ E s').
Proof.
  unfold run_from_first_numbered_line, reset_runtime_state, reset_data_cursor, program_end.
  rewrite set_imm_is_modify. unfold modify, bind. cbn [fst snd].
  split; [reflexivity|].
  match goal with |- context [store_first ?x] => destruct (store_first x) as [n|] end.
  - left. split; cbn; auto. unfold numbered; cbn; discriminate.
  - right. split; reflexivity.
Qed.

Theorem run_establishes_J fuel s :
  state s = Idle ->
  let '(r, s') := start_evaluating fuel (bs "RUN") s in
  r = Ok tt -> state s' <> Idle -> J s'.
Proof.
  intros Hidle. unfold start_evaluating, evaluate_impl. rewrite bind_get, Hidle.
  rewrite set_imm_is_modify, bind_modify, command_of_RUN.
  cbn [process_command]. rewrite !bind_modify.
  set (s0 := set_arrays [] _).
  rewrite Safety.bind_run.
  destruct (run_from_first_J_or_E s0) as [Hok HJE].
  destruct (run_from_first_numbered_line s0) as [r1 s1]. cbn [fst snd] in *. subst r1.
  destruct HJE as [HJ|HE].
  - pose proof (turn_keeps_J fuel s1 HJ) as H.
    destruct (run_next_statement fuel s1) as [[u|e l|p| |] s2]; cbn [postprocess]; try discriminate.
    intros _ Hn. destruct H as [H|H]; [exact H|contradiction].
  - pose proof (turn_from_E fuel s1 HE) as H.
    destruct (run_next_statement fuel s1) as [[u|e l|p| |] s2]; cbn [postprocess]; try discriminate.
    intros _ Hn. contradiction.
Qed.
