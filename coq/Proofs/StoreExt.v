(* Proofs/StoreExt.v — the interpreter sees the program store only through
   lookups (C04: order of entry is irrelevant; C14: a reloaded listing behaves
   identically; C15: a loaded file behaves like the typed-in one).

   A two-run simulation (the scheme of Proofs/FlagsSim.v, from which this file
   was derived): two interpreter states that agree on everything except the
   internal ORDER of the stored lines — every line number looks up the same
   tokens in both, the sorted key lists are equal — stay so related under
   every primitive, evaluator and host call, and every such computation
   returns the same result in both runs ([respects]). *)
From Coq Require Import List NArith ZArith Bool Lia.
From Coq Require String.
From Abasic Require Import Model.Bytes Model.Num Model.Token Model.Data Model.Lexer Gen.Tables
     Model.State Model.Eval Model.Interp Proofs.Monad Proofs.Frames Proofs.StoreProofs.
Import ListNotations.

(* ------------------------------------------------------------------ *)
(* The relation *)

(* nothing is erased here: the two runs produce identical output queues *)
Definition erase (l : list output) : list output := l.

(* states equal up to the internal order of the stored lines *)
Definition sim (s t : interp) : Prop :=
  (forall k, toks_get k (st_toks s) = toks_get k (st_toks t))
  /\ st_keys s = st_keys t /\ immediate s = immediate t /\ loc s = loc t
  /\ breakpoint s = breakpoint t /\ stack s = stack t /\ loops s = loops t /\ data_it s = data_it t
  /\ functions s = functions t /\ input s = input t /\ state s = state t /\ rng s = rng t
  /\ variables s = variables t /\ arrays s = arrays t /\ pow_oracle s = pow_oracle t /\ reads s = reads t
  /\ enable_warnings s = enable_warnings t /\ enable_tracing s = enable_tracing t
  /\ erase (outputs s) = erase (outputs t).

Definition respects {A} (m : M A) : Prop :=
  forall s t, sim s t -> fst (m s) = fst (m t) /\ sim (snd (m s)) (snd (m t)).

(* the two-computation generalisation, needed where the two runs take
   different branches on a flag *)
Definition rel2 {A} (m1 m2 : M A) : Prop :=
  forall s t, sim s t -> fst (m1 s) = fst (m2 t) /\ sim (snd (m1 s)) (snd (m2 t)).

Lemma respects_rel2 {A} (m : M A) : respects m <-> rel2 m m.
Proof. split; intros H; exact H. Qed.

Lemma sim_refl s : sim s s.
Proof. unfold sim; repeat split; reflexivity. Qed.

Lemma sim_sym s t : sim s t -> sim t s.
Proof. unfold sim; intros H; decompose [and] H; repeat split; try (symmetry; assumption). intros k; symmetry; auto. Qed.

Lemma sim_trans s t u : sim s t -> sim t u -> sim s u.
Proof.
  unfold sim; intros H1 H2; decompose [and] H1; decompose [and] H2;
    repeat split; try (etransitivity; eassumption).
  intros k. etransitivity; eauto.
Qed.

(* projections *)
Lemma sim_st_toks s t : sim s t -> forall k, toks_get k (st_toks s) = toks_get k (st_toks t). Proof. unfold sim; tauto. Qed.
Lemma sim_enable_warnings s t : sim s t -> enable_warnings s = enable_warnings t. Proof. unfold sim; tauto. Qed.
Lemma sim_enable_tracing s t : sim s t -> enable_tracing s = enable_tracing t. Proof. unfold sim; tauto. Qed.
Lemma sim_st_keys s t : sim s t -> st_keys s = st_keys t. Proof. unfold sim; tauto. Qed.
Lemma sim_immediate s t : sim s t -> immediate s = immediate t. Proof. unfold sim; tauto. Qed.
Lemma sim_loc s t : sim s t -> loc s = loc t. Proof. unfold sim; tauto. Qed.
Lemma sim_breakpoint s t : sim s t -> breakpoint s = breakpoint t. Proof. unfold sim; tauto. Qed.
Lemma sim_stack s t : sim s t -> stack s = stack t. Proof. unfold sim; tauto. Qed.
Lemma sim_loops s t : sim s t -> loops s = loops t. Proof. unfold sim; tauto. Qed.
Lemma sim_data_it s t : sim s t -> data_it s = data_it t. Proof. unfold sim; tauto. Qed.
Lemma sim_functions s t : sim s t -> functions s = functions t. Proof. unfold sim; tauto. Qed.
Lemma sim_input s t : sim s t -> input s = input t. Proof. unfold sim; tauto. Qed.
Lemma sim_state s t : sim s t -> state s = state t. Proof. unfold sim; tauto. Qed.
Lemma sim_rng s t : sim s t -> rng s = rng t. Proof. unfold sim; tauto. Qed.
Lemma sim_variables s t : sim s t -> variables s = variables t. Proof. unfold sim; tauto. Qed.
Lemma sim_arrays s t : sim s t -> arrays s = arrays t. Proof. unfold sim; tauto. Qed.
Lemma sim_pow_oracle s t : sim s t -> pow_oracle s = pow_oracle t. Proof. unfold sim; tauto. Qed.
Lemma sim_reads s t : sim s t -> reads s = reads t. Proof. unfold sim; tauto. Qed.
Lemma sim_outputs s t : sim s t -> erase (outputs s) = erase (outputs t). Proof. unfold sim; tauto. Qed.

Lemma erase_app a b : erase (a ++ b) = erase a ++ erase b.
Proof. reflexivity. Qed.

(* rewrite every compared projection of [t] into the projection of [s] *)
Ltac sim_rw H :=
  rewrite <- ?(sim_st_toks _ _ H), <- ?(sim_st_keys _ _ H), <- ?(sim_immediate _ _ H),
          <- ?(sim_loc _ _ H), <- ?(sim_breakpoint _ _ H), <- ?(sim_stack _ _ H),
          <- ?(sim_loops _ _ H), <- ?(sim_data_it _ _ H), <- ?(sim_functions _ _ H),
          <- ?(sim_input _ _ H), <- ?(sim_state _ _ H), <- ?(sim_rng _ _ H),
          <- ?(sim_variables _ _ H), <- ?(sim_arrays _ _ H), <- ?(sim_pow_oracle _ _ H),
          <- ?(sim_reads _ _ H), <- ?(sim_enable_warnings _ _ H), <- ?(sim_enable_tracing _ _ H).

Ltac sim_fields :=
  cbn [st_toks st_keys immediate loc breakpoint stack loops data_it functions input outputs state
       rng variables arrays enable_warnings enable_tracing pow_oracle reads
       set_store set_immediate set_loc set_breakpoint set_stack set_loops set_data_it set_functions
       set_input set_outputs set_state set_rng set_variables set_arrays set_flags set_oracle set_reads].

(* lookups after an edit depend on the earlier lookups only *)
Lemma teq_remove n a b : (forall k, toks_get k a = toks_get k b) ->
  forall k, toks_get k (toks_remove n a) = toks_get k (toks_remove n b).
Proof.
  intros H k. destruct (N.eq_dec k n) as [->|Hne].
  - rewrite !toks_get_remove_same. reflexivity.
  - rewrite !toks_get_remove_other by exact Hne. apply H.
Qed.

Lemma teq_set n v a b : (forall k, toks_get k a = toks_get k b) ->
  forall k, toks_get k (toks_set n v a) = toks_get k (toks_set n v b).
Proof. intros H k. rewrite !toks_get_set. destruct (N.eqb n k); [reflexivity | apply H]. Qed.

Lemma data_chunks_ext keys a b : (forall k, toks_get k a = toks_get k b) -> data_chunks keys a = data_chunks keys b.
Proof. intros H. induction keys as [|n r IH]; cbn [data_chunks]; [reflexivity|]. rewrite (H n), IH. reflexivity. Qed.

Lemma list_lines_ext keys a b : (forall k, toks_get k a = toks_get k b) -> list_lines keys a = list_lines keys b.
Proof. intros H. induction keys as [|n r IH]; cbn [list_lines]; [reflexivity|]. rewrite (H n), IH. reflexivity. Qed.

Ltac sim_out H :=
  first [ exact (sim_outputs _ _ H)
        | rewrite !erase_app; f_equal; exact (sim_outputs _ _ H) ].

(* goal [sim (f s) (f t)] for [f] built from setters, given [H : sim s t] *)
Ltac sim_solve H :=
  cbv beta zeta;
  unfold store_first, store_set, store_has, store_after, imm_reset;
  cbv beta zeta;
  sim_rw H;
  repeat match goal with |- context [match ?x with _ => _ end] => destruct x end;
  unfold sim; sim_fields; sim_rw H;
  repeat split;
  first [ reflexivity | sim_out H | exact (sim_st_toks _ _ H)
        | apply teq_set; exact (sim_st_toks _ _ H) | apply teq_remove; exact (sim_st_toks _ _ H) ].

(* goal [f s = f t] for a compared observation [f] *)
Ltac sim_get H :=
  cbv beta; unfold store_first, store_has, store_after; sim_rw H; reflexivity.

(* setter congruence *)
Lemma sim_set_store a b s t : sim s t -> sim (set_store a b s) (set_store a b t).
Proof. intros H; sim_solve H. Qed.
Lemma sim_set_immediate v s t : sim s t -> sim (set_immediate v s) (set_immediate v t).
Proof. intros H; sim_solve H. Qed.
Lemma sim_set_loc v s t : sim s t -> sim (set_loc v s) (set_loc v t).
Proof. intros H; sim_solve H. Qed.
Lemma sim_set_breakpoint v s t : sim s t -> sim (set_breakpoint v s) (set_breakpoint v t).
Proof. intros H; sim_solve H. Qed.
Lemma sim_set_stack v s t : sim s t -> sim (set_stack v s) (set_stack v t).
Proof. intros H; sim_solve H. Qed.
Lemma sim_set_loops v s t : sim s t -> sim (set_loops v s) (set_loops v t).
Proof. intros H; sim_solve H. Qed.
Lemma sim_set_data_it v s t : sim s t -> sim (set_data_it v s) (set_data_it v t).
Proof. intros H; sim_solve H. Qed.
Lemma sim_set_functions v s t : sim s t -> sim (set_functions v s) (set_functions v t).
Proof. intros H; sim_solve H. Qed.
Lemma sim_set_input v s t : sim s t -> sim (set_input v s) (set_input v t).
Proof. intros H; sim_solve H. Qed.
Lemma sim_set_state v s t : sim s t -> sim (set_state v s) (set_state v t).
Proof. intros H; sim_solve H. Qed.
Lemma sim_set_rng v s t : sim s t -> sim (set_rng v s) (set_rng v t).
Proof. intros H; sim_solve H. Qed.
Lemma sim_set_variables v s t : sim s t -> sim (set_variables v s) (set_variables v t).
Proof. intros H; sim_solve H. Qed.
Lemma sim_set_arrays v s t : sim s t -> sim (set_arrays v s) (set_arrays v t).
Proof. intros H; sim_solve H. Qed.
Lemma sim_set_oracle v s t : sim s t -> sim (set_oracle v s) (set_oracle v t).
Proof. intros H; sim_solve H. Qed.
Lemma sim_set_reads v s t : sim s t -> sim (set_reads v s) (set_reads v t).
Proof. intros H; sim_solve H. Qed.
Lemma sim_store_set n v s t : sim s t -> sim (store_set n v s) (store_set n v t).
Proof. intros H; sim_solve H. Qed.

Lemma sim_set_flags w b s t : sim s t -> sim (set_flags w b s) (set_flags w b t).
Proof. intros H; sim_solve H. Qed.

(* replacing the whole queue by equal-after-erasure queues *)
Lemma sim_set_outputs a b s t : sim s t -> erase a = erase b -> sim (set_outputs a s) (set_outputs b t).
Proof.
  intros H Hab. unfold sim; sim_fields; sim_rw H. repeat split; first [reflexivity | exact Hab | exact (sim_st_toks _ _ H)].
Qed.

(* appending the same record on both sides (kept or dropped) *)
Lemma sim_push_both l s t :
  sim s t -> sim (set_outputs (outputs s ++ l) s) (set_outputs (outputs t ++ l) t).
Proof.
  intros H. apply sim_set_outputs; [exact H|]. rewrite !erase_app. f_equal. exact (sim_outputs _ _ H).
Qed.

(* ------------------------------------------------------------------ *)
(* Structural rules *)

Lemma respects_ret {A} (a : A) : respects (ret a).
Proof. intros s t H; split; [reflexivity|exact H]. Qed.
Lemma respects_fail {A} e : respects (@fail A e).
Proof. intros s t H; split; [reflexivity|exact H]. Qed.
Lemma respects_fail_at {A} e l : respects (@fail_at A e l).
Proof. intros s t H; split; [reflexivity|exact H]. Qed.
Lemma respects_panic {A} p : respects (@panic A p).
Proof. intros s t H; split; [reflexivity|exact H]. Qed.
Lemma respects_out_of_fuel {A} : respects (@out_of_fuel A).
Proof. intros s t H; split; [reflexivity|exact H]. Qed.
Lemma respects_oracle_miss {A} : respects (@oracle_miss A).
Proof. intros s t H; split; [reflexivity|exact H]. Qed.
Lemma respects_lift_res {A} (r : res A) : respects (lift_res r).
Proof. intros s t H; split; [reflexivity|exact H]. Qed.
Lemma respects_const {A} (r : res A) : respects (fun s => (r, s)).
Proof. intros s t H; split; [reflexivity|exact H]. Qed.

Lemma respects_get {A} (f : interp -> A) :
  (forall s t, sim s t -> f s = f t) -> respects (get f).
Proof. intros Hf s t H; unfold get; cbn [fst snd]. split; [rewrite (Hf s t H); reflexivity|exact H]. Qed.

Lemma respects_modify f :
  (forall s t, sim s t -> sim (f s) (f t)) -> respects (modify f).
Proof. intros Hf s t H; unfold modify; cbn [fst snd]. split; [reflexivity|apply Hf; exact H]. Qed.

Lemma rel2_bind {A B} (m1 m2 : M A) (f1 f2 : A -> M B) :
  rel2 m1 m2 -> (forall a, rel2 (f1 a) (f2 a)) -> rel2 (bind m1 f1) (bind m2 f2).
Proof.
  intros Hm Hf s t H. destruct (Hm s t H) as [E S]. unfold bind.
  destruct (m1 s) as [[a|e l|p| |] s1]; destruct (m2 t) as [[a'|e' l'|p'| |] t1];
    cbn [fst snd] in E, S |- *; try discriminate E.
  - injection E as ->. apply Hf; exact S.
  - injection E as -> ->. split; [reflexivity|exact S].
  - injection E as ->. split; [reflexivity|exact S].
  - split; [reflexivity|exact S].
  - split; [reflexivity|exact S].
Qed.

Lemma respects_bind {A B} (m : M A) (f : A -> M B) :
  respects m -> (forall a, respects (f a)) -> respects (bind m f).
Proof. intros Hm Hf. apply rel2_bind; assumption. Qed.

Lemma respects_repeat {S T} n (body : S -> M (S + T)) :
  (forall acc, respects (body acc)) -> forall acc, respects (repeat_m n body acc).
Proof.
  intros Hb. induction n as [|n IH]; intros acc; cbn [repeat_m].
  - apply respects_out_of_fuel.
  - apply respects_bind; [apply Hb|]. intros [acc'|r]; [apply IH | apply respects_ret].
Qed.

(* ------------------------------------------------------------------ *)
(* The walker.  Every case is guarded by the syntactic shape of the goal, so
   that no rule is ever unified against the body of an evaluator. *)

Create HintDb resp.

Ltac resp_leaf :=
  first [ match goal with H : respects ?m |- respects ?m => exact H end
        | match goal with H : forall a, respects (@?m a) |- respects ?m' => apply H end
        | solve [trivial with resp nocore] ].

Ltac rstep :=
  lazymatch goal with
  | |- respects (ret _) => apply respects_ret
  | |- respects (fail _) => apply respects_fail
  | |- respects (fail_at _ _) => apply respects_fail_at
  | |- respects (panic _) => apply respects_panic
  | |- respects out_of_fuel => apply respects_out_of_fuel
  | |- respects oracle_miss => apply respects_oracle_miss
  | |- respects (lift_res _) => apply respects_lift_res
  | |- respects (bind _ _) => apply respects_bind; [| intro]
  | |- respects (repeat_m _ _ _) => apply respects_repeat; intro
  | |- respects (get _) =>
      apply respects_get; let H := fresh "Hsim" in intros ? ? H; sim_get H
  | |- respects (modify _) =>
      apply respects_modify; let H := fresh "Hsim" in intros ? ? H; sim_solve H
  | |- respects (fun s => (_, s)) => apply respects_const
  | |- respects (if ?b then _ else _) => destruct b
  | |- respects (let '(_, _) := ?x in _) => destruct x
  | |- respects (match ?x with _ => _ end) => destruct x
  | |- respects _ => resp_leaf
  end.

Ltac rwalk := repeat rstep.

(* ------------------------------------------------------------------ *)
(* Primitives of State.v *)

Lemma respects_tokens_for_line l : respects (tokens_for_line l).
Proof.
  intros s t H. unfold tokens_for_line. destruct l as [n|]; sim_rw H.
  - destruct (toks_get n (st_toks s)); split; first [reflexivity|exact H].
  - split; [reflexivity|exact H].
Qed.
#[global] Hint Extern 0 (respects (tokens_for_line _)) => apply respects_tokens_for_line : resp.

Lemma respects_cur_tokens : respects cur_tokens.
Proof. unfold cur_tokens; rwalk. Qed.
#[global] Hint Extern 0 (respects cur_tokens) => apply respects_cur_tokens : resp.

Lemma respects_peek : respects peek_next_token.
Proof. unfold peek_next_token; rwalk. Qed.
#[global] Hint Extern 0 (respects peek_next_token) => apply respects_peek : resp.

Lemma respects_has_next : respects has_next_token.
Proof. unfold has_next_token; rwalk. Qed.
#[global] Hint Extern 0 (respects has_next_token) => apply respects_has_next : resp.

Lemma respects_advance : respects advance.
Proof. unfold advance; rwalk. Qed.
#[global] Hint Extern 0 (respects advance) => apply respects_advance : resp.

Lemma respects_next_token : respects next_token.
Proof. unfold next_token; rwalk. Qed.
#[global] Hint Extern 0 (respects next_token) => apply respects_next_token : resp.

Lemma respects_next_unwrapped : respects next_unwrapped_token.
Proof. unfold next_unwrapped_token; rwalk. Qed.
#[global] Hint Extern 0 (respects next_unwrapped_token) => apply respects_next_unwrapped : resp.

Lemma respects_expect e : respects (expect_next_token e).
Proof. unfold expect_next_token; rwalk. Qed.
#[global] Hint Extern 0 (respects (expect_next_token _)) => apply respects_expect : resp.

Lemma respects_accept e : respects (accept_next_token e).
Proof. unfold accept_next_token; rwalk. Qed.
#[global] Hint Extern 0 (respects (accept_next_token _)) => apply respects_accept : resp.

Lemma respects_peek_is e : respects (peek_is e).
Proof. unfold peek_is; rwalk. Qed.
#[global] Hint Extern 0 (respects (peek_is _)) => apply respects_peek_is : resp.

Lemma respects_try {A} (f : token -> option A) : respects (try_next_token f).
Proof. unfold try_next_token; rwalk. Qed.
#[global] Hint Extern 0 (respects (try_next_token _)) => apply respects_try : resp.

Lemma respects_discard : respects discard_remaining_tokens.
Proof. unfold discard_remaining_tokens; rwalk. Qed.
#[global] Hint Extern 0 (respects discard_remaining_tokens) => apply respects_discard : resp.

Lemma respects_rewind_loop i e : respects (rewind_loop i e).
Proof. induction i as [|i IH]; cbn [rewind_loop]; rwalk. Qed.
#[global] Hint Extern 0 (respects (rewind_loop _ _)) => apply respects_rewind_loop : resp.

Lemma respects_rewind e : respects (rewind_before_token e).
Proof. unfold rewind_before_token; rwalk. Qed.
#[global] Hint Extern 0 (respects (rewind_before_token _)) => apply respects_rewind : resp.

Lemma respects_get_line_number : respects get_line_number.
Proof. unfold get_line_number; rwalk. Qed.
#[global] Hint Extern 0 (respects get_line_number) => apply respects_get_line_number : resp.

Lemma respects_set_imm ts : respects (set_and_goto_immediate_line ts).
Proof. unfold set_and_goto_immediate_line; rwalk. Qed.
#[global] Hint Extern 0 (respects (set_and_goto_immediate_line _)) => apply respects_set_imm : resp.

Lemma respects_remove_loop sym : respects (remove_loop_with_name sym).
Proof. unfold remove_loop_with_name; rwalk. Qed.
#[global] Hint Extern 0 (respects (remove_loop_with_name _)) => apply respects_remove_loop : resp.

Lemma respects_program_break : respects program_break_at_current_location.
Proof. unfold program_break_at_current_location; rwalk. Qed.
#[global] Hint Extern 0 (respects program_break_at_current_location) => apply respects_program_break : resp.

Lemma respects_continue_bp : respects continue_from_breakpoint.
Proof. unfold continue_from_breakpoint; rwalk. Qed.
#[global] Hint Extern 0 (respects continue_from_breakpoint) => apply respects_continue_bp : resp.

Lemma respects_variables_set n v : respects (variables_set n v).
Proof. unfold variables_set; rwalk. Qed.
#[global] Hint Extern 0 (respects (variables_set _ _)) => apply respects_variables_set : resp.

Lemma respects_variables_get n : respects (variables_get n).
Proof. unfold variables_get; rwalk. Qed.
#[global] Hint Extern 0 (respects (variables_get _)) => apply respects_variables_get : resp.

Lemma respects_start_loop sym a b c : respects (start_loop sym a b c).
Proof. unfold start_loop; rwalk. Qed.
#[global] Hint Extern 0 (respects (start_loop _ _ _ _)) => apply respects_start_loop : resp.

Lemma respects_end_loop sym : respects (end_loop sym).
Proof. unfold end_loop; rwalk. Qed.
#[global] Hint Extern 0 (respects (end_loop _)) => apply respects_end_loop : resp.

Lemma respects_reset_data : respects reset_data_cursor.
Proof. unfold reset_data_cursor; rwalk. Qed.
#[global] Hint Extern 0 (respects reset_data_cursor) => apply respects_reset_data : resp.

Lemma respects_program_end : respects program_end.
Proof. unfold program_end; rwalk. Qed.
#[global] Hint Extern 0 (respects program_end) => apply respects_program_end : resp.

Lemma respects_reset_runtime : respects reset_runtime_state.
Proof. unfold reset_runtime_state; rwalk. Qed.
#[global] Hint Extern 0 (respects reset_runtime_state) => apply respects_reset_runtime : resp.

Lemma respects_run_from_first : respects run_from_first_numbered_line.
Proof. unfold run_from_first_numbered_line; rwalk. Qed.
#[global] Hint Extern 0 (respects run_from_first_numbered_line) => apply respects_run_from_first : resp.

Lemma respects_goto n : respects (goto_line_number n).
Proof. unfold goto_line_number; rwalk. Qed.
#[global] Hint Extern 0 (respects (goto_line_number _)) => apply respects_goto : resp.

Lemma respects_gosub n : respects (gosub_line_number n).
Proof. unfold gosub_line_number; rwalk. Qed.
#[global] Hint Extern 0 (respects (gosub_line_number _)) => apply respects_gosub : resp.

Lemma respects_return : respects return_to_last_gosub.
Proof. unfold return_to_last_gosub; rwalk. Qed.
#[global] Hint Extern 0 (respects return_to_last_gosub) => apply respects_return : resp.

Lemma respects_define_function n a : respects (define_function n a).
Proof. unfold define_function; rwalk. Qed.
#[global] Hint Extern 0 (respects (define_function _ _)) => apply respects_define_function : resp.

Lemma respects_push_fn n b : respects (push_function_call n b).
Proof. unfold push_function_call; rwalk. Qed.
#[global] Hint Extern 0 (respects (push_function_call _ _)) => apply respects_push_fn : resp.

Lemma respects_pop_fn : respects pop_function_call.
Proof. unfold pop_function_call; rwalk. Qed.
#[global] Hint Extern 0 (respects pop_function_call) => apply respects_pop_fn : resp.

Lemma respects_find_var n : respects (find_variable_value_in_stack n).
Proof. unfold find_variable_value_in_stack; rwalk. Qed.
#[global] Hint Extern 0 (respects (find_variable_value_in_stack _)) => apply respects_find_var : resp.

Lemma respects_next_data : respects next_data_element.
Proof.
  intros s t H. unfold next_data_element. sim_rw H.
  rewrite <- (data_chunks_ext (st_keys s) _ _ (sim_st_toks _ _ H)).
  destruct (data_it s) as [d|].
  - destruct (data_next _ d) as [e d']; cbn [fst snd].
    split; [reflexivity|apply sim_set_data_it; exact H].
  - destruct (data_chunks (st_keys s) (st_toks s)) as [cs|e l|p| |];
      try (split; [reflexivity|exact H]).
    destruct (data_next _ _) as [e d']; cbn [fst snd].
    split; [reflexivity|apply sim_set_data_it; exact H].
Qed.
#[global] Hint Extern 0 (respects next_data_element) => apply respects_next_data : resp.

Lemma respects_is_else : respects is_else_of_then_clause.
Proof. unfold is_else_of_then_clause; rwalk. Qed.
#[global] Hint Extern 0 (respects is_else_of_then_clause) => apply respects_is_else : resp.

Lemma respects_next_line : respects next_line.
Proof. unfold next_line; rwalk. Qed.
#[global] Hint Extern 0 (respects next_line) => apply respects_next_line : resp.

Lemma respects_set_numbered_line n ts : respects (set_numbered_line n ts).
Proof. unfold set_numbered_line; rwalk. Qed.
#[global] Hint Extern 0 (respects (set_numbered_line _ _)) => apply respects_set_numbered_line : resp.

Lemma respects_arrays_create n i : respects (arrays_create n i).
Proof. unfold arrays_create; rwalk. Qed.
#[global] Hint Extern 0 (respects (arrays_create _ _)) => apply respects_arrays_create : resp.

Lemma respects_maybe_default n d : respects (maybe_create_default_array n d).
Proof. unfold maybe_create_default_array; rwalk. Qed.
#[global] Hint Extern 0 (respects (maybe_create_default_array _ _)) => apply respects_maybe_default : resp.

Lemma respects_arrays_get n i : respects (arrays_get n i).
Proof. unfold arrays_get; rwalk. Qed.
#[global] Hint Extern 0 (respects (arrays_get _ _)) => apply respects_arrays_get : resp.

Lemma respects_arrays_set n i v : respects (arrays_set n i v).
Proof. unfold arrays_set; rwalk. Qed.
#[global] Hint Extern 0 (respects (arrays_set _ _ _)) => apply respects_arrays_set : resp.

Lemma respects_rng_rnd x : respects (rng_rnd x).
Proof. unfold rng_rnd; rwalk. Qed.
#[global] Hint Extern 0 (respects (rng_rnd _)) => apply respects_rng_rnd : resp.

(* the same record appended in both runs: fine whether kept or dropped *)
Lemma respects_push_output o : respects (push_output o).
Proof.
  unfold push_output. apply respects_modify. intros s t H. apply sim_push_both; exact H.
Qed.
#[global] Hint Extern 0 (respects (push_output _)) => apply respects_push_output : resp.

(* ---- the places where [enable_warnings] is read: both runs read the same flag ---- *)

Lemma respects_warn msg : respects (warn msg).
Proof. unfold warn; rwalk. Qed.
#[global] Hint Extern 0 (respects (warn _)) => apply respects_warn : resp.

Lemma respects_maybe_warn name : respects (maybe_warn_undeclared_array name).
Proof. unfold maybe_warn_undeclared_array; rwalk. Qed.
#[global] Hint Extern 0 (respects (maybe_warn_undeclared_array _)) => apply respects_maybe_warn : resp.

(* ------------------------------------------------------------------ *)
(* Operators *)

Lemma respects_eval_unary o v : respects (eval_unary o v).
Proof. unfold eval_unary; rwalk. Qed.
#[global] Hint Extern 0 (respects (eval_unary _ _)) => apply respects_eval_unary : resp.
Lemma respects_eval_addsub o a b : respects (eval_addsub o a b).
Proof. unfold eval_addsub; rwalk. Qed.
#[global] Hint Extern 0 (respects (eval_addsub _ _ _)) => apply respects_eval_addsub : resp.
Lemma respects_eval_muldiv o a b : respects (eval_muldiv o a b).
Proof. unfold eval_muldiv; rwalk. Qed.
#[global] Hint Extern 0 (respects (eval_muldiv _ _ _)) => apply respects_eval_muldiv : resp.
Lemma respects_eval_eq o a b : respects (eval_eq o a b).
Proof. unfold eval_eq; rwalk. Qed.
#[global] Hint Extern 0 (respects (eval_eq _ _ _)) => apply respects_eval_eq : resp.
Lemma respects_eval_and a b : respects (eval_and a b).
Proof. unfold eval_and; rwalk. Qed.
#[global] Hint Extern 0 (respects (eval_and _ _)) => apply respects_eval_and : resp.
Lemma respects_eval_or a b : respects (eval_or a b).
Proof. unfold eval_or; rwalk. Qed.
#[global] Hint Extern 0 (respects (eval_or _ _)) => apply respects_eval_or : resp.
Lemma respects_eval_pow a b : respects (eval_pow a b).
Proof. unfold eval_pow; rwalk. Qed.
#[global] Hint Extern 0 (respects (eval_pow _ _)) => apply respects_eval_pow : resp.
Lemma respects_expect_number v : respects (expect_number v).
Proof. unfold expect_number; rwalk. Qed.
#[global] Hint Extern 0 (respects (expect_number _)) => apply respects_expect_number : resp.

(* ------------------------------------------------------------------ *)
(* Expressions *)

Lemma populate_error_location_sim e l s t :
  sim s t -> populate_error_location e l s = populate_error_location e l t.
Proof.
  intros H. unfold populate_error_location, get_data_location. sim_rw H. reflexivity.
Qed.

Section Expr.
  Variable fuel : nat.
  Variable rec : M value.
  Hypothesis Hrec : respects rec.

  Lemma respects_bind_arguments args : forall i n b, respects (bind_arguments rec args i n b).
  Proof.
    induction args as [|a args IH]; intros i n b; cbn [bind_arguments]; rwalk.
  Qed.

  Lemma respects_call_body : respects (call_body rec).
  Proof.
    intros s t H. unfold call_body. destruct (Hrec s t H) as [E1 S1].
    destruct (rec s) as [[v|e l|p| |] s1]; destruct (rec t) as [[v'|e' l'|p'| |] t1];
      cbn [fst snd] in E1, S1; try discriminate E1;
      try (split; [exact E1|exact S1]).
    - injection E1 as ->.
      destruct (respects_pop_fn s1 t1 S1) as [E2 S2].
      destruct (pop_function_call s1) as [[u|e2 l2|p2| |] s2];
        destruct (pop_function_call t1) as [[u'|e2' l2'|p2'| |] t2];
        cbn [fst snd] in E2, S2 |- *; try discriminate E2;
        try (split; [reflexivity|exact S2]).
      + injection E2 as -> ->. split; [reflexivity|exact S2].
      + injection E2 as ->. split; [reflexivity|exact S2].
    - injection E1 as -> ->.
      rewrite (populate_error_location_sim e' l' s1 t1 S1).
      destruct (respects_pop_fn s1 t1 S1) as [E2 S2].
      destruct (pop_function_call s1) as [[u|e2 l2|p2| |] s2];
        destruct (pop_function_call t1) as [[u'|e2' l2'|p2'| |] t2];
        cbn [fst snd] in E2, S2 |- *; try discriminate E2;
        try (split; [reflexivity|exact S2]).
      + injection E2 as -> ->. split; [reflexivity|exact S2].
      + injection E2 as ->. split; [reflexivity|exact S2].
  Qed.

  Hint Extern 0 (respects (bind_arguments _ _ _ _ _)) => apply respects_bind_arguments : resp.
  Hint Extern 0 (respects (call_body _)) => apply respects_call_body : resp.

  Lemma respects_array_index : respects (evaluate_array_index fuel rec).
  Proof. unfold evaluate_array_index; rwalk. Qed.
  Hint Extern 0 (respects (evaluate_array_index _ _)) => apply respects_array_index : resp.

  Lemma respects_unary_arg : respects (unary_number_function_arg rec).
  Proof. unfold unary_number_function_arg; rwalk. Qed.
  Hint Extern 0 (respects (unary_number_function_arg _)) => apply respects_unary_arg : resp.

  Lemma respects_user_function_call name : respects (user_function_call rec name).
  Proof. unfold user_function_call; rwalk. Qed.
  Hint Extern 0 (respects (user_function_call _ _)) => apply respects_user_function_call : resp.

  Lemma respects_function_call name : respects (function_call rec name).
  Proof. unfold function_call; rwalk. Qed.
  Hint Extern 0 (respects (function_call _ _)) => apply respects_function_call : resp.

  Lemma respects_expression_term : respects (expression_term fuel rec).
  Proof. unfold expression_term; rwalk. Qed.
  Hint Extern 0 (respects (expression_term _ _)) => apply respects_expression_term : resp.

  Lemma respects_parenthesized : respects (parenthesized_expression fuel rec).
  Proof. unfold parenthesized_expression; rwalk. Qed.
  Hint Extern 0 (respects (parenthesized_expression _ _)) => apply respects_parenthesized : resp.

  Lemma respects_unary_operator : respects (unary_operator fuel rec).
  Proof. unfold unary_operator; rwalk. Qed.

  Lemma respects_tier {O} (g : M (option O)) (operand : M value) (ap : O -> value -> value -> M value) :
    respects g -> respects operand -> (forall o a b, respects (ap o a b)) ->
    respects (tier fuel g operand ap).
  Proof. intros Hg Ho Ha. unfold tier; rwalk. Qed.

  Lemma respects_accept_as {O} t (o : O) : respects (accept_as t o).
  Proof. unfold accept_as; rwalk. Qed.

  Lemma respects_logical_or : respects (logical_or_expression fuel rec).
  Proof.
    unfold logical_or_expression, logical_and_expression, equality_expression,
      plus_or_minus_expression, multiply_or_divide_expression, exponent_expression.
    repeat (apply respects_tier;
            [ first [apply respects_accept_as | apply respects_try] | | intros; resp_leaf ]).
    apply respects_unary_operator.
  Qed.
End Expr.

Theorem respects_evaluate_expression fuel : forall n, respects (evaluate_expression fuel n).
Proof.
  induction fuel as [|k IH]; intros n; cbn [evaluate_expression].
  - apply respects_out_of_fuel.
  - destruct (Nat.eqb n max_nesting); [apply respects_fail|].
    apply respects_logical_or; apply IH.
Qed.
#[global] Hint Extern 0 (respects (evaluate_expression _ _)) => apply respects_evaluate_expression : resp.

(* ------------------------------------------------------------------ *)
(* Statements *)

Section Stmt.
  Variable fuel : nat.
  Variable nest : nat.
  Variable rec : M unit.
  Hypothesis Hrec : respects rec.

  Hint Extern 0 (respects (evaluate_array_index _ _)) =>
    apply respects_array_index; apply respects_evaluate_expression : resp.

  Lemma respects_expr : respects (expr fuel nest).
  Proof. unfold expr; apply respects_evaluate_expression. Qed.
  Hint Extern 0 (respects (expr _ _)) => apply respects_expr : resp.

  Lemma respects_optional_index : respects (parse_optional_array_index fuel nest).
  Proof. unfold parse_optional_array_index; rwalk. Qed.
  Hint Extern 0 (respects (parse_optional_array_index _ _)) => apply respects_optional_index : resp.

  Lemma respects_await : respects rewind_program_and_await_input.
  Proof. unfold rewind_program_and_await_input; rwalk. Qed.
  Hint Extern 0 (respects rewind_program_and_await_input) => apply respects_await : resp.

  Lemma respects_break : respects break_at_current_location.
  Proof. unfold break_at_current_location; rwalk. Qed.
  Hint Extern 0 (respects break_at_current_location) => apply respects_break : resp.

  Lemma respects_goto_stmt : respects evaluate_goto_statement.
  Proof. unfold evaluate_goto_statement; rwalk. Qed.
  Hint Extern 0 (respects evaluate_goto_statement) => apply respects_goto_stmt : resp.

  Lemma respects_gosub_stmt : respects evaluate_gosub_statement.
  Proof. unfold evaluate_gosub_statement; rwalk. Qed.
  Hint Extern 0 (respects evaluate_gosub_statement) => apply respects_gosub_stmt : resp.

  Lemma respects_stmt_or_goto : respects (statement_or_goto_line_number rec).
  Proof. unfold statement_or_goto_line_number; rwalk. Qed.
  Hint Extern 0 (respects (statement_or_goto_line_number _)) => apply respects_stmt_or_goto : resp.

  Lemma respects_if : respects (evaluate_if_statement fuel nest rec).
  Proof. unfold evaluate_if_statement; rwalk. Qed.
  Hint Extern 0 (respects (evaluate_if_statement _ _ _)) => apply respects_if : resp.

  Lemma respects_assign lv v : respects (assign_value lv v).
  Proof. unfold assign_value; rwalk. Qed.
  Hint Extern 0 (respects (assign_value _ _)) => apply respects_assign : resp.

  Lemma respects_assignment sym : respects (evaluate_assignment_statement fuel nest sym).
  Proof. unfold evaluate_assignment_statement; rwalk. Qed.
  Hint Extern 0 (respects (evaluate_assignment_statement _ _ _)) => apply respects_assignment : resp.

  Lemma respects_let : respects (evaluate_let_statement fuel nest).
  Proof. unfold evaluate_let_statement; rwalk. Qed.
  Hint Extern 0 (respects (evaluate_let_statement _ _)) => apply respects_let : resp.

  Lemma respects_parse_lvalue : respects (parse_lvalue fuel nest).
  Proof. unfold parse_lvalue; rwalk. Qed.
  Hint Extern 0 (respects (parse_lvalue _ _)) => apply respects_parse_lvalue : resp.

  Lemma respects_read : respects (evaluate_read_statement fuel nest).
  Proof. unfold evaluate_read_statement; rwalk. Qed.
  Hint Extern 0 (respects (evaluate_read_statement _ _)) => apply respects_read : resp.

  Lemma respects_take_input : respects take_input.
  Proof. unfold take_input; rwalk. Qed.
  Hint Extern 0 (respects take_input) => apply respects_take_input : resp.

  Lemma respects_input : respects (evaluate_input_statement fuel nest).
  Proof. unfold evaluate_input_statement; rwalk. Qed.
  Hint Extern 0 (respects (evaluate_input_statement _ _)) => apply respects_input : resp.

  Lemma respects_dim : respects (evaluate_dim_statement fuel nest).
  Proof. unfold evaluate_dim_statement; rwalk. Qed.
  Hint Extern 0 (respects (evaluate_dim_statement _ _)) => apply respects_dim : resp.

  Lemma respects_print : respects (evaluate_print_statement fuel nest).
  Proof. unfold evaluate_print_statement; rwalk. Qed.
  Hint Extern 0 (respects (evaluate_print_statement _ _)) => apply respects_print : resp.

  Lemma respects_for : respects (evaluate_for_statement fuel nest).
  Proof. unfold evaluate_for_statement; rwalk. Qed.
  Hint Extern 0 (respects (evaluate_for_statement _ _)) => apply respects_for : resp.

  Lemma respects_next_stmt : respects evaluate_next_statement.
  Proof. unfold evaluate_next_statement; rwalk. Qed.
  Hint Extern 0 (respects evaluate_next_statement) => apply respects_next_stmt : resp.

  Lemma respects_def : respects (evaluate_def_statement fuel).
  Proof. unfold evaluate_def_statement; rwalk. Qed.
  Hint Extern 0 (respects (evaluate_def_statement _)) => apply respects_def : resp.

  Lemma respects_statement_body : respects (evaluate_statement_body fuel nest rec).
  Proof.
    unfold evaluate_statement_body. rwalk.
  Qed.
End Stmt.

Theorem respects_evaluate_statement fuel : forall n, respects (evaluate_statement fuel n).
Proof.
  induction fuel as [|k IH]; intros n; cbn [evaluate_statement].
  - apply respects_out_of_fuel.
  - destruct (Nat.eqb n max_nesting); [apply respects_fail|].
    apply respects_statement_body; apply IH.
Qed.
#[global] Hint Extern 0 (respects (evaluate_statement _ _)) => apply respects_evaluate_statement : resp.

(* ------------------------------------------------------------------ *)
(* Interp.v: the host API *)

Theorem respects_run_next_statement fuel : respects (run_next_statement fuel).
Proof. unfold run_next_statement, return_to_idle_state; rwalk. Qed.
#[global] Hint Extern 0 (respects (run_next_statement _)) => apply respects_run_next_statement : resp.

Lemma respects_list_lines :
  respects (fun s => (list_lines (st_keys s) (st_toks s), s)).
Proof.
  intros s t H. cbn [fst snd]. sim_rw H. rewrite <- (list_lines_ext (st_keys s) _ _ (sim_st_toks _ _ H)).
  split; [reflexivity|exact H].
Qed.

(* TRACE / NOTRACE write the same flag in both runs *)
Theorem respects_process_command fuel c : respects (process_command fuel c).
Proof.
  destruct c; cbn [process_command].
  - rwalk.
  - apply respects_bind; [apply respects_list_lines|intros ls].
    apply respects_modify. intros s t H. apply sim_push_both; exact H.
  - rwalk.
  - rwalk.
  - apply respects_modify. intros s t H. cbv beta. sim_rw H. apply sim_set_flags; exact H.
  - apply respects_modify. intros s t H. cbv beta. sim_rw H. apply sim_set_flags; exact H.
  - rwalk.
  - rwalk.
Qed.
#[global] Hint Extern 0 (respects (process_command _ _)) => apply respects_process_command : resp.

Lemma postprocess_sim {A} (r1 r2 : res A * interp) :
  fst r1 = fst r2 -> sim (snd r1) (snd r2) ->
  fst (postprocess r1) = fst (postprocess r2) /\ sim (snd (postprocess r1)) (snd (postprocess r2)).
Proof.
  destruct r1 as [[a|e l|p| |] s1]; destruct r2 as [[a'|e' l'|p'| |] t1];
    cbn [fst snd postprocess]; intros E S; try discriminate E;
    try (split; [exact E|exact S]).
  injection E as -> ->. rewrite (populate_error_location_sim e' l' s1 t1 S).
  split; [reflexivity|apply sim_set_state; exact S].
Qed.

Lemma respects_postprocess {A} (m : M A) : respects m -> respects (fun s => postprocess (m s)).
Proof. intros Hm s t H. destruct (Hm s t H) as [E S]. apply postprocess_sim; assumption. Qed.

Lemma respects_evaluate_impl fuel line : respects (evaluate_impl fuel line).
Proof. unfold evaluate_impl; rwalk. Qed.

Theorem respects_start_evaluating fuel line : respects (start_evaluating fuel line).
Proof. unfold start_evaluating. apply respects_postprocess, respects_evaluate_impl. Qed.

Theorem respects_continue_evaluating fuel : respects (continue_evaluating fuel).
Proof.
  intros s t H. unfold continue_evaluating. sim_rw H.
  destruct (state s); try (split; [reflexivity|exact H]).
  apply (respects_postprocess _ (respects_run_next_statement fuel)); exact H.
Qed.

Theorem respects_provide_input text : respects (provide_input text).
Proof.
  intros s t H. unfold provide_input. sim_rw H.
  destruct (state s); cbn [fst snd]; try (split; [reflexivity|exact H]).
  split; [reflexivity|]. apply sim_set_state, sim_set_input; exact H.
Qed.

Theorem respects_host_break : respects host_break.
Proof. unfold host_break; apply respects_break. Qed.

Theorem respects_randomize n : respects (randomize n).
Proof. unfold randomize; rwalk. Qed.

(* ------------------------------------------------------------------ *)
(* ------------------------------------------------------------------ *)
(* Step and history level: every column of the row the harness compares —
   outcome (result, error and its location), interpreter state, the drained
   output queue, caret, message, reads — is the same in both runs; the
   snapshot column is not compared (it prints the store's internal key list). *)

Definition row_same (a b : row) : Prop :=
  r_outcome a = r_outcome b /\ r_state a = r_state b /\ r_outputs a = r_outputs b
  /\ r_caret a = r_caret b /\ r_msg a = r_msg b /\ r_reads a = r_reads b.

Definition orow_same (a b : option row) : Prop :=
  match a, b with
  | Some x, Some y => row_same x y
  | None, None => True
  | _, _ => False
  end.

Lemma row_same_refl a : row_same a a.
Proof. repeat split. Qed.

Lemma render_caret_sim e l line s t : sim s t -> render_caret e l line s = render_caret e l line t.
Proof.
  intros H. unfold render_caret. destruct l as [l|]; [|reflexivity].
  unfold program_caret.
  destruct (respects_tokens_for_line (loc_line l) s t H) as [E _]. rewrite E. reflexivity.
Qed.

Lemma make_row_sim r line s t : sim s t ->
  row_same (fst (make_row r line s)) (fst (make_row r line t))
  /\ sim (snd (make_row r line s)) (snd (make_row r line t)).
Proof.
  intros H. unfold make_row, take_outputs. cbn [fst snd].
  assert (H1 : sim (set_outputs [] s) (set_outputs [] t)) by (apply sim_set_outputs; [exact H | reflexivity]).
  split; [|exact H1].
  unfold row_same. cbn [r_outcome r_state r_outputs r_caret r_msg r_reads].
  repeat split.
  - cbn [state set_outputs]. rewrite (sim_state _ _ H). reflexivity.
  - rewrite (sim_outputs _ _ H : outputs s = outputs t). reflexivity.
  - destruct r as [u|e l|p| |]; try reflexivity. rewrite (render_caret_sim e l line _ _ H1). reflexivity.
  - cbn [reads set_outputs]. rewrite (sim_reads _ _ H). reflexivity.
Qed.

Theorem legal_sim s t op : sim s t -> legal s op = legal t op.
Proof. intros H. unfold legal. sim_rw H. reflexivity. Qed.

Lemma call_sim (m : M unit) line s t : respects m -> sim s t ->
  let '(r1, s1) := m s in let '(r2, t1) := m t in
  orow_same (Some (fst (make_row r1 line s1))) (Some (fst (make_row r2 line t1)))
  /\ sim (snd (make_row r1 line s1)) (snd (make_row r2 line t1)).
Proof.
  intros Hm H. destruct (Hm s t H) as [E S].
  destruct (m s) as [r1 s1]; destruct (m t) as [r2 t1]; cbn [fst snd] in E, S. subst r2.
  apply make_row_sim. exact S.
Qed.

Theorem step_sim fuel s t op : sim s t ->
  orow_same (fst (step fuel s op)) (fst (step fuel t op)) /\ sim (snd (step fuel s op)) (snd (step fuel t op)).
Proof.
  intros H. unfold step. rewrite <- (legal_sim s t op H).
  destruct (legal s op); cbn [negb]; [|split; [exact I | exact H]].
  pose proof (sim_set_reads 0 s t H) as H0.
  assert (Hfresh : fresh (pow_oracle s) = fresh (pow_oracle t)) by (rewrite (sim_pow_oracle _ _ H); reflexivity).
  destruct op as [text| |text| |seed| |w b|].
  - pose proof (call_sim _ (Some text) _ _ (respects_start_evaluating fuel text) H0) as C.
    destruct (start_evaluating fuel text (set_reads 0 s)) as [r1 s1], (start_evaluating fuel text (set_reads 0 t)) as [r2 t1].
    destruct (make_row r1 (Some text) s1), (make_row r2 (Some text) t1). exact C.
  - pose proof (call_sim _ None _ _ (respects_continue_evaluating fuel) H0) as C.
    destruct (continue_evaluating fuel (set_reads 0 s)) as [r1 s1], (continue_evaluating fuel (set_reads 0 t)) as [r2 t1].
    destruct (make_row r1 None s1), (make_row r2 None t1). exact C.
  - pose proof (call_sim _ None _ _ (respects_provide_input text) H0) as C.
    destruct (provide_input text (set_reads 0 s)) as [r1 s1], (provide_input text (set_reads 0 t)) as [r2 t1].
    destruct (make_row r1 None s1), (make_row r2 None t1). exact C.
  - pose proof (call_sim _ None _ _ respects_host_break H0) as C.
    destruct (host_break (set_reads 0 s)) as [r1 s1], (host_break (set_reads 0 t)) as [r2 t1].
    destruct (make_row r1 None s1), (make_row r2 None t1). exact C.
  - pose proof (call_sim _ None _ _ (respects_randomize seed) H0) as C.
    destruct (randomize seed (set_reads 0 s)) as [r1 s1], (randomize seed (set_reads 0 t)) as [r2 t1].
    destruct (make_row r1 None s1), (make_row r2 None t1). exact C.
  - rewrite <- Hfresh. destruct (make_row (Ok tt) None (fresh (pow_oracle s))). split; [apply row_same_refl | apply sim_refl].
  - split; [exact I | apply sim_set_flags; exact H].
  - rewrite <- Hfresh. split; [exact I | apply sim_refl].
Qed.

(* whole sessions: any two interpreters that differ only in the internal
   order of their stored lines answer every sequence of host operations with
   the same rows, and stay so related *)
Theorem history_sim fuel : forall ops s t, sim s t ->
  Forall2 orow_same (run_ops fuel s ops) (run_ops fuel t ops)
  /\ sim (run_state fuel s ops) (run_state fuel t ops).
Proof.
  induction ops as [|op r IH]; intros s t H; cbn [run_ops run_state].
  - split; [constructor | exact H].
  - destruct (step_sim fuel s t op H) as [A B].
    destruct (step fuel s op) as [rw1 s1], (step fuel t op) as [rw2 t1]. cbn [fst snd] in *.
    destruct (IH s1 t1 B) as [C D]. split; [constructor; assumption | exact D].
Qed.
