(* Proofs/AgreeProofs.v — C06: the static checker and the interpreter agree.

   What is proved here (the full soundness / completeness statements of
   DESIGN.md 6 C06 need the AST-level simulation and are validated by the
   oracle and the two correspondences instead):
     - both tools parse expressions with the same precedence tiers and
       associativity, and dispatch statements on the same keywords (decided on
       the tables regenerated from expression.rs / expression_analyzer.rs and
       statement.rs / statement_analyzer.rs);
     - jump targets: the checker accepts `GOTO n` / `GOSUB n` / `THEN n`
       exactly when the interpreter's jump to n succeeds — on the same store,
       and the analysis never changes the store (AnalyzerFrame);
     - the checker's kind discipline is the interpreter's: a value stored
       under a name always has the kind of the name's suffix (C16), and the
       checker demands exactly that of every assignment it accepts. *)
From Coq Require Import List NArith ZArith Bool Lia.
From Coq Require String.
From Abasic Require Import Model.Bytes Model.Num Model.Token Model.Data Model.Lexer Gen.Tables
     Model.State Model.Eval Model.Interp Model.Analyzer Proofs.Monad Proofs.Frames Proofs.StoreProofs
     Proofs.Safety Proofs.AnalyzerFrame.
Import ListNotations.
Local Open Scope nat_scope.

(* ------------------------------------------------------------------ *)
(* 1. one grammar *)

Theorem same_expression_grammar : analyzer_expr_tiers = expr_tiers.
Proof. reflexivity. Qed.

Definition stmt_keywords (l : list (String.string * String.string)) : list String.string := map fst l.

Theorem same_statement_keywords :
  stmt_keywords analyzer_stmt_dispatch
  = filter (fun k => negb (String.eqb k "Else")) (stmt_keywords stmt_dispatch).
Proof. reflexivity. Qed.

(* ------------------------------------------------------------------ *)
(* 2. jump targets *)

Lemma goto_outcome n s :
  fst (goto_line_number n s) = if store_has n s then Ok tt else Err EUndefinedStatement None.
Proof.
  unfold goto_line_number. rewrite bind_modify, bind_get.
  change (store_has n (set_breakpoint None s)) with (store_has n s).
  destruct (store_has n s); reflexivity.
Qed.

Lemma gosub_outcome n s :
  length (stack s) <> stack_limit ->
  fst (gosub_line_number n s) = if store_has n s then Ok tt else Err EUndefinedStatement None.
Proof.
  intros Hlen. unfold gosub_line_number. rewrite bind_get.
  destruct (Nat.eqb_spec (length (stack s)) stack_limit) as [E|_]; [congruence|].
  rewrite bind_get, Safety.bind_run. pose proof (goto_outcome n s) as Hg.
  destruct (goto_line_number n s) as [[[]|e l|p| |] s1]; cbn [fst] in *;
    destruct (store_has n s); try discriminate; try reflexivity; inversion Hg; reflexivity.
Qed.

(* the checker on a numeric jump target *)
Lemma an_jump_outcome x toks st :
  fst (cur_tokens (fst st)) = Ok toks ->
  nth_error toks (loc_idx (loc (fst st))) = Some (TNumber x) ->
  line_exists (fst st) (loc (fst st)) ->
  fst (an_goto_or_gosub st)
  = if store_has (Z.to_N (f64_to_u64_sat x)) (fst st) then Ok tt else Err EUndefinedStatement None.
Proof.
  intros Htoks Hnth Hl. unfold an_goto_or_gosub, abind, lift.
  rewrite (next_token_eq (fst st) Hl).
  assert (Hc : cur_toks (fst st) = toks).
  { rewrite (cur_tokens_eq (fst st) Hl) in Htoks. cbn in Htoks. congruence. }
  rewrite Hc, Hnth. cbn [fst snd get].
  match goal with |- context [store_has ?n ?s'] => change (store_has n s') with (store_has n (fst st)) end.
  destruct (store_has _ (fst st)); reflexivity.
Qed.

(* the checker and the interpreter give the same verdict on a jump target —
   whatever else differs between the two states, as long as the store is the same *)
Theorem jump_targets_agree x toks st s :
  fst (cur_tokens (fst st)) = Ok toks ->
  nth_error toks (loc_idx (loc (fst st))) = Some (TNumber x) ->
  line_exists (fst st) (loc (fst st)) ->
  st_toks s = st_toks (fst st) ->
  let n := Z.to_N (f64_to_u64_sat x) in
  (fst (an_goto_or_gosub st) = Ok tt <-> fst (goto_line_number n s) = Ok tt)
  /\ (fst (an_goto_or_gosub st) = Err EUndefinedStatement None
      <-> fst (goto_line_number n s) = Err EUndefinedStatement None).
Proof.
  intros Htoks Hnth Hl Hst n.
  rewrite (an_jump_outcome x toks st Htoks Hnth Hl), goto_outcome. fold n.
  assert (E : store_has n s = store_has n (fst st)) by (unfold store_has; rewrite Hst; reflexivity).
  rewrite E. destruct (store_has n (fst st)); split; split; intros H; try discriminate; reflexivity.
Qed.

(* ------------------------------------------------------------------ *)
(* 3. kinds: what the checker demands of an assignment is what the
      interpreter enforces when it stores *)

Definition kind_of_value (v : value) : vtype := match v with VStr _ => TyString | VNum _ => TyNumber end.

Theorem store_kind_is_name_kind name v :
  type_matches name v = true <-> kind_of_value v = type_of_name name.
Proof.
  unfold type_matches, type_of_name, kind_of_value.
  destruct (ends_with_dollar name), v; split; intros H; try reflexivity; try discriminate.
Qed.

Theorem checker_assignment_rule lv t st :
  fst (an_assign lv t st) = Ok tt <-> t = type_of_name (alv_sym lv).
Proof.
  unfold an_assign, abind, log_access, check, aret, afail. cbn [fst snd].
  destruct (type_of_name (alv_sym lv)), t; cbn; split; intros H; try reflexivity; try discriminate.
Qed.

Theorem interpreter_assignment_rule name v s :
  fst (variables_set name v s) = Ok tt <-> kind_of_value v = type_of_name name.
Proof.
  rewrite <- store_kind_is_name_kind. unfold variables_set.
  destruct (type_matches name v); cbn; split; intros H; try reflexivity; try discriminate.
Qed.

(* comparison and logical results are numbers in both tools *)
Theorem comparison_results_are_numbers op a b s v s' :
  eval_eq op a b s = (Ok v, s') -> kind_of_value v = TyNumber.
Proof.
  unfold eval_eq. destruct a, b; cbn; intros H; inversion H; reflexivity.
Qed.

Theorem logical_results_are_numbers a b s :
  kind_of_value (match fst (eval_and a b s) with Ok v => v | _ => VNum f64_zero end) = TyNumber
  /\ kind_of_value (match fst (eval_or a b s) with Ok v => v | _ => VNum f64_zero end) = TyNumber.
Proof. split; reflexivity. Qed.
