(* Proofs/LexerRetok.v — C13: tokenizing the text of a token's range on its own
   yields exactly that one token.

   Every matcher of the tokenizer is PREFIX-STABLE: what it decides about a
   text it decides from the bytes it consumes, so the same decision is made on
   the text cut off right behind them; and a matcher that does not match a text
   does not match any prefix of it (the matchers are tried in a fixed order:
   the ones tried before the successful one must still fail on the slice).
   The delicate cases are the look-aheads: the keyword look-ahead inside
   identifiers (`FORI` is FOR I), the second character of `<=` `<>` `>=`
   behind blanks, blanks inside numbers, and the DATA item parser, which stops
   at a colon exactly as it stops at the end of the text. *)
From Coq Require Import List NArith ZArith Bool Lia.
From Abasic Require Import Model.Bytes Model.Num Model.Token Model.Data Model.Lexer Gen.Tables
     Proofs.LexerRanges.
Import ListNotations.
Local Open Scope nat_scope.

(* ------------------------------------------------------------------ *)
(* lists *)

Lemma firstn_S_cons {A} (x : A) l n : firstn (S n) (x :: l) = x :: firstn n l.
Proof. reflexivity. Qed.

Lemma firstn_firstn_le {A} (l : list A) a b : a <= b -> firstn a (firstn b l) = firstn a l.
Proof. intros H. rewrite firstn_firstn. f_equal. lia. Qed.

Lemma skipn_firstn_comm' {A} (l : list A) a b : skipn a (firstn (a + b) l) = firstn b (skipn a l).
Proof.
  revert l; induction a as [|a IH]; intros l; [reflexivity|].
  destruct l as [|x l]; [cbn; now rewrite firstn_nil|]. cbn [Nat.add firstn skipn]. apply IH.
Qed.

(* ------------------------------------------------------------------ *)
(* keywords *)

Lemma kw_from_none kw : forall s acc, chomp_keyword_from kw s acc = None ->
  forall m, chomp_keyword_from kw (firstn m s) acc = None.
Proof.
  induction kw as [|k kw IH]; intros s; [intros acc H; destruct s; cbn in H; discriminate|].
  induction s as [|b t IHt]; intros acc H m; [rewrite firstn_nil; reflexivity|].
  destruct m as [|m]; [reflexivity|]. cbn [firstn chomp_keyword_from] in *.
  destruct (is_basic_ws b); [apply IHt, H|].
  destruct (to_upper b =? k)%N; [apply IH, H | reflexivity].
Qed.

Lemma kw_from_some kw : forall s acc n, chomp_keyword_from kw s acc = Some n ->
  acc <= n /\ forall m, n - acc <= m -> chomp_keyword_from kw (firstn m s) acc = Some n.
Proof.
  induction kw as [|k kw IH]; intros s acc n H.
  - destruct s; cbn in H; inversion H; subst; (split; [lia|]); intros m _; destruct m; reflexivity.
  - revert acc H. induction s as [|b t IHt]; intros acc H; [discriminate|].
    cbn [chomp_keyword_from] in H.
    destruct (is_basic_ws b) eqn:Eb.
    + destruct (IHt (S acc) H) as [Hle Hm]. split; [lia|]. intros m Hmn.
      destruct m as [|m]; [lia|]. cbn [firstn chomp_keyword_from]. rewrite Eb. apply Hm. lia.
    + destruct (to_upper b =? k)%N eqn:Ek; [|discriminate].
      destruct (IH t (S acc) n H) as [Hle Hm]. split; [lia|]. intros m Hmn.
      destruct m as [|m]; [lia|]. cbn [firstn chomp_keyword_from]. rewrite Eb, Ek. apply Hm. lia.
Qed.

Lemma chomp_keyword_none kw s m : chomp_keyword kw s = None -> chomp_keyword kw (firstn m s) = None.
Proof. unfold chomp_keyword. destruct kw; [reflexivity|]. intros H. apply kw_from_none, H. Qed.

Lemma chomp_keyword_some kw s n m : chomp_keyword kw s = Some n -> n <= m ->
  chomp_keyword kw (firstn m s) = Some n.
Proof.
  unfold chomp_keyword. destruct kw; [discriminate|]. intros H Hm.
  destruct (kw_from_some _ _ _ _ H) as [_ Hs]. apply Hs. lia.
Qed.

Lemma first_keyword_none tbl s m : first_keyword tbl s = None -> first_keyword tbl (firstn m s) = None.
Proof.
  induction tbl as [|[kw t] tbl IH]; [reflexivity|]. cbn [first_keyword].
  destruct (chomp_keyword kw s) eqn:E; [discriminate|]. intros H.
  rewrite (chomp_keyword_none kw s m E). apply IH, H.
Qed.

Lemma first_keyword_some tbl s t n m : first_keyword tbl s = Some (t, n) -> n <= m ->
  first_keyword tbl (firstn m s) = Some (t, n).
Proof.
  induction tbl as [|[kw t0] tbl IH]; [discriminate|]. cbn [first_keyword].
  destruct (chomp_keyword kw s) as [k|] eqn:E.
  - intros H Hm. inversion H; subst. rewrite (chomp_keyword_some kw s n m E Hm). reflexivity.
  - intros H Hm. rewrite (chomp_keyword_none kw s m E). apply IH; assumption.
Qed.

Lemma any_keyword_none s m : chomp_any_keyword s = None -> chomp_any_keyword (firstn m s) = None.
Proof. apply first_keyword_none. Qed.

Lemma any_keyword_some s t n m : chomp_any_keyword s = Some (t, n) -> n <= m ->
  chomp_any_keyword (firstn m s) = Some (t, n).
Proof. apply first_keyword_some. Qed.

(* ------------------------------------------------------------------ *)
(* one- and two-character operators *)

Lemma crunch_next_some s : forall b n, crunch_next s = Some (b, n) ->
  1 <= n /\ forall m, n <= m -> crunch_next (firstn m s) = Some (b, n).
Proof.
  induction s as [|c t IH]; intros b n H; [discriminate|]. cbn [crunch_next] in H.
  destruct (is_basic_ws c) eqn:Ec.
  - destruct (crunch_next t) as [[b' n']|] eqn:E; [|discriminate]. inversion H; subst.
    destruct (IH b n' eq_refl) as [H1 H2]. split; [lia|]. intros m Hm. destruct m as [|m]; [lia|].
    cbn [firstn crunch_next]. rewrite Ec, (H2 m) by lia. reflexivity.
  - inversion H; subst. split; [lia|]. intros m Hm. destruct m as [|m]; [lia|].
    cbn [firstn crunch_next]. rewrite Ec. reflexivity.
Qed.

Lemma crunch_next_none_short s : forall b n m, crunch_next s = Some (b, n) -> m < n -> crunch_next (firstn m s) = None.
Proof.
  induction s as [|c t IH]; intros b n m H Hm; [discriminate|]. cbn [crunch_next] in H.
  destruct m as [|m]; [reflexivity|]. cbn [firstn crunch_next].
  destruct (is_basic_ws c) eqn:Ec.
  - destruct (crunch_next t) as [[b' n']|] eqn:E; [|discriminate]. inversion H; subst.
    rewrite (IH b n' m eq_refl) by lia. reflexivity.
  - inversion H; subst. lia.
Qed.

Lemma crunch_next_none s m : crunch_next s = None -> crunch_next (firstn m s) = None.
Proof.
  revert m; induction s as [|c t IH]; intros m H; [rewrite firstn_nil; reflexivity|].
  cbn [crunch_next] in H. destruct m as [|m]; [reflexivity|]. cbn [firstn crunch_next].
  destruct (is_basic_ws c); [|discriminate].
  destruct (crunch_next t) as [[b n]|] eqn:E; [discriminate|]. rewrite (IH m eq_refl). reflexivity.
Qed.

Lemma one_or_two_some s t n : chomp_one_or_two s = Some (t, n) ->
  chomp_one_or_two (firstn n s) = Some (t, n).
Proof.
  unfold chomp_one_or_two.
  destruct (crunch_next s) as [[b k]|] eqn:E1; [|discriminate].
  destruct (crunch_next_some s b k E1) as [Hk Hpre].
  destruct (lookup_punct punct b) as [t1|] eqn:E2; [|discriminate].
  destruct (crunch_next (skipn k s)) as [[c m]|] eqn:E3.
  - destruct (crunch_next_some _ c m E3) as [Hm Hpre2].
    destruct (lookup_two two_char t1 c) as [t2|] eqn:E4; intros H; injection H as <- <-.
    + rewrite (Hpre (k + m)) by lia. rewrite E2.
      rewrite skipn_firstn_comm', (Hpre2 m (le_n _)), E4. reflexivity.
    + rewrite (Hpre k (le_n _)), E2.
      replace (skipn k (firstn k s)) with (@nil N); [reflexivity|].
      replace k with (k + 0) at 2 by lia. rewrite skipn_firstn_comm'. reflexivity.
  - intros H; injection H as <- <-. rewrite (Hpre k (le_n _)), E2.
    replace (skipn k (firstn k s)) with (@nil N); [reflexivity|].
    replace k with (k + 0) at 2 by lia. rewrite skipn_firstn_comm'. reflexivity.
Qed.

Lemma one_or_two_none s m : chomp_one_or_two s = None -> chomp_one_or_two (firstn m s) = None.
Proof.
  unfold chomp_one_or_two.
  destruct (crunch_next s) as [[b k]|] eqn:E1.
  - destruct (lookup_punct punct b) as [t1|] eqn:E2.
    + destruct (crunch_next (skipn k s)) as [[c j]|]; [destruct (lookup_two two_char t1 c)|]; discriminate.
    + intros _. destruct (Nat.le_gt_cases k m) as [Hle|Hgt].
      * destruct (crunch_next_some s b k E1) as [_ Hpre]. rewrite (Hpre m Hle), E2. reflexivity.
      * rewrite (crunch_next_none_short s b k m E1 Hgt). reflexivity.
  - intros _. rewrite (crunch_next_none s m E1). reflexivity.
Qed.

(* ------------------------------------------------------------------ *)
(* strings *)

Lemma find_quote_prefix s : forall k, find_quote s = Some k -> find_quote (firstn (S k) s) = Some k.
Proof.
  induction s as [|b t IH]; intros k H; [discriminate|]. cbn [find_quote] in H.
  cbn [firstn find_quote]. destruct (b =? 34)%N; [exact H|].
  destruct (find_quote t) as [n|] eqn:E; [|discriminate]. inversion H; subst.
  rewrite (IH n eq_refl). reflexivity.
Qed.

Lemma chomp_string_some pos s t n : chomp_string pos s = Match t n -> forall pos', chomp_string pos' (firstn n s) = Match t n.
Proof.
  rewrite chomp_string_eq. destruct s as [|b r]; [discriminate|].
  destruct (b =? 34)%N eqn:Eb; [|discriminate].
  destruct (find_quote r) as [k|] eqn:E; [|discriminate]. intros H pos'. injection H as <- <-.
  rewrite chomp_string_eq. replace (k + 2) with (S (S k)) by lia. rewrite firstn_S_cons, Eb.
  rewrite (find_quote_prefix r k E), firstn_firstn_le by lia. replace (S (S k)) with (k + 2) by lia. reflexivity.
Qed.

Lemma chomp_string_nomatch pos s m : chomp_string pos s = NoMatch -> forall pos', chomp_string pos' (firstn m s) = NoMatch.
Proof.
  rewrite chomp_string_eq. intros H pos'. rewrite chomp_string_eq.
  destruct s as [|b r]; [rewrite firstn_nil; reflexivity|].
  destruct m as [|m]; [reflexivity|]. rewrite firstn_S_cons.
  destruct (b =? 34)%N; [destruct (find_quote r); discriminate | reflexivity].
Qed.

(* ------------------------------------------------------------------ *)
(* numbers *)

Lemma number_span_last_le s : forall k d last d' n, number_span s k d last = (d', n) -> last <= k -> last <= n.
Proof.
  induction s as [|b t IH]; intros k d last d' n H Hk; cbn [number_span] in H; [inversion H; lia|].
  destruct (is_basic_ws b); [apply (IH _ _ _ _ _ H); lia|].
  destruct (is_digit b || (b =? 46)%N); [|inversion H; lia].
  pose proof (IH _ _ _ _ _ H (le_n _)). lia.
Qed.

Lemma number_span_nodigit t : forall k d last d', last <= k -> number_span t k d last = (d', last) -> d' = d.
Proof.
  induction t as [|c t IH]; intros k d last d' Hk H; cbn [number_span] in H; [inversion H; reflexivity|].
  destruct (is_basic_ws c); [apply (IH (S k) d last d'); [lia | exact H]|].
  destruct (is_digit c || (c =? 46)%N); [|inversion H; reflexivity].
  pose proof (number_span_last_le _ _ _ _ _ _ H (le_n _)). lia.
Qed.

Lemma number_span_prefix s : forall k d last d' n, number_span s k d last = (d', n) -> last <= k ->
  number_span (firstn (n - k) s) k d last = (d', n).
Proof.
  induction s as [|b t IH]; intros k d last d' n H Hk; [rewrite firstn_nil; exact H|].
  cbn [number_span] in H.
  destruct (n - k) as [|j] eqn:Ej.
  - (* nothing more is consumed: no digit follows *)
    cbn [firstn number_span].
    destruct (is_basic_ws b).
    + pose proof (number_span_spec t (S k) d last d' n H) as [->|(m & c & -> & _)]; [|lia].
      rewrite (number_span_nodigit t (S k) d last d' ltac:(lia) H). reflexivity.
    + destruct (is_digit b || (b =? 46)%N); [|exact H].
      pose proof (number_span_last_le _ _ _ _ _ _ H (le_n _)). lia.
  - cbn [firstn number_span].
    destruct (is_basic_ws b).
    + replace j with (n - S k) by lia. apply IH; [exact H | lia].
    + destruct (is_digit b || (b =? 46)%N).
      * replace j with (n - S k) by lia. apply IH; [exact H | lia].
      * inversion H; subst. lia.
Qed.

Lemma number_span_zero_prefix s m : forall k d d', number_span s k d 0 = (d', 0) -> 1 <= k \/ True ->
  snd (number_span (firstn m s) k d 0) = 0.
Proof.
  revert m; induction s as [|b t IH]; intros m k d d' H _; [rewrite firstn_nil; reflexivity|].
  destruct m as [|m]; [reflexivity|]. cbn [firstn number_span] in *.
  destruct (is_basic_ws b); [apply (IH m _ _ _ H); right; exact I|].
  destruct (is_digit b || (b =? 46)%N); [|reflexivity].
  pose proof (number_span_last_le _ _ _ _ _ _ H (le_n _)). lia.
Qed.

Lemma chomp_number_some pos s t n : chomp_number pos s = Match t n -> forall pos', chomp_number pos' (firstn n s) = Match t n.
Proof.
  unfold chomp_number. destruct (number_span s 0 [] 0) as [digits k] eqn:E.
  destruct k as [|k]; [discriminate|].
  pose proof (number_span_prefix s 0 [] 0 digits (S k) E (le_n _)) as Hp. rewrite Nat.sub_0_r in Hp.
  intros H pos'.
  assert (Hn : n = S k).
  { destruct (parse_f64 digits) as [x|]; [destruct (f64_is_finite x)|]; inversion H; reflexivity. }
  subst n. rewrite Hp.
  destruct (parse_f64 digits) as [x|]; [|discriminate].
  destruct (f64_is_finite x); [exact H | discriminate].
Qed.

Lemma chomp_number_nomatch pos s m : chomp_number pos s = NoMatch -> forall pos', chomp_number pos' (firstn m s) = NoMatch.
Proof.
  unfold chomp_number. destruct (number_span s 0 [] 0) as [digits k] eqn:E.
  destruct k as [|k].
  - intros _ pos'. pose proof (number_span_zero_prefix s m 0 [] digits E (or_intror I)) as Hz.
    destruct (number_span (firstn m s) 0 [] 0) as [d2 k2]. cbn [snd] in Hz. subst k2. reflexivity.
  - destruct (parse_f64 digits) as [x|]; [destruct (f64_is_finite x)|]; discriminate.
Qed.

(* ------------------------------------------------------------------ *)
(* identifiers *)

Lemma first_keyword_nil tbl : first_keyword tbl [] = None.
Proof.
  induction tbl as [|[kw t] tbl IH]; [reflexivity|]. cbn [first_keyword].
  destruct kw; cbn; exact IH.
Qed.

Lemma symbol_span_prefix s : forall chars consumed pending c' n,
  symbol_span s chars consumed pending = (c', n) ->
  symbol_span (firstn (n - consumed - pending) s) chars consumed pending = (c', n).
Proof.
  induction s as [|b t IH]; intros chars consumed pending c' n H; [rewrite firstn_nil; exact H|].
  pose proof (symbol_span_spec _ _ _ _ _ _ H) as Hspec.
  cbn [symbol_span] in H.
  destruct (n - consumed - pending) as [|j] eqn:Ej.
  - (* nothing more is consumed *)
    cbn [firstn symbol_span].
    destruct Hspec as [[-> ->]|(_ & m & c & -> & _)]; [reflexivity | lia].
  - cbn [firstn symbol_span].
    destruct (is_basic_ws b).
    + replace j with (n - consumed - S pending) by lia. apply IH, H.
    + destruct (negb _) eqn:Ev; [inversion H; subst; lia|].
      destruct (b =? 36)%N.
      * inversion H; subst. reflexivity.
      * destruct (chomp_any_keyword t) as [[kt kn]|] eqn:Ek.
        -- inversion H; subst. replace j with 0 by lia. cbn [firstn].
           unfold chomp_any_keyword. rewrite first_keyword_nil. reflexivity.
        -- rewrite (any_keyword_none t j Ek).
           pose proof (symbol_span_spec _ _ _ _ _ _ H) as [[-> ->]|(_ & m & c & -> & _)].
           ++ replace j with 0 by lia. reflexivity.
           ++ replace j with (consumed + pending + 1 + 0 + S m - (consumed + pending + 1) - 0) by lia.
              apply IH. exact H.
Qed.

Lemma chomp_symbol_some s t n : chomp_symbol s = Match t n -> chomp_symbol (firstn n s) = Match t n.
Proof.
  unfold chomp_symbol. destruct (symbol_span s [] 0 0) as [chars k] eqn:E.
  pose proof (symbol_span_prefix s [] 0 0 chars k E) as Hp. rewrite !Nat.sub_0_r in Hp.
  destruct chars as [|x chars]; [discriminate|]. intros H. injection H as <- <-. rewrite Hp. reflexivity.
Qed.

(* ------------------------------------------------------------------ *)
(* DATA *)

Lemma utf8_chars_fuel_irrelevant : forall f1 f2 s, length s <= f1 -> length s <= f2 ->
  utf8_chars_fuel f1 s = utf8_chars_fuel f2 s.
Proof.
  induction f1 as [|f1 IH]; intros f2 s H1 H2.
  - destruct s; [destruct f2; reflexivity | cbn in H1; lia].
  - destruct f2 as [|f2]; [destruct s; [reflexivity | cbn in H2; lia]|].
    destruct s as [|b0 r]; [reflexivity|]. cbn [utf8_chars_fuel]. f_equal.
    pose proof (utf8_len_pos b0) as Hl.
    apply IH; rewrite skipn_length; cbn [length] in *; lia.
Qed.

Lemma utf8_chars_cons b0 r :
  utf8_chars (b0 :: r) = firstn (utf8_len b0) (b0 :: r) :: utf8_chars (skipn (utf8_len b0) (b0 :: r)).
Proof.
  unfold utf8_chars. cbn [length utf8_chars_fuel]. f_equal.
  apply utf8_chars_fuel_irrelevant; [|apply le_n].
  pose proof (utf8_len_pos b0). rewrite skipn_length. cbn [length]. lia.
Qed.

Lemma utf8_chars_prefix : forall cs1 s cs2, utf8_chars s = cs1 ++ cs2 -> cs2 <> [] ->
  utf8_chars (firstn (length (concat cs1)) s) = cs1.
Proof.
  induction cs1 as [|c1 cs1 IH]; intros s cs2 H Hne; [reflexivity|].
  destruct s as [|b0 r]; [discriminate|].
  rewrite utf8_chars_cons in H. cbn [app] in H. injection H as Hc Hrest.
  set (n := utf8_len b0) in *.
  assert (Hn : n < length (b0 :: r)).
  { destruct (Nat.lt_ge_cases n (length (b0 :: r))) as [Hlt|Hge]; [exact Hlt|].
    rewrite skipn_all2 in Hrest by exact Hge. destruct cs1; [destruct cs2; [congruence | discriminate] | discriminate]. }
  assert (Hlc : length c1 = n) by (rewrite <- Hc, firstn_length; lia).
  cbn [concat]. rewrite app_length, Hlc.
  assert (Hfirst : firstn (n + length (concat cs1)) (b0 :: r) = b0 :: firstn (n + length (concat cs1) - 1) r).
  { pose proof (utf8_len_pos b0). fold n in H. destruct n as [|n']; [lia|]. cbn [Nat.add firstn]. f_equal. f_equal. lia. }
  rewrite Hfirst, utf8_chars_cons. fold n. rewrite <- Hfirst.
  rewrite firstn_firstn_le by lia. rewrite Hc. f_equal.
  rewrite skipn_firstn_comm'. apply (IH _ cs2); assumption.
Qed.

Lemma dp_run_prefix' cs : forall quoted cur elems n r m,
  dp_run cs quoted cur elems n = (r, m) ->
  exists cs1 cs2, cs = cs1 ++ cs2 /\ m = n + length (concat cs1) /\ dp_run cs1 quoted cur elems n = (r, m).
Proof.
  induction cs as [|c cs IH]; intros quoted cur elems n r m; cbn [dp_run].
  - intros H. exists [], []. cbn. inversion H; subst. repeat split; lia.
  - assert (Stop : (dp_finish false cur elems, n) = (r, m) -> quoted = false ->
                   exists cs1 cs2, c :: cs = cs1 ++ cs2 /\ m = n + length (concat cs1)
                                   /\ dp_run cs1 quoted cur elems n = (r, m)).
    { intros H ->. inversion H; subst. exists [], (c :: cs). cbn. repeat split; lia. }
    destruct quoted.
    + destruct (char_is c 34) eqn:E1; intros H; apply IH in H; destruct H as (cs1 & cs2 & -> & -> & H);
        exists (c :: cs1), cs2; cbn [concat app dp_run]; rewrite app_length, E1; (split; [reflexivity|]); (split; [lia | exact H]).
    + destruct (char_is c 58) eqn:E0; [intros H; apply Stop; [exact H | reflexivity]|].
      destruct (char_is c 44) eqn:E1.
      * destruct (all_ws cur) eqn:E2; intros H; apply IH in H; destruct H as (cs1 & cs2 & -> & -> & H);
          exists (c :: cs1), cs2; cbn [concat app dp_run]; rewrite app_length, E0, E1, E2; (split; [reflexivity|]); (split; [lia | exact H]).
      * destruct (char_is c 34) eqn:E3.
        -- destruct (all_ws cur) eqn:E2; intros H; apply IH in H; destruct H as (cs1 & cs2 & -> & -> & H);
             exists (c :: cs1), cs2; cbn [concat app dp_run]; rewrite app_length, E0, E1, E3, E2; (split; [reflexivity|]); (split; [lia | exact H]).
        -- intros H; apply IH in H; destruct H as (cs1 & cs2 & -> & -> & H);
             exists (c :: cs1), cs2; cbn [concat app dp_run]; rewrite app_length, E0, E1, E3; (split; [reflexivity|]); (split; [lia | exact H]).
Qed.

Lemma parse_data_prefix s elems m : parse_data s = (elems, m) -> parse_data (firstn m s) = (elems, m).
Proof.
  unfold parse_data. intros H. destruct (dp_run_prefix' _ _ _ _ _ _ _ H) as (cs1 & cs2 & Ecs & Hm & Hrun).
  cbn [Nat.add] in Hm. subst m.
  destruct cs2 as [|c2 cs2].
  - rewrite app_nil_r in Ecs.
    assert (Hall : firstn (length (concat cs1)) s = s).
    { rewrite <- Ecs, utf8_chars_concat. apply firstn_all. }
    rewrite Hall, Ecs. exact Hrun.
  - rewrite (utf8_chars_prefix cs1 s (c2 :: cs2) Ecs ltac:(discriminate)). exact Hrun.
Qed.

Lemma chomp_data_some s t n : chomp_data s = Match t n -> chomp_data (firstn n s) = Match t n.
Proof.
  unfold chomp_data. destruct (chomp_keyword data_keyword s) as [k|] eqn:Ek; [|discriminate].
  destruct (parse_data (skipn k s)) as [elems m] eqn:Ep. intros H. injection H as <- <-.
  rewrite (chomp_keyword_some _ _ _ (k + m) Ek) by lia.
  rewrite skipn_firstn_comm', (parse_data_prefix _ _ _ Ep). reflexivity.
Qed.

Lemma chomp_data_nomatch s m : chomp_data s = NoMatch -> chomp_data (firstn m s) = NoMatch.
Proof.
  unfold chomp_data. destruct (chomp_keyword data_keyword s) as [k|] eqn:Ek.
  - destruct (parse_data (skipn k s)); discriminate.
  - intros _. rewrite (chomp_keyword_none _ _ m Ek). reflexivity.
Qed.

(* REM *)
Lemma chomp_remark_some s t n : chomp_remark s = Match t n -> chomp_remark (firstn n s) = Match t n.
Proof.
  unfold chomp_remark. destruct (chomp_keyword rem_keyword s) as [k|] eqn:Ek; [|discriminate].
  intros H. injection H as <- <-.
  assert (Hk : k <= length s).
  { apply chomp_keyword_spec in Ek; [|apply tables_ok]. apply ends_nb_bounds in Ek. lia. }
  assert (Hall : k + length (skipn k s) = length s) by (rewrite skipn_length; lia).
  rewrite firstn_all2 by lia. rewrite Ek. reflexivity.
Qed.

Lemma chomp_remark_nomatch s m : chomp_remark s = NoMatch -> chomp_remark (firstn m s) = NoMatch.
Proof.
  unfold chomp_remark. destruct (chomp_keyword rem_keyword s) as [k|] eqn:Ek; [discriminate|].
  intros _. rewrite (chomp_keyword_none _ _ m Ek). reflexivity.
Qed.

(* ------------------------------------------------------------------ *)
(* the token matcher, and the tokenizer on a slice *)

Theorem chomp_next_token_prefix pos s t n :
  chomp_next_token pos s = Match t n -> forall pos', chomp_next_token pos' (firstn n s) = Match t n.
Proof.
  unfold chomp_next_token. intros H pos'.
  destruct (chomp_any_keyword s) as [[kt kn]|] eqn:E1.
  { injection H as <- <-. rewrite (any_keyword_some s kt kn kn E1 (le_n _)). reflexivity. }
  rewrite (any_keyword_none s n E1).
  destruct (chomp_one_or_two s) as [[ot on]|] eqn:E2.
  { injection H as <- <-. rewrite (one_or_two_some s ot on E2). reflexivity. }
  rewrite (one_or_two_none s n E2).
  destruct (chomp_string pos s) as [|st sn|se] eqn:E3; [|injection H as <- <-; rewrite (chomp_string_some pos s st sn E3 pos'); reflexivity|discriminate].
  rewrite (chomp_string_nomatch pos s n E3 pos').
  destruct (chomp_number pos s) as [|nt nn|ne] eqn:E4; [|injection H as <- <-; rewrite (chomp_number_some pos s nt nn E4 pos'); reflexivity|discriminate].
  rewrite (chomp_number_nomatch pos s n E4 pos').
  destruct (chomp_remark s) as [|rt rn|re] eqn:E5; [|injection H as <- <-; rewrite (chomp_remark_some s rt rn E5); reflexivity|discriminate].
  rewrite (chomp_remark_nomatch s n E5).
  destruct (chomp_data s) as [|dt dn|de] eqn:E6; [|injection H as <- <-; rewrite (chomp_data_some s dt dn E6); reflexivity|discriminate].
  rewrite (chomp_data_nomatch s n E6).
  destruct (chomp_symbol s) as [|yt yn|ye] eqn:E7; [discriminate|injection H as <- <-; rewrite (chomp_symbol_some s yt yn E7); reflexivity|discriminate].
Qed.

Lemma chomp_string_pos pos pos' s :
  match chomp_string pos s with Fail _ => True | r => chomp_string pos' s = r end.
Proof.
  rewrite !chomp_string_eq. destruct s as [|b r]; [reflexivity|].
  destruct (b =? 34)%N; [destruct (find_quote r); [reflexivity | exact I] | reflexivity].
Qed.

Lemma chomp_number_pos pos pos' s :
  match chomp_number pos s with Fail _ => True | r => chomp_number pos' s = r end.
Proof.
  unfold chomp_number. destruct (number_span s 0 [] 0) as [dg [|k]]; [reflexivity|].
  destruct (parse_f64 dg) as [x|]; [destruct (f64_is_finite x); [reflexivity | exact I] | exact I].
Qed.

(* the position a matcher is told only labels its failures *)
Lemma chomp_next_token_pos pos pos' s t n :
  chomp_next_token pos s = Match t n -> chomp_next_token pos' s = Match t n.
Proof.
  unfold chomp_next_token.
  destruct (chomp_any_keyword s) as [[kt kn]|]; [auto|].
  destruct (chomp_one_or_two s) as [[ot on]|]; [auto|].
  pose proof (chomp_string_pos pos pos' s) as H3.
  destruct (chomp_string pos s) as [|st sn|se]; [rewrite H3|rewrite H3; auto|discriminate].
  pose proof (chomp_number_pos pos pos' s) as H4.
  destruct (chomp_number pos s) as [|nt nn|ne]; [rewrite H4|rewrite H4; auto|discriminate].
  destruct (chomp_remark s); auto. destruct (chomp_data s); auto. destruct (chomp_symbol s); auto. discriminate.
Qed.

Lemma tok_from_nil fuel pos : tok_from fuel pos [] = TokOk [].
Proof. destruct fuel; reflexivity. Qed.

(* a slice that is exactly one match tokenizes to that one token *)
Lemma tokenize_slice s t n c r :
  s = c :: r -> is_basic_ws c = false -> 1 <= n <= length s ->
  chomp_next_token 0 s = Match t n ->
  tokenize (firstn n s) 0 = TokOk [(t, (0, n))].
Proof.
  intros Es Hc Hn Hm.
  pose proof (chomp_next_token_prefix 0 s t n Hm 0) as Hp.
  set (sl := firstn n s) in *.
  assert (Esl : sl = c :: firstn (n - 1) r).
  { unfold sl. rewrite Es. destruct n as [|n]; [lia|]. rewrite firstn_S_cons. f_equal. f_equal. lia. }
  assert (Hlw : leading_ws sl = 0) by (rewrite Esl; cbn [leading_ws]; rewrite Hc; reflexivity).
  assert (Hnil : skipn n sl = []) by (apply skipn_all2; unfold sl; rewrite firstn_length; lia).
  rewrite tokenize_tok_from. cbn [skipn tok_from]. rewrite Hlw. cbn [skipn Nat.add].
  destruct sl as [|c0 r0] eqn:Esl'; [discriminate|]. rewrite Hp, Hnil, tok_from_nil. reflexivity.
Qed.

(* every token of a tokenized line, re-tokenized on its own *)
Section Retok.
Variable line : bytes.

Fixpoint retoks (ts : list ranged) : Prop :=
  match ts with
  | [] => True
  | (t, (a, b)) :: ts' => tokenize (firstn (b - a) (skipn a line)) 0 = TokOk [(t, (0, b - a))] /\ retoks ts'
  end.

Lemma retoks_app l1 l2 : retoks l1 -> retoks l2 -> retoks (l1 ++ l2).
Proof. induction l1 as [|[t [a b]] l1 IH]; cbn [app retoks]; [auto | intros [H1 H2] H3; split; auto]. Qed.

Lemma tok_from_retoks : forall fuel pos,
  pos <= length line ->
  match tok_from fuel pos (skipn pos line) with
  | TokOk ts => retoks ts
  | TokErr ts _ => retoks ts
  end.
Proof.
  induction fuel as [|fuel IH]; intros pos Hpos; cbn [tok_from]; [exact I|].
  set (w := leading_ws (skipn pos line)).
  assert (Hw : pos + w <= length line).
  { pose proof (leading_ws_le (skipn pos line)) as H. rewrite skipn_length in H. fold w in H. lia. }
  rewrite skipn_skipn'.
  destruct (skipn (pos + w) line) as [|c r] eqn:Es; [exact I|].
  assert (Hc : is_basic_ws c = false).
  { apply (leading_ws_head (skipn pos line) c r). fold w. rewrite skipn_skipn'. exact Es. }
  rewrite <- Es.
  pose proof (chomp_next_token_spec (pos + w) (skipn (pos + w) line)) as Hs.
  destruct (chomp_next_token (pos + w) (skipn (pos + w) line)) as [|t n|e] eqn:Em; [exact I| |exact I].
  destruct Hs as [Hn _]. pose proof Hn as Hn'. rewrite skipn_length in Hn'.
  rewrite skipn_skipn'. specialize (IH (pos + w + n) ltac:(lia)).
  assert (Hone : tokenize (firstn (pos + w + n - (pos + w)) (skipn (pos + w) line)) 0
                 = TokOk [(t, (0, pos + w + n - (pos + w)))]).
  { replace (pos + w + n - (pos + w)) with n by lia.
    apply (tokenize_slice _ t n c r Es Hc Hn).
    apply (chomp_next_token_pos (pos + w) 0 _ t n Em). }
  destruct (tok_from fuel (pos + w + n) (skipn (pos + w + n) line)) as [ts|ts e]; cbn [prepend app retoks];
    (split; [exact Hone | exact IH]).
Qed.

Theorem tokenize_retok skip : skip <= length line ->
  match tokenize line skip with
  | TokOk ts => retoks ts
  | TokErr ts _ => retoks ts
  end.
Proof. intros H. rewrite tokenize_tok_from. apply tok_from_retoks, H. Qed.
End Retok.

Definition slice (line : bytes) (a b : nat) : bytes := firstn (b - a) (skipn a line).

Lemma retoks_Forall line ts : retoks line ts ->
  Forall (fun r => tokenize (slice line (fst (snd r)) (snd (snd r))) 0
                   = TokOk [(fst r, (0, snd (snd r) - fst (snd r)))]) ts.
Proof.
  induction ts as [|[t [a b]] ts IH]; cbn [retoks]; [constructor|].
  intros [H1 H2]. constructor; [exact H1 | apply IH, H2].
Qed.

Theorem retok_ok line skip ts : skip <= length line -> tokenize line skip = TokOk ts ->
  Forall (fun r => tokenize (slice line (fst (snd r)) (snd (snd r))) 0
                   = TokOk [(fst r, (0, snd (snd r) - fst (snd r)))]) ts.
Proof. intros Hs H. pose proof (tokenize_retok line skip Hs) as Hr. rewrite H in Hr. apply retoks_Forall, Hr. Qed.

Theorem retok_err line skip ts e : skip <= length line -> tokenize line skip = TokErr ts e ->
  Forall (fun r => tokenize (slice line (fst (snd r)) (snd (snd r))) 0
                   = TokOk [(fst r, (0, snd (snd r) - fst (snd r)))]) ts.
Proof. intros Hs H. pose proof (tokenize_retok line skip Hs) as Hr. rewrite H in Hr. apply retoks_Forall, Hr. Qed.
