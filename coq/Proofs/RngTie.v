(* Proofs/RngTie.v — C18: the methods of `impl Rng` as TRANSLATED from
   random.rs on this run (Gen/RandomRs.v) are the model's rng_new / lcg /
   latest_random / rng_rnd, and their checked u64 arithmetic never panics on a
   reachable generator state.  So the C18 theorems, stated over the model, are
   re-checked against the text of random.rs on every run. *)
From Coq Require Import List NArith ZArith Bool String Lia.
From Abasic Require Import Model.Bytes Model.Num Model.RustInt Model.Token Model.Data Model.Lexer Gen.Tables Gen.RandomRs
     Model.State Model.Eval Model.Interp Proofs.RngProofs.
Import ListNotations.
Open Scope N_scope.

Lemma u64_chk_lt : forall x, x < U64_LIMIT -> u64_chk x = Some x.
Proof. intros x H. unfold u64_chk. apply N.ltb_lt in H. rewrite H. reflexivity. Qed.

Lemma U64_LIMIT_value : U64_LIMIT = 2 ^ 64.
Proof. reflexivity. Qed.

Lemma MODULUS_u64 : MODULUS < U64_LIMIT.
Proof. vm_compute. reflexivity. Qed.

(* Rng::new never panics, whatever the seed, and is the model's rng_new *)
Theorem rs_new_is_model : forall seed, rs_new seed = Some (rng_new seed).
Proof.
  intros seed. unfold rs_new, u64_rem, rng_new.
  destruct (MODULUS =? 0) eqn:E; [apply N.eqb_eq in E; exfalso; exact (MODULUS_pos E)|reflexivity].
Qed.

Theorem rs_latest_is_model : forall s, rs_latest_random s = latest_random s.
Proof. reflexivity. Qed.

(* Rng::random on a reduced state: no overflow, the LCG step, the quotient *)
Theorem rs_random_is_model : forall s, s < MODULUS ->
  rs_random s = Some (lcg s, latest_random (lcg s)).
Proof.
  intros s H. unfold rs_random.
  assert (E : u64_rem (u64_add (u64_mul (Some MULTIPLIER) (Some s)) (Some INCREMENT)) (Some MODULUS) = Some (lcg s)).
  { pose proof (lcg_no_u64_overflow s H) as Hov. rewrite <- U64_LIMIT_value in Hov.
    cbn [u64_mul]. rewrite u64_chk_lt by (eapply N.le_lt_trans; [|exact Hov]; lia).
    cbn [u64_add]. rewrite u64_chk_lt by exact Hov.
    unfold u64_rem, lcg.
    destruct (MODULUS =? 0) eqn:E0; [apply N.eqb_eq in E0; exfalso; exact (MODULUS_pos E0)|reflexivity]. }
  rewrite E. rewrite rs_latest_is_model. reflexivity.
Qed.

(* the result of one translated call, read as the model's result *)
Definition rs_to_res (r : rs_result) : res f64 :=
  match r with
  | RsPanic => Panic PCellIndex
  | RsErr _ => Err EUnimplemented None
  | RsOk _ v => Ok v
  end.

Definition rs_field (old : N) (r : rs_result) : N :=
  match r with RsOk s' _ => s' | _ => old end.

(* Rng::rnd on a reduced state: never a panic, the only error is the one the
   model reports, value and new generator state are the model's *)
Theorem rs_rnd_is_model : forall x st, rng st < MODULUS ->
  rs_rnd x (rng st) <> RsPanic /\
  (forall e, rs_rnd x (rng st) = RsErr e -> e = "Unimplemented"%string) /\
  fst (rng_rnd x st) = rs_to_res (rs_rnd x (rng st)) /\
  rng (snd (rng_rnd x st)) = rs_field (rng st) (rs_rnd x (rng st)) /\
  rs_field (rng st) (rs_rnd x (rng st)) < MODULUS.
Proof.
  intros x st H. rewrite rng_rnd_spec. unfold rs_rnd.
  destruct (f64_ltb x f64_zero).
  { repeat split; try discriminate; try assumption. intros e He; injection He as <-; reflexivity. }
  destruct (f64_eqb x f64_zero).
  { repeat split; try discriminate; try assumption. }
  rewrite (rs_random_is_model _ H).
  repeat split; try discriminate. cbn [rs_field]. apply lcg_range.
Qed.

(* a whole session of the translated code: seed it, then call rnd on the
   successive arguments *)
Fixpoint rs_calls (field : N) (args : list f64) : list rs_result :=
  match args with
  | [] => []
  | x :: r => let o := rs_rnd x field in o :: rs_calls (rs_field field o) r
  end.

Definition rs_session (seed : N) (args : list f64) : option (list rs_result) :=
  match rs_new seed with
  | Some s => Some (rs_calls s args)
  | None => None
  end.

Lemma rs_calls_pure : forall args s, s < MODULUS ->
  map rs_to_res (rs_calls s args) = rnd_pure s args /\ ~ In RsPanic (rs_calls s args).
Proof.
  induction args as [|x r IH]; intros s H; [split; [reflexivity|intros []]|].
  cbn [rs_calls rnd_pure map]. unfold rs_rnd.
  destruct (f64_ltb x f64_zero).
  { cbn [rs_field rs_to_res]. destruct (IH s H) as [E N]. rewrite E. split; [reflexivity|].
    intros [D|D]; [discriminate|exact (N D)]. }
  destruct (f64_eqb x f64_zero).
  { cbn [rs_field rs_to_res]. destruct (IH s H) as [E N]. rewrite E. split; [reflexivity|].
    intros [D|D]; [discriminate|exact (N D)]. }
  rewrite (rs_random_is_model _ H). cbn [rs_field rs_to_res].
  destruct (IH (lcg s) (lcg_range s)) as [E N]. rewrite E. split; [reflexivity|].
  intros [D|D]; [discriminate|exact (N D)].
Qed.

(* every session of the translated code, for every seed (any N, so any u64)
   and every argument list: no arithmetic panic anywhere, and the results are
   the model's sequence — the one C18's theorems speak about, and the one a
   program observes after `randomize seed` whatever the rest of the state *)
Theorem rs_session_is_model : forall seed args,
  exists outs, rs_session seed args = Some outs /\ ~ In RsPanic outs /\
               map rs_to_res outs = rnd_seq seed args /\
               forall st0, map rs_to_res outs = rnd_seq_from st0 seed args.
Proof.
  intros seed args. unfold rs_session. rewrite rs_new_is_model.
  destruct (rs_calls_pure args (rng_new seed) (rng_new_range seed)) as [E N].
  exists (rs_calls (rng_new seed) args). repeat split; [exact N|exact E|].
  intros st0. rewrite rnd_seq_from_pure. exact E.
Qed.
