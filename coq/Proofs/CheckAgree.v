(* Proofs/CheckAgree.v — C06, both directions at once.

   [agree] strengthens the lock-step relation of Proofs/CheckSound.v: on the
   same tokens, from related states,
     - both succeed, with related results, cursors together;          or
     - the interpreter fails and the checker accepts: then the error is
       neither a syntax error nor a type mismatch (soundness);        or
     - both fail;                                                      or
     - the model runs out of its own fuel / oracle on either side;
   and NEVER: the interpreter succeeds where the checker reports an error
   (completeness: no valid statement is rejected).  Proved for expressions
   over every token stream and for every statement that neither branches nor
   jumps. *)
From Coq Require Import List NArith ZArith Bool Lia.
From Abasic Require Import Model.Bytes Model.Num Model.Token Model.Data Model.Lexer Gen.Tables
     Model.State Model.Eval Model.Interp Model.Analyzer Proofs.Monad Proofs.Frames Proofs.Caps Proofs.CheckSound.
Import ListNotations.
Local Open Scope nat_scope.

Definition agree {A B} (P : A -> B -> Prop) (m : M A) (a : MA B) : Prop :=
  forall s sa acc, R s sa ->
    match m s, a (sa, acc) with
    | (Ok x, s'), (Ok y, (sa', _)) => P x y /\ R s' sa'
    | (Ok _, _), (Err _ _, _) => False
    | (Err e _, _), (Ok _, _) => benign e
    | _, _ => True
    end.

Lemma agree_sound {A B} (P : A -> B -> Prop) m a : agree P m a -> sound P m a.
Proof.
  intros H s sa acc HR. specialize (H s sa acc HR).
  destruct (a (sa, acc)) as [[y|? ?|?| |] [sa1 acc1]]; try exact I.
  destruct (m s) as [[x|e l|pp| |] s1]; try exact I; exact H.
Qed.

(* completeness, spelled out: the interpreter succeeded, so the checker did not report an error *)
Lemma agree_complete {A B} (P : A -> B -> Prop) m a s sa acc x s' :
  agree P m a -> R s sa -> m s = (Ok x, s') ->
  forall e l st, a (sa, acc) <> (Err e l, st).
Proof.
  intros H HR Em e l st Ea. specialize (H s sa acc HR). rewrite Em, Ea in H. exact H.
Qed.

Lemma agree_bind {A B A' B'} (P : A -> A' -> Prop) (Q : B -> B' -> Prop) (m : M A) (a : MA A') f g :
  agree P m a -> (forall x y, P x y -> agree Q (f x) (g y)) -> agree Q (bind m f) (abind a g).
Proof.
  intros H1 H2 s sa acc HR. specialize (H1 s sa acc HR). unfold abind, bind.
  destruct (m s) as [[x|e l|pp| |] s1].
  - destruct (a (sa, acc)) as [[y|e' l'|pp'| |] [sa1 acc1]].
    + destruct H1 as [HP HR1]. apply (H2 x y HP s1 sa1 acc1 HR1).
    + contradiction.
    + destruct (f x s1) as [[z|? ?|?| |] ?]; exact I.
    + destruct (f x s1) as [[z|? ?|?| |] ?]; exact I.
    + destruct (f x s1) as [[z|? ?|?| |] ?]; exact I.
  - destruct (a (sa, acc)) as [[y|e' l'|pp'| |] [sa1 acc1]]; try exact I.
    destruct (g y (sa1, acc1)) as [[z|? ?|?| |] [? ?]]; try exact I. exact H1.
  - destruct (a (sa, acc)) as [[y|e' l'|pp'| |] [sa1 acc1]]; try exact I.
    all: try (destruct (g y (sa1, acc1)) as [[z|? ?|?| |] [? ?]]; exact I).
  - destruct (a (sa, acc)) as [[y|e' l'|pp'| |] [sa1 acc1]]; try exact I.
    all: try (destruct (g y (sa1, acc1)) as [[z|? ?|?| |] [? ?]]; exact I).
  - destruct (a (sa, acc)) as [[y|e' l'|pp'| |] [sa1 acc1]]; try exact I.
    all: try (destruct (g y (sa1, acc1)) as [[z|? ?|?| |] [? ?]]; exact I).
Qed.

Lemma agree_ret {A B} (P : A -> B -> Prop) x y : P x y -> agree P (ret x) (aret y).
Proof. intros H s sa acc HR. cbn. split; assumption. Qed.

(* neither side succeeds *)
Definition efails {A} (m : M A) : Prop := forall s, match m s with (Ok _, _) => False | _ => True end.
Definition afails {B} (a : MA B) : Prop := forall x, match a x with (Ok _, _) => False | _ => True end.

Lemma agree_ff {A B} (P : A -> B -> Prop) m a : efails m -> afails a -> agree P m a.
Proof.
  intros Hm Ha s sa acc HR. specialize (Hm s). specialize (Ha (sa, acc)).
  destruct (m s) as [[x|e l|pp| |] s1], (a (sa, acc)) as [[y|e' l'|pp'| |] [sa1 acc1]]; try exact I; contradiction.
Qed.

Lemma efails_fail {A} e : efails (@fail A e).
Proof. intros s. exact I. Qed.
Lemma afails_afail {B} e : afails (@afail B e).
Proof. intros x. exact I. Qed.
Lemma efails_bind {A B} (m : M A) (f : A -> M B) : efails m -> efails (bind m f).
Proof. intros H s. specialize (H s). unfold bind. destruct (m s) as [[x|e l|pp| |] s1]; try exact I. contradiction. Qed.
Lemma afails_bind {A B} (a : MA A) (g : A -> MA B) : afails a -> afails (abind a g).
Proof. intros H x. specialize (H x). unfold abind. destruct (a x) as [[y|e l|pp| |] s1]; try exact I. contradiction. Qed.

Lemma agree_fail_benign {A B} (P : A -> B -> Prop) e (a : MA B) : benign e -> agree P (@fail A e) a.
Proof. intros He s sa acc HR. cbn. destruct (a (sa, acc)) as [[y|? ?|?| |] [? ?]]; try exact I. exact He. Qed.

Lemma agree_weaken {A B} (P Q : A -> B -> Prop) m a : (forall x y, P x y -> Q x y) -> agree P m a -> agree Q m a.
Proof.
  intros HPQ H s sa acc HR. specialize (H s sa acc HR).
  destruct (m s) as [[x|e l|pp| |] s1], (a (sa, acc)) as [[y|e' l'|pp'| |] [sa1 acc1]]; try exact H.
  destruct H as [HP HR1]. split; [apply HPQ; exact HP | exact HR1].
Qed.

Lemma agree_cursor {A} (p : M A) : cursor_prim p -> agree eq p (lift p).
Proof.
  intros Hp s sa acc HR. destruct (Hp s sa (proj1 HR)) as (E & HC1 & K1 & K2).
  unfold lift. cbn [fst snd]. destruct (p sa) as [r2 sa1], (p s) as [r1 s1]. cbn [fst snd] in *. subst r2.
  destruct r1 as [x|e l|pp| |]; try exact I.
  split; [reflexivity|]. eapply R_same_rt; eassumption.
Qed.

(* an analyzer step that always succeeds and leaves its interpreter component alone *)
Definition atotal {B} (Q : B -> Prop) (b : MA B) : Prop :=
  forall sa acc, exists y acc', b (sa, acc) = (Ok y, (sa, acc')) /\ Q y.

Lemma atotal_ret {B} (Q : B -> Prop) y : Q y -> atotal Q (aret y).
Proof. intros H sa acc. exists y, acc. split; [reflexivity | exact H]. Qed.
Lemma atotal_log sym l w : atotal (fun _ => True) (log_access sym l w).
Proof. intros sa acc. eexists _, _. split; [reflexivity | exact I]. Qed.
Lemma atotal_prev_loc : atotal (fun _ => True) prev_loc.
Proof. intros sa acc. eexists _, _. split; [reflexivity | exact I]. Qed.
Lemma atotal_bind {B B'} (Q : B -> Prop) (Q' : B' -> Prop) (b : MA B) (g : B -> MA B') :
  atotal Q b -> (forall y, Q y -> atotal Q' (g y)) -> atotal Q' (abind b g).
Proof.
  intros Hb Hg sa acc. destruct (Hb sa acc) as (y & acc1 & E & HQ). destruct (Hg y HQ sa acc1) as (z & acc2 & E2 & HQ').
  exists z, acc2. unfold abind. rewrite E. split; [exact E2 | exact HQ'].
Qed.

Lemma agree_left {A B B'} (Q : A -> Prop) (P : B -> B' -> Prop) (e : M A) (m : A -> M B) (a : MA B') :
  equiet Q e -> (forall x, Q x -> agree P (m x) a) -> agree P (bind e m) a.
Proof.
  intros He Hm s sa acc HR. specialize (He s sa HR). unfold bind.
  destruct (e s) as [[x|er l|pp| |] s1].
  - destruct He as [HR1 HQ]. apply (Hm x HQ s1 sa acc HR1).
  - destruct (a (sa, acc)) as [[y|? ?|?| |] [? ?]]; try exact I. exact He.
  - destruct (a (sa, acc)) as [[y|? ?|?| |] [? ?]]; exact I.
  - destruct (a (sa, acc)) as [[y|? ?|?| |] [? ?]]; exact I.
  - destruct (a (sa, acc)) as [[y|? ?|?| |] [? ?]]; exact I.
Qed.

Lemma agree_right {A B B'} (Q : B -> Prop) (P : A -> B' -> Prop) (m : M A) (b : MA B) (a : B -> MA B') :
  atotal Q b -> (forall y, Q y -> agree P m (a y)) -> agree P m (abind b a).
Proof.
  intros Hb Ha s sa acc HR. destruct (Hb sa acc) as (y & acc1 & E & HQ). unfold abind. rewrite E.
  apply (Ha y HQ s sa acc1 HR).
Qed.

Lemma agree_quiet {A B} (Q : A -> Prop) (Q' : B -> Prop) (P : A -> B -> Prop) (e : M A) (b : MA B) :
  equiet Q e -> atotal Q' b -> (forall x y, Q x -> Q' y -> P x y) -> agree P e b.
Proof.
  intros He Hb HP s sa acc HR. specialize (He s sa HR). destruct (Hb sa acc) as (y & acc1 & E & HQ'). rewrite E.
  destruct (e s) as [[x|er l|pp| |] s1]; try exact I; [|exact He].
  destruct He as [HR1 HQ]. split; [apply HP; assumption | exact HR1].
Qed.

Lemma agree_repeat {St St' T T'} (J : St -> St' -> Prop) (P : T -> T' -> Prop)
      (body : St -> M (St + T)) (abody : St' -> MA (St' + T')) :
  (forall x y, J x y -> agree (sumrel J P) (body x) (abody y)) ->
  forall f1 f2 x y, J x y -> agree P (repeat_m f1 body x) (arepeat f2 abody y).
Proof.
  intros Hb. induction f1 as [|f1 IH]; intros f2 x y HJ.
  - intros s sa acc HR. cbn [repeat_m]. unfold out_of_fuel. exact I.
  - destruct f2 as [|f2].
    + intros s sa acc HR. cbn [arepeat]. destruct (repeat_m (S f1) body x s) as [[z|? ?|?| |] ?]; exact I.
    + cbn [repeat_m arepeat]. apply (agree_bind (sumrel J P)); [apply Hb; exact HJ|].
      intros [x1|t1] [y1|t1']; cbn [sumrel]; intros H; try contradiction.
      * apply IH. exact H.
      * apply agree_ret. exact H.
Qed.

Lemma efails_bind_r {A B} (m : M A) (f : A -> M B) : (forall x, efails (f x)) -> efails (bind m f).
Proof. intros H s. unfold bind. destruct (m s) as [[x|e l|pp| |] s1]; try exact I. apply H. Qed.

Lemma afails_after_total {A B} (Q : A -> Prop) (b : MA A) (g : A -> MA B) :
  atotal Q b -> (forall y, afails (g y)) -> afails (abind b g).
Proof. intros Hb Hg [sa acc]. destruct (Hb sa acc) as (y & acc1 & E & _). unfold abind. rewrite E. apply Hg. Qed.

Lemma afails_check_bind {B} t e (g : vtype -> MA B) : vtype_eqb t e = false -> afails (abind (check t e) g).
Proof. intros H. apply afails_bind. intros x. unfold check. rewrite H. exact I. Qed.

(* ------------------------------------------------------------------ *)
(* Expressions *)

Section Lockstep.
  Variables f1 f2 : nat.
  Variable rec : M value.
  Variable arec : MA vtype.
  Hypothesis Hrec : agree K rec arec.

  Lemma agree_array_index : agree (fun _ _ => True) (evaluate_array_index f1 rec) (an_array_index f2 arec).
  Proof.
    unfold evaluate_array_index, an_array_index.
    apply (agree_bind eq); [apply agree_cursor, cp_expect|]. intros _ _ _.
    apply (agree_bind (fun _ _ => True)).
    - apply (agree_repeat (fun _ _ => True)); [|exact I]. intros acc arity _.
      apply (agree_bind K); [exact Hrec|]. intros v t Hk. unfold K in Hk.
      destruct v as [b|x]; cbn [kind] in Hk; subst t.
      + apply agree_ff; [apply efails_fail | apply afails_check_bind; reflexivity].
      + unfold check_number, check. cbn [vtype_eqb].
        apply (agree_right (fun _ => True)); [apply atotal_ret; exact I|]. intros _ _.
        destruct (f64_to_i64_sat x <? 0)%Z; [apply agree_fail_benign; exact I|].
        apply (agree_bind eq); [apply agree_cursor, cp_accept|]. intros c c' <-.
        apply agree_ret. destruct c; exact I.
    - intros idx n _. apply (agree_bind eq); [apply agree_cursor, cp_expect|]. intros _ _ _.
      apply agree_ret. exact I.
  Qed.

  Lemma agree_unary_arg : agree (fun _ t => t = TyNumber) (unary_number_function_arg rec) (an_unary_number_function_arg arec).
  Proof.
    unfold unary_number_function_arg, an_unary_number_function_arg.
    apply (agree_bind eq); [apply agree_cursor, cp_expect|]. intros _ _ _.
    apply (agree_bind K); [exact Hrec|]. intros v t Hk. unfold K in Hk.
    destruct v as [b|x]; cbn [kind] in Hk; subst t.
    - apply agree_ff; [apply efails_bind; apply efails_fail | apply afails_check_bind; reflexivity].
    - unfold check_number, check. cbn [vtype_eqb expect_number].
      apply (agree_bind (fun _ t => t = TyNumber)); [apply agree_ret; reflexivity|]. intros x0 t ->.
      apply (agree_bind eq); [apply agree_cursor, cp_expect|]. intros _ _ _.
      apply agree_ret. reflexivity.
  Qed.

  Lemma agree_function_call name l : agree Ko (function_call rec name) (an_function_call arec name l).
  Proof.
    unfold function_call, an_function_call.
    destruct (bytes_eqb name (bs "ABS")); cbn [orb].
    { apply (agree_bind (fun _ t => t = TyNumber)); [apply agree_unary_arg|]. intros x t ->. apply agree_ret. reflexivity. }
    destruct (bytes_eqb name (bs "INT")); cbn [orb].
    { apply (agree_bind (fun _ t => t = TyNumber)); [apply agree_unary_arg|]. intros x t ->. apply agree_ret. reflexivity. }
    destruct (bytes_eqb name (bs "RND")).
    { apply (agree_bind (fun _ t => t = TyNumber)); [apply agree_unary_arg|]. intros x t ->.
      apply (agree_left (fun _ => True)); [apply equiet_rng|]. intros r _. apply agree_ret. reflexivity. }
    intros s sa acc HR. unfold user_function_call, an_user_function_call, abind, lift, bind, get. cbn [fst snd].
    destruct HR as (HC & Hcaps & Hf1 & Hf2). rewrite Hf1, Hf2. cbn.
    split; [exact I|]. split; [exact HC|]. split; [exact Hcaps|]. split; assumption.
  Qed.

  Lemma agree_term : agree K (expression_term f1 rec) (an_term f2 arec).
  Proof.
    unfold expression_term, an_term.
    apply (agree_bind eq); [apply agree_cursor, cp_next_unwrapped|]. intros t t' <-.
    destruct t; try (apply agree_ff; [apply efails_fail | apply afails_afail]); try (apply agree_ret; reflexivity).
    lazymatch goal with |- context [type_of_name ?n] => set (name := n) end.
    apply (agree_right (fun _ => True)); [apply atotal_prev_loc|]. intros l _.
    apply (agree_bind eq); [apply agree_cursor, cp_peek_is|]. intros p p' <-.
    destruct p.
    - apply (agree_bind Ko); [apply agree_function_call|]. intros fv ft Hko.
      destruct fv as [v|], ft as [t|]; cbn [Ko] in Hko; try contradiction.
      + apply agree_ret. exact Hko.
      + apply (agree_bind (fun _ _ => True)); [apply agree_array_index|]. intros idx n _.
        apply (agree_quiet (fun v => kind v = type_of_name name) (fun t => t = type_of_name name)).
        * apply equiet_array_cell.
        * eapply atotal_bind; [apply atotal_log | intros; apply atotal_ret; reflexivity].
        * intros v t Hv ->. exact Hv.
    - apply (agree_quiet (fun v => kind v = type_of_name name) (fun t => t = type_of_name name)).
      + apply equiet_variable.
      + eapply atotal_bind; [apply atotal_log | intros; apply atotal_ret; reflexivity].
      + intros v t Hv ->. exact Hv.
  Qed.

  Lemma agree_paren : agree K (parenthesized_expression f1 rec) (an_paren f2 arec).
  Proof.
    unfold parenthesized_expression, an_paren.
    apply (agree_bind eq); [apply agree_cursor, cp_accept|]. intros p p' <-.
    destruct p; [|apply agree_term].
    apply (agree_bind K); [exact Hrec|]. intros v t Hk.
    apply (agree_bind eq); [apply agree_cursor, cp_expect|]. intros _ _ _.
    apply agree_ret. exact Hk.
  Qed.

  Lemma agree_unary : agree K (unary_operator f1 rec) (an_unary f2 arec).
  Proof.
    unfold unary_operator, an_unary.
    apply (agree_bind eq); [apply agree_cursor, cp_try|]. intros op op' <-.
    apply (agree_bind K); [apply agree_paren|]. intros v t Hk. unfold K in Hk.
    destruct op as [[| |]|]; cbn [eval_unary].
    - apply agree_ret. exact Hk.
    - destruct v as [b|x]; cbn [kind] in Hk; subst t; unfold check_number, check; cbn [vtype_eqb].
      + apply agree_ff; [apply efails_fail | apply afails_afail].
      + apply agree_ret. reflexivity.
    - apply agree_ret. unfold K. destruct (negb (to_bool v)); reflexivity.
    - apply agree_ret. exact Hk.
  Qed.

  Lemma agree_tier {O O'} (g : M (option O)) (ag : MA (option O')) (operand : M value) (aoperand : MA vtype)
        (ap : O -> value -> value -> M value) (astep : vtype -> vtype -> MA vtype) :
    agree optrel g ag -> agree K operand aoperand ->
    (forall o v w tv tw, K v tv -> K w tw -> agree K (ap o v w) (astep tv tw)) ->
    agree K (tier f1 g operand ap) (an_tier f2 ag aoperand astep).
  Proof.
    intros Hg Ho Hap. unfold tier, an_tier.
    apply (agree_bind K); [exact Ho|]. intros v0 t0 H0.
    apply (agree_repeat K); [|exact H0]. intros v t Hvt.
    apply (agree_bind _ _ _ _ _ _ Hg). intros o o' Hoo.
    destruct o as [o|], o' as [o'|]; try contradiction.
    - apply (agree_bind K); [exact Ho|]. intros w tw Hw.
      apply (agree_bind K); [apply Hap; assumption|]. intros v' t' Hv'.
      apply agree_ret. exact Hv'.
    - apply agree_ret. exact Hvt.
  Qed.
End Lockstep.

(* operators: on numbers a number (or a benign failure, nothing else changed); on any string, no result *)
Definition numop2 (ap : value -> value -> M value) : Prop :=
  numop ap /\ (forall v w s, (kind v = TyString \/ kind w = TyString) -> match ap v w s with (Ok _, _) => False | _ => True end).

Lemma agree_both_numbers ap v w tv tw : numop2 ap -> K v tv -> K w tw -> agree K (ap v w) (both_numbers tv tw).
Proof.
  intros [Hn Hs] Hv Hw s sa acc HR. unfold K in Hv, Hw. unfold both_numbers, check_number, check, abind, aret, afail.
  destruct v as [b|a]; cbn [kind] in Hv; subst tv; cbn [vtype_eqb].
  { specialize (Hs (VStr b) w s (or_introl eq_refl)). destruct (ap (VStr b) w s) as [[x|e l|pp| |] s1]; try exact I. contradiction. }
  destruct w as [b'|b]; cbn [kind] in Hw; subst tw; cbn [vtype_eqb].
  { specialize (Hs (VNum a) (VStr b') s (or_intror eq_refl)). destruct (ap (VNum a) (VStr b') s) as [[x|e l|pp| |] s1]; try exact I. contradiction. }
  specialize (Hn a b s). destruct (ap (VNum a) (VNum b) s) as [[x|e l|pp| |] s1]; try exact I; [|exact Hn].
  destruct Hn as [-> Hk]. split; [exact Hk | exact HR].
Qed.

Lemma numop2_addsub o : numop2 (eval_addsub o).
Proof. split; [apply numop_addsub|]. intros v w s [H|H]; destruct v, w; cbn in *; try exact I; discriminate. Qed.

Lemma numop2_muldiv o : numop2 (eval_muldiv o).
Proof. split; [apply numop_muldiv|]. intros v w s [H|H]; destruct v, w; cbn in *; try exact I; discriminate. Qed.

Lemma numop2_pow : numop2 eval_pow.
Proof. split; [apply numop_pow|]. intros v w s [H|H]; destruct v, w; cbn in *; try exact I; discriminate. Qed.

Lemma agree_eq o v w tv tw : K v tv -> K w tw -> agree K (eval_eq o v w) (check tv tw ;;;; aret TyNumber).
Proof.
  intros Hv Hw s sa acc HR. unfold K in Hv, Hw. unfold check, abind, aret, afail.
  destruct v as [a|a], w as [b|b]; cbn [kind] in Hv, Hw; subst tv tw; cbn [vtype_eqb]; try exact I;
    cbn; (split; [destruct (_ : bool); reflexivity | exact HR]).
Qed.

Lemma agree_accept_as t : agree optrel (accept_as t tt) (an_accept_as t).
Proof.
  unfold accept_as, an_accept_as.
  apply (agree_bind eq); [apply agree_cursor, cp_accept|]. intros b b' <-.
  apply agree_ret. destruct b; exact I.
Qed.

Lemma agree_try {O} (g : token -> option O) : agree optrel (try_next_token g) (lift (try_next_token g)).
Proof. apply (agree_weaken eq); [|apply agree_cursor, cp_try]. intros x y <-. destruct x; exact I. Qed.

Section Tiers.
  Variables f1 f2 : nat.
  Variable rec : M value.
  Variable arec : MA vtype.
  Hypothesis Hrec : agree K rec arec.

  Lemma agree_logical_or : agree K (logical_or_expression f1 rec) (an_or f2 arec).
  Proof.
    unfold logical_or_expression, an_or, logical_and_expression, an_and, equality_expression, an_equality,
      plus_or_minus_expression, an_addsub, multiply_or_divide_expression, an_muldiv, exponent_expression, an_exponent.
    apply agree_tier; [apply agree_accept_as| |intros; unfold eval_or; apply agree_ret; reflexivity].
    apply agree_tier; [apply agree_accept_as| |intros; unfold eval_and; apply agree_ret; reflexivity].
    apply agree_tier; [apply agree_try| |intros; apply agree_eq; assumption].
    apply agree_tier; [apply agree_try| |intros; apply agree_both_numbers; [apply numop2_addsub | assumption | assumption]].
    apply agree_tier; [apply agree_try| |intros; apply agree_both_numbers; [apply numop2_muldiv | assumption | assumption]].
    apply agree_tier; [apply agree_accept_as| |intros; apply agree_both_numbers; [apply numop2_pow | assumption | assumption]].
    apply agree_unary. exact Hrec.
  Qed.
End Tiers.

Theorem expression_check_agrees : forall f1 f2 n, agree K (evaluate_expression f1 n) (analyze_expression f2 n).
Proof.
  induction f1 as [|f1 IH]; intros f2 n.
  - intros s sa acc HR. cbn [evaluate_expression]. unfold out_of_fuel. exact I.
  - destruct f2 as [|f2].
    + intros s sa acc HR. cbn [analyze_expression]. destruct (evaluate_expression (S f1) n s) as [[z|? ?|?| |] ?]; exact I.
    + cbn [evaluate_expression analyze_expression].
      destruct (Nat.eqb n max_nesting); [apply agree_ff; [apply efails_fail | apply afails_afail]|].
      apply agree_logical_or. apply IH.
Qed.

(* ------------------------------------------------------------------ *)
(* Statements that neither branch nor jump *)

Lemma efails_assign_mismatch sym idx v : kind v <> type_of_name sym -> efails (assign_value (mklv sym idx) v).
Proof.
  intros Hk. assert (Htm : type_matches sym v = false).
  { unfold type_matches, type_of_name in *. destruct v, (ends_with_dollar sym); cbn in *; congruence. }
  intros s. unfold assign_value. cbn [lv_index lv_sym]. destruct idx as [idx|].
  - unfold bind. destruct (maybe_warn_undeclared_array sym s) as [[u|e l|pp| |] s1]; try exact I.
    unfold arrays_set. rewrite Htm. exact I.
  - unfold variables_set. rewrite Htm. exact I.
Qed.

Lemma efails_start_loop sym a b c : type_of_name sym = TyString -> efails (start_loop sym a b c).
Proof.
  intros Hty s. rewrite start_loop_eq. cbv zeta.
  destruct (Nat.eqb (length (loops (drop_loop sym s))) stack_limit); [exact I|].
  rewrite variables_set_eq.
  assert (Htm : type_matches sym (VNum a) = false).
  { unfold type_matches, type_of_name in *. destruct (ends_with_dollar sym); [reflexivity | discriminate]. }
  rewrite Htm. exact I.
Qed.

Section StmtAgree.
  Variables f1 f2 nest : nat.

  Lemma agree_expr : agree K (evaluate_expression f1 nest) (analyze_expression f2 nest).
  Proof. apply expression_check_agrees. Qed.

  Lemma agree_optional_index : agree orel' (parse_optional_array_index f1 nest) (an_optional_array_index f2 nest).
  Proof.
    unfold parse_optional_array_index, an_optional_array_index.
    apply (agree_bind eq); [apply agree_cursor, cp_peek_is|]. intros p p' <-.
    destruct p; cbn [negb].
    - apply (agree_bind (fun _ _ => True)); [apply agree_array_index; apply agree_expr|]. intros i n _.
      apply agree_ret. exact I.
    - apply agree_ret. exact I.
  Qed.

  Lemma agree_assignment sym :
    agree (fun _ _ => True) (evaluate_assignment_statement f1 nest sym) (an_assignment f2 nest sym).
  Proof.
    unfold evaluate_assignment_statement, an_assignment.
    apply (agree_right (fun _ => True)); [apply atotal_prev_loc|]. intros l _.
    apply (agree_bind orel'); [apply agree_optional_index|]. intros idx ar Hia.
    apply (agree_bind eq); [apply agree_cursor, cp_expect|]. intros _ _ _.
    apply (agree_bind K); [apply agree_expr|]. intros v t Hk. unfold K in Hk.
    unfold an_assign. cbn [alv_sym alv_loc].
    apply (agree_right (fun _ => True)); [apply atotal_log|]. intros _ _.
    destruct (vtype_eqb (type_of_name sym) t) eqn:Ev.
    - assert (Ht : t = type_of_name sym) by (destruct t, (type_of_name sym); cbn in Ev; congruence).
      unfold check. rewrite Ev.
      apply (agree_right (fun _ => True)); [apply atotal_ret; exact I|]. intros _ _.
      apply (agree_quiet (fun _ => True) (fun _ => True)); [apply equiet_assign; congruence | apply atotal_ret; exact I | intros; exact I].
    - apply agree_ff; [|apply afails_check_bind; exact Ev].
      apply efails_assign_mismatch. intros E. rewrite <- Hk, E in Ev. destruct (type_of_name sym); discriminate.
  Qed.

  Lemma agree_let : agree (fun _ _ => True) (evaluate_let_statement f1 nest) (an_let f2 nest).
  Proof.
    unfold evaluate_let_statement, an_let.
    apply (agree_bind eq); [apply agree_cursor, cp_next_token|]. intros t t' <-.
    destruct t as [t|]; [|apply agree_ff; [apply efails_fail | apply afails_afail]].
    destruct t; try (apply agree_ff; [apply efails_fail | apply afails_afail]). apply agree_assignment.
  Qed.

  Lemma agree_then_quiet {A B B'} (P : A -> B' -> Prop) (m : M A) (f : A -> M B) (a : MA B') :
    agree P m a -> (forall x, equiet (fun _ => True) (f x)) -> agree (fun _ _ => True) (bind m f) a.
  Proof.
    intros Hm Hf s sa acc HR. specialize (Hm s sa acc HR). unfold bind.
    destruct (m s) as [[x|e l|pp| |] s1]; try exact Hm.
    destruct (a (sa, acc)) as [[y|? ?|?| |] [sa1 acc1]].
    - destruct Hm as [_ HR1]. specialize (Hf x s1 sa1 HR1).
      destruct (f x s1) as [[z|e l|pp| |] s2]; try exact I; [|exact Hf].
      destruct Hf as [HR2 _]. split; [exact I | exact HR2].
    - contradiction.
    - destruct (f x s1) as [[z|? ?|?| |] ?]; exact I.
    - destruct (f x s1) as [[z|? ?|?| |] ?]; exact I.
    - destruct (f x s1) as [[z|? ?|?| |] ?]; exact I.
  Qed.

  Lemma agree_print : agree (fun _ _ => True) (evaluate_print_statement f1 nest) (an_print f2 nest).
  Proof.
    unfold evaluate_print_statement, an_print.
    apply (agree_then_quiet (fun _ _ => True)).
    - apply (agree_repeat (fun _ _ => True)); [|exact I]. intros [semi text] [] _.
      apply (agree_bind eq); [apply agree_cursor, cp_peek|]. intros t t' <-.
      destruct t as [t|]; [|apply agree_ret; exact I].
      destruct t;
        try (apply (agree_bind K); [apply agree_expr|]; intros v ty _; apply agree_ret; exact I);
        try (apply agree_ret; exact I);
        try (apply (agree_bind eq); [apply agree_cursor, cp_next_token|]; intros ? ? _; apply agree_ret; exact I).
    - intros [semi text] s sa HR. cbn. split; [|exact I].
      apply (R_ext s); try reflexivity; [exact HR|]. apply (caps_inv_ext s); try reflexivity. apply HR.
  Qed.

  Lemma agree_parse_lvalue :
    agree (fun lv alv => lv_sym lv = alv_sym alv) (parse_lvalue f1 nest) (an_parse_lvalue f2 nest).
  Proof.
    unfold parse_lvalue, an_parse_lvalue.
    apply (agree_bind eq); [apply agree_cursor, cp_next_token|]. intros t t' <-.
    destruct t as [t|]; [|apply agree_ff; [apply efails_fail | apply afails_afail]].
    destruct t; try (apply agree_ff; [apply efails_fail | apply afails_afail]).
    apply (agree_right (fun _ => True)); [apply atotal_prev_loc|]. intros l _.
    apply (agree_bind orel'); [apply agree_optional_index|]. intros idx ar _.
    apply agree_ret. reflexivity.
  Qed.

  Lemma agree_dim : agree (fun _ _ => True) (evaluate_dim_statement f1 nest) (an_dim f2 nest).
  Proof.
    unfold evaluate_dim_statement, an_dim.
    apply (agree_bind (fun lv alv => lv_sym lv = alv_sym alv)); [apply agree_parse_lvalue|]. intros lv alv _.
    destruct (lv_index lv) as [idx|].
    - apply (agree_quiet (fun _ => True) (fun _ => True)); [apply equiet_arrays_create | apply atotal_log | intros; exact I].
    - apply (agree_quiet (fun _ => True) (fun _ => True)); [apply equiet_ret; exact I | apply atotal_log | intros; exact I].
  Qed.

  Lemma atotal_an_assign alv : atotal (fun _ : unit => True) (an_assign alv (type_of_name (alv_sym alv))).
  Proof.
    intros sa acc. unfold an_assign, abind, log_access, check, aret. cbn [fst snd].
    destruct (type_of_name (alv_sym alv)); cbn; eexists _, _; (split; [reflexivity | exact I]).
  Qed.

  Lemma agree_read : agree (fun _ _ => True) (evaluate_read_statement f1 nest) (an_read f2 nest).
  Proof.
    unfold evaluate_read_statement, an_read.
    apply (agree_repeat (fun _ _ => True)); [|exact I]. intros [] [] _.
    apply (agree_bind (fun lv alv => lv_sym lv = alv_sym alv)); [apply agree_parse_lvalue|]. intros lv alv Hsym.
    apply (agree_left (fun _ => True)); [apply equiet_next_data|]. intros e _.
    destruct e as [e|]; [|apply agree_fail_benign; exact I].
    unfold lift_res.
    destruct (coerce_data (lv_sym lv) e) as [v|er l|pp| |] eqn:Ec.
    - apply (agree_left (fun x => x = v)); [intros s sa HR; cbn; split; [exact HR | reflexivity]|]. intros v0 ->.
      apply (agree_left (fun _ => True)).
      { destruct lv as [sym idx]. cbn [lv_sym] in *. apply equiet_assign. apply (coerce_kind' _ _ _ Ec). }
      intros _ _.
      apply (agree_right (fun _ => True)); [apply atotal_an_assign|]. intros _ _.
      apply (agree_bind eq); [apply agree_cursor, cp_accept|]. intros c c' <-.
      apply agree_ret. destruct c; exact I.
    - intros s sa acc HR. unfold bind. cbn.
      match goal with |- match ?x with _ => _ end => destruct x as [[y|? ?|?| |] [? ?]] end; try exact I.
      exact (coerce_benign _ _ _ _ Ec).
    - intros s sa acc HR. unfold bind. cbn. exact I.
    - intros s sa acc HR. unfold bind. cbn. exact I.
    - intros s sa acc HR. unfold bind. cbn. exact I.
  Qed.

  Lemma agree_for : agree (fun _ _ => True) (evaluate_for_statement f1 nest) (an_for f2 nest).
  Proof.
    unfold evaluate_for_statement, an_for.
    apply (agree_bind eq); [apply agree_cursor, cp_next_token|]. intros t t' <-.
    destruct t as [t|]; [|apply agree_ff; [apply efails_fail | apply afails_afail]].
    destruct t; try (apply agree_ff; [apply efails_fail | apply afails_afail]).
    lazymatch goal with |- context [type_of_name ?n] => set (sym := n) end.
    apply (agree_right (fun _ => True)); [apply atotal_prev_loc|]. intros l _.
    apply (agree_right (fun _ => True)); [apply atotal_log|]. intros _ _.
    unfold check_number at 1.
    destruct (vtype_eqb (type_of_name sym) TyNumber) eqn:Ev.
    2:{ (* a string-named loop variable: the checker says so at once, the interpreter when it stores *)
        assert (Hty : type_of_name sym = TyString) by (destruct (type_of_name sym); [reflexivity | discriminate]).
        apply agree_ff; [|apply afails_check_bind; exact Ev].
        repeat first [apply efails_start_loop; exact Hty | apply efails_bind_r; intros]. }
    assert (Hty : type_of_name sym = TyNumber) by (destruct (type_of_name sym); [discriminate | reflexivity]).
    unfold check at 1. rewrite Ev.
    apply (agree_right (fun _ => True)); [apply atotal_ret; exact I|]. intros _ _.
    apply (agree_bind eq); [apply agree_cursor, cp_expect|]. intros _ _ _.
    apply (agree_bind K); [apply agree_expr|]. intros v1 t1 Hk1. unfold K in Hk1.
    destruct v1 as [b1|x1]; cbn [kind] in Hk1; subst t1; cbn [expect_number].
    { apply agree_ff; [apply efails_bind; apply efails_fail | apply afails_check_bind; reflexivity]. }
    unfold check_number at 1, check at 1. cbn [vtype_eqb].
    apply (agree_bind (fun _ _ => True)); [apply agree_ret; exact I|]. intros from ? _.
    apply (agree_bind eq); [apply agree_cursor, cp_expect|]. intros _ _ _.
    apply (agree_bind K); [apply agree_expr|]. intros v2 t2 Hk2. unfold K in Hk2.
    destruct v2 as [b2|x2]; cbn [kind] in Hk2; subst t2; cbn [expect_number].
    { apply agree_ff; [apply efails_bind; apply efails_fail | apply afails_check_bind; reflexivity]. }
    unfold check_number at 1, check at 1. cbn [vtype_eqb].
    apply (agree_bind (fun _ _ => True)); [apply agree_ret; exact I|]. intros to ? _.
    apply (agree_bind eq); [apply agree_cursor, cp_accept|]. intros st st' <-.
    destruct st.
    - intros s0 sa0 acc0 HR0. rewrite bind_assoc_m. revert s0 sa0 acc0 HR0.
      apply (agree_bind K); [apply agree_expr|]. intros v3 t3 Hk3. unfold K in Hk3.
      destruct v3 as [b3|x3]; cbn [kind] in Hk3; subst t3; cbn [expect_number].
      { apply agree_ff; [apply efails_bind; apply efails_fail | apply afails_check_bind; reflexivity]. }
      unfold check_number, check. cbn [vtype_eqb].
      apply (agree_bind (fun _ _ => True)); [apply agree_ret; exact I|]. intros step ? _.
      apply (agree_quiet (fun _ => True) (fun _ => True)); [apply equiet_start_loop; exact Hty | apply atotal_ret; exact I | intros; exact I].
    - apply (agree_left (fun _ => True)); [apply equiet_ret; exact I|]. intros step _.
      apply (agree_quiet (fun _ => True) (fun _ => True)); [apply equiet_start_loop; exact Hty | apply atotal_ret; exact I | intros; exact I].
  Qed.
End StmtAgree.

(* every statement that neither branches nor jumps: both directions *)
Theorem straight_statement_agrees : forall f1 f2 nest rec arec t, straight_head t = true ->
  agree (fun _ _ => True) (edispatch f1 nest rec t) (adispatch f2 nest arec t).
Proof.
  intros f1 f2 nest rec arec t Hst.
  destruct t as [t|]; [|apply agree_ret; exact I].
  destruct t; try discriminate Hst; cbn [edispatch adispatch]; try (apply agree_ret; exact I);
    try apply agree_print; try apply agree_let; try apply agree_dim; try apply agree_for; try apply agree_read;
    try apply agree_assignment.
Qed.

(* completeness, spelled out for the two entry points *)
Corollary evaluated_expression_is_not_rejected : forall f1 f2 n s sa acc v s',
  R s sa -> evaluate_expression f1 n s = (Ok v, s') ->
  forall e l st, analyze_expression f2 n (sa, acc) <> (Err e l, st).
Proof. intros f1 f2 n s sa acc v s' HR Em. exact (agree_complete K _ _ s sa acc v s' (expression_check_agrees f1 f2 n) HR Em). Qed.

Corollary executed_statement_is_not_rejected : forall f1 f2 nest rec arec t s sa acc u s', straight_head t = true ->
  R s sa -> edispatch f1 nest rec t s = (Ok u, s') ->
  forall e l st, adispatch f2 nest arec t (sa, acc) <> (Err e l, st).
Proof.
  intros f1 f2 nest rec arec t s sa acc u s' Hst HR Em.
  exact (agree_complete (fun _ _ => True) _ _ s sa acc u s' (straight_statement_agrees f1 f2 nest rec arec t Hst) HR Em).
Qed.
