(* Proofs/ArraysTie.v — C16 / C01: DimArray::new and DimArray::get_linear_index
   as TRANSLATED from arrays.rs on this run (Gen/ArraysRs.v, usize arithmetic
   with overflow = panic) are the model's array_create_value / linear_index,
   and on every array DimArray::new can build the unchecked `+=` / `*=` of
   get_linear_index never overflow. *)
From Coq Require Import List NArith ZArith Bool String Lia.
From Abasic Require Import Model.Bytes Model.Num Model.RustInt Model.Token Model.Data Model.Lexer Gen.Tables Gen.ArraysRs
     Model.State Proofs.Caps.
Import ListNotations.
Open Scope N_scope.

Lemma u64_chk_spec x : u64_chk x = if USIZE_MAX <? x then None else Some x.
Proof.
  unfold u64_chk, U64_LIMIT, USIZE_MAX.
  destruct (N.ltb_spec x (2 ^ 64)) as [H|H]; destruct (N.ltb_spec 18446744073709551615 x) as [H'|H']; try reflexivity;
    exfalso; change (2 ^ 64) with 18446744073709551616 in H; lia.
Qed.

(* ---------------- DimArray::new ---------------- *)

Lemma rs_new_loop_spec : forall mi t ds,
  rs_dimarray_new_loop mi t ds =
  if existsb (fun m => USIZE_MAX <? m + 1) mi then UErr "ArrayTooLarge"
  else match checked_product (dim_sizes mi) t with
       | None => UErr "ArrayTooLarge"
       | Some total => UOk (total, ds ++ dim_sizes mi)
       end.
Proof.
  induction mi as [|m r IH]; intros t ds.
  { cbn. rewrite app_nil_r. reflexivity. }
  cbn [rs_dimarray_new_loop existsb dim_sizes map checked_product]. rewrite !u64_chk_spec.
  destruct (USIZE_MAX <? m + 1); cbn [orb]; [reflexivity|].
  rewrite u64_chk_spec.
  destruct (USIZE_MAX <? t * (m + 1)).
  { destruct (existsb _ r); reflexivity. }
  rewrite IH. fold (dim_sizes r). rewrite <- app_assoc. reflexivity.
Qed.

(* how a translated outcome reads as a model result *)
Definition rs_new_to_res (name : bytes) (r : rs_res (list N * N)) : res arr :=
  match r with
  | UPanic => Panic PCellIndex
  | UErr e => if String.eqb e "BadSubscript" then Err EBadSubscript None else Err EArrayTooLarge None
  | UOk (dims, total) =>
      let str := ends_with_dollar name in
      Ok (mkarr str dims (repeat (if str then VStr [] else VNum f64_zero) (N.to_nat total)))
  end.

Theorem rs_dimarray_new_is_model : forall name mi,
  rs_dimarray_new mi <> UPanic /\ array_create_value name mi = rs_new_to_res name (rs_dimarray_new mi).
Proof.
  intros name mi. unfold rs_dimarray_new, array_create_value.
  destruct mi as [|m r]; [split; [discriminate|reflexivity]|].
  change (N.of_nat (List.length (m :: r)) =? 0) with false. cbv iota.
  rewrite rs_new_loop_spec. cbn [app].
  destruct (existsb _ (m :: r)); [split; [discriminate|reflexivity]|].
  destruct (checked_product (dim_sizes (m :: r)) 1) as [total|]; [|split; [discriminate|reflexivity]].
  unfold max_dim_total.
  destruct (MAX_DIM_TOTAL_ELEMENTS <? total); split; try discriminate; reflexivity.
Qed.

(* the arrays DimArray::new builds: every dimension at least 1, product within the cap *)
Definition shape_ok (dims : list N) : Prop :=
  Forall (fun d => 1 <= d) dims /\ dims_product dims <= MAX_DIM_TOTAL_ELEMENTS.

Theorem created_shape_ok : forall name mi a,
  array_create_value name mi = Ok a -> shape_ok (ar_dims a) /\ ar_dims a = dim_sizes mi.
Proof.
  intros name mi a H. unfold array_create_value in H.
  destruct mi as [|m r]; [discriminate|].
  destruct (existsb _ (m :: r)); [discriminate|].
  pose proof (checked_product_spec _ (dim_sizes_pos (m :: r)) 1) as Hcp.
  destruct (checked_product (dim_sizes (m :: r)) 1) as [total|]; [|discriminate].
  unfold max_dim_total in H.
  destruct (N.ltb_spec MAX_DIM_TOTAL_ELEMENTS total) as [Hlt|Hle]; [discriminate|].
  injection H as <-. cbn [ar_dims]. split; [|reflexivity].
  split; [exact (dim_sizes_pos (m :: r))|]. rewrite Hcp, N.mul_1_l in Hle. exact Hle.
Qed.

(* ---------------- DimArray::get_linear_index ---------------- *)

Lemma MAX_DIM_small : MAX_DIM_TOTAL_ELEMENTS < U64_LIMIT.
Proof. vm_compute. reflexivity. Qed.

Lemma rs_gli_loop_spec : forall indices dims acc stride,
  Forall (fun d => 1 <= d) dims -> acc < stride -> stride * dims_product dims < U64_LIMIT ->
  match linear_index indices dims acc stride with
  | None => rs_dimarray_get_linear_index_loop indices dims acc stride = UErr "BadSubscript"
  | Some i => exists st, rs_dimarray_get_linear_index_loop indices dims acc stride = UOk (i, st)
  end.
Proof.
  induction indices as [|i ir IH]; intros dims acc stride Hpos Hacc Hbound.
  { cbn. eexists; reflexivity. }
  destruct dims as [|d dr]; [cbn; eexists; reflexivity|].
  cbn [linear_index rs_dimarray_get_linear_index_loop].
  destruct (N.leb_spec d i) as [Hle|Hlt]; [reflexivity|].
  inversion Hpos as [|? ? Hd Hdr]; subst.
  pose proof (dims_product_pos dr Hdr) as Hp.
  cbn [dims_product fold_right] in Hbound. fold (dims_product dr) in Hbound.
  assert (Hsd : stride * d <= stride * (d * dims_product dr)) by nia.
  assert (Hnew : acc + i * stride < stride * d) by nia.
  cbn [u64_mul u64_add]. unfold u64_chk.
  assert (E1 : i * stride <? U64_LIMIT = true) by (apply N.ltb_lt; nia). rewrite E1.
  assert (E2 : acc + i * stride <? U64_LIMIT = true) by (apply N.ltb_lt; nia). rewrite E2.
  assert (E3 : stride * d <? U64_LIMIT = true) by (apply N.ltb_lt; nia). rewrite E3.
  apply IH; [exact Hdr|exact Hnew|]. rewrite <- N.mul_assoc. exact Hbound.
Qed.

Definition rs_index_to_res (r : rs_res N) : res N :=
  match r with
  | UPanic => Panic PCellIndex
  | UErr _ => Err EBadSubscript None
  | UOk i => Ok i
  end.

(* on every array of a shape DimArray::new can build, with any subscripts: the
   translated index computation never overflows and is the model's *)
Theorem rs_get_linear_index_is_model : forall a indices, shape_ok (ar_dims a) ->
  rs_dimarray_get_linear_index (ar_dims a) indices <> UPanic /\
  (forall e, rs_dimarray_get_linear_index (ar_dims a) indices = UErr e -> e = "BadSubscript"%string) /\
  array_linear_index a indices = rs_index_to_res (rs_dimarray_get_linear_index (ar_dims a) indices).
Proof.
  intros a indices [Hpos Hcap]. unfold rs_dimarray_get_linear_index, array_linear_index.
  assert (E : (N.of_nat (List.length indices) =? N.of_nat (List.length (ar_dims a))) = Nat.eqb (List.length indices) (List.length (ar_dims a))).
  { destruct (Nat.eqb_spec (List.length indices) (List.length (ar_dims a))) as [->|Hne]; [apply N.eqb_refl|].
    apply N.eqb_neq. lia. }
  rewrite E. destruct (Nat.eqb (List.length indices) (List.length (ar_dims a))); cbn [negb].
  2:{ repeat split; try discriminate. intros e He; injection He as <-; reflexivity. }
  pose proof (rs_gli_loop_spec indices (ar_dims a) 0 1 Hpos ltac:(lia)
                ltac:(pose proof MAX_DIM_small; lia)) as H.
  destruct (linear_index indices (ar_dims a) 0 1) as [i|].
  - destruct H as [st ->]. repeat split; discriminate.
  - rewrite H. repeat split; try discriminate. intros e He; injection He as <-; reflexivity.
Qed.

(* the index it returns is inside the cells: `self.values[linear_index]` in
   DimArray::get / set cannot be out of bounds on such an array *)
Lemma linear_index_bound : forall indices dims acc stride i,
  Forall (fun d => 1 <= d) dims -> List.length indices = List.length dims -> acc < stride ->
  linear_index indices dims acc stride = Some i -> i < stride * dims_product dims.
Proof.
  induction indices as [|x ir IH]; intros dims acc stride i Hpos Hlen Hacc H.
  { destruct dims; [|discriminate]. cbn in H. injection H as <-. cbn. lia. }
  destruct dims as [|d dr]; [discriminate|]. cbn [linear_index] in H.
  destruct (N.leb_spec d x) as [Hle|Hlt]; [discriminate|].
  inversion Hpos as [|? ? Hd Hdr]; subst. injection Hlen as Hlen.
  apply IH in H; [|exact Hdr|exact Hlen|nia].
  cbn [dims_product fold_right]. fold (dims_product dr). rewrite N.mul_assoc. exact H.
Qed.

Theorem rs_index_in_cells : forall a indices i, shape_ok (ar_dims a) ->
  N.of_nat (List.length (ar_cells a)) = dims_product (ar_dims a) ->
  rs_dimarray_get_linear_index (ar_dims a) indices = UOk i -> i < N.of_nat (List.length (ar_cells a)).
Proof.
  intros a indices i Hs Hcells H.
  destruct (rs_get_linear_index_is_model a indices Hs) as (_ & _ & E). rewrite H in E. cbn in E.
  unfold array_linear_index in E. destruct Hs as [Hpos _].
  destruct (Nat.eqb_spec (List.length indices) (List.length (ar_dims a))) as [Hl|Hl]; cbn [negb] in E; [|discriminate].
  destruct (linear_index indices (ar_dims a) 0 1) as [j|] eqn:Ej; [|discriminate]. injection E as ->.
  apply linear_index_bound in Ej; [|exact Hpos|exact Hl|lia]. rewrite Hcells. lia.
Qed.

(* ---------------- every reachable state ---------------- *)

(* [caps_inv] (Proofs/Caps.v) holds at every turn boundary of every session
   (C16_inv); it gives every stored array a shape DimArray::new can build *)
Lemma caps_inv_shape : forall s name a, caps_inv s -> In (name, a) (arrays s) ->
  shape_ok (ar_dims a) /\ N.of_nat (List.length (ar_cells a)) = dims_product (ar_dims a).
Proof.
  intros s name a (_ & _ & _ & _ & _ & Har) Hin.
  destruct (Har _ _ Hin) as ((_ & Hpos) & Hlen & Hcap & _).
  split; [|exact Hlen]. split; [exact Hpos|]. unfold dims_product. rewrite <- Hlen. exact Hcap.
Qed.

Theorem rs_index_safe_in_every_state : forall s name a indices, caps_inv s -> In (name, a) (arrays s) ->
  rs_dimarray_get_linear_index (ar_dims a) indices <> UPanic /\
  array_linear_index a indices = rs_index_to_res (rs_dimarray_get_linear_index (ar_dims a) indices) /\
  forall i, rs_dimarray_get_linear_index (ar_dims a) indices = UOk i -> i < N.of_nat (List.length (ar_cells a)).
Proof.
  intros s name a indices Hinv Hin. destruct (caps_inv_shape s name a Hinv Hin) as [Hs Hc].
  destruct (rs_get_linear_index_is_model a indices Hs) as (H1 & _ & H3).
  split; [exact H1|]. split; [exact H3|]. intros i Hi. exact (rs_index_in_cells a indices i Hs Hc Hi).
Qed.

(* ---------------- when the caps are tested (the model side of Gen/ProgramEvents.v) ---------------- *)

Theorem model_cap_order : forall sym a b c n name bs s,
  (forall u s1, remove_loop_with_name sym s = (Ok u, s1) -> List.length (loops s1) = stack_limit ->
     start_loop sym a b c s = (Err EStackOverflow None, s1)) /\
  (List.length (stack s) = stack_limit -> gosub_line_number n s = (Err EStackOverflow None, s)) /\
  (List.length (stack s) = stack_limit -> push_function_call name bs s = (Err EStackOverflow None, s)).
Proof.
  intros sym a b c n name bs s. split; [|split].
  - intros u s1 H1 H2. unfold start_loop, bind at 1. rewrite H1. unfold bind at 1, get. rewrite H2, Nat.eqb_refl. reflexivity.
  - intros H. unfold gosub_line_number, bind at 1, get. rewrite H, Nat.eqb_refl. reflexivity.
  - intros H. unfold push_function_call, bind at 1, get. rewrite H, Nat.eqb_refl. reflexivity.
Qed.
