(* Proofs/LineAgree.v — C06, the converse clause at the level of a whole LINE.
   CheckAgree.v has it for one expression and for one non-branching statement;
   here for a line of any number of such statements separated by ":".

   A line is STRAIGHT when none of its tokens is IF, THEN, ELSE, GOTO, GOSUB,
   RETURN, NEXT, END, STOP, INPUT or DEF (the property's "no conditional, no
   control transfer, no INPUT and no function definition"; with no function
   defined — part of the relation R — there are no calls either: a name
   followed by "(" is an array cell for both tools).

   [LineRun fi s s']: the interpreter executes the statements that stand between
   the cursor of [s] and the end of its line, one after another, every one
   successfully, and arrives in [s'].

   Theorem [straight_line_complete]: from related states (same program and
   cursor, typed runtime state — a fresh state is one), on a straight line, if
   the interpreter executes the rest of the line successfully then the checker's
   walk over the rest of that line ([walk_line], the function whose [Some msg]
   answers are the Error messages of the analysis) reports no error.  Read the
   other way round: an error reported on a straight line means that executing
   that line fails. *)
From Coq Require Import List NArith ZArith Bool Lia.
From Abasic Require Import Model.Bytes Model.Num Model.Token Model.Data Model.Lexer Gen.Tables
     Model.State Model.Eval Model.Interp Model.Analyzer Proofs.Monad Proofs.Frames Proofs.StoreProofs
     Proofs.Safety Proofs.Caps Proofs.ImmFrame Proofs.AnalyzerFrame Proofs.CheckSound Proofs.CheckAgree Proofs.AnalyzerFns
     Proofs.PlainToks Proofs.ProgSound.
Import ListNotations.
Local Open Scope nat_scope.

Definition straight_tok (t : token) : bool :=
  match t with
  | TIf | TThen | TElse | TGoto | TGosub | TReturn | TNext | TEnd | TStop | TInput | TDef => false
  | _ => true
  end.
Definition straight_line (ts : list token) : bool := forallb straight_tok ts.

(* ---- one statement ---- *)
Lemma R_quiet s s' sa : R s sa ->
  st_toks s' = st_toks s -> st_keys s' = st_keys s -> immediate s' = immediate s -> loc s' = loc s ->
  functions s' = functions s -> stack s' = stack s -> loops s' = loops s ->
  variables s' = variables s -> arrays s' = arrays s -> R s' sa.
Proof.
  intros HR E1 E2 E3 E4 E5 E6 E7 E8 E9. apply (R_ext s); try assumption. apply (caps_inv_ext s); try assumption. apply HR.
Qed.

Lemma abind_lift_run {A B} (p : M A) (g : A -> MA B) sa acc :
  abind (lift p) g (sa, acc) =
  match p sa with
  | (Ok x, p1) => g x (p1, acc)
  | (Err e l, p1) => (Err e l, (p1, acc))
  | (Panic pp, p1) => (Panic pp, (p1, acc))
  | (OutOfFuel, p1) => (OutOfFuel, (p1, acc))
  | (OracleMiss, p1) => (OracleMiss, (p1, acc))
  end.
Proof. unfold abind, lift. cbn [fst snd]. destruct (p sa) as [[x|e l|pp| |] p1]; reflexivity. Qed.

Lemma cp_has_next : cursor_prim has_next_token.
Proof. unfold has_next_token. apply cp_bind; [apply cp_peek | intro; apply cp_ret]. Qed.

Lemma cur_line_C s sa : C s sa -> cur_line s = cur_line sa.
Proof. intros (C1 & C2 & C3 & C4). unfold cur_line. rewrite C1, C3, C4. reflexivity. Qed.

(* the checker stays on its line over a non-branching statement *)
Lemma straight_stays f n arec t st st' :
  straight_tok t = true -> adispatch f n arec (Some t) st = (Ok tt, st') ->
  cur_line (fst st') = cur_line (fst st).
Proof.
  intros Ht E.
  destruct (plain_head (Some t)) eqn:Hp.
  - pose proof (aplp_dispatch f n arec (Some t) Hp st tt st' E) as Hpl.
    pose proof (line_of_PL plainT (fst st) (fst st') Hpl) as Hl. exact Hl.
  - destruct t; try discriminate Hp; try discriminate Ht. cbn [adispatch] in E. unfold aret in E. injection E as <-. reflexivity.
Qed.

(* the checker stays on its line, further right or in place *)
Lemma straight_stays_line f n arec t st st' :
  straight_tok t = true -> adispatch f n arec (Some t) st = (Ok tt, st') ->
  loc_line (loc (fst st')) = loc_line (loc (fst st)).
Proof.
  intros Ht E.
  destruct (plain_head (Some t)) eqn:Hp.
  - pose proof (aplp_dispatch f n arec (Some t) Hp st tt st' E) as (_ & _ & P3 & _). exact P3.
  - destruct t; try discriminate Hp; try discriminate Ht. cbn [adispatch] in E. unfold aret in E. injection E as <-. reflexivity.
Qed.

Lemma statement_agrees_on_line fi fa n s sa acc :
  R s sa -> straight_line (cur_line s) = true ->
  match evaluate_statement fi n s, analyze_statement fa n (sa, acc) with
  | (Ok _, s'), (Ok _, (sa', _)) => R s' sa' /\ cur_line s' = cur_line s /\ loc_line (loc s') = loc_line (loc s)
  | (Ok _, _), (Err _ _, _) => False
  | (Err e _, _), (Ok _, _) => benign e
  | _, _ => True
  end.
Proof.
  intros HR Hst. destruct fi as [|fi]; [cbn [evaluate_statement]; unfold out_of_fuel;
    destruct (analyze_statement fa n (sa, acc)) as [[[]|? ?|?| |] [? ?]]; exact I|].
  destruct fa as [|fa]; [cbn [analyze_statement]; destruct (evaluate_statement (S fi) n s) as [[[]|? ?|?| |] ?]; exact I|].
  cbn [evaluate_statement analyze_statement].
  destruct (Nat.eqb n max_nesting); [exact I|].
  rewrite body_split, an_statement_body_dispatch. rewrite Safety.bind_run.
  destruct (trace_quiet s) as (s0 & Et & T1 & T2 & T3 & T4 & T5 & T6 & T7 & T8 & T9). rewrite Et.
  assert (HR0 : R s0 sa) by (apply (R_quiet s); assumption).
  assert (Hcl0 : cur_line s0 = cur_line s) by (unfold cur_line; rewrite T1, T3, T4; reflexivity).
  rewrite abind_lift_run.
  destruct (cp_next_token s0 sa (proj1 HR0)) as (E & HC1 & K1 & K2).
  rewrite Safety.bind_run.
  destruct (next_token_cases s0) as [[p Hp] | [Hl Hn]].
  { rewrite Hp. destruct (next_token sa) as [[t|? ?|?| |] sa1]; cbn [fst snd];
      try (destruct (adispatch fa (S n) (analyze_statement fa (S n)) t (sa1, acc)) as [[[]|? ?|?| |] [? ?]]); exact I. }
  destruct (next_token s0) as [r s1] eqn:En0. destruct (next_token sa) as [r' sa1] eqn:Ena. cbn [fst snd] in *. subst r'.
  assert (HR1 : R s1 sa1) by (eapply R_same_rt; eassumption).
  destruct (nth_error (cur_line s0) (loc_idx (loc s0))) as [t|] eqn:Etok; injection Hn as Hr Hs1; subst r s1.
  2:{ (* end of the line *) cbn [edispatch adispatch]. unfold ret, aret. split; [exact HR1|].
      split; [rewrite <- Hcl0; destruct s0; reflexivity | rewrite <- T4; destruct s0; reflexivity]. }
  assert (Hcl1 : cur_line (advd s0) = cur_line s) by (rewrite <- Hcl0; destruct s0 as [? ? ? [? ?] ? ? ? ? ? ? ? ? ? ? ? ? ? ? ?]; reflexivity).
  assert (Htok : straight_tok t = true).
  { unfold straight_line in Hst. rewrite forallb_forall in Hst. apply Hst. rewrite <- Hcl0. eapply nth_error_In; eassumption. }
  assert (Hsa1 : cur_line sa1 = cur_line s) by (rewrite <- Hcl1; symmetry; apply cur_line_C; apply HR1).
  destruct (straight_head (Some t)) eqn:Hh.
  - pose proof (straight_statement_agrees fi fa (S n) (evaluate_statement fi (S n)) (analyze_statement fa (S n)) (Some t) Hh
                  (advd s0) sa1 acc HR1) as Hag.
    pose proof (straight_stays fa (S n) (analyze_statement fa (S n)) t (sa1, acc)) as Hstay.
    pose proof (straight_stays_line fa (S n) (analyze_statement fa (S n)) t (sa1, acc)) as Hstayl.
    destruct (edispatch fi (S n) (evaluate_statement fi (S n)) (Some t) (advd s0)) as [[[]|e l|p| |] s2];
      destruct (adispatch fa (S n) (analyze_statement fa (S n)) (Some t) (sa1, acc)) as [[[]|e' l'|p'| |] [sa2 acc2]];
      try exact Hag; try exact I.
    destruct Hag as [_ HR2]. split; [exact HR2|].
    specialize (Hstay (sa2, acc2) Htok eq_refl). specialize (Hstayl (sa2, acc2) Htok eq_refl). cbn [fst] in Hstay, Hstayl.
    split; [rewrite (cur_line_C s2 sa2 (proj1 HR2)), Hstay; exact Hsa1|].
    assert (E2 : loc s2 = loc sa2) by apply HR2. assert (E1 : loc (advd s0) = loc sa1) by apply HR1.
    rewrite E2, Hstayl, <- E1, <- T4. destruct s0 as [? ? ? [? ?] ? ? ? ? ? ? ? ? ? ? ? ? ? ? ?]; reflexivity.
  - (* not the start of a statement: both tools answer SYNTAX ERROR *)
    destruct t; try discriminate Hh; try discriminate Htok; cbn [edispatch adispatch]; exact I.
Qed.

(* ---- the line ---- *)
Inductive LineRun (fi : nat) : interp -> interp -> Prop :=
| LR_done s s1 : has_next_token s = (Ok false, s1) -> LineRun fi s s1
| LR_step s s1 s2 s' : has_next_token s = (Ok true, s1) -> evaluate_statement fi 0 s1 = (Ok tt, s2) ->
    LineRun fi s2 s' -> LineRun fi s s'.

Theorem straight_line_complete fi fa : forall k m s s', LineRun fi s s' ->
  forall sa acc, R s sa -> straight_line (cur_line s) = true ->
  match walk_line fa k m (sa, acc) with
  | (Ok (Some _), _) => False
  | _ => True
  end.
Proof.
  intros k m s s' Hrun. revert k. induction Hrun as [s s1 Hh | s s1 s2 s' Hh Hev Hrun IH]; intros k sa acc HR Hst.
  - destruct k as [|k]; [exact I|]. cbn [walk_line fst snd].
    destruct (cp_has_next s sa (proj1 HR)) as (E & _). rewrite Hh in E. cbn [fst] in E.
    destruct (has_next_token sa) as [r p1]. cbn [fst] in E. subst r. exact I.
  - destruct k as [|k]; [exact I|]. cbn [walk_line fst snd].
    destruct (cp_has_next s sa (proj1 HR)) as (E & HC1 & K1 & K2). rewrite Hh in *. cbn [fst snd] in *.
    destruct (has_next_token sa) as [r p1]. cbn [fst snd] in *. subst r.
    assert (HR1 : R s1 p1) by (eapply R_same_rt; eassumption).
    assert (Hst1 : straight_line (cur_line s1) = true).
    { replace (cur_line s1) with (cur_line s); [exact Hst|].
      unfold has_next_token in Hh. rewrite Safety.bind_run in Hh.
      destruct (peek_cases s) as [[p Hp] | [Hp _]]; rewrite Hp in Hh; [discriminate Hh|].
      unfold ret in Hh. injection Hh as _ <-. destruct s; reflexivity. }
    pose proof (statement_agrees_on_line fi fa 0 s1 p1 acc HR1 Hst1) as Hag. rewrite Hev in Hag.
    destruct (analyze_statement fa 0 (p1, acc)) as [[[]|e l|p| |] [sa2 acc2]]; try exact I; try contradiction.
    destruct Hag as (HR2 & Hcl & _). apply (IH k sa2 acc2 HR2). rewrite Hcl. exact Hst1.
Qed.

(* the same, read the other way round *)
Corollary straight_line_error_fails fi fa k m s sa acc msg st' :
  R s sa -> straight_line (cur_line s) = true ->
  walk_line fa k m (sa, acc) = (Ok (Some msg), st') -> ~ exists s', LineRun fi s s'.
Proof.
  intros HR Hst E (s' & Hrun). pose proof (straight_line_complete fi fa k m s s' Hrun sa acc HR Hst) as H.
  rewrite E in H. exact H.
Qed.

(* the statement steps of [LineRun] are the statements of the host's turns: a statement that
   fails makes the turn that executes it fail with the same error *)
Lemma turn_fails_with_statement fi s s1 e l s2 :
  has_next_token (set_state Running s) = (Ok true, s1) -> evaluate_statement fi 0 s1 = (Err e l, s2) ->
  run_next_statement fi s = (Err e l, s2).
Proof.
  intros Hh Hev. unfold run_next_statement. rewrite bind_modify, Safety.bind_run, Hh, Safety.bind_run, Hev. reflexivity.
Qed.

(* an executable form of [LineRun], for examples *)
Fixpoint line_run (k fi : nat) (s : interp) : option interp :=
  match k with
  | O => None
  | S k' =>
      match has_next_token s with
      | (Ok false, s1) => Some s1
      | (Ok true, s1) => match evaluate_statement fi 0 s1 with (Ok _, s2) => line_run k' fi s2 | _ => None end
      | _ => None
      end
  end.

Lemma line_run_sound fi : forall k s s', line_run k fi s = Some s' -> LineRun fi s s'.
Proof.
  induction k as [|k IH]; intros s s' E; cbn [line_run] in E; [discriminate E|].
  destruct (has_next_token s) as [[[|]|? ?|?| |] s1] eqn:Hh; try discriminate E.
  - destruct (evaluate_statement fi 0 s1) as [[[]|? ?|?| |] s2] eqn:Hev; try discriminate E.
    exact (LR_step fi s s1 s2 s' Hh Hev (IH s2 s' E)).
  - injection E as <-. exact (LR_done fi s s1 Hh).
Qed.

(* ... and a turn that succeeds has executed its statement successfully *)
Lemma turn_ok_statement_ok fi s s1 s' :
  has_next_token (set_state Running s) = (Ok true, s1) -> run_next_statement fi s = (Ok tt, s') ->
  exists s2, evaluate_statement fi 0 s1 = (Ok tt, s2).
Proof.
  intros Hh E. unfold run_next_statement in E. rewrite bind_modify, Safety.bind_run, Hh, Safety.bind_run in E.
  destruct (evaluate_statement fi 0 s1) as [[[]|e l|p| |] s2]; try discriminate E. exists s2. reflexivity.
Qed.

(* ---- the same over the host's turns ---- *)
(* [HostLine fi s]: the host calls the interpreter turn after turn while statements remain on the current line, and
   every one of these turns succeeds.  [on_line s s']: [s'] still stands on the line of [s] with a token under the cursor *)
Definition on_line (s s' : interp) : Prop :=
  loc_line (loc s') = loc_line (loc s) /\ nth_error (cur_line s') (loc_idx (loc s')) <> None.

Inductive HostLine (fi : nat) : interp -> Prop :=
| HL_done s s1 : has_next_token (set_state Running s) = (Ok false, s1) -> HostLine fi s
| HL_turn s s' : run_next_statement fi s = (Ok tt, s') -> (on_line s s' -> HostLine fi s') -> HostLine fi s.

Theorem host_line_complete fi fa : forall s, HostLine fi s ->
  forall k m sa acc, R s sa -> straight_line (cur_line s) = true ->
  match walk_line fa k m (sa, acc) with
  | (Ok (Some _), _) => False
  | _ => True
  end.
Proof.
  intros s H. induction H as [s s1 Hh | s s' Erun Hnext IH]; intros k m sa acc HR Hst.
  - destruct k as [|k]; [exact I|]. cbn [walk_line fst snd].
    assert (HRr : R (set_state Running s) sa) by (apply (R_quiet s); try (destruct s; reflexivity); exact HR).
    destruct (cp_has_next (set_state Running s) sa (proj1 HRr)) as (E & _). rewrite Hh in E. cbn [fst] in E.
    destruct (has_next_token sa) as [r p1]. cbn [fst] in E. subst r. exact I.
  - destruct k as [|k]; [exact I|]. cbn [walk_line fst snd].
    set (sR := set_state Running s) in *.
    assert (HRr : R sR sa) by (apply (R_quiet s); try (unfold sR; destruct s; reflexivity); exact HR).
    assert (Hstr : straight_line (cur_line sR) = true) by (replace (cur_line sR) with (cur_line s) by (unfold sR; destruct s; reflexivity); exact Hst).
    unfold run_next_statement in Erun. rewrite bind_modify, Safety.bind_run in Erun. fold sR in Erun.
    destruct (cp_has_next sR sa (proj1 HRr)) as (E & HC1 & K1 & K2).
    assert (Hb : snd (has_next_token sR) = bumped sR).
    { unfold has_next_token. rewrite Safety.bind_run. destruct (peek_cases sR) as [[p Hp] | [Hp _]]; rewrite Hp; reflexivity. }
    destruct (has_next_token sR) as [[[|]|e l|p| |] s1] eqn:Hh; try discriminate Erun; cbn [fst snd] in *.
    2:{ destruct (has_next_token sa) as [r p1]. cbn [fst] in E. subst r. exact I. }
    destruct (has_next_token sa) as [r p1]. cbn [fst snd] in *. subst r. subst s1.
    assert (HR1 : R (bumped sR) p1) by (eapply R_same_rt; eassumption).
    assert (Hst1 : straight_line (cur_line (bumped sR)) = true) by (replace (cur_line (bumped sR)) with (cur_line sR) by (destruct sR; reflexivity); exact Hstr).
    rewrite Safety.bind_run in Erun.
    pose proof (statement_agrees_on_line fi fa 0 (bumped sR) p1 acc HR1 Hst1) as Hag.
    destruct (evaluate_statement fi 0 (bumped sR)) as [[[]|e l|p| |] s2] eqn:Hev; try discriminate Erun.
    destruct (analyze_statement fa 0 (p1, acc)) as [[[]|e l|p| |] [sa2 acc2]]; try exact I; try contradiction.
    destruct Hag as (HR2 & Hcl & Hll).
    (* the rest of the turn: is anything left on the line? *)
    rewrite Safety.bind_run in Erun.
    assert (Hb2 : has_next_token s2 = (Panic PUnwrapLine, bumped s2) \/ (exists p, has_next_token s2 = (Panic p, bumped s2))
                  \/ has_next_token s2 = (Ok (match nth_error (cur_line s2) (loc_idx (loc s2)) with Some _ => true | None => false end), bumped s2)).
    { unfold has_next_token. rewrite Safety.bind_run. destruct (peek_cases s2) as [[p Hp] | [Hp _]]; rewrite Hp.
      - right. left. exists p. reflexivity.
      - right. right. unfold ret. destruct (nth_error (cur_line s2) (loc_idx (loc s2))); reflexivity. }
    destruct Hb2 as [Hp | [[p Hp] | Hp]]; rewrite Hp in Erun; try discriminate Erun.
    destruct (cp_has_next s2 sa2 (proj1 HR2)) as (E2 & _). rewrite Hp in E2. cbn [fst] in E2.
    destruct (nth_error (cur_line s2) (loc_idx (loc s2))) as [t2|] eqn:Et2.
    + (* more on the line: the next turn *)
      unfold ret in Erun. injection Erun as <-.
      apply (IH ltac:(split; [replace (loc_line (loc (bumped s2))) with (loc_line (loc s2)) by (destruct s2; reflexivity);
                                rewrite Hll; unfold sR; destruct s; reflexivity
                              | replace (cur_line (bumped s2)) with (cur_line s2) by (destruct s2; reflexivity);
                                replace (loc_idx (loc (bumped s2))) with (loc_idx (loc s2)) by (destruct s2; reflexivity);
                                rewrite Et2; discriminate]) k m sa2 acc2).
      * apply (R_quiet s2); try (destruct s2; reflexivity). exact HR2.
      * replace (cur_line (bumped s2)) with (cur_line s2) by (destruct s2; reflexivity). rewrite Hcl. exact Hst1.
    + (* the line is exhausted: so it is for the checker *)
      destruct k as [|k]; [exact I|]. cbn [walk_line fst snd].
      destruct (has_next_token sa2) as [r p2]. cbn [fst] in E2. subst r. exact I.
Qed.

Corollary host_line_error_fails fi fa k m s sa acc msg st' :
  R s sa -> straight_line (cur_line s) = true ->
  walk_line fa k m (sa, acc) = (Ok (Some msg), st') -> ~ HostLine fi s.
Proof.
  intros HR Hst E Hrun. pose proof (host_line_complete fi fa s Hrun k m sa acc HR Hst) as H.
  rewrite E in H. exact H.
Qed.

(* an executable form of [HostLine], for examples *)
Definition opt_N_eqb (a b : option N) : bool :=
  match a, b with Some x, Some y => N.eqb x y | None, None => true | _, _ => false end.
Definition on_line_b (s s' : interp) : bool :=
  opt_N_eqb (loc_line (loc s')) (loc_line (loc s))
  && match nth_error (cur_line s') (loc_idx (loc s')) with Some _ => true | None => false end.

Lemma on_line_b_complete s s' : on_line s s' -> on_line_b s s' = true.
Proof.
  intros [H1 H2]. unfold on_line_b. rewrite H1.
  replace (opt_N_eqb (loc_line (loc s)) (loc_line (loc s))) with true
    by (destruct (loc_line (loc s)); cbn; [rewrite N.eqb_refl|]; reflexivity).
  destruct (nth_error (cur_line s') (loc_idx (loc s'))); [reflexivity | contradiction].
Qed.

Fixpoint host_run (k fi : nat) (s : interp) : bool :=
  match k with
  | O => false
  | S k' =>
      match has_next_token (set_state Running s) with
      | (Ok false, _) => true
      | (Ok true, _) =>
          match run_next_statement fi s with
          | (Ok _, s') => if on_line_b s s' then host_run k' fi s' else true
          | _ => false
          end
      | _ => false
      end
  end.

Lemma host_run_sound fi : forall k s, host_run k fi s = true -> HostLine fi s.
Proof.
  induction k as [|k IH]; intros s E; cbn [host_run] in E; [discriminate E|].
  destruct (has_next_token (set_state Running s)) as [[[|]|? ?|?| |] s1] eqn:Hh; try discriminate E.
  - destruct (run_next_statement fi s) as [[[]|? ?|?| |] s'] eqn:Er; try discriminate E.
    apply (HL_turn fi s s' Er). intros Hon. rewrite (on_line_b_complete s s' Hon) in E. exact (IH s' E).
  - exact (HL_done fi s s1 Hh).
Qed.
