(* Proofs/ProgRun.v — C03: RUN, the host call that starts a program, is the
   first call of the simulated run (Proofs/ProgSim.v). *)
From Coq Require Import List NArith ZArith Bool Lia Sorted.
From Abasic Require Import Model.Bytes Model.Num Model.Token Model.Data Model.Lexer Gen.Tables
     Model.State Model.Eval Model.Interp Ref.RefSem Proofs.ExprSem Proofs.RefProofs Proofs.StmtSim Proofs.ProgSim.
From Abasic Require Proofs.StoreProofs Proofs.AnalyzerSafety.
Import ListNotations.
Local Open Scope nat_scope.


(* ------------------------------------------------------------------ *)
(* 6. RUN: the host call that starts a program is the first of these calls *)

Definition run_start (s : interp) : interp :=
  set_state Running
    (snd (run_from_first_numbered_line
            (set_arrays [] (set_variables [] (set_input None (StoreProofs.imm_reset [] s)))))).

Lemma command_of_RUN' : command_of (bs "RUN") = Some CRun.
Proof. vm_compute. reflexivity. Qed.

Lemma run_next_statement_running fuel s : run_next_statement fuel (set_state Running s) = run_next_statement fuel s.
Proof. unfold run_next_statement. rewrite !StoreProofs.bind_modify. destruct s; reflexivity. Qed.

Lemma continue_run_start fuel s :
  continue_evaluating fuel (run_start s) = postprocess (run_next_statement fuel (run_start s)).
Proof. reflexivity. Qed.

Lemma rffl_ok s : fst (run_from_first_numbered_line s) = Ok tt.
Proof.
  unfold run_from_first_numbered_line, reset_runtime_state, reset_data_cursor, program_end.
  rewrite StoreProofs.set_imm_is_modify. unfold modify, bind. reflexivity.
Qed.

Theorem run_is_first_turn fuel s :
  state s = Idle -> start_evaluating fuel (bs "RUN") s = continue_evaluating fuel (run_start s).
Proof.
  intros Hidle. rewrite continue_run_start. unfold start_evaluating. f_equal.
  unfold evaluate_impl.
  rewrite StoreProofs.bind_get, Hidle, StoreProofs.set_imm_is_modify, StoreProofs.bind_modify, command_of_RUN'.
  unfold process_command. rewrite !StoreProofs.bind_modify.
  unfold run_start. rewrite run_next_statement_running.
  set (s1 := set_arrays [] (set_variables [] (set_input None (StoreProofs.imm_reset [] s)))).
  pose proof (rffl_ok s1) as Hr.
  unfold bind at 1. destruct (run_from_first_numbered_line s1) as [r s2]. cbn [fst snd] in *. subst r. reflexivity.
Qed.

Lemma run_start_fields s :
  st_toks (run_start s) = st_toks s /\ st_keys (run_start s) = st_keys s /\ immediate (run_start s) = []
  /\ state (run_start s) = Running /\ variables (run_start s) = [] /\ stack (run_start s) = []
  /\ outputs (run_start s) = outputs s /\ enable_tracing (run_start s) = enable_tracing s
  /\ enable_warnings (run_start s) = enable_warnings s
  /\ loc (run_start s) = match hd_error (st_keys s) with Some n => mkloc (Some n) 0 | None => imm0 end
  /\ loops (run_start s) = [] /\ data_it (run_start s) = None.
Proof.
  unfold run_start, run_from_first_numbered_line, reset_runtime_state, reset_data_cursor, program_end.
  rewrite StoreProofs.set_imm_is_modify. unfold modify, bind, StoreProofs.imm_reset, store_first.
  destruct s as [tk ks ? ? ? ? ? ? ? ? ? ? ? ? ? ? ? ? ?]. cbn.
  destruct breakpoint; cbn; destruct ks; cbn; repeat split.
Qed.

(* a stored program of the fragment, about to be RUN *)
Theorem sim_from_run F p s seed n stmts :
  Inv F p s -> state s = Idle -> nth_error p 0 = Some (n, stmts) ->
  Sim F p (outputs s) (0, 0) (r_init seed) (run_start s).
Proof.
  intros HI Hidle Hp0.
  destruct (run_start_fields s) as (R1 & R2 & R3 & R4 & R5 & R6 & R7 & R8 & R9 & R10 & R11 & R12).
  generalize dependent (run_start s). intros rs R1 R2 R3 R4 R5 R6 R7 R8 R9 R10 R11 R12.
  assert (Hhd : hd_error (st_keys s) = Some n).
  { rewrite (i_keys F p s HI). destruct p as [|[n0 st0] p']; [discriminate|]. cbn in Hp0. inversion Hp0; subst. reflexivity. }
  rewrite Hhd in R10.
  assert (HI1 : Inv F p rs).
  { apply (Inv_ext F p s); [congruence|congruence| |congruence|congruence|exact HI].
    rewrite R3. symmetry. apply (i_imm F p s HI). }
  destruct (i_lines F p rs HI1 0 n stmts Hp0) as (toks & Ht & HL).
  apply (Sim_at F p (outputs s) 0 0 (r_init seed) rs false HI1).
  - exact R4.
  - split; intros name; [rewrite R6 | rewrite R5]; reflexivity.
  - rewrite R7. cbn. rewrite app_nil_r. reflexivity.
  - split; [reflexivity|]. rewrite R6. constructor.
  - unfold loops_rel. rewrite R11. constructor.
  - intros name x H. rewrite R5 in H. discriminate.
  - unfold data_rel. rewrite R12. reflexivity.
  - exists n, stmts, toks, toks. split; [exact Hp0|]. split; [exact Ht|].
    rewrite R10. split; [reflexivity|]. split; [reflexivity | exact HL].
Qed.

(* RUN on a stored program of the fragment: the RUN call is the first call of a
   run that simulates the reference interpreter from its initial state *)
Theorem run_simulates F p s seed n stmts :
  Inv F p s -> state s = Idle -> nth_error p 0 = Some (n, stmts) ->
  (forall fuel, start_evaluating fuel (bs "RUN") s = continue_evaluating fuel (run_start s))
  /\ forall k, after_step F p (outputs s) (rrun F p k (0, 0) (r_init seed)) (run_start s).
Proof.
  intros HI Hidle Hp0. split; [intros fuel; apply run_is_first_turn, Hidle|].
  intros k. apply fragment_simulation. eapply sim_from_run; eassumption.
Qed.
