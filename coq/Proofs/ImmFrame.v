(* Proofs/ImmFrame.v — the immediate line only shrinks while statements run.

   A clone of the frame section of Proofs/Frames.v for the relation
   [IM s s' : |immediate s'| <= |immediate s|]: no evaluator stores tokens into
   the immediate line (only the host call that receives a direct-mode line does);
   END, STOP and the end of the program empty it.  Used by Proofs/Termination.v:
   the token lists the cursor can be on during a host call are the stored lines
   and the immediate line the call started with. *)
From Coq Require Import List NArith ZArith Bool Lia.
From Abasic Require Import Model.Bytes Model.Num Model.Token Model.Data Model.Lexer Gen.Tables
     Model.State Model.Eval Model.Interp Proofs.Monad Proofs.Frames.
Import ListNotations.
Local Open Scope nat_scope.

Definition IM (s s' : interp) : Prop := length (immediate s') <= length (immediate s).

Lemma IM_preorder : preorder IM.
Proof. split; unfold IM; intros; lia. Qed.

Section ImmFrame.
  Let PO := IM_preorder.

  Ltac leaf :=
    first
      [ apply (mrel_modify IM); intros; unfold IM;
        repeat match goal with |- context [match ?x with _ => _ end] => destruct x end;
        cbn; lia
      | assumption
      | match goal with H : forall _, mrel _ _ |- _ => apply H end ].

  Ltac walk := autounfold with prims; mrel_walk PO leaf.

  Lemma imm_tokens_for_line l : mrel (IM) (tokens_for_line l).
  Proof.
    intros s; unfold tokens_for_line, IM. destruct l as [n|]; [|apply le_n].
    destruct (toks_get n (st_toks s)); apply le_n.
  Qed.
  Hint Resolve imm_tokens_for_line : core.

  Ltac leaf2 := first [ apply imm_tokens_for_line | leaf ].
  Ltac walk2 := autounfold with prims; mrel_walk PO leaf2.

  Lemma imm_peek : mrel (IM) peek_next_token. Proof. walk2. Qed.
  Lemma imm_has_next : mrel (IM) has_next_token. Proof. walk2. Qed.
  Lemma imm_next_token : mrel (IM) next_token. Proof. walk2. Qed.
  Lemma imm_next_unwrapped : mrel (IM) next_unwrapped_token. Proof. walk2. Qed.
  Lemma imm_expect t : mrel (IM) (expect_next_token t). Proof. walk2. Qed.
  Lemma imm_accept t : mrel (IM) (accept_next_token t). Proof. walk2. Qed.
  Lemma imm_peek_is t : mrel (IM) (peek_is t). Proof. walk2. Qed.
  Lemma imm_try {B} (g : token -> option B) : mrel (IM) (try_next_token g). Proof. walk2. Qed.
  Lemma imm_discard : mrel (IM) discard_remaining_tokens. Proof. walk2. Qed.

  Lemma imm_rewind_loop i t : mrel (IM) (rewind_loop i t).
  Proof. induction i as [|i IH]; cbn [rewind_loop]; walk2. Qed.

  Ltac leaf3 := first [ apply imm_rewind_loop | leaf2 ].
  Ltac walk3 := autounfold with prims; mrel_walk PO leaf3.

  Lemma imm_rewind t : mrel (IM) (rewind_before_token t). Proof. walk3. Qed.
  Lemma imm_set_imm : mrel IM (set_and_goto_immediate_line []).
  Proof. intros s. unfold set_and_goto_immediate_line, modify, IM. cbn. destruct (breakpoint s); cbn; lia. Qed.
  Lemma imm_remove_loop sym : mrel (IM) (remove_loop_with_name sym). Proof. walk3. Qed.
  Lemma imm_program_break : mrel (IM) program_break_at_current_location. Proof. walk3. Qed.
  Lemma imm_continue_bp : mrel (IM) continue_from_breakpoint. Proof. walk3. Qed.
  Lemma imm_variables_set n v : mrel (IM) (variables_set n v). Proof. walk3. Qed.
  Lemma imm_variables_get n : mrel (IM) (variables_get n). Proof. walk3. Qed.
  Lemma imm_start_loop sym a b c : mrel (IM) (start_loop sym a b c). Proof. walk3. Qed.
  Lemma imm_end_loop sym : mrel (IM) (end_loop sym). Proof. walk3. Qed.
  Lemma imm_reset_data : mrel (IM) reset_data_cursor. Proof. walk3. Qed.
  Lemma imm_program_end : mrel (IM) program_end. Proof. walk3. Qed.
  Lemma imm_reset_runtime : mrel (IM) reset_runtime_state. Proof. walk3. Qed.
  Lemma imm_run_from_first : mrel (IM) run_from_first_numbered_line. Proof. walk3. Qed.
  Lemma imm_goto n : mrel (IM) (goto_line_number n). Proof. walk3. Qed.
  Lemma imm_gosub n : mrel (IM) (gosub_line_number n). Proof. walk3. Qed.
  Lemma imm_return : mrel (IM) return_to_last_gosub. Proof. walk3. Qed.
  Lemma imm_define_function n a : mrel (IM) (define_function n a). Proof. walk3. Qed.
  Lemma imm_push_fn n b : mrel (IM) (push_function_call n b). Proof. walk3. Qed.
  Lemma imm_pop_fn : mrel (IM) pop_function_call. Proof. walk3. Qed.
  Lemma imm_find_var n : mrel (IM) (find_variable_value_in_stack n). Proof. walk3. Qed.
  Lemma imm_next_line : mrel (IM) next_line. Proof. walk3. Qed.
  Lemma imm_arrays_create n i : mrel (IM) (arrays_create n i). Proof. walk3. Qed.
  Lemma imm_maybe_default n d : mrel (IM) (maybe_create_default_array n d). Proof. walk3. Qed.
  Lemma imm_arrays_get n i : mrel (IM) (arrays_get n i). Proof. walk3. Qed.
  Lemma imm_arrays_set n i v : mrel (IM) (arrays_set n i v). Proof. walk3. Qed.
  Lemma imm_rng_rnd x : mrel (IM) (rng_rnd x). Proof. walk3. Qed.
  Lemma imm_push_output o : mrel (IM) (push_output o). Proof. walk3. Qed.
  Lemma imm_warn m : mrel (IM) (warn m). Proof. walk3. Qed.
  Lemma imm_maybe_warn n : mrel (IM) (maybe_warn_undeclared_array n). Proof. walk3. Qed.


  Lemma imm_next_data : mrel (IM) next_data_element.
  Proof.
    intros s; unfold next_data_element, IM.
    destruct (data_it s) as [d|].
    - destruct (data_next _ d); cbn [snd]; cbn; apply le_n.
    - destruct (data_chunks (st_keys s) (st_toks s)); try apply le_n.
      destruct (data_next _ _); cbn [snd]; cbn; apply le_n.
  Qed.

  (* operators *)
  Lemma imm_eval_unary o v : mrel (IM) (eval_unary o v).
  Proof. unfold eval_unary; walk3. Qed.
  Lemma imm_eval_addsub o a b : mrel (IM) (eval_addsub o a b).
  Proof. unfold eval_addsub; walk3. Qed.
  Lemma imm_eval_muldiv o a b : mrel (IM) (eval_muldiv o a b).
  Proof. unfold eval_muldiv; walk3. Qed.
  Lemma imm_eval_eq o a b : mrel (IM) (eval_eq o a b).
  Proof. unfold eval_eq; walk3. Qed.
  Lemma imm_eval_and a b : mrel (IM) (eval_and a b).
  Proof. unfold eval_and; walk3. Qed.
  Lemma imm_eval_or a b : mrel (IM) (eval_or a b).
  Proof. unfold eval_or; walk3. Qed.
  Lemma imm_eval_pow a b : mrel (IM) (eval_pow a b).
  Proof. unfold eval_pow; walk3. Qed.

  Lemma imm_expect_number v : mrel (IM) (expect_number v).
  Proof. unfold expect_number; walk3. Qed.

  Ltac leaf4 :=
    first
      [ apply imm_expect_number | apply imm_next_data | apply imm_rewind | apply imm_set_imm | apply imm_remove_loop
      | apply imm_program_break | apply imm_continue_bp | apply imm_variables_set
      | apply imm_variables_get | apply imm_start_loop | apply imm_end_loop
      | apply imm_reset_data | apply imm_program_end | apply imm_reset_runtime
      | apply imm_run_from_first | apply imm_goto | apply imm_gosub | apply imm_return
      | apply imm_define_function | apply imm_push_fn | apply imm_pop_fn | apply imm_find_var
      | apply imm_next_line | apply imm_arrays_create | apply imm_maybe_default
      | apply imm_arrays_get | apply imm_arrays_set | apply imm_rng_rnd | apply imm_push_output
      | apply imm_warn | apply imm_maybe_warn
      | apply imm_peek | apply imm_has_next | apply imm_next_token | apply imm_next_unwrapped
      | apply imm_expect | apply imm_accept | apply imm_peek_is | apply imm_try | apply imm_discard
      | apply imm_eval_unary | apply imm_eval_addsub | apply imm_eval_muldiv | apply imm_eval_eq
      | apply imm_eval_and | apply imm_eval_or | apply imm_eval_pow
      | leaf3 ].
  Ltac walk4 := mrel_walk PO leaf4.

  (* ---- expressions ---- *)
  Section Expr.
    Variable fuel : nat.
    Variable rec : M value.
    Hypothesis Hrec : mrel (IM) rec.

    Lemma imm_bind_arguments args i n b : mrel (IM) (bind_arguments rec args i n b).
    Proof.
      revert i b; induction args as [|a args IH]; intros i b; cbn [bind_arguments]; walk4.
      apply IH.
    Qed.

    Lemma imm_call_body : mrel (IM) (call_body rec).
    Proof.
      intros s. unfold call_body. pose proof (Hrec s) as H1.
      destruct (rec s) as [[v|e l|p| |] s1]; cbn [snd] in *; try exact H1.
      - pose proof (imm_pop_fn s1) as H2.
        destruct (pop_function_call s1) as [[u|e l|p| |] s2]; cbn [snd] in *;
          unfold IM in *; lia.
      - pose proof (imm_pop_fn s1) as H2.
        destruct (pop_function_call s1) as [[u|e2 l2|p| |] s2]; cbn [snd] in *;
          unfold IM in *; lia.
    Qed.

    Ltac leafE := first [ apply imm_bind_arguments | apply imm_call_body | leaf4 ].
    Ltac walkE := mrel_walk PO leafE.

    Lemma imm_array_index : mrel (IM) (evaluate_array_index fuel rec).
    Proof. unfold evaluate_array_index; walkE. Qed.

    Lemma imm_function_call name : mrel (IM) (function_call rec name).
    Proof. unfold function_call; walkE. Qed.

    Lemma imm_unary : mrel (IM) (unary_operator fuel rec).
    Proof.
      unfold unary_operator, parenthesized_expression, expression_term.
      mrel_walk PO ltac:(first [ apply imm_function_call | apply imm_array_index | leafE ]).
    Qed.

    Lemma imm_tier {O} (g : M (option O)) (operand : M value) (ap : O -> value -> value -> M value) :
      mrel (IM) g -> mrel (IM) operand -> (forall o a b, mrel (IM) (ap o a b)) ->
      mrel (IM) (tier fuel g operand ap).
    Proof. intros Hg Ho Ha. unfold tier; walkE; auto. Qed.

    Lemma imm_accept_as {O} t (o : O) : mrel (IM) (accept_as t o).
    Proof. unfold accept_as; walkE. Qed.

    Lemma imm_logical_or : mrel (IM) (logical_or_expression fuel rec).
    Proof.
      unfold logical_or_expression, logical_and_expression, equality_expression,
        plus_or_minus_expression, multiply_or_divide_expression, exponent_expression.
      repeat (apply imm_tier;
              [ first [apply imm_accept_as | apply imm_try] | | intros; leaf4 ]).
      apply imm_unary.
    Qed.
  End Expr.

  Lemma imm_evaluate_expression fuel : forall n, mrel (IM) (evaluate_expression fuel n).
  Proof.
    induction fuel as [|k IH]; intros n; cbn [evaluate_expression].
    - apply (mrel_out_of_fuel _ PO).
    - destruct (Nat.eqb n max_nesting); [apply (mrel_fail _ PO)|].
      apply imm_logical_or; apply IH.
  Qed.

  (* ---- statements ---- *)
  Section Stmt.
    Variable fuel : nat.
    Variable nest : nat.
    Variable rec : M unit.
    Hypothesis Hrec : mrel (IM) rec.

    Ltac leaf5 :=
      first [ apply imm_evaluate_expression
            | apply imm_array_index; apply imm_evaluate_expression
            | intros ?s0; unfold IM; apply le_n
            | leaf4 ].
    Ltac walk5 := mrel_walk PO leaf5.

    Lemma imm_optional_index : mrel (IM) (parse_optional_array_index fuel nest).
    Proof. unfold parse_optional_array_index, expr; walk5. Qed.

    Lemma imm_parse_lvalue : mrel (IM) (parse_lvalue fuel nest).
    Proof. unfold parse_lvalue; mrel_walk PO ltac:(first [apply imm_optional_index | leaf5]). Qed.

    Lemma imm_assign lv v : mrel (IM) (assign_value lv v).
    Proof. unfold assign_value; walk5. Qed.

    Ltac leaf6 := first [ apply imm_parse_lvalue | apply imm_optional_index | apply imm_assign | leaf5 ].
    Ltac walk6 := mrel_walk PO leaf6.

    Lemma imm_await : mrel (IM) rewind_program_and_await_input.
    Proof. unfold rewind_program_and_await_input; walk6. Qed.

    Lemma imm_break : mrel (IM) break_at_current_location.
    Proof. unfold break_at_current_location; walk6. Qed.

    Lemma imm_goto_stmt : mrel (IM) evaluate_goto_statement.
    Proof. unfold evaluate_goto_statement; walk6. Qed.

    Lemma imm_gosub_stmt : mrel (IM) evaluate_gosub_statement.
    Proof. unfold evaluate_gosub_statement; walk6. Qed.

    Lemma imm_stmt_or_goto : mrel (IM) (statement_or_goto_line_number rec).
    Proof. unfold statement_or_goto_line_number; mrel_walk PO ltac:(first [apply imm_goto_stmt | leaf6]). Qed.

    Lemma imm_if : mrel (IM) (evaluate_if_statement fuel nest rec).
    Proof. unfold evaluate_if_statement, expr; mrel_walk PO ltac:(first [apply imm_stmt_or_goto | leaf6]). Qed.

    Lemma imm_assignment sym : mrel (IM) (evaluate_assignment_statement fuel nest sym).
    Proof. unfold evaluate_assignment_statement, expr; walk6. Qed.

    Lemma imm_let : mrel (IM) (evaluate_let_statement fuel nest).
    Proof. unfold evaluate_let_statement; mrel_walk PO ltac:(first [apply imm_assignment | leaf6]). Qed.

    Lemma imm_read : mrel (IM) (evaluate_read_statement fuel nest).
    Proof. unfold evaluate_read_statement; walk6. Qed.

    Lemma imm_take_input : mrel (IM) take_input.
    Proof. unfold take_input; walk6. Qed.

    Lemma imm_input : mrel (IM) (evaluate_input_statement fuel nest).
    Proof.
      unfold evaluate_input_statement;
        mrel_walk PO ltac:(first [apply imm_take_input | apply imm_await | leaf6]).
    Qed.

    Lemma imm_dim : mrel (IM) (evaluate_dim_statement fuel nest).
    Proof. unfold evaluate_dim_statement; walk6. Qed.

    Lemma imm_print : mrel (IM) (evaluate_print_statement fuel nest).
    Proof. unfold evaluate_print_statement, expr; walk6. Qed.

    Lemma imm_for : mrel (IM) (evaluate_for_statement fuel nest).
    Proof. unfold evaluate_for_statement, expr; walk6. Qed.

    Lemma imm_next_stmt : mrel (IM) evaluate_next_statement.
    Proof. unfold evaluate_next_statement; walk6. Qed.

    Lemma imm_def : mrel (IM) (evaluate_def_statement fuel).
    Proof. unfold evaluate_def_statement; walk6. Qed.

    Lemma imm_statement_body : mrel (IM) (evaluate_statement_body fuel nest rec).
    Proof.
      unfold evaluate_statement_body;
      mrel_walk PO ltac:(
        first [ apply imm_break | apply imm_dim | apply imm_print | apply imm_input
              | apply imm_if | apply imm_goto_stmt | apply imm_gosub_stmt | apply imm_for
              | apply imm_next_stmt | apply imm_def | apply imm_read | apply imm_let
              | apply imm_assignment | leaf6 ]).
    Qed.
  End Stmt.

  Lemma imm_evaluate_statement fuel : forall n, mrel (IM) (evaluate_statement fuel n).
  Proof.
    induction fuel as [|k IH]; intros n; cbn [evaluate_statement].
    - apply (mrel_out_of_fuel _ PO).
    - destruct (Nat.eqb n max_nesting); [apply (mrel_fail _ PO)|].
      apply imm_statement_body; apply IH.
  Qed.

  Lemma imm_run_next_statement fuel : mrel (IM) (run_next_statement fuel).
  Proof.
    unfold run_next_statement, return_to_idle_state.
    mrel_walk PO ltac:(first [ apply imm_evaluate_statement | leaf4 ]).
  Qed.
End ImmFrame.
