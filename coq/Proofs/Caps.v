(* Proofs/Caps.v — C16: resource caps and name/type discipline as an inductive
   invariant of the interpreter state.

   [caps_inv] says: at most STACK_LIMIT frames and STACK_LIMIT open FOR loops,
   no two loops for the same variable, every array has exactly
   product-of-dimensions cells and at most MAX_DIM_TOTAL_ELEMENTS of them, and
   every stored binding (variable, array cell, function parameter) has the type
   its name announces ('$' = string).  It holds initially, is preserved by
   every primitive, by both evaluators whatever their outcome (Ok, Err, Panic,
   OutOfFuel, OracleMiss), by every host operation, and therefore in every
   reachable state.  The cap errors are characterised exactly at the primitive
   level, and [start_loop] is shown not to accumulate loops. *)
From Coq Require Import List NArith ZArith Bool Lia.
From Abasic Require Import Model.Bytes Model.Num Model.Token Model.Data Model.Lexer Gen.Tables
     Model.State Model.Eval Model.Interp Proofs.Monad Proofs.Frames Proofs.StoreProofs.
Import ListNotations.
Local Open Scope nat_scope.

(* ------------------------------------------------------------------ *)
(* The invariant *)

Definition typed_alist (l : list (bytes * value)) : Prop :=
  forall k v, In (k, v) l -> type_matches k v = true.

Definition cell_typed (str : bool) (v : value) : Prop :=
  match v with VStr _ => str = true | VNum _ => str = false end.

Definition arr_ok (name : bytes) (a : arr) : Prop :=
  (ar_dims a <> [] /\ Forall (fun d => (1 <= d)%N) (ar_dims a))
  /\ N.of_nat (length (ar_cells a)) = fold_right N.mul 1%N (ar_dims a)
  /\ (N.of_nat (length (ar_cells a)) <= MAX_DIM_TOTAL_ELEMENTS)%N
  /\ ar_str a = ends_with_dollar name
  /\ Forall (cell_typed (ar_str a)) (ar_cells a).

Definition arrays_ok (l : list (bytes * arr)) : Prop :=
  forall name a, In (name, a) l -> arr_ok name a.

Definition caps_inv (s : interp) : Prop :=
  length (stack s) <= stack_limit
  /\ length (loops s) <= stack_limit
  /\ NoDup (map lp_sym (loops s))
  /\ typed_alist (variables s)
  /\ Forall (fun fr => typed_alist (fr_vars fr)) (stack s)
  /\ arrays_ok (arrays s).

(* ------------------------------------------------------------------ *)
(* List facts *)

Lemma alist_set_In {V} k0 (v0 : V) l k v :
  In (k, v) (alist_set k0 v0 l) -> (k, v) = (k0, v0) \/ In (k, v) l.
Proof.
  induction l as [|[k' v'] l IH]; cbn [alist_set].
  - intros [H|[]]; left; symmetry; exact H.
  - destruct (bytes_eqb k0 k'); cbn [In].
    + intros [H|H]; [left; symmetry; exact H | right; right; exact H].
    + intros [H|H]; [right; left; exact H|].
      destruct (IH H) as [H'|H']; [left|right; right]; assumption.
Qed.

Lemma alist_get_In {V} k (l : list (bytes * V)) v : alist_get k l = Some v -> In (k, v) l.
Proof.
  induction l as [|[k' v'] l IH]; cbn [alist_get]; [discriminate|].
  destruct (bytes_eqb k k') eqn:E.
  - intros H; inversion H; subst. apply bytes_eqb_eq in E; subst. left; reflexivity.
  - intros H; right; apply IH; exact H.
Qed.

Lemma typed_alist_nil : typed_alist [].
Proof. intros k v []. Qed.

Lemma typed_alist_set k v l :
  typed_alist l -> type_matches k v = true -> typed_alist (alist_set k v l).
Proof.
  intros Hl Hkv k' v' Hin. apply alist_set_In in Hin. destruct Hin as [E|Hin].
  - inversion E; subst; exact Hkv.
  - apply Hl; exact Hin.
Qed.

Lemma arrays_ok_nil : arrays_ok [].
Proof. intros k v []. Qed.

Lemma arrays_ok_set name a l : arrays_ok l -> arr_ok name a -> arrays_ok (alist_set name a l).
Proof.
  intros Hl Ha n x Hin. apply alist_set_In in Hin. destruct Hin as [E|Hin].
  - inversion E; subst; exact Ha.
  - apply Hl; exact Hin.
Qed.

Lemma list_update_length {A} (l : list A) i v : length (list_update l i v) = length l.
Proof.
  revert i; induction l as [|x l IH]; intros [|i]; cbn [list_update length]; try reflexivity.
  rewrite IH; reflexivity.
Qed.

Lemma list_update_Forall {A} (P : A -> Prop) l i v :
  Forall P l -> P v -> Forall P (list_update l i v).
Proof.
  intros Hl Hv. revert i; induction Hl as [|x l Hx Hl IH]; intros [|i]; cbn [list_update];
    constructor; auto.
Qed.

Lemma firstn_incl {A} n (l : list A) x : In x (firstn n l) -> In x l.
Proof.
  revert n; induction l as [|y l IH]; intros [|n]; cbn [firstn In]; try tauto.
  intros [H|H]; [left; exact H | right; eapply IH; exact H].
Qed.

Lemma firstn_NoDup {A} n (l : list A) : NoDup l -> NoDup (firstn n l).
Proof.
  intros H; revert n; induction H as [|x l Hx Hl IH]; intros [|n]; cbn [firstn]; try constructor.
  - intros Hin; apply Hx; eapply firstn_incl; exact Hin.
  - apply IH.
Qed.

Lemma firstn_S_nth {A} (l : list A) i x :
  nth_error l i = Some x -> firstn (S i) l = firstn i l ++ [x].
Proof.
  revert i; induction l as [|y l IH]; intros [|i]; cbn [nth_error]; try discriminate.
  - intros H; inversion H; subst; reflexivity.
  - intros H. change (firstn (S (S i)) (y :: l)) with (y :: firstn (S i) l).
    rewrite (IH _ H). reflexivity.
Qed.

Lemma NoDup_snoc {A} (l : list A) x : NoDup l -> ~ In x l -> NoDup (l ++ [x]).
Proof.
  induction 1 as [|y l Hy Hl IH]; intros Hx; cbn [app].
  - constructor; [intros []|constructor].
  - constructor.
    + intros Hin. apply in_app_or in Hin. destruct Hin as [Hin|[E|[]]]; [exact (Hy Hin)|].
      apply Hx; left; symmetry; exact E.
    + apply IH. intros Hin; apply Hx; right; exact Hin.
Qed.

Lemma rev_cons_inv {A} (l : list A) x r : rev l = x :: r -> l = rev r ++ [x].
Proof. intros H. rewrite <- (rev_involutive l), H. reflexivity. Qed.

(* ------------------------------------------------------------------ *)
(* FOR-loop bookkeeping: [find_loop_rev] and what [remove_loop_with_name] keeps *)

Lemma find_loop_rev_Some sym ls i : find_loop_rev sym ls = Some i ->
  exists x, nth_error ls i = Some x /\ lp_sym x = sym.
Proof.
  revert i; induction ls as [|y r IH]; intros i; cbn [find_loop_rev]; [discriminate|].
  destruct (find_loop_rev sym r) as [j|].
  - intros H; inversion H; subst. cbn [nth_error]. apply IH; reflexivity.
  - destruct (bytes_eqb (lp_sym y) sym) eqn:E; [|discriminate].
    intros H; inversion H; subst. exists y; split; [reflexivity|apply bytes_eqb_eq; exact E].
Qed.

Lemma find_loop_rev_None sym ls : find_loop_rev sym ls = None -> ~ In sym (map lp_sym ls).
Proof.
  induction ls as [|y r IH]; cbn [find_loop_rev map In]; [tauto|].
  destruct (find_loop_rev sym r) as [j|]; [discriminate|].
  destruct (bytes_eqb (lp_sym y) sym) eqn:E; [discriminate|].
  intros _ [H|H]; [|apply IH; auto]. apply bytes_eqb_eq in H. congruence.
Qed.

(* with distinct loop variables, nothing below position [i] has the symbol at [i] *)
Lemma NoDup_below_nth ls i x :
  NoDup (map lp_sym ls) -> nth_error ls i = Some x ->
  ~ In (lp_sym x) (map lp_sym (firstn i ls)).
Proof.
  revert i; induction ls as [|y r IH]; intros [|i] Hnd Hn; cbn [nth_error firstn map In] in *;
    try discriminate; try tauto.
  inversion Hnd as [|? ? Hy Hr]; subst. intros [H|H].
  - apply Hy. rewrite H. apply in_map. eapply nth_error_In; exact Hn.
  - exact (IH i Hr Hn H).
Qed.

(* the loops that survive [remove_loop_with_name sym] *)
Definition loops_below (sym : bytes) (ls : list loop_info) : list loop_info :=
  match find_loop_rev sym ls with Some i => firstn i ls | None => ls end.

Lemma loops_below_length sym ls : length (loops_below sym ls) <= length ls.
Proof.
  unfold loops_below. destruct (find_loop_rev sym ls); [|lia].
  rewrite firstn_length. lia.
Qed.

Lemma loops_below_length_lt sym ls :
  In sym (map lp_sym ls) -> length (loops_below sym ls) < length ls.
Proof.
  unfold loops_below. intros Hin. destruct (find_loop_rev sym ls) as [i|] eqn:E.
  - destruct (find_loop_rev_Some _ _ _ E) as (x & Hx & _).
    assert (i < length ls) by (apply nth_error_Some; congruence).
    rewrite firstn_length. lia.
  - exfalso. exact (find_loop_rev_None _ _ E Hin).
Qed.

Lemma loops_below_NoDup sym ls : NoDup (map lp_sym ls) -> NoDup (map lp_sym (loops_below sym ls)).
Proof.
  unfold loops_below. intros H. destruct (find_loop_rev sym ls); [|exact H].
  rewrite <- firstn_map. apply firstn_NoDup; exact H.
Qed.

Lemma loops_below_fresh sym ls :
  NoDup (map lp_sym ls) -> ~ In sym (map lp_sym (loops_below sym ls)).
Proof.
  unfold loops_below. intros H. destruct (find_loop_rev sym ls) as [i|] eqn:E.
  - destruct (find_loop_rev_Some _ _ _ E) as (x & Hx & Hs). subst sym.
    apply NoDup_below_nth; assumption.
  - apply find_loop_rev_None; exact E.
Qed.

(* the state after [remove_loop_with_name sym] *)
Definition drop_loop (sym : bytes) (s : interp) : interp :=
  match find_loop_rev sym (loops s) with
  | Some i => set_loops (firstn i (loops s)) s
  | None => s
  end.

Lemma drop_loop_loops sym s : loops (drop_loop sym s) = loops_below sym (loops s).
Proof. unfold drop_loop, loops_below. destruct (find_loop_rev sym (loops s)); reflexivity. Qed.

Lemma remove_loop_eq sym s :
  remove_loop_with_name sym s =
  (Ok (match find_loop_rev sym (loops s) with Some i => nth_error (loops s) i | None => None end),
   drop_loop sym s).
Proof.
  unfold remove_loop_with_name, drop_loop. rewrite bind_get.
  destruct (find_loop_rev sym (loops s)); reflexivity.
Qed.

Lemma variables_set_eq name v s :
  variables_set name v s =
  if type_matches name v then (Ok tt, set_variables (alist_set name v (variables s)) s)
  else (Err ETypeMismatch None, s).
Proof. unfold variables_set. destruct (type_matches name v); reflexivity. Qed.

Lemma start_loop_eq sym a b c s :
  start_loop sym a b c s =
  let s1 := drop_loop sym s in
  if Nat.eqb (length (loops s1)) stack_limit then (Err EStackOverflow None, s1)
  else variables_set sym (VNum a) (set_loops (loops s1 ++ [mkloop (loc s1) sym b c]) s1).
Proof.
  unfold start_loop. unfold bind at 1. rewrite remove_loop_eq. cbv zeta.
  rewrite bind_get. destruct (Nat.eqb (length (loops (drop_loop sym s))) stack_limit); [reflexivity|].
  rewrite bind_get, bind_modify. reflexivity.
Qed.

(* ------------------------------------------------------------------ *)
(* Initial states *)

Theorem caps_init : caps_inv init_interp.
Proof.
  unfold caps_inv, init_interp; cbn [stack loops variables arrays length map].
  split; [apply Nat.le_0_l|]. split; [apply Nat.le_0_l|]. split; [constructor|].
  split; [apply typed_alist_nil|]. split; [constructor|apply arrays_ok_nil].
Qed.

Theorem caps_fresh oracle : caps_inv (fresh oracle).
Proof. exact caps_init. Qed.

(* ------------------------------------------------------------------ *)
(* The invariant reads four fields only *)

Lemma caps_inv_ext s s' :
  stack s' = stack s -> loops s' = loops s -> variables s' = variables s -> arrays s' = arrays s ->
  caps_inv s -> caps_inv s'.
Proof. unfold caps_inv. intros -> -> -> ->. exact (fun H => H). Qed.

Ltac caps_fields :=
  cbn [stack loops variables arrays
       set_store set_immediate set_loc set_breakpoint set_stack set_loops set_data_it
       set_functions set_input set_outputs set_state set_rng set_variables set_arrays
       set_flags set_oracle set_reads].

Lemma caps_set_stack v s :
  caps_inv s -> length v <= stack_limit -> Forall (fun fr => typed_alist (fr_vars fr)) v ->
  caps_inv (set_stack v s).
Proof. intros (_ & Hlp & Hnd & Hvs & _ & Har) Hl Hf. unfold caps_inv; caps_fields. tauto. Qed.

Lemma caps_set_loops v s :
  caps_inv s -> length v <= stack_limit -> NoDup (map lp_sym v) -> caps_inv (set_loops v s).
Proof. intros (Hst & _ & _ & Hvs & Hfr & Har) Hl Hn. unfold caps_inv; caps_fields. tauto. Qed.

Lemma caps_set_variables v s : caps_inv s -> typed_alist v -> caps_inv (set_variables v s).
Proof. intros (Hst & Hlp & Hnd & _ & Hfr & Har) Hv. unfold caps_inv; caps_fields. tauto. Qed.

Lemma caps_set_arrays v s : caps_inv s -> arrays_ok v -> caps_inv (set_arrays v s).
Proof. intros (Hst & Hlp & Hnd & Hvs & Hfr & _) Hv. unfold caps_inv; caps_fields. tauto. Qed.

Lemma caps_store_set n ts s : caps_inv s -> caps_inv (store_set n ts s).
Proof.
  intros H. unfold store_set. destruct ts; (eapply caps_inv_ext; [..|exact H]; reflexivity).
Qed.

(* a field emptied, the rest unchanged *)
Ltac caps_nil :=
  match goal with
  | H : caps_inv ?s |- caps_inv _ =>
      let Hst := fresh in let Hlp := fresh in let Hnd := fresh in
      let Hvs := fresh in let Hfr := fresh in let Har := fresh in
      destruct H as (Hst & Hlp & Hnd & Hvs & Hfr & Har);
      unfold caps_inv; caps_fields;
      (split; [|split; [|split; [|split; [|split]]]]);
      first [ assumption | apply Nat.le_0_l | apply NoDup_nil | apply Forall_nil
            | apply typed_alist_nil | apply arrays_ok_nil ]
  end.

(* the generic [modify] leaf: setters that leave the four fields alone, or empty one *)
Ltac caps_modify :=
  apply (mrel_modify (inv_rel caps_inv)); unfold inv_rel; intros ?s ?Hinv; cbv beta zeta;
  repeat match goal with |- context [match ?x with _ => _ end] => destruct x end;
  solve [ eassumption
        | eapply caps_inv_ext; [reflexivity|reflexivity|reflexivity|reflexivity|eassumption]
        | apply caps_store_set; eassumption
        | caps_nil ].

Lemma bind_ret {A B} (a : A) (K : A -> M B) s : bind (ret a) K s = K a s.
Proof. reflexivity. Qed.

(* value postconditions, for binds whose continuation needs a fact about the value *)
Definition mpost {A} (Q : A -> Prop) (m : M A) : Prop :=
  forall s a s', m s = (Ok a, s') -> Q a.

Lemma mpost_ret {A} (Q : A -> Prop) a : Q a -> mpost Q (ret a).
Proof. intros H s x s' E. inversion E; subst; exact H. Qed.

Lemma mpost_bind {A B} (Q : B -> Prop) (m : M A) (f : A -> M B) :
  (forall a, mpost Q (f a)) -> mpost Q (bind m f).
Proof.
  intros H s b s' E. unfold bind in E.
  destruct (m s) as [[a| | | |] s1]; try discriminate. eapply H; exact E.
Qed.

Lemma mpost_fail_bind {A B} (Q : B -> Prop) e (f : A -> M B) : mpost Q (bind (fail e) f).
Proof. intros s b s' E. discriminate E. Qed.

Lemma mrel_bind_post {A B} R (PO : preorder R) (Q : A -> Prop) (m : M A) (f : A -> M B) :
  mrel R m -> mpost Q m -> (forall a, Q a -> mrel R (f a)) -> mrel R (bind m f).
Proof.
  intros Hm HQ Hf s. unfold bind. specialize (Hm s). specialize (HQ s).
  destruct (m s) as [[a| | | |] s']; cbn [snd] in *; try exact Hm.
  eapply (po_trans _ PO); [exact Hm | apply Hf; eapply HQ; reflexivity].
Qed.

(* ------------------------------------------------------------------ *)
(* Arrays: DimArray::new *)

Definition dims_product (l : list N) : N := fold_right N.mul 1%N l.

Lemma dims_product_pos l : Forall (fun d => (1 <= d)%N) l -> (1 <= dims_product l)%N.
Proof.
  induction 1 as [|d l Hd Hl IH]; cbn [dims_product fold_right]; [lia|].
  fold (dims_product l). nia.
Qed.

Lemma dims_product_ge d l : Forall (fun d => (1 <= d)%N) l -> In d l -> (d <= dims_product l)%N.
Proof.
  induction 1 as [|x l Hx Hl IH]; cbn [In dims_product fold_right]; [tauto|].
  fold (dims_product l). pose proof (dims_product_pos l Hl) as Hp.
  intros [->|Hin]; [nia|]. specialize (IH Hin). nia.
Qed.

Lemma checked_product_spec l : Forall (fun d => (1 <= d)%N) l -> forall acc,
  match checked_product l acc with
  | Some t => t = (acc * dims_product l)%N
  | None => (USIZE_MAX < acc * dims_product l)%N
  end.
Proof.
  induction 1 as [|d l Hd Hl IH]; intros acc; cbn [checked_product dims_product fold_right].
  - lia.
  - fold (dims_product l). pose proof (dims_product_pos l Hl) as Hp.
    destruct (N.ltb_spec USIZE_MAX (acc * d)) as [Hlt|Hge].
    + nia.
    + specialize (IH (acc * d)%N). destruct (checked_product l (acc * d)); nia.
Qed.

Lemma dim_sizes_pos idx : Forall (fun d => (1 <= d)%N) (dim_sizes idx).
Proof. unfold dim_sizes. apply Forall_forall. intros d Hd. apply in_map_iff in Hd. destruct Hd as (m & <- & _). lia. Qed.

Lemma max_dim_le_usize : (MAX_DIM_TOTAL_ELEMENTS <= USIZE_MAX)%N.
Proof. apply N.leb_le. vm_compute. reflexivity. Qed.

(* Item 4 (arrays): the ARRAY TOO LARGE error is raised exactly when the true
   (unbounded) product of the dimension sizes exceeds the cap; otherwise the
   array is well-formed. *)
Theorem array_create_value_spec name idx : idx <> [] ->
  if (MAX_DIM_TOTAL_ELEMENTS <? dims_product (dim_sizes idx))%N
  then array_create_value name idx = Err EArrayTooLarge None
  else exists a, array_create_value name idx = Ok a /\ arr_ok name a /\ ar_dims a = dim_sizes idx.
Proof.
  intros Hne. pose proof (dim_sizes_pos idx) as Hpos. pose proof max_dim_le_usize as Hmax.
  unfold array_create_value. destruct idx as [|i0 idx']; [congruence|]. clear Hne.
  set (idx := i0 :: idx') in *.
  destruct (existsb (fun m => (USIZE_MAX <? m + 1)%N) idx) eqn:Eex.
  - apply existsb_exists in Eex. destruct Eex as (m & Hin & Hm). apply N.ltb_lt in Hm.
    assert (Hge : (m + 1 <= dims_product (dim_sizes idx))%N).
    { apply dims_product_ge; [exact Hpos|]. unfold dim_sizes. apply in_map_iff. exists m; auto. }
    destruct (N.ltb_spec MAX_DIM_TOTAL_ELEMENTS (dims_product (dim_sizes idx))); [reflexivity|lia].
  - pose proof (checked_product_spec _ Hpos 1%N) as Hcp.
    destruct (checked_product (dim_sizes idx) 1) as [t|].
    + rewrite N.mul_1_l in Hcp. subst t. unfold max_dim_total.
      destruct (N.ltb_spec MAX_DIM_TOTAL_ELEMENTS (dims_product (dim_sizes idx))) as [Hlt|Hle];
        [reflexivity|].
      eexists; split; [reflexivity|]. split; [|reflexivity].
      unfold arr_ok; cbn [ar_dims ar_cells ar_str]. rewrite repeat_length, N2Nat.id.
      split; [split; [subst idx; discriminate|exact Hpos]|]. split; [reflexivity|]. split; [exact Hle|].
      split; [reflexivity|]. apply Forall_forall. intros x Hx. apply repeat_spec in Hx. subst x.
      destruct (ends_with_dollar name); reflexivity.
    + rewrite N.mul_1_l in Hcp.
      destruct (N.ltb_spec MAX_DIM_TOTAL_ELEMENTS (dims_product (dim_sizes idx))); [reflexivity|lia].
Qed.

Lemma array_create_value_ok name idx a : array_create_value name idx = Ok a -> arr_ok name a.
Proof.
  intros E. destruct idx as [|i0 idx'] eqn:Ei; [discriminate E|]. rewrite <- Ei in *.
  assert (Hne : idx <> []) by (subst; discriminate).
  pose proof (array_create_value_spec name idx Hne) as H.
  destruct (MAX_DIM_TOTAL_ELEMENTS <? dims_product (dim_sizes idx))%N.
  - rewrite H in E; discriminate.
  - destruct H as (a' & Ha & Hok & _). congruence.
Qed.

(* ------------------------------------------------------------------ *)
(* Preservation *)

Section Preservation.
  Let PO := inv_rel_preorder caps_inv.

  Notation INV := (inv_rel caps_inv).

  (* the walker of Monad.v with a syntactic fast path: the generic rules are
     tried by unification only on heads that are not already a monad
     combinator *)
  Ltac cstep leaf :=
    lazymatch goal with
    | |- mrel _ (bind _ _) => apply (mrel_bind _ PO); [|intro]
    | |- mrel _ (ret _) => apply (mrel_ret _ PO)
    | |- mrel _ (fail _) => apply (mrel_fail _ PO)
    | |- mrel _ (fail_at _ _) => apply (mrel_fail_at _ PO)
    | |- mrel _ (panic _) => apply (mrel_panic _ PO)
    | |- mrel _ out_of_fuel => apply (mrel_out_of_fuel _ PO)
    | |- mrel _ oracle_miss => apply (mrel_oracle_miss _ PO)
    | |- mrel _ (get _) => apply (mrel_get _ PO)
    | |- mrel _ (lift_res _) => apply (mrel_lift_res _ PO)
    | |- mrel _ (repeat_m _ _ _) => apply (mrel_repeat _ PO); intro
    | |- mrel _ (match ?x with _ => _ end) => destruct x
    | |- mrel _ _ => first [ solve [leaf] | mrel_step PO leaf ]
    end.
  Ltac cwalk leaf := repeat (cstep leaf).
  Ltac head_of t := lazymatch t with ?f _ => head_of f | _ => t end.
  Ltac unfold_head := lazymatch goal with |- mrel _ ?m => let h := head_of m in unfold h end.
  Ltac uwalk leaf := unfold_head; cwalk leaf.

  (* ---- token cursor: never touches the four fields ---- *)

  Lemma caps_tokens_for_line l : mrel INV (tokens_for_line l).
  Proof.
    intros s; unfold tokens_for_line, inv_rel. destruct l as [n|]; [|exact (fun H => H)].
    destruct (toks_get n (st_toks s)); exact (fun H => H).
  Qed.

  Ltac leaf0 :=
    first [ lazymatch goal with
            | |- mrel _ (tokens_for_line _) => apply caps_tokens_for_line
            | |- mrel _ (modify _) => caps_modify
            | |- mrel _ advance => caps_modify
            end
          | assumption
          | match goal with H : forall _, mrel _ _ |- _ => apply H end ].

  Lemma caps_cur_tokens : mrel INV cur_tokens. Proof. uwalk leaf0. Qed.

  Ltac leaf1 :=
    first [ lazymatch goal with |- mrel _ cur_tokens => apply caps_cur_tokens end | leaf0 ].

  Lemma caps_peek : mrel INV peek_next_token. Proof. uwalk leaf1. Qed.

  Ltac leaf2 :=
    first [ lazymatch goal with |- mrel _ peek_next_token => apply caps_peek end | leaf1 ].

  Lemma caps_has_next : mrel INV has_next_token. Proof. uwalk leaf2. Qed.
  Lemma caps_next_token : mrel INV next_token. Proof. uwalk leaf2. Qed.
  Lemma caps_accept t : mrel INV (accept_next_token t). Proof. uwalk leaf2. Qed.
  Lemma caps_peek_is t : mrel INV (peek_is t). Proof. uwalk leaf2. Qed.
  Lemma caps_try {B} (g : token -> option B) : mrel INV (try_next_token g). Proof. uwalk leaf2. Qed.
  Lemma caps_discard : mrel INV discard_remaining_tokens. Proof. uwalk leaf2. Qed.

  Ltac leaf3 :=
    first [ lazymatch goal with
            | |- mrel _ has_next_token => apply caps_has_next
            | |- mrel _ next_token => apply caps_next_token
            | |- mrel _ (accept_next_token _) => apply caps_accept
            | |- mrel _ (peek_is _) => apply caps_peek_is
            | |- mrel _ (try_next_token _) => apply caps_try
            | |- mrel _ discard_remaining_tokens => apply caps_discard
            end
          | leaf2 ].

  Lemma caps_next_unwrapped : mrel INV next_unwrapped_token. Proof. uwalk leaf3. Qed.

  Lemma caps_expect t : mrel INV (expect_next_token t).
  Proof.
    unfold_head; cwalk ltac:(first [ lazymatch goal with
                               | |- mrel _ next_unwrapped_token => apply caps_next_unwrapped end
                             | leaf3 ]).
  Qed.

  Lemma caps_rewind_loop i t : mrel INV (rewind_loop i t).
  Proof. induction i as [|i IH]; cbn [rewind_loop]; cwalk leaf3. Qed.

  Lemma caps_rewind t : mrel INV (rewind_before_token t).
  Proof.
    unfold rewind_before_token.
    apply (mrel_bind _ PO); [apply (mrel_get _ PO)|intros l; apply caps_rewind_loop].
  Qed.

  Ltac leaf4 :=
    first [ lazymatch goal with
            | |- mrel _ next_unwrapped_token => apply caps_next_unwrapped
            | |- mrel _ (expect_next_token _) => apply caps_expect
            | |- mrel _ (rewind_before_token _) => apply caps_rewind
            end
          | leaf3 ].

  (* ---- program control ---- *)

  Lemma caps_get_line_number : mrel INV get_line_number. Proof. uwalk leaf4. Qed.
  Lemma caps_set_imm ts : mrel INV (set_and_goto_immediate_line ts). Proof. caps_modify. Qed.

  Lemma caps_drop_loop sym s : caps_inv s -> caps_inv (drop_loop sym s).
  Proof.
    intros Hinv. pose proof Hinv as (_ & Hlp & Hnd & _).
    unfold drop_loop. destruct (find_loop_rev sym (loops s)) as [i|] eqn:E; [|exact Hinv].
    apply caps_set_loops; [exact Hinv| |].
    - rewrite firstn_length. lia.
    - rewrite <- firstn_map. apply firstn_NoDup; exact Hnd.
  Qed.

  Lemma caps_remove_loop sym : mrel INV (remove_loop_with_name sym).
  Proof. intros s Hinv. rewrite remove_loop_eq. apply caps_drop_loop; exact Hinv. Qed.

  Lemma caps_variables_set n v : mrel INV (variables_set n v).
  Proof.
    intros s Hinv. rewrite variables_set_eq. destruct (type_matches n v) eqn:E; [|exact Hinv].
    apply caps_set_variables; [exact Hinv|]. apply typed_alist_set; [apply Hinv|exact E].
  Qed.

  Lemma caps_variables_get n : mrel INV (variables_get n). Proof. uwalk leaf4. Qed.

  Lemma caps_start_loop sym a b c : mrel INV (start_loop sym a b c).
  Proof.
    intros s Hinv. rewrite start_loop_eq. cbv zeta.
    pose proof (caps_drop_loop sym s Hinv) as H1.
    destruct (Nat.eqb (length (loops (drop_loop sym s))) stack_limit) eqn:E; [exact H1|].
    apply caps_variables_set. apply Nat.eqb_neq in E.
    pose proof H1 as (_ & Hlp & _).
    apply caps_set_loops; [exact H1| |].
    - rewrite app_length; cbn [length]. lia.
    - rewrite map_app; cbn [map lp_sym]. rewrite drop_loop_loops.
      destruct Hinv as (_ & _ & Hnd & _).
      apply NoDup_snoc; [apply loops_below_NoDup; exact Hnd | apply loops_below_fresh; exact Hnd].
  Qed.

  Lemma caps_end_loop sym : mrel INV (end_loop sym).
  Proof.
    unfold end_loop. apply (mrel_bind _ PO); [apply caps_variables_get|intros cur].
    destruct cur as [str|x]; [apply (mrel_fail _ PO)|].
    intros s Hinv. unfold bind at 1. rewrite remove_loop_eq. cbv beta iota zeta.
    pose proof (caps_drop_loop sym s Hinv) as H1.
    destruct (find_loop_rev sym (loops s)) as [i|] eqn:E; [|exact H1].
    destruct (nth_error (loops s) i) as [li|] eqn:En; [|exact H1].
    destruct (negb (bytes_eqb (lp_sym li) sym)); [exact H1|].
    match goal with |- context [bind (if ?c then _ else _) _] => destruct c end.
    - rewrite bind_modify. apply caps_variables_set.
      unfold drop_loop. rewrite E. caps_fields.
      destruct Hinv as (Hst & Hlp & Hnd & Hvs & Hfr & Har).
      rewrite <- (firstn_S_nth _ _ _ En).
      unfold caps_inv; caps_fields.
      split; [exact Hst|]. split; [rewrite firstn_length; lia|].
      split; [rewrite <- firstn_map; apply firstn_NoDup; exact Hnd|]. tauto.
    - rewrite bind_ret. apply caps_variables_set. exact H1.
  Qed.

  Lemma caps_reset_data : mrel INV reset_data_cursor. Proof. caps_modify. Qed.
  Lemma caps_program_end : mrel INV program_end. Proof. apply caps_set_imm. Qed.

  Ltac leaf5 :=
    first [ lazymatch goal with
            | |- mrel _ get_line_number => apply caps_get_line_number
            | |- mrel _ (set_and_goto_immediate_line _) => apply caps_set_imm
            | |- mrel _ (remove_loop_with_name _) => apply caps_remove_loop
            | |- mrel _ (variables_set _ _) => apply caps_variables_set
            | |- mrel _ (variables_get _) => apply caps_variables_get
            | |- mrel _ (start_loop _ _ _ _) => apply caps_start_loop
            | |- mrel _ (end_loop _) => apply caps_end_loop
            | |- mrel _ reset_data_cursor => apply caps_reset_data
            | |- mrel _ program_end => apply caps_program_end
            end
          | leaf4 ].

  Lemma caps_program_break : mrel INV program_break_at_current_location.
  Proof. uwalk leaf5. Qed.
  Lemma caps_continue_bp : mrel INV continue_from_breakpoint.
  Proof. uwalk leaf5. Qed.
  Lemma caps_reset_runtime : mrel INV reset_runtime_state.
  Proof. uwalk leaf5. Qed.
  Lemma caps_run_from_first : mrel INV run_from_first_numbered_line.
  Proof.
    unfold_head; cwalk ltac:(first [ lazymatch goal with
                               | |- mrel _ reset_runtime_state => apply caps_reset_runtime end
                             | leaf5 ]).
  Qed.
  Lemma caps_goto n : mrel INV (goto_line_number n).
  Proof. uwalk leaf5. Qed.
  Lemma caps_define_function n a : mrel INV (define_function n a).
  Proof. uwalk leaf5. Qed.
  Lemma caps_find_var n : mrel INV (find_variable_value_in_stack n).
  Proof. uwalk leaf5. Qed.
  Lemma caps_next_line : mrel INV next_line.
  Proof. uwalk leaf5. Qed.
  Lemma caps_set_numbered_line n ts : mrel INV (set_numbered_line n ts).
  Proof. uwalk leaf5. Qed.
  Lemma caps_rng_rnd x : mrel INV (rng_rnd x).
  Proof. uwalk leaf5. Qed.
  Lemma caps_push_output o : mrel INV (push_output o).
  Proof. caps_modify. Qed.

  (* ---- the frame stack ---- *)

  Lemma goto_eq n s :
    goto_line_number n s =
    if store_has n s then (Ok tt, set_loc (mkloc (Some n) 0) (set_breakpoint None s))
    else (Err EUndefinedStatement None, set_breakpoint None s).
  Proof.
    unfold goto_line_number. rewrite bind_modify, bind_get.
    change (store_has n (set_breakpoint None s)) with (store_has n s).
    destruct (store_has n s); reflexivity.
  Qed.

  Lemma caps_push_frame fr s :
    caps_inv s -> length (stack s) <> stack_limit -> typed_alist (fr_vars fr) ->
    caps_inv (set_stack (stack s ++ [fr]) s).
  Proof.
    intros Hinv Hne Hfr. pose proof Hinv as (Hst & _ & _ & _ & Hfrs & _).
    apply caps_set_stack; [exact Hinv| |].
    - rewrite app_length; cbn [length]. lia.
    - apply Forall_app; split; [exact Hfrs|]. constructor; [exact Hfr|constructor].
  Qed.

  Lemma caps_pop_frame fr rest s :
    caps_inv s -> rev (stack s) = fr :: rest -> caps_inv (set_stack (rev rest) s).
  Proof.
    intros Hinv E. pose proof Hinv as (Hst & _ & _ & _ & Hfrs & _).
    apply rev_cons_inv in E. rewrite E in Hst, Hfrs.
    rewrite app_length in Hst; cbn [length] in Hst. apply Forall_app in Hfrs.
    apply caps_set_stack; [exact Hinv|lia|apply Hfrs].
  Qed.

  Lemma caps_gosub n : mrel INV (gosub_line_number n).
  Proof.
    intros s Hinv. unfold gosub_line_number. rewrite bind_get.
    destruct (Nat.eqb (length (stack s)) stack_limit) eqn:E; [exact Hinv|].
    apply Nat.eqb_neq in E. rewrite bind_get. unfold bind. rewrite goto_eq.
    destruct (store_has n s); cbn [snd modify].
    - set (s1 := set_loc _ _).
      assert (H1 : caps_inv s1) by (eapply caps_inv_ext; [..|exact Hinv]; reflexivity).
      apply (caps_push_frame (mkframe (loc s) []) s1 H1); [exact E|apply typed_alist_nil].
    - eapply caps_inv_ext; [..|exact Hinv]; reflexivity.
  Qed.

  Lemma caps_return : mrel INV return_to_last_gosub.
  Proof.
    intros s Hinv. unfold return_to_last_gosub. rewrite bind_modify, bind_get.
    set (s1 := set_breakpoint None s).
    assert (H1 : caps_inv s1) by (eapply caps_inv_ext; [..|exact Hinv]; reflexivity).
    destruct (rev (stack s1)) as [|fr rest] eqn:E; [exact H1|].
    cbn [modify snd]. pose proof (caps_pop_frame _ _ _ H1 E) as H2.
    eapply caps_inv_ext; [..|exact H2]; reflexivity.
  Qed.

  Lemma caps_push_fn name b : typed_alist b -> mrel INV (push_function_call name b).
  Proof.
    intros Hb s Hinv. unfold push_function_call. rewrite bind_get.
    destruct (Nat.eqb (length (stack s)) stack_limit) eqn:E; [exact Hinv|].
    apply Nat.eqb_neq in E. rewrite bind_get, bind_modify, bind_get.
    pose proof (caps_push_frame (mkframe (loc s) b) s Hinv E Hb) as H1.
    destruct (alist_get name (functions (set_stack (stack s ++ [mkframe (loc s) b]) s)));
      [|exact H1].
    cbn [modify snd]. eapply caps_inv_ext; [..|exact H1]; reflexivity.
  Qed.

  Lemma caps_pop_fn : mrel INV pop_function_call.
  Proof.
    intros s Hinv. unfold pop_function_call. rewrite bind_get.
    destruct (rev (stack s)) as [|fr rest] eqn:E; [exact Hinv|].
    cbn [modify snd]. pose proof (caps_pop_frame _ _ _ Hinv E) as H2.
    eapply caps_inv_ext; [..|exact H2]; reflexivity.
  Qed.

  (* ---- arrays ---- *)

  Lemma caps_add_array name idx s a :
    caps_inv s -> array_create_value name idx = Ok a ->
    caps_inv (set_arrays (alist_set name a (arrays s)) s).
  Proof.
    intros Hinv E. apply caps_set_arrays; [exact Hinv|].
    apply arrays_ok_set; [apply Hinv|eapply array_create_value_ok; exact E].
  Qed.

  Lemma caps_arrays_create name idx : mrel INV (arrays_create name idx).
  Proof.
    intros s Hinv. unfold arrays_create. rewrite bind_get.
    destruct (alist_has name (arrays s)); [exact Hinv|].
    unfold bind, lift_res.
    destruct (array_create_value name idx) as [a|e l|p| |] eqn:E; try exact Hinv.
    cbn [modify snd]. eapply caps_add_array; [exact Hinv|exact E].
  Qed.

  Lemma caps_maybe_default name d : mrel INV (maybe_create_default_array name d).
  Proof.
    intros s Hinv. unfold maybe_create_default_array. rewrite bind_get.
    destruct (alist_has name (arrays s)); [exact Hinv|].
    unfold bind, lift_res.
    destruct (array_create_value name (repeat DEFAULT_ARRAY_SIZE d)) as [a|e l|p| |] eqn:E;
      try exact Hinv.
    cbn [modify snd]. eapply caps_add_array; [exact Hinv|exact E].
  Qed.

  Lemma caps_arrays_get name idx : mrel INV (arrays_get name idx).
  Proof.
    unfold arrays_get; cwalk ltac:(first [ lazymatch goal with
                               | |- mrel _ (maybe_create_default_array _ _) => apply caps_maybe_default end
                             | leaf5 ]).
  Qed.

  Lemma caps_arrays_set name idx v : mrel INV (arrays_set name idx v).
  Proof.
    intros s Hinv. unfold arrays_set.
    destruct (type_matches name v) eqn:Etm; cbn [negb]; [|exact Hinv].
    unfold bind at 1. pose proof (caps_maybe_default name (length idx) s Hinv) as H1.
    destruct (maybe_create_default_array name (length idx) s) as [[u|e l|p| |] s1];
      cbn [snd] in H1; try exact H1.
    rewrite bind_get. destruct (alist_get name (arrays s1)) as [a|] eqn:Ea; [|exact H1].
    destruct (Bool.eqb (ar_str a) match v with VStr _ => true | VNum _ => false end) eqn:Eb;
      cbn [negb]; [|exact H1].
    unfold bind, lift_res. destruct (array_linear_index a idx) as [i|e l|p| |]; try exact H1.
    destruct (Nat.ltb (N.to_nat i) (length (ar_cells a))); [|exact H1].
    cbn [modify snd]. apply caps_set_arrays; [exact H1|].
    apply arrays_ok_set; [apply H1|].
    apply alist_get_In in Ea. destruct H1 as (_ & _ & _ & _ & _ & Har).
    destruct (Har _ _ Ea) as (Hd & Hlen & Hcap & Hstr & Hcells).
    unfold arr_ok; cbn [ar_dims ar_cells ar_str]. rewrite list_update_length.
    split; [exact Hd|]. split; [exact Hlen|]. split; [exact Hcap|]. split; [exact Hstr|].
    apply list_update_Forall; [exact Hcells|].
    apply Bool.eqb_prop in Eb. destruct v; exact Eb.
  Qed.

  Lemma caps_warn m : mrel INV (warn m).
  Proof.
    unfold warn; cwalk ltac:(first [ lazymatch goal with
                               | |- mrel _ (push_output _) => apply caps_push_output end
                             | leaf5 ]).
  Qed.

  Lemma caps_maybe_warn n : mrel INV (maybe_warn_undeclared_array n).
  Proof.
    unfold maybe_warn_undeclared_array; cwalk ltac:(first [ lazymatch goal with
                               | |- mrel _ (warn _) => apply caps_warn end
                             | leaf5 ]).
  Qed.

  Lemma caps_next_data : mrel INV next_data_element.
  Proof.
    intros s Hinv; unfold next_data_element.
    destruct (data_it s) as [d|].
    - destruct (data_next _ d); cbn [snd]. eapply caps_inv_ext; [..|exact Hinv]; reflexivity.
    - destruct (data_chunks (st_keys s) (st_toks s)); try exact Hinv.
      destruct (data_next _ _); cbn [snd]. eapply caps_inv_ext; [..|exact Hinv]; reflexivity.
  Qed.

  Ltac leaf6 :=
    first [ lazymatch goal with
            | |- mrel _ program_break_at_current_location => apply caps_program_break
            | |- mrel _ continue_from_breakpoint => apply caps_continue_bp
            | |- mrel _ reset_runtime_state => apply caps_reset_runtime
            | |- mrel _ run_from_first_numbered_line => apply caps_run_from_first
            | |- mrel _ (goto_line_number _) => apply caps_goto
            | |- mrel _ (define_function _ _) => apply caps_define_function
            | |- mrel _ (find_variable_value_in_stack _) => apply caps_find_var
            | |- mrel _ next_line => apply caps_next_line
            | |- mrel _ (set_numbered_line _ _) => apply caps_set_numbered_line
            | |- mrel _ (rng_rnd _) => apply caps_rng_rnd
            | |- mrel _ (push_output _) => apply caps_push_output
            | |- mrel _ (gosub_line_number _) => apply caps_gosub
            | |- mrel _ return_to_last_gosub => apply caps_return
            | |- mrel _ (push_function_call _ _) => apply caps_push_fn; assumption
            | |- mrel _ pop_function_call => apply caps_pop_fn
            | |- mrel _ (arrays_create _ _) => apply caps_arrays_create
            | |- mrel _ (maybe_create_default_array _ _) => apply caps_maybe_default
            | |- mrel _ (arrays_get _ _) => apply caps_arrays_get
            | |- mrel _ (arrays_set _ _ _) => apply caps_arrays_set
            | |- mrel _ (warn _) => apply caps_warn
            | |- mrel _ (maybe_warn_undeclared_array _) => apply caps_maybe_warn
            | |- mrel _ next_data_element => apply caps_next_data
            end
          | leaf5 ].

  (* ---- operators ---- *)
  Lemma caps_eval_unary o v : mrel INV (eval_unary o v). Proof. uwalk leaf6. Qed.
  Lemma caps_eval_addsub o a b : mrel INV (eval_addsub o a b). Proof. uwalk leaf6. Qed.
  Lemma caps_eval_muldiv o a b : mrel INV (eval_muldiv o a b). Proof. uwalk leaf6. Qed.
  Lemma caps_eval_eq o a b : mrel INV (eval_eq o a b). Proof. uwalk leaf6. Qed.
  Lemma caps_eval_and a b : mrel INV (eval_and a b). Proof. uwalk leaf6. Qed.
  Lemma caps_eval_or a b : mrel INV (eval_or a b). Proof. uwalk leaf6. Qed.
  Lemma caps_eval_pow a b : mrel INV (eval_pow a b). Proof. uwalk leaf6. Qed.
  Lemma caps_expect_number v : mrel INV (expect_number v). Proof. uwalk leaf6. Qed.

  Ltac leaf7 :=
    first [ lazymatch goal with
            | |- mrel _ (eval_unary _ _) => apply caps_eval_unary
            | |- mrel _ (eval_addsub _ _ _) => apply caps_eval_addsub
            | |- mrel _ (eval_muldiv _ _ _) => apply caps_eval_muldiv
            | |- mrel _ (eval_eq _ _ _) => apply caps_eval_eq
            | |- mrel _ (eval_and _ _) => apply caps_eval_and
            | |- mrel _ (eval_or _ _) => apply caps_eval_or
            | |- mrel _ (eval_pow _ _) => apply caps_eval_pow
            | |- mrel _ (expect_number _) => apply caps_expect_number
            end
          | leaf6 ].

  (* ---- expressions ---- *)
  Section Expr.
    Variable fuel : nat.
    Variable rec : M value.
    Hypothesis Hrec : mrel INV rec.

    Lemma caps_bind_arguments args i n b : mrel INV (bind_arguments rec args i n b).
    Proof.
      revert i b; induction args as [|a args IH]; intros i b; cbn [bind_arguments]; cwalk leaf7.
      apply IH.
    Qed.

    (* every binding a call frame receives was checked against its parameter name *)
    Lemma bind_arguments_typed args : forall i n b,
      typed_alist b -> mpost typed_alist (bind_arguments rec args i n b).
    Proof.
      induction args as [|a args IH]; intros i n b Hb; cbn [bind_arguments].
      - apply mpost_ret; exact Hb.
      - apply mpost_bind; intros v. destruct (type_matches a v) eqn:E.
        + apply mpost_bind; intros _. apply mpost_bind; intros _.
          apply IH. apply typed_alist_set; assumption.
        + apply mpost_fail_bind.
    Qed.

    Lemma caps_call_body : mrel INV (call_body rec).
    Proof.
      intros s. unfold call_body. pose proof (Hrec s) as H1.
      destruct (rec s) as [[v|e l|p| |] s1]; cbn [snd] in *; try exact H1.
      - pose proof (caps_pop_fn s1) as H2.
        destruct (pop_function_call s1) as [[u|e l|p| |] s2]; cbn [snd] in *;
          unfold inv_rel in *; auto.
      - pose proof (caps_pop_fn s1) as H2.
        destruct (pop_function_call s1) as [[u|e2 l2|p| |] s2]; cbn [snd] in *;
          unfold inv_rel in *; auto.
    Qed.

    Ltac leafE :=
      first [ lazymatch goal with
              | |- mrel _ rec => exact Hrec
              | |- mrel _ (bind_arguments _ _ _ _ _) => apply caps_bind_arguments
              | |- mrel _ (call_body _) => apply caps_call_body
              end
            | leaf7 ].

    Lemma caps_array_index : mrel INV (evaluate_array_index fuel rec).
    Proof. uwalk leafE. Qed.

    Lemma caps_unary_arg : mrel INV (unary_number_function_arg rec).
    Proof. uwalk leafE. Qed.

    Lemma caps_user_function_call name : mrel INV (user_function_call rec name).
    Proof.
      unfold user_function_call.
      apply (mrel_bind _ PO); [apply (mrel_get _ PO)|intros fs].
      destruct (alist_get name fs) as [d|]; [|apply (mrel_ret _ PO)].
      apply (mrel_bind _ PO); [apply caps_expect|intros _].
      apply (mrel_bind_post _ PO typed_alist);
        [apply caps_bind_arguments | apply bind_arguments_typed; apply typed_alist_nil | intros b Hb].
      cwalk leafE.
    Qed.

    Lemma caps_function_call name : mrel INV (function_call rec name).
    Proof.
      unfold function_call.
      cwalk ltac:(first [ lazymatch goal with
                          | |- mrel _ (unary_number_function_arg _) => apply caps_unary_arg
                          | |- mrel _ (user_function_call _ _) => apply caps_user_function_call
                          end
                        | leafE ]).
    Qed.

    Lemma caps_expression_term : mrel INV (expression_term fuel rec).
    Proof.
      unfold expression_term.
      cwalk ltac:(first [ lazymatch goal with
                          | |- mrel _ (function_call _ _) => apply caps_function_call
                          | |- mrel _ (evaluate_array_index _ _) => apply caps_array_index
                          end
                        | leafE ]).
    Qed.

    Lemma caps_unary : mrel INV (unary_operator fuel rec).
    Proof.
      unfold unary_operator, parenthesized_expression.
      cwalk ltac:(first [ lazymatch goal with
                          | |- mrel _ (expression_term _ _) => apply caps_expression_term end
                        | leafE ]).
    Qed.

    Lemma caps_tier {O} (g : M (option O)) (operand : M value) (ap : O -> value -> value -> M value) :
      mrel INV g -> mrel INV operand -> (forall o a b, mrel INV (ap o a b)) ->
      mrel INV (tier fuel g operand ap).
    Proof. intros Hg Ho Ha. unfold tier; cwalk leafE; auto. Qed.

    Lemma caps_accept_as {O} t (o : O) : mrel INV (accept_as t o).
    Proof. unfold accept_as; cwalk leafE. Qed.

    Lemma caps_logical_or : mrel INV (logical_or_expression fuel rec).
    Proof.
      unfold logical_or_expression, logical_and_expression, equality_expression,
        plus_or_minus_expression, multiply_or_divide_expression, exponent_expression.
      repeat (apply caps_tier;
              [ first [apply caps_accept_as | apply caps_try] | | intros; leaf7 ]).
      apply caps_unary.
    Qed.
  End Expr.

  Theorem caps_evaluate_expression fuel : forall n, mrel INV (evaluate_expression fuel n).
  Proof.
    induction fuel as [|k IH]; intros n; cbn [evaluate_expression].
    - apply (mrel_out_of_fuel _ PO).
    - destruct (Nat.eqb n max_nesting); [apply (mrel_fail _ PO)|].
      apply caps_logical_or; apply IH.
  Qed.

  (* ---- statements ---- *)
  Section Stmt.
    Variable fuel : nat.
    Variable nest : nat.
    Variable rec : M unit.
    Hypothesis Hrec : mrel INV rec.

    Ltac leafS :=
      first [ lazymatch goal with
              | |- mrel _ rec => exact Hrec
              | |- mrel _ (expr _ _) => apply caps_evaluate_expression
              | |- mrel _ (evaluate_expression _ _) => apply caps_evaluate_expression
              | |- mrel _ (evaluate_array_index _ _) =>
                  apply caps_array_index; apply caps_evaluate_expression
              end
            | leaf7 ].

    Lemma caps_optional_index : mrel INV (parse_optional_array_index fuel nest).
    Proof. uwalk leafS. Qed.

    Lemma caps_parse_lvalue : mrel INV (parse_lvalue fuel nest).
    Proof.
      unfold parse_lvalue.
      cwalk ltac:(first [ lazymatch goal with
                          | |- mrel _ (parse_optional_array_index _ _) => apply caps_optional_index end
                        | leafS ]).
    Qed.

    Lemma caps_assign lv v : mrel INV (assign_value lv v).
    Proof. uwalk leafS. Qed.

    Lemma caps_await : mrel INV rewind_program_and_await_input.
    Proof. uwalk leafS. Qed.

    Lemma caps_break : mrel INV break_at_current_location.
    Proof. uwalk leafS. Qed.

    Lemma caps_goto_stmt : mrel INV evaluate_goto_statement.
    Proof. uwalk leafS. Qed.

    Lemma caps_gosub_stmt : mrel INV evaluate_gosub_statement.
    Proof. uwalk leafS. Qed.

    Ltac leafS2 :=
      first [ lazymatch goal with
              | |- mrel _ (parse_optional_array_index _ _) => apply caps_optional_index
              | |- mrel _ (parse_lvalue _ _) => apply caps_parse_lvalue
              | |- mrel _ (assign_value _ _) => apply caps_assign
              | |- mrel _ rewind_program_and_await_input => apply caps_await
              | |- mrel _ break_at_current_location => apply caps_break
              | |- mrel _ evaluate_goto_statement => apply caps_goto_stmt
              | |- mrel _ evaluate_gosub_statement => apply caps_gosub_stmt
              end
            | leafS ].

    Lemma caps_stmt_or_goto : mrel INV (statement_or_goto_line_number rec).
    Proof. uwalk leafS2. Qed.

    Lemma caps_if : mrel INV (evaluate_if_statement fuel nest rec).
    Proof.
      unfold evaluate_if_statement.
      cwalk ltac:(first [ lazymatch goal with
                          | |- mrel _ (statement_or_goto_line_number _) => apply caps_stmt_or_goto end
                        | leafS2 ]).
    Qed.

    Lemma caps_assignment sym : mrel INV (evaluate_assignment_statement fuel nest sym).
    Proof. uwalk leafS2. Qed.

    Lemma caps_let : mrel INV (evaluate_let_statement fuel nest).
    Proof.
      unfold evaluate_let_statement.
      cwalk ltac:(first [ lazymatch goal with
                          | |- mrel _ (evaluate_assignment_statement _ _ _) => apply caps_assignment end
                        | leafS2 ]).
    Qed.

    Lemma caps_read : mrel INV (evaluate_read_statement fuel nest).
    Proof. uwalk leafS2. Qed.

    Lemma caps_take_input : mrel INV take_input.
    Proof. uwalk leafS2. Qed.

    Lemma caps_input : mrel INV (evaluate_input_statement fuel nest).
    Proof.
      unfold evaluate_input_statement.
      cwalk ltac:(first [ lazymatch goal with
                          | |- mrel _ take_input => apply caps_take_input
                          | |- mrel _ (fun s => (Err _ _, s)) => intros ?s0; exact (fun H => H)
                          end
                        | leafS2 ]).
    Qed.

    Lemma caps_dim : mrel INV (evaluate_dim_statement fuel nest).
    Proof. uwalk leafS2. Qed.

    Lemma caps_print : mrel INV (evaluate_print_statement fuel nest).
    Proof. uwalk leafS2. Qed.

    Lemma caps_for : mrel INV (evaluate_for_statement fuel nest).
    Proof. uwalk leafS2. Qed.

    Lemma caps_next_stmt : mrel INV evaluate_next_statement.
    Proof. uwalk leafS2. Qed.

    Lemma caps_def : mrel INV (evaluate_def_statement fuel).
    Proof. uwalk leafS2. Qed.

    Lemma caps_is_else : mrel INV is_else_of_then_clause.
    Proof. uwalk leafS2. Qed.

    Lemma caps_statement_body : mrel INV (evaluate_statement_body fuel nest rec).
    Proof.
      unfold evaluate_statement_body.
      cwalk ltac:(first [ lazymatch goal with
                          | |- mrel _ (evaluate_dim_statement _ _) => apply caps_dim
                          | |- mrel _ (evaluate_print_statement _ _) => apply caps_print
                          | |- mrel _ (evaluate_input_statement _ _) => apply caps_input
                          | |- mrel _ (evaluate_if_statement _ _ _) => apply caps_if
                          | |- mrel _ (evaluate_for_statement _ _) => apply caps_for
                          | |- mrel _ evaluate_next_statement => apply caps_next_stmt
                          | |- mrel _ (evaluate_def_statement _) => apply caps_def
                          | |- mrel _ (evaluate_read_statement _ _) => apply caps_read
                          | |- mrel _ (evaluate_let_statement _ _) => apply caps_let
                          | |- mrel _ (evaluate_assignment_statement _ _ _) => apply caps_assignment
                          | |- mrel _ is_else_of_then_clause => apply caps_is_else
                          end
                        | leafS2 ]).
    Qed.
  End Stmt.

  Theorem caps_evaluate_statement fuel : forall n, mrel INV (evaluate_statement fuel n).
  Proof.
    induction fuel as [|k IH]; intros n; cbn [evaluate_statement].
    - apply (mrel_out_of_fuel _ PO).
    - destruct (Nat.eqb n max_nesting); [apply (mrel_fail _ PO)|].
      apply caps_statement_body; apply IH.
  Qed.

  (* ---- the host API ---- *)

  Ltac leafI :=
    first [ lazymatch goal with
            | |- mrel _ (evaluate_statement _ _) => apply caps_evaluate_statement
            | |- mrel _ return_to_idle_state => caps_modify
            end
          | leaf7 ].

  Theorem caps_run_next_statement fuel : mrel INV (run_next_statement fuel).
  Proof. uwalk leafI. Qed.

  Lemma caps_process_command fuel c : mrel INV (process_command fuel c).
  Proof.
    unfold process_command.
    cwalk ltac:(first [ lazymatch goal with
                        | |- mrel _ (run_next_statement _) => apply caps_run_next_statement
                        | |- mrel _ (fun s => (list_lines _ _, s)) => intros ?s0; exact (fun H => H)
                        end
                      | leafI ]).
  Qed.

  Lemma caps_evaluate_impl fuel line : mrel INV (evaluate_impl fuel line).
  Proof.
    unfold evaluate_impl.
    cwalk ltac:(first [ lazymatch goal with
                        | |- mrel _ (run_next_statement _) => apply caps_run_next_statement
                        | |- mrel _ (process_command _ _) => apply caps_process_command
                        end
                      | leafI ]).
  Qed.

  Lemma caps_postprocess {A} (r : res A * interp) :
    caps_inv (snd r) -> caps_inv (snd (postprocess r)).
  Proof.
    destruct r as [[a|e l|p| |] s]; cbn [postprocess snd]; intros H; try exact H.
  Qed.

  Lemma caps_start_evaluating fuel line : mrel INV (start_evaluating fuel line).
  Proof.
    intros s Hinv. unfold start_evaluating. apply caps_postprocess.
    apply caps_evaluate_impl; exact Hinv.
  Qed.

  Lemma caps_continue_evaluating fuel : mrel INV (continue_evaluating fuel).
  Proof.
    intros s Hinv. unfold continue_evaluating. destruct (state s); try exact Hinv.
    apply caps_postprocess. apply caps_run_next_statement; exact Hinv.
  Qed.

  Lemma caps_provide_input text : mrel INV (provide_input text).
  Proof.
    intros s Hinv. unfold provide_input. destruct (state s); exact Hinv.
  Qed.

  Lemma caps_host_break : mrel INV host_break.
  Proof. apply caps_break. Qed.

  Lemma caps_randomize seed : mrel INV (randomize seed).
  Proof. unfold randomize. caps_modify. Qed.

  Lemma caps_make_row r line s : caps_inv s -> caps_inv (snd (make_row r line s)).
  Proof.
    intros H. unfold make_row, take_outputs. cbn [snd].
    eapply caps_inv_ext; [..|exact H]; reflexivity.
  Qed.
End Preservation.

(* ------------------------------------------------------------------ *)
(* Host operations and histories *)

Lemma caps_run_then_row {r : res unit * interp} line :
  caps_inv (snd r) ->
  caps_inv (snd (let '(r0, s1) := r in let '(rw, s2) := make_row r0 line s1 in (Some rw, s2))).
Proof.
  destruct r as [r0 s1]. cbn [snd]. intros H.
  pose proof (caps_make_row r0 line s1 H) as H2.
  destruct (make_row r0 line s1) as [rw s2]. exact H2.
Qed.

(* every host operation, legal or not, keeps the invariant *)
Theorem caps_step : forall fuel s op, caps_inv s -> caps_inv (snd (step fuel s op)).
Proof.
  intros fuel s op Hinv. unfold step.
  destruct (negb (legal s op)); [exact Hinv|].
  assert (H0 : caps_inv (set_reads 0 s)) by (eapply caps_inv_ext; [..|exact Hinv]; reflexivity).
  destruct op as [text| |text| |seed| |w t|].
  - apply caps_run_then_row. apply caps_start_evaluating; exact H0.
  - apply caps_run_then_row. apply caps_continue_evaluating; exact H0.
  - apply caps_run_then_row. apply caps_provide_input; exact H0.
  - apply caps_run_then_row. apply caps_host_break; exact H0.
  - apply caps_run_then_row. apply caps_randomize; exact H0.
  - pose proof (caps_make_row (Ok tt) None _ (caps_fresh (pow_oracle s))) as H2.
    destruct (make_row (Ok tt) None (fresh (pow_oracle s))) as [rw s2]. exact H2.
  - cbn [snd]. eapply caps_inv_ext; [..|exact Hinv]; reflexivity.
  - cbn [snd]. apply caps_fresh.
Qed.

Theorem caps_reachable : forall fuel ops s, caps_inv s -> caps_inv (run_state fuel s ops).
Proof.
  intros fuel ops; induction ops as [|op ops IH]; intros s Hinv; cbn [run_state]; [exact Hinv|].
  apply IH. apply caps_step; exact Hinv.
Qed.

Corollary caps_session : forall fuel oracle ops, caps_inv (run_state fuel (fresh oracle) ops).
Proof. intros. apply caps_reachable, caps_fresh. Qed.

(* the invariant in the numbers of the table; the English statement of C16
   quotes 32 / 10000 / 10, so this is re-decided whenever Gen/Tables.v changes *)
Example caps_constants :
  STACK_LIMIT = 32%N /\ MAX_DIM_TOTAL_ELEMENTS = 10000%N /\ DEFAULT_ARRAY_SIZE = 10%N.
Proof. vm_compute. repeat split. Qed.

Corollary caps_numeric s : caps_inv s ->
  (N.of_nat (length (stack s)) <= STACK_LIMIT)%N
  /\ (N.of_nat (length (loops s)) <= STACK_LIMIT)%N
  /\ (forall name a, In (name, a) (arrays s) ->
        N.of_nat (length (ar_cells a)) = dims_product (ar_dims a)
        /\ (N.of_nat (length (ar_cells a)) <= MAX_DIM_TOTAL_ELEMENTS)%N).
Proof.
  intros (Hst & Hlp & _ & _ & _ & Har). unfold stack_limit in *.
  split; [lia|]. split; [lia|]. intros name a Hin.
  destruct (Har _ _ Hin) as (_ & Hlen & Hcap & _). split; assumption.
Qed.

(* with distinct loop variables, at most one open loop per variable of the program *)
Corollary loops_bounded_by_variables s univ :
  caps_inv s -> incl (map lp_sym (loops s)) univ -> length (loops s) <= length univ.
Proof.
  intros (_ & _ & Hnd & _) Hincl. rewrite <- (map_length lp_sym).
  apply NoDup_incl_length; assumption.
Qed.

(* ------------------------------------------------------------------ *)
(* Item 4: the cap errors, exactly *)

Theorem gosub_overflow n s :
  length (stack s) = stack_limit -> gosub_line_number n s = (Err EStackOverflow None, s).
Proof. intros H. unfold gosub_line_number. rewrite bind_get, H, Nat.eqb_refl. reflexivity. Qed.

(* ... and only then: below the cap GOSUB pushes exactly one frame or reports
   the missing line *)
Theorem gosub_below_cap n s :
  length (stack s) <> stack_limit ->
  gosub_line_number n s =
  if store_has n s
  then (Ok tt, set_stack (stack s ++ [mkframe (loc s) []])
                 (set_loc (mkloc (Some n) 0) (set_breakpoint None s)))
  else (Err EUndefinedStatement None, set_breakpoint None s).
Proof.
  intros H. apply Nat.eqb_neq in H. unfold gosub_line_number. rewrite bind_get, H, bind_get.
  unfold bind. rewrite goto_eq. destruct (store_has n s); reflexivity.
Qed.

Theorem push_function_call_overflow name b s :
  length (stack s) = stack_limit -> push_function_call name b s = (Err EStackOverflow None, s).
Proof. intros H. unfold push_function_call. rewrite bind_get, H, Nat.eqb_refl. reflexivity. Qed.

Theorem push_function_call_below_cap name b s :
  length (stack s) <> stack_limit ->
  stack (snd (push_function_call name b s)) = stack s ++ [mkframe (loc s) b]
  /\ fst (push_function_call name b s) <> Err EStackOverflow None.
Proof.
  intros H. apply Nat.eqb_neq in H. unfold push_function_call.
  rewrite bind_get, H, bind_get, bind_modify, bind_get.
  destruct (alist_get name (functions (set_stack (stack s ++ [mkframe (loc s) b]) s)));
    split; try reflexivity; discriminate.
Qed.

(* FOR: the loop for the same variable and everything above it are dropped
   first; the error is raised exactly when [stack_limit] loops remain *)
Theorem start_loop_overflow sym a b c s :
  length (loops_below sym (loops s)) = stack_limit ->
  start_loop sym a b c s = (Err EStackOverflow None, drop_loop sym s).
Proof.
  intros H. rewrite start_loop_eq. cbv zeta. rewrite drop_loop_loops, H, Nat.eqb_refl. reflexivity.
Qed.

Theorem start_loop_below_cap sym a b c s :
  length (loops_below sym (loops s)) <> stack_limit ->
  fst (start_loop sym a b c s) <> Err EStackOverflow None
  /\ loops (snd (start_loop sym a b c s)) = loops_below sym (loops s) ++ [mkloop (loc s) sym b c].
Proof.
  intros H. apply Nat.eqb_neq in H. rewrite start_loop_eq. cbv zeta.
  rewrite drop_loop_loops, H, variables_set_eq.
  assert (Hloc : loc (drop_loop sym s) = loc s).
  { unfold drop_loop. destruct (find_loop_rev sym (loops s)); reflexivity. }
  rewrite Hloc. destruct (type_matches sym (VNum a)); split; try reflexivity; discriminate.
Qed.

(* Arrays: see [array_create_value_spec] above; here lifted to DIM *)
Theorem arrays_create_too_large name idx s :
  idx <> [] -> alist_has name (arrays s) = false ->
  (MAX_DIM_TOTAL_ELEMENTS < dims_product (dim_sizes idx))%N ->
  arrays_create name idx s = (Err EArrayTooLarge None, s).
Proof.
  intros Hne Hhas Hbig. unfold arrays_create. rewrite bind_get, Hhas.
  pose proof (array_create_value_spec name idx Hne) as H.
  apply N.ltb_lt in Hbig. rewrite Hbig in H. unfold bind, lift_res. rewrite H. reflexivity.
Qed.

Theorem arrays_create_fits name idx s :
  idx <> [] -> alist_has name (arrays s) = false ->
  (dims_product (dim_sizes idx) <= MAX_DIM_TOTAL_ELEMENTS)%N ->
  exists a, arrays_create name idx s = (Ok tt, set_arrays (alist_set name a (arrays s)) s)
            /\ arr_ok name a /\ ar_dims a = dim_sizes idx.
Proof.
  intros Hne Hhas Hfit. unfold arrays_create. rewrite bind_get, Hhas.
  pose proof (array_create_value_spec name idx Hne) as H.
  apply N.ltb_ge in Hfit. rewrite Hfit in H. destruct H as (a & Ha & Hok & Hd).
  exists a. unfold bind, lift_res. rewrite Ha. auto.
Qed.

(* ------------------------------------------------------------------ *)
(* Item 5: FOR does not accumulate loops *)

Definition bytes_eq_dec : forall a b : bytes, {a = b} + {a <> b} := list_eq_dec N.eq_dec.

Theorem start_loop_no_accumulation sym a b c s s' :
  NoDup (map lp_sym (loops s)) ->
  start_loop sym a b c s = (Ok tt, s') ->
  count_occ bytes_eq_dec (map lp_sym (loops s')) sym = 1
  /\ length (loops s') <= S (length (loops s))
  /\ (In sym (map lp_sym (loops s)) -> length (loops s') <= length (loops s)).
Proof.
  intros Hnd. rewrite start_loop_eq. cbv zeta.
  destruct (Nat.eqb (length (loops (drop_loop sym s))) stack_limit); [discriminate|].
  rewrite variables_set_eq. destruct (type_matches sym (VNum a)); [|discriminate].
  intros E; inversion E; subst s'; clear E. caps_fields. rewrite drop_loop_loops.
  rewrite map_app, count_occ_app, app_length. cbn [map lp_sym length count_occ].
  pose proof (loops_below_length sym (loops s)) as Hle.
  split; [|split].
  - rewrite (proj1 (count_occ_not_In bytes_eq_dec _ _) (loops_below_fresh sym _ Hnd)).
    destruct (bytes_eq_dec sym sym); [reflexivity|congruence].
  - lia.
  - intros Hin. pose proof (loops_below_length_lt sym (loops s) Hin). lia.
Qed.

(* whatever the outcome, FOR grows the loop list by at most one, and not at all
   when the variable already had a loop (re-entering a FOR via GOTO) *)
Theorem start_loop_growth sym a b c s :
  let s' := snd (start_loop sym a b c s) in
  length (loops s') <= S (length (loops s))
  /\ (In sym (map lp_sym (loops s)) -> length (loops s') <= length (loops s)).
Proof.
  cbv zeta. rewrite start_loop_eq. cbv zeta.
  pose proof (loops_below_length sym (loops s)) as Hle.
  destruct (Nat.eqb (length (loops (drop_loop sym s))) stack_limit).
  - cbn [snd]. rewrite drop_loop_loops. split; [lia|intros _; lia].
  - rewrite variables_set_eq. destruct (type_matches sym (VNum a)); cbn [snd]; caps_fields;
      rewrite drop_loop_loops, app_length; cbn [length];
      (split; [lia|intros Hin; pose proof (loops_below_length_lt sym (loops s) Hin); lia]).
Qed.

(* ------------------------------------------------------------------ *)
(* Non-vacuity: concrete sessions *)

Definition last_msg (ops : list hostop) : option bytes :=
  option_map r_msg (last (run_ops default_fuel (fresh []) ops) None).

(* two nested FOR loops and a GOSUB in flight, one string variable, one 3x4 array *)
Definition demo_ops : list hostop :=
  [ HLine (bs "10 FOR I = 1 TO 3"); HLine (bs "20 FOR J = 1 TO 2"); HLine (bs "30 GOSUB 100");
    HLine (bs "40 NEXT J"); HLine (bs "50 NEXT I"); HLine (bs "60 END");
    HLine (bs "100 A$ = ""X"""); HLine (bs "110 DIM B(2,3)"); HLine (bs "120 RETURN");
    HLine (bs "RUN"); HCont; HCont; HCont; HCont ].

Example demo_state :
  let s := run_state default_fuel (fresh []) demo_ops in
  length (stack s) = 1 /\ length (loops s) = 2 /\ state s = Running
  /\ map fst (variables s) = [bs "I"; bs "J"; bs "A$"]
  /\ map (fun p => (fst p, ar_dims (snd p), length (ar_cells (snd p)))) (arrays s)
     = [(bs "B", [3%N; 4%N], 12)].
Proof. vm_compute. repeat split. Qed.

(* unbounded GOSUB recursion: the 33rd frame is refused, 32 remain, the
   interpreter is Idle and takes the next line *)
Definition gosub_ops : list hostop :=
  [ HLine (bs "10 GOSUB 10"); HLine (bs "RUN") ] ++ repeat HCont 32.

Example gosub_cap :
  let s := run_state default_fuel (fresh []) gosub_ops in
  length (stack s) = 32 /\ state s = Idle
  /\ last_msg gosub_ops = Some (bs "OUT OF MEMORY ERROR (STACK OVERFLOW) IN 10")
  /\ last_msg (gosub_ops ++ [HLine (bs "PRINT 1")]) = Some [].
Proof. vm_compute. repeat split. Qed.

(* re-entering a FOR through GOTO a hundred times leaves one loop *)
Definition for_ops : list hostop :=
  [ HLine (bs "10 FOR I = 1 TO 3"); HLine (bs "20 GOTO 10"); HLine (bs "RUN") ] ++ repeat HCont 201.

Example for_reentry :
  let s := run_state default_fuel (fresh []) for_ops in
  length (loops s) = 1 /\ state s = Running.
Proof. vm_compute. repeat split. Qed.

(* 101 x 101 cells are refused, 100 x 100 are granted *)
Example dim_cap :
  last_msg [HLine (bs "DIM A(100,100)")] = Some (bs "OUT OF MEMORY ERROR (ARRAY TOO LARGE)")
  /\ let s := run_state default_fuel (fresh []) [HLine (bs "DIM B$(99,99)"); HLine (bs "B$(99,99) = ""Z""")] in
     map (fun p => (fst p, ar_dims (snd p), N.of_nat (length (ar_cells (snd p))))) (arrays s)
     = [(bs "B$", [100%N; 100%N], 10000%N)]
     /\ state s = Idle.
Proof. vm_compute. repeat split. Qed.

(* ------------------------------------------------------------------ *)
Print Assumptions caps_init.
Print Assumptions caps_fresh.
Print Assumptions caps_evaluate_expression.
Print Assumptions caps_evaluate_statement.
Print Assumptions caps_run_next_statement.
Print Assumptions caps_step.
Print Assumptions caps_reachable.
Print Assumptions array_create_value_spec.
Print Assumptions gosub_overflow.
Print Assumptions gosub_below_cap.
Print Assumptions push_function_call_overflow.
Print Assumptions push_function_call_below_cap.
Print Assumptions start_loop_overflow.
Print Assumptions start_loop_below_cap.
Print Assumptions arrays_create_too_large.
Print Assumptions arrays_create_fits.
Print Assumptions start_loop_no_accumulation.
Print Assumptions start_loop_growth.
Print Assumptions loops_bounded_by_variables.
