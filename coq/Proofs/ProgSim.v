(* Proofs/ProgSim.v — C03: whole-program simulation for a fragment of BASIC.

   The fragment: scalar assignment, PRINT (expressions, `;`, `,`), GOTO,
   GOSUB, RETURN, IF c THEN <line>, END — expressions from the fragment of C02 (literals,
   variables, unary and binary operators, ABS, INT, parentheses).  It is a
   language of counter machines: programs in it loop, branch and need not
   terminate.

   The theorem (fragment_simulation): take ANY reference program of the
   fragment, ANY legal token spelling of it stored in the model interpreter
   (each line: the statements' spellings joined by colons), and run both — the
   reference interpreter (Ref/RefSem.v: syntax trees, one step per statement)
   and the model of the implementation (token cursor, one host call per
   statement, colons as turns of their own, line advance inside the turn).
   After every number of reference steps there is a number of host calls after
   which the model has printed exactly the reference's output records and is at
   the corresponding place with the corresponding variable store; if the
   reference stops (END, end of program) the model is idle; if it fails, the
   model fails in the same call with the same error kind on the same line.

   Host calls are run with enough fuel ([turn_ok]: for every fuel above some
   bound the call returns that result): fuel is the model's device for the
   termination of the Rust loops, not part of the semantics. *)
From Coq Require Import List NArith ZArith Bool Lia Sorted.
From Abasic Require Import Model.Bytes Model.Num Model.Token Model.Data Model.Lexer Gen.Tables
     Model.State Model.Eval Model.Interp Ref.RefSem Proofs.ExprSem Proofs.RefProofs Proofs.StmtSim.
Import ListNotations.
Local Open Scope nat_scope.

(* ------------------------------------------------------------------ *)
(* 1. spellings of statements, lines, programs *)

Definition line_target (x : f64) : N := Z.to_N (f64_to_u64_sat x).

(* [SRen rest stmt ts]: [ts] spells [stmt] when followed by [rest] *)
(* [F]: the expression fuel the reference interpreter is run with; every
   expression of the program must fit ([xsize], [isize]) *)
Inductive SRen (F : nat) (rest : list token) : rstmt -> list token -> Prop :=
| SR_let v e e' te : tr e = Some e' -> Renders 0 e' te -> 1 + pdepth e' < max_nesting -> stops 0 rest = true ->
    xsize e <= F ->
    SRen F rest (SLet v [] e) (TSymbol v :: TEquals :: te)
| SR_print items mitems ti : tr_items items = Some mitems -> IRenders rest mitems ti ->
    1 + idepth mitems < max_nesting -> isize items <= F ->
    SRen F rest (SPrint items) (TPrint :: ti)
| SR_goto n x : line_target x = n -> SRen F rest (SGoto n) [TGoto; TNumber x]
| SR_gosub n x : line_target x = n -> SRen F rest (SGosub n) [TGosub; TNumber x]
| SR_return : SRen F rest SReturn [TReturn]
| SR_end : SRen F rest SEnd [TEnd]
| SR_if c c' tc n x : tr c = Some c' -> Renders 0 c' tc -> 1 + pdepth c' < max_nesting -> line_target x = n ->
    xsize c <= F ->
    SRen F rest (SIf c (ALine n) None) (TIf :: tc ++ [TThen; TNumber x]).

(* a line: statements joined by colons *)
Inductive LRen (F : nat) : list rstmt -> list token -> Prop :=
| LR_last s ts : SRen F [] s ts -> LRen F [s] ts
| LR_cons s ts r tr : SRen F (TColon :: tr) s ts -> LRen F r tr -> LRen F (s :: r) (ts ++ TColon :: tr).

Lemma SRen_nonempty F rest s ts : SRen F rest s ts -> exists t ts', ts = t :: ts' /\ t <> TElse /\ t <> TColon.
Proof. destruct 1; eexists _, _; (split; [reflexivity | split; discriminate]). Qed.

Lemma LRen_nonempty F stmts toks : LRen F stmts toks -> exists t toks', toks = t :: toks' /\ t <> TElse /\ t <> TColon.
Proof.
  destruct 1 as [s ts H|s ts r tr H _]; destruct (SRen_nonempty _ _ _ _ H) as (t & ts' & -> & Ht);
    eexists _, _; (split; [reflexivity | exact Ht]).
Qed.

(* ------------------------------------------------------------------ *)
(* 2. line numbers *)

Lemma find_line_ge p n : forall k i, find_line p n k = Some i -> k <= i.
Proof.
  induction p as [|[m stmts] p IH]; intros k i H; cbn [find_line] in H; [discriminate|].
  destruct (m =? n)%N; [inversion H; lia|]. apply IH in H. lia.
Qed.

Lemma find_line_nth p n : forall k i, find_line p n k = Some i ->
  exists stmts, nth_error p (i - k) = Some (n, stmts).
Proof.
  induction p as [|[m stmts] p IH]; intros k i H; cbn [find_line] in H; [discriminate|].
  destruct (N.eqb_spec m n) as [->|Hne].
  - inversion H; subst. rewrite Nat.sub_diag. exists stmts. reflexivity.
  - pose proof (find_line_ge _ _ _ _ H) as Hge. destruct (IH _ _ H) as (st' & Hn). exists st'.
    replace (i - k) with (S (i - S k)) by lia. exact Hn.
Qed.

Lemma find_line_none p n : forall k, find_line p n k = None <-> ~ In n (map fst p).
Proof.
  induction p as [|[m stmts] p IH]; intros k; cbn [find_line map fst In]; [tauto|].
  destruct (N.eqb_spec m n) as [->|Hne].
  - split; [discriminate | intros H; exfalso; apply H; left; reflexivity].
  - rewrite IH. tauto.
Qed.

Lemma keys_after_all_greater n l : Forall (fun k => (n < k)%N) l -> keys_after n l = hd_error l.
Proof.
  destruct l as [|x l]; [reflexivity|]. intros H. inversion H; subst. cbn [keys_after hd_error].
  destruct (N.ltb_spec n x); [reflexivity | lia].
Qed.

Lemma keys_after_nth l : StronglySorted N.lt l -> forall i n, nth_error l i = Some n ->
  keys_after n l = nth_error l (S i).
Proof.
  induction 1 as [|x l Hs IH Hall]; intros i n Hn; [destruct i; discriminate|].
  destruct i as [|i]; cbn [nth_error] in *.
  - inversion Hn; subst. cbn [keys_after]. destruct (N.ltb_spec n n); [lia|].
    rewrite (keys_after_all_greater n l Hall). destruct l; reflexivity.
  - cbn [keys_after]. assert (Hx : (x < n)%N).
    { rewrite Forall_forall in Hall. apply Hall. eapply nth_error_In; eassumption. }
    destruct (N.ltb_spec n x); [lia|]. apply IH. exact Hn.
Qed.

(* ------------------------------------------------------------------ *)
(* 3. one statement, both sides (warnings and tracing off) *)

Definition rerr_of2 (e : ierror) : rerr :=
  match e with
  | EUndefinedStatement => RUndefinedLine
  | EStackOverflow => RStackOverflow
  | EReturnWithoutGosub => RReturnWithoutGosub
  | other => rerr_of other
  end.

Lemma set_state_same s : set_state (state s) s = s.
Proof. destruct s; reflexivity. Qed.

Lemma skipn_all_length {A} (l : list A) i ts : skipn i l = ts -> ts <> [] -> i + length ts = length l.
Proof.
  intros H Hne. assert (Hl : length (skipn i l) = length ts) by (rewrite H; reflexivity).
  rewrite skipn_length in Hl. destruct ts; [congruence|]. cbn [length] in *. lia.
Qed.

Section Step.
  Variable F : nat.                       (* the reference interpreter's expression fuel *)
  Variable p : rprogram.
  Variable s : interp.
  Variable toks : list token.
  Hypothesis Htoks : fst (cur_tokens s) = Ok toks.
  Hypothesis Htrace : enable_tracing s = false.
  Hypothesis Hwarn : enable_warnings s = false.
  (* the stored lines are the program's lines, none starts with ELSE *)
  Hypothesis Hjump : forall n, store_has n s = match find_line p n 0 with Some _ => true | None => false end.
  Hypothesis Hheads : forall n l, toks_get n (st_toks s) = Some l -> exists t l', l = t :: l' /\ t <> TElse.

  (* what a statement leaves alone *)
  Definition keeps (s' : interp) : Prop :=
    st_toks s' = st_toks s /\ st_keys s' = st_keys s /\ enable_tracing s' = false /\ enable_warnings s' = false
    /\ state s' = state s /\ immediate s' = immediate s.

  Variables (li : nat) (after : rpc) (st : rstate).
  Hypothesis Hrel : same_store st s.

  Definition step_result (stmt : rstmt) (i : nat) (ts : list token) (run : res unit * interp) (o : list output) : Prop :=
    match exec F p stmt after li st with
    | Next pc st' =>
        exists s', run = (Ok tt, s') /\ keeps s' /\ same_store st' s'
          /\ r_frames st' = r_frames st
          /\ ((r_calls st' = r_calls st /\ stack s' = stack s)
              \/ (r_calls st' = after :: r_calls st
                  /\ stack s' = stack s ++ [mkframe (mkloc (loc_line (loc s)) (i + length ts)) []])
              \/ (exists fr rest cr, stack s = rest ++ [fr] /\ stack s' = rest
                                     /\ r_calls st = pc :: cr /\ r_calls st' = cr /\ loc s' = fr_ret fr))
          /\ (exists outs, r_out st' = r_out st ++ outs /\ outputs s' = o ++ map OPrint outs)
          /\ ((pc = after /\ loc s' = mkloc (loc_line (loc s)) (i + length ts))
              \/ (exists n li' stmts, pc = (li', 0) /\ nth_error p li' = Some (n, stmts) /\ loc s' = mkloc (Some n) 0)
              \/ (pc = (S li, 0) /\ loc s' = mkloc (loc_line (loc s)) (length toks))
              \/ (exists fr rest cr, stack s = rest ++ [fr] /\ r_calls st = pc :: cr /\ loc s' = fr_ret fr))
    | Done st' =>
        st' = st /\ exists s', run = (Ok tt, s') /\ keeps s' /\ loc s' = imm0 /\ immediate s = [] /\ outputs s' = o
    | Fail er line st' =>
        line = line_no p li /\ st' = st /\
        exists ie s', run = (Err ie None, s') /\ rerr_of2 ie = er /\ keeps s'
          /\ loc_line (loc s') = loc_line (loc s) /\ outputs s' = o /\ ie <> EDataTypeMismatch
    | NoFuel => False
    end.

  Definition steps_as (stmt : rstmt) (i : nat) (ts : list token) : Prop :=
    exists f0, forall fuel, f0 <= fuel -> forall r o,
      step_result stmt i ts (evaluate_statement fuel 0 (at_idx s i r o)) o.

  Lemma W_off o o' : W s o o' -> o' = o.
  Proof. unfold W. rewrite Hwarn. auto. Qed.

  Lemma keeps_at i r o : keeps (at_idx s i r o).
  Proof. unfold keeps. repeat split; assumption. Qed.

  Lemma same_store_at st0 i r o : same_store st0 s -> same_store st0 (at_idx s i r o).
  Proof. intros [A B]. split; [exact A | exact B]. Qed.

  (* LET *)
  Lemma step_let v e e' te rest i :
    skipn i toks = TSymbol v :: TEquals :: te ++ rest -> stops 0 rest = true ->
    tr e = Some e' -> Renders 0 e' te -> 1 + pdepth e' < max_nesting -> xsize e <= F ->
    steps_as (SLet v [] e) i (TSymbol v :: TEquals :: te).
  Proof.
    intros Hsk Hst Htr Hren Hd HF.
    destruct (model_let s toks Htoks Htrace v e' te rest i Hsk Hst Hren Hd) as (f0 & Hm).
    exists f0. intros fuel Hf r o. destruct (Hm fuel Hf r o) as (i' & r' & o' & HW & Hrun). clear Hm.
    apply W_off in HW. subst o'. unfold step_result.
    rewrite (ref_let s v e e' Htr p after li st Hrel F HF), Hrun.
    pose proof (den_plain s e e' Htr) as Hp.
    destruct (den s e') as [x|er l|pp| |]; cbn [plain] in Hp; try contradiction.
    - destruct (type_matches v x).
      + eexists. split; [reflexivity|]. split; [apply (keeps_at (i + 2 + length te) r' o)|].
        split; [apply (same_store_assign st s _ v x Hrel); reflexivity|]. split; [try (destruct st; reflexivity); reflexivity|]. split; [left; split; [try (destruct st; reflexivity); reflexivity | reflexivity]|].
        split; [exists []; split; [destruct st; cbn; rewrite app_nil_r; reflexivity | cbn; rewrite app_nil_r; reflexivity]|].
        left. split; [reflexivity|]. cbn [length]. cbn. f_equal. lia.
      + split; [reflexivity|]. split; [reflexivity|]. eexists _, _. split; [reflexivity|].
        split; [reflexivity|]. split; [apply keeps_at|]. split; [reflexivity | split; [reflexivity | discriminate]].
    - destruct er; try contradiction; destruct l; try contradiction;
        (split; [reflexivity|]; split; [reflexivity|]; eexists _, _; split; [reflexivity|];
         split; [reflexivity|]; split; [apply keeps_at|]; split; [reflexivity | split; [reflexivity | discriminate]]).
  Qed.

  (* PRINT *)
  Lemma step_print items mitems ti rest i :
    skipn i toks = TPrint :: ti ++ rest ->
    tr_items items = Some mitems -> IRenders rest mitems ti -> 1 + idepth mitems < max_nesting -> isize items <= F ->
    steps_as (SPrint items) i (TPrint :: ti).
  Proof.
    intros Hsk Htr Hren Hd HF.
    destruct (model_print s toks Htoks mitems ti rest i Htrace Hsk Hren Hd) as (f0 & Hm).
    exists f0. intros fuel Hf r o. destruct (Hm fuel Hf r o) as (i' & r' & o' & HW & Hrun). clear Hm.
    apply W_off in HW. subst o'. unfold step_result. cbn [exec].
    rewrite (ref_print_items F st s Hrel items mitems Htr HF false []), Hrun.
    pose proof (pden_plain s items mitems Htr false []) as Hp.
    destruct (pden s mitems false []) as [[semi text]|er l|pp| |]; try contradiction.
    - eexists. split; [reflexivity|]. split; [apply keeps_at|].
      split; [apply same_store_at; destruct Hrel as [A B]; split; [exact A | exact B]|]. split; [try (destruct st; reflexivity); reflexivity|]. split; [left; split; [try (destruct st; reflexivity); reflexivity | reflexivity]|].
      split; [eexists [_]; split; [reflexivity | reflexivity]|].
      left. split; [reflexivity|]. cbn [length]. cbn. f_equal. lia.
    - destruct er; try contradiction; destruct l; try contradiction;
        (split; [reflexivity|]; split; [reflexivity|]; eexists _, _; split; [reflexivity|];
         split; [reflexivity|]; split; [apply keeps_at|]; split; [reflexivity | split; [reflexivity | discriminate]]).
  Qed.

  (* the transfer both GOTO and IF..THEN <line> make *)
  Lemma goto_runs n i r o :
    goto_line_number n (at_idx s i r o) =
    match find_line p n 0 with
    | Some _ => (Ok tt, set_loc (mkloc (Some n) 0) (set_breakpoint None (at_idx s i r o)))
    | None => (Err EUndefinedStatement None, set_breakpoint None (at_idx s i r o))
    end.
  Proof.
    unfold goto_line_number. rewrite bind_modify_run, bind_get_run.
    change (store_has n (set_breakpoint None (at_idx s i r o))) with (store_has n s). rewrite Hjump.
    destruct (find_line p n 0); reflexivity.
  Qed.

  Lemma step_goto n x rest i :
    skipn i toks = [TGoto; TNumber x] ++ rest -> line_target x = n ->
    steps_as (SGoto n) i [TGoto; TNumber x].
  Proof.
    intros Hsk Hn. cbn [app] in Hsk.
    destruct (skipn_cons_nth _ _ _ _ Hsk) as [H0 Hs1]. destruct (skipn_cons_nth _ _ _ _ Hs1) as [H1 _].
    exists 1. intros fuel Hf r o. destruct fuel as [|f]; [lia|].
    assert (Hrun : evaluate_statement (S f) 0 (at_idx s i r o) = goto_line_number n (at_idx s (S (S i)) (S (S r)) o)).
    { cbn [evaluate_statement]. change (Nat.eqb 0 max_nesting) with false. cbv iota.
      unfold evaluate_statement_body.
      rewrite bind_get_run. change (enable_tracing (at_idx s i r o)) with (enable_tracing s). rewrite Htrace. cbv iota.
      rewrite bind_ret'.
      erewrite bind_ok by (apply (next_some s toks Htoks); exact H0). cbv iota beta.
      unfold evaluate_goto_statement.
      erewrite bind_ok by (apply (next_some s toks Htoks); exact H1). cbv iota beta.
      unfold line_target in Hn. rewrite Hn. reflexivity. }
    unfold step_result. rewrite Hrun, goto_runs. cbn [exec]. unfold jump.
    destruct (find_line p n 0) as [li'|] eqn:Ef.
    - destruct (find_line_nth _ _ _ _ Ef) as (stmts & Hnth). rewrite Nat.sub_0_r in Hnth.
      eexists. split; [reflexivity|]. split; [unfold keeps; repeat split; assumption|].
      split; [destruct Hrel as [A B]; split; [exact A | exact B]|]. split; [try (destruct st; reflexivity); reflexivity|]. split; [left; split; [try (destruct st; reflexivity); reflexivity | reflexivity]|].
      split; [exists []; split; [rewrite app_nil_r; reflexivity | cbn; rewrite app_nil_r; reflexivity]|].
      right. left. exists n, li', stmts. repeat split; assumption.
    - split; [reflexivity|]. split; [reflexivity|]. eexists _, _. split; [reflexivity|].
      split; [reflexivity|]. split; [unfold keeps; repeat split; assumption|]. split; [reflexivity | split; [reflexivity | discriminate]].
  Qed.

  (* GOSUB: the depth check first, then the target, then the frame *)
  Lemma step_gosub n x rest i :
    skipn i toks = [TGosub; TNumber x] ++ rest -> line_target x = n ->
    length (r_calls st) + length (r_frames st) = length (stack s) ->
    steps_as (SGosub n) i [TGosub; TNumber x].
  Proof.
    intros Hsk Hn Hdepth. cbn [app] in Hsk.
    destruct (skipn_cons_nth _ _ _ _ Hsk) as [H0 Hs1]. destruct (skipn_cons_nth _ _ _ _ Hs1) as [H1 _].
    exists 1. intros fuel Hf r o. destruct fuel as [|f]; [lia|].
    assert (Hrun : evaluate_statement (S f) 0 (at_idx s i r o) = gosub_line_number n (at_idx s (S (S i)) (S (S r)) o)).
    { cbn [evaluate_statement]. change (Nat.eqb 0 max_nesting) with false. cbv iota.
      unfold evaluate_statement_body.
      rewrite bind_get_run. change (enable_tracing (at_idx s i r o)) with (enable_tracing s). rewrite Htrace. cbv iota.
      rewrite bind_ret'.
      erewrite bind_ok by (apply (next_some s toks Htoks); exact H0). cbv iota beta.
      unfold evaluate_gosub_statement.
      erewrite bind_ok by (apply (next_some s toks Htoks); exact H1). cbv iota beta.
      unfold line_target in Hn. rewrite Hn. reflexivity. }
    unfold step_result. rewrite Hrun. clear Hrun. cbn [exec]. unfold depth. rewrite Hdepth.
    unfold gosub_line_number. rewrite bind_get_run.
    change (stack (at_idx s (S (S i)) (S (S r)) o)) with (stack s).
    change depth_cap with stack_limit.
    destruct (Nat.eqb (length (stack s)) stack_limit).
    - split; [reflexivity|]. split; [reflexivity|]. eexists _, _. split; [reflexivity|].
      split; [reflexivity|]. split; [apply keeps_at|]. split; [reflexivity | split; [reflexivity | discriminate]].
    - rewrite bind_get_run. pose proof (goto_runs n (S (S i)) (S (S r)) o) as Hg.
      destruct (find_line p n 0) as [li'|] eqn:Ef; (erewrite bind_run by exact Hg).
      + destruct (find_line_nth _ _ _ _ Ef) as (stmts & Hnth). rewrite Nat.sub_0_r in Hnth.
        unfold modify. eexists. split; [reflexivity|].
        split; [unfold keeps; repeat split; assumption|].
        split.
        { destruct Hrel as [A B].
          assert (Hfr : forall X, r_frames (set_calls' X st) = r_frames st) by (intros; destruct st; reflexivity).
          assert (Hvr : forall X, r_vars (set_calls' X st) = r_vars st) by (intros; destruct st; reflexivity).
          split; intros name.
          - rewrite Hfr, (A name). cbn [stack set_stack set_loc set_breakpoint].
            change (stack (at_idx s (S (S i)) (S (S r)) o)) with (stack s).
            rewrite rev_unit. reflexivity.
          - rewrite Hvr. exact (B name). }
        split; [destruct st; reflexivity|].
        split.
        { right. left. split; [destruct st; reflexivity|].
          cbn [stack set_stack set_loc set_breakpoint]. change (stack (at_idx s (S (S i)) (S (S r)) o)) with (stack s).
          change (loc (at_idx s (S (S i)) (S (S r)) o)) with (mkloc (loc_line (loc s)) (S (S i))).
          cbn [length]. replace (i + 2) with (S (S i)) by lia. reflexivity. }
        split; [exists []; split; [destruct st; cbn; rewrite app_nil_r; reflexivity | cbn; rewrite app_nil_r; reflexivity]|].
        right. left. exists n, li', stmts. repeat split; assumption.
      + split; [reflexivity|]. split; [reflexivity|]. eexists _, _. split; [reflexivity|].
        split; [reflexivity|]. split; [unfold keeps; repeat split; assumption|]. split; [reflexivity | split; [reflexivity | discriminate]].
  Qed.

  (* RETURN *)
  Lemma step_return rest i :
    skipn i toks = [TReturn] ++ rest ->
    (r_calls st = [] -> stack s = []) ->
    (forall pc cr, r_calls st = pc :: cr -> exists fr rs, stack s = rs ++ [fr] /\ fr_vars fr = []) ->
    steps_as SReturn i [TReturn].
  Proof.
    intros Hsk Hnil Hcons. cbn [app] in Hsk. destruct (skipn_cons_nth _ _ _ _ Hsk) as [H0 _].
    exists 1. intros fuel Hf r o. destruct fuel as [|f]; [lia|].
    assert (Hrun : evaluate_statement (S f) 0 (at_idx s i r o) = return_to_last_gosub (at_idx s (S i) (S r) o)).
    { cbn [evaluate_statement]. change (Nat.eqb 0 max_nesting) with false. cbv iota.
      unfold evaluate_statement_body.
      rewrite bind_get_run. change (enable_tracing (at_idx s i r o)) with (enable_tracing s). rewrite Htrace. cbv iota.
      rewrite bind_ret'.
      erewrite bind_ok by (apply (next_some s toks Htoks); exact H0). reflexivity. }
    unfold step_result. rewrite Hrun. clear Hrun. cbn [exec].
    unfold return_to_last_gosub. rewrite bind_modify_run, bind_get_run.
    change (stack (set_breakpoint None (at_idx s (S i) (S r) o))) with (stack s).
    destruct (r_calls st) as [|pc cr] eqn:Ec.
    - rewrite (Hnil eq_refl). cbn [rev].
      split; [reflexivity|]. split; [reflexivity|]. eexists _, _. split; [reflexivity|].
      split; [reflexivity|]. split; [unfold keeps; repeat split; assumption|]. split; [reflexivity | split; [reflexivity | discriminate]].
    - destruct (Hcons pc cr eq_refl) as (fr & rs & Hst & Hv). rewrite Hst, rev_unit. unfold modify.
      eexists. split; [reflexivity|].
      split; [unfold keeps; repeat split; assumption|].
      split.
      { destruct Hrel as [A B].
        assert (Hfr : forall X, r_frames (set_calls' X st) = r_frames st) by (intros; destruct st; reflexivity).
        assert (Hvr : forall X, r_vars (set_calls' X st) = r_vars st) by (intros; destruct st; reflexivity).
        split; intros name.
        - rewrite Hfr, (A name), Hst, rev_unit. cbn [find_in_frames]. rewrite Hv. cbn [alist_get stack set_stack set_loc].
          rewrite rev_involutive. reflexivity.
        - rewrite Hvr. exact (B name). }
      split; [destruct st; reflexivity|].
      split.
      { right. right. exists fr, rs, cr. rewrite rev_involutive.
        repeat split; try reflexivity. }
      split; [exists []; split; [destruct st; cbn; rewrite app_nil_r; reflexivity | cbn; rewrite app_nil_r; reflexivity]|].
      right. right. right. exists fr, rs, cr. repeat split; reflexivity.
  Qed.

  (* END *)
  Lemma step_end rest i :
    skipn i toks = [TEnd] ++ rest -> immediate s = [] ->
    steps_as SEnd i [TEnd].
  Proof.
    intros Hsk Himm. cbn [app] in Hsk. destruct (skipn_cons_nth _ _ _ _ Hsk) as [H0 _].
    exists 1. intros fuel Hf r o. destruct fuel as [|f]; [lia|].
    unfold step_result. cbn [exec]. split; [reflexivity|].
    cbn [evaluate_statement]. change (Nat.eqb 0 max_nesting) with false. cbv iota.
    unfold evaluate_statement_body.
    rewrite bind_get_run. change (enable_tracing (at_idx s i r o)) with (enable_tracing s). rewrite Htrace. cbv iota.
    rewrite bind_ret'.
    erewrite bind_ok by (apply (next_some s toks Htoks); exact H0). cbv iota beta.
    unfold program_end, set_and_goto_immediate_line, modify.
    eexists. split; [reflexivity|].
    split; [unfold keeps; cbn; destruct (breakpoint s); cbn; repeat split; try assumption; symmetry; assumption|].
    split; [reflexivity|]. split; [exact Himm|]. cbn. destruct (breakpoint s); reflexivity.
  Qed.

  (* IF c THEN <line> *)
  Lemma step_if c c' tc n x rest i :
    skipn i toks = (TIf :: tc ++ [TThen; TNumber x]) ++ rest -> (rest = [] \/ exists tr, rest = TColon :: tr) ->
    tr c = Some c' -> Renders 0 c' tc -> 1 + pdepth c' < max_nesting -> xsize c <= F -> line_target x = n ->
    steps_as (SIf c (ALine n) None) i (TIf :: tc ++ [TThen; TNumber x]).
  Proof.
    intros Hsk Hrest Htr Hren Hd HF Hn.
    cbn [app] in Hsk. rewrite <- app_assoc in Hsk. cbn [app] in Hsk.
    destruct (skipn_cons_nth _ _ _ _ Hsk) as [H0 Hs1].
    destruct (expr_sem_at s toks Htoks c' tc Hren 1 (S i) (TThen :: TNumber x :: rest) Hs1 eq_refl Hd) as (fe & Hfe).
    pose proof (skipn_app_len _ _ _ _ Hs1) as Hs2.
    destruct (skipn_cons_nth _ _ _ _ Hs2) as [H2 Hs3]. destruct (skipn_cons_nth _ _ _ _ Hs3) as [H3 Hs4].
    set (j := S i + length tc) in *.
    exists (S (S (S (S fe)))). intros fuel Hf r o. destruct fuel as [|f]; [lia|].
    destruct (Hfe f ltac:(lia) (S r) o) as (i1 & r1 & o1 & Hev & Hi1 & HW1). apply W_off in HW1. subst o1.
    unfold step_result. cbn [exec]. unfold RefSem.ev.
    rewrite (ref_expr_is_den c c' st s F Htr (same_store_reads _ _ Hrel) HF).
    pose proof (den_plain s c c' Htr) as Hp.
    (* the model up to the branch *)
    assert (Hrun : evaluate_statement (S f) 0 (at_idx s i r o) =
              match den s c' with
              | Ok v =>
                  (if to_bool v then
                     statement_or_goto_line_number (evaluate_statement f 1) ;;;
                     e <- peek_is TElse ;; if e then discard_remaining_tokens else ret tt
                   else
                     repeat_m f (fun _ : unit =>
                       t <- next_token ;;
                       match t with
                       | None => ret (inr tt)
                       | Some TColon => discard_remaining_tokens ;;; ret (inl tt)
                       | Some TElse => statement_or_goto_line_number (evaluate_statement f 1) ;;; ret (inr tt)
                       | Some _ => ret (inl tt)
                       end) tt) (at_idx s (S j) (S r1) o)
              | Err er l => (Err er l, at_idx s i1 r1 o)
              | Panic pp => (Panic pp, at_idx s i1 r1 o)
              | OutOfFuel => (OutOfFuel, at_idx s i1 r1 o)
              | OracleMiss => (OracleMiss, at_idx s i1 r1 o)
              end).
    { cbn [evaluate_statement]. change (Nat.eqb 0 max_nesting) with false. cbv iota.
      unfold evaluate_statement_body.
      rewrite bind_get_run. change (enable_tracing (at_idx s i r o)) with (enable_tracing s). rewrite Htrace. cbv iota.
      rewrite bind_ret'.
      erewrite bind_ok by (apply (next_some s toks Htoks); exact H0). cbv iota beta.
      unfold evaluate_if_statement, Eval.expr. erewrite bind_run by exact Hev.
      destruct (den s c') as [v|er l|pp| |]; try reflexivity.
      rewrite (Hi1 v eq_refl). fold j.
      erewrite bind_ok by (apply (expect_ok s toks Htoks _ _ _ TThen TThen H2); reflexivity).
      reflexivity. }
    rewrite Hrun. clear Hrun.
    destruct (den s c') as [v|er l|pp| |]; cbn [plain conv] in *; try contradiction.
    2:{ destruct er; try contradiction; destruct l; try contradiction;
          (split; [reflexivity|]; split; [reflexivity|]; eexists _, _; split; [reflexivity|];
           split; [reflexivity|]; split; [apply keeps_at|]; split; [reflexivity | split; [reflexivity | discriminate]]). }
    rewrite truth_to_bool. destruct (to_bool v).
    - (* taken: the line-number form of THEN *)
      unfold statement_or_goto_line_number.
      rewrite bind_assoc. erewrite bind_ok by apply (peek_at s toks Htoks). rewrite H3. cbv iota.
      unfold evaluate_goto_statement. rewrite bind_assoc.
      erewrite bind_ok by (apply (next_some s toks Htoks); exact H3). cbv iota beta.
      unfold line_target in Hn. rewrite Hn.
      pose proof (goto_runs n (S (S j)) (S (S (S r1))) o) as Hg.
      unfold jump. destruct (find_line p n 0) as [li'|] eqn:Ef; (erewrite bind_run by exact Hg).
      + destruct (find_line_nth _ _ _ _ Ef) as (stmts & Hnth). rewrite Nat.sub_0_r in Hnth.
        (* the ELSE probe at the target line *)
        set (s2 := set_loc (mkloc (Some n) 0) (set_breakpoint None (at_idx s (S (S j)) (S (S (S r1))) o))).
        assert (Hhas : store_has n s = true) by (rewrite Hjump, Ef; reflexivity).
        unfold store_has in Hhas. destruct (toks_get n (st_toks s)) as [l|] eqn:El; [|discriminate].
        destruct (Hheads n l El) as (t0 & l' & -> & Ht0).
        assert (Hpk : peek_is TElse s2 = (Ok false, set_reads (S (reads s2)) s2)).
        { unfold peek_is, peek_next_token, cur_tokens, tokens_for_line, bind, modify, get, ret. cbn.
          rewrite El. cbn. destruct t0; try reflexivity. congruence. }
        erewrite bind_ok by exact Hpk. cbv iota. cbn [ret].
        eexists. split; [reflexivity|].
        split; [unfold keeps; repeat split; assumption|].
        split; [destruct Hrel as [A B]; split; [exact A | exact B]|]. split; [try (destruct st; reflexivity); reflexivity|]. split; [left; split; [try (destruct st; reflexivity); reflexivity | reflexivity]|].
        split; [exists []; split; [rewrite app_nil_r; reflexivity | cbn; rewrite app_nil_r; reflexivity]|].
        right. left. exists n, li', stmts. repeat split; assumption.
      + split; [reflexivity|]. split; [reflexivity|]. eexists _, _. split; [reflexivity|].
        split; [reflexivity|]. split; [unfold keeps; repeat split; assumption|]. split; [reflexivity | split; [reflexivity | discriminate]].
    - (* not taken: the rest of the line is skipped *)
      assert (Hlen : S (S j) + length rest = length toks \/ (rest = [] /\ S (S j) = length toks)).
      { destruct Hrest as [->|(tr0 & ->)].
        - right. split; [reflexivity|]. pose proof (skipn_all_length toks (S j) [TNumber x] Hs3 ltac:(discriminate)) as Hl.
          cbn [length] in Hl. lia.
        - left. apply (skipn_all_length toks (S (S j)) _ Hs4). discriminate. }
      destruct f as [|f]; [lia|]. destruct f as [|f]; [lia|]. destruct f as [|f]; [lia|].
      rewrite repeat_m_S.
      erewrite bind_ok by (erewrite bind_ok by (apply (next_some s toks Htoks); exact H3); reflexivity).
      cbv iota.
      destruct Hrest as [->|(tr0 & ->)].
      + (* end of the line *)
        rewrite repeat_m_S.
        assert (Hnone : nth_error toks (S (S j)) = None) by (apply skipn_nil_nth; exact Hs4).
        assert (Hnt : next_token (at_idx s (S (S j)) (S (S r1)) o) = (Ok None, at_idx s (S (S j)) (S (S (S r1))) o)).
        { unfold next_token. erewrite bind_ok by apply (peek_at s toks Htoks). rewrite Hnone. reflexivity. }
        erewrite bind_ok by (erewrite bind_ok by exact Hnt; reflexivity). cbv iota. cbn [ret].
        eexists. split; [reflexivity|]. split; [apply keeps_at|].
        split; [apply same_store_at; destruct Hrel as [A B]; split; [exact A | exact B]|]. split; [try (destruct st; reflexivity); reflexivity|]. split; [left; split; [try (destruct st; reflexivity); reflexivity | reflexivity]|].
        split; [exists []; split; [rewrite app_nil_r; reflexivity | cbn; rewrite app_nil_r; reflexivity]|].
        right. right. left. split; [reflexivity|]. destruct Hlen as [Hl|[_ Hl]]; cbn; f_equal; cbn [length] in *; lia.
      + (* a colon: the statements behind it are skipped too *)
        destruct (skipn_cons_nth _ _ _ _ Hs4) as [H4 _].
        rewrite repeat_m_S.
        assert (Hdisc : discard_remaining_tokens (at_idx s (S (S (S j))) (S (S (S r1))) o)
                        = (Ok tt, at_idx s (length toks) (S (S (S r1))) o)).
        { unfold discard_remaining_tokens. erewrite bind_ok by apply (cur_tokens_at s toks Htoks). reflexivity. }
        erewrite bind_ok by (erewrite bind_ok by (apply (next_some s toks Htoks); exact H4); cbv iota;
                             erewrite bind_ok by exact Hdisc; reflexivity).
        cbv iota. rewrite repeat_m_S.
        assert (Hnone : nth_error toks (length toks) = None) by (apply nth_error_None; apply le_n).
        assert (Hnt : next_token (at_idx s (length toks) (S (S (S r1))) o)
                      = (Ok None, at_idx s (length toks) (S (S (S (S r1)))) o)).
        { unfold next_token. erewrite bind_ok by apply (peek_at s toks Htoks). rewrite Hnone. reflexivity. }
        erewrite bind_ok by (erewrite bind_ok by exact Hnt; reflexivity). cbv iota. cbn [ret].
        eexists. split; [reflexivity|]. split; [apply keeps_at|].
        split; [apply same_store_at; destruct Hrel as [A B]; split; [exact A | exact B]|]. split; [try (destruct st; reflexivity); reflexivity|]. split; [left; split; [try (destruct st; reflexivity); reflexivity | reflexivity]|].
        split; [exists []; split; [rewrite app_nil_r; reflexivity | cbn; rewrite app_nil_r; reflexivity]|].
        right. right. left. split; reflexivity.
  Qed.
End Step.

(* ------------------------------------------------------------------ *)
(* 4. host calls *)

From Abasic Require Import Proofs.Safety Proofs.InputProofs.
Local Open Scope nat_scope.

Definition turn_ok (s s' : interp) : Prop :=
  exists f0, forall fuel, f0 <= fuel -> continue_evaluating fuel s = (Ok tt, s').
Definition turn_err (s : interp) (e : ierror) (l : option location) (s' : interp) : Prop :=
  exists f0, forall fuel, f0 <= fuel -> continue_evaluating fuel s = (Err e l, s').

Inductive turns : interp -> interp -> Prop :=
| turns_refl s : turns s s
| turns_step s s1 s2 : turn_ok s s1 -> turns s1 s2 -> turns s s2.

Lemma turns_trans a b c : turns a b -> turns b c -> turns a c.
Proof. induction 1; [auto | intros; econstructor; eauto]. Qed.

Lemma turns_one a b : turn_ok a b -> turns a b.
Proof. intros H. econstructor; [exact H | constructor]. Qed.

Lemma bump_is_at s : bump s = at_idx s (loc_idx (loc s)) (S (reads s)) (outputs s).
Proof. destruct s as [? ? ? [? ?] ? ? ? ? ? ? ? ? ? ? ? ? ? ? ?]; reflexivity. Qed.

(* a call on a running program whose cursor is on a token *)
Lemma turn_eq fuel s t :
  state s = Running -> line_exists s (loc s) -> nth_error (cur_toks s) (loc_idx (loc s)) = Some t ->
  continue_evaluating fuel s = postprocess ((evaluate_statement fuel 0 ;;; after_statement) (bump s)).
Proof.
  intros Hrun Hle Hnth. unfold continue_evaluating. rewrite Hrun. f_equal.
  unfold run_next_statement. rewrite StoreProofs.bind_modify.
  assert (E : set_state Running s = s) by (rewrite <- Hrun; apply set_state_same). rewrite E.
  rewrite Safety.bind_run, (has_next_token_eq s Hle), Hnth. reflexivity.
Qed.

(* what follows the statement inside the call *)
Lemma after_stay s t : line_exists s (loc s) -> nth_error (cur_toks s) (loc_idx (loc s)) = Some t ->
  after_statement s = (Ok tt, bump s).
Proof. intros Hle Hn. unfold after_statement. rewrite Safety.bind_run, (has_next_token_eq s Hle), Hn. reflexivity. Qed.

Lemma next_line_eq s n : loc_line (loc s) = Some n ->
  next_line s = match keys_after n (st_keys s) with
                | Some n' => (Ok true, set_loc (mkloc (Some n') 0) s)
                | None => (Ok false, s)
                end.
Proof.
  intros Hl. unfold next_line, store_after, bind, get, modify, ret. cbn [fst snd]. rewrite Hl.
  destruct (keys_after n (st_keys s)); reflexivity.
Qed.

Lemma next_line_imm s : loc_line (loc s) = None -> next_line s = (Ok false, s).
Proof. intros Hl. unfold next_line, bind, get, ret. cbn [fst snd]. rewrite Hl. reflexivity. Qed.

Lemma after_next s n n' : line_exists s (loc s) -> nth_error (cur_toks s) (loc_idx (loc s)) = None ->
  loc_line (loc s) = Some n -> keys_after n (st_keys s) = Some n' ->
  after_statement s = (Ok tt, set_loc (mkloc (Some n') 0) (bump s)).
Proof.
  intros Hle Hn Hl Hk. unfold after_statement. rewrite Safety.bind_run, (has_next_token_eq s Hle), Hn.
  cbv iota. rewrite Safety.bind_run, (next_line_eq (bump s) n Hl).
  change (st_keys (bump s)) with (st_keys s). rewrite Hk. reflexivity.
Qed.

Definition finished (s : interp) : interp := set_state Idle (StoreProofs.imm_reset [] (bump s)).

Lemma outputs_finished s : outputs (finished s) = outputs s.
Proof. unfold finished, StoreProofs.imm_reset. destruct s; cbn. destruct breakpoint; reflexivity. Qed.

Lemma after_last s n : line_exists s (loc s) -> nth_error (cur_toks s) (loc_idx (loc s)) = None ->
  loc_line (loc s) = Some n -> keys_after n (st_keys s) = None ->
  after_statement s = (Ok tt, finished s).
Proof.
  intros Hle Hn Hl Hk. unfold after_statement. rewrite Safety.bind_run, (has_next_token_eq s Hle), Hn.
  cbv iota. rewrite Safety.bind_run, (next_line_eq (bump s) n Hl).
  change (st_keys (bump s)) with (st_keys s). rewrite Hk. reflexivity.
Qed.

Lemma after_imm s : loc s = imm0 -> immediate s = [] -> after_statement s = (Ok tt, finished s).
Proof.
  intros Hl Hi. unfold after_statement.
  assert (Hle : line_exists s (loc s)) by (unfold line_exists, line_ok; rewrite Hl; exact I).
  rewrite Safety.bind_run, (has_next_token_eq s Hle). unfold cur_toks. rewrite Hl. cbn [loc_line imm0 loc_idx]. rewrite Hi.
  cbn [nth_error]. cbv iota. rewrite Safety.bind_run, (next_line_imm (bump s)); [reflexivity|].
  change (loc (bump s)) with (loc s). rewrite Hl. reflexivity.
Qed.

(* ------------------------------------------------------------------ *)
(* 5. the simulation *)

(* [reach P s]: every run of host calls from [s], each made with enough fuel,
   passes — after finitely many calls that all return normally — through a
   state satisfying [P] *)
Inductive reach (P : interp -> Prop) : interp -> Prop :=
| reach_now s : P s -> reach P s
| reach_turn s (Q : interp -> Prop) :
    (exists f0, forall fuel, f0 <= fuel -> exists s', continue_evaluating fuel s = (Ok tt, s') /\ Q s') ->
    (forall s', Q s' -> reach P s') -> reach P s.

Lemma reach_bind (P R : interp -> Prop) s : reach R s -> (forall s', R s' -> reach P s') -> reach P s.
Proof.
  induction 1 as [s H|s Q Hq Hn IH]; intros HR; [apply HR, H|].
  apply (reach_turn P s Q Hq). intros s' Hs'. apply IH; assumption.
Qed.

Lemma Forall2_len {A B} (R : A -> B -> Prop) l l' : Forall2 R l l' -> length l = length l'.
Proof. induction 1; cbn; congruence. Qed.

Section Program.
  Variable F : nat.
  Variable p : rprogram.
  Variable o0 : list output.               (* what the model had printed before the run *)

  Record Inv (s : interp) : Prop := {
    i_trace : enable_tracing s = false;
    i_warn : enable_warnings s = false;
    i_imm : immediate s = [];
    i_keys : st_keys s = map fst p;
    i_sorted : StronglySorted N.lt (map fst p);
    i_lines : forall li n stmts, nth_error p li = Some (n, stmts) ->
              exists toks, toks_get n (st_toks s) = Some toks /\ LRen F stmts toks;
    i_only : forall n, toks_get n (st_toks s) <> None -> In n (map fst p) }.

  Lemma Inv_ext s s' :
    enable_tracing s' = enable_tracing s -> enable_warnings s' = enable_warnings s -> immediate s' = immediate s ->
    st_keys s' = st_keys s -> st_toks s' = st_toks s -> Inv s -> Inv s'.
  Proof.
    intros E1 E2 E3 E4 E5 [A1 A2 A3 A4 A5 A6 A7].
    split; [congruence|congruence|congruence|congruence|exact A5| |]; rewrite E5; assumption.
  Qed.

  Lemma Inv_keeps s s' : Inv s -> keeps s s' -> Inv s'.
  Proof.
    intros HI (K1 & K2 & K3 & K4 & K5 & K6). destruct HI as [A1 A2 A3 A4 A5 A6 A7].
    split; [exact K3|exact K4|congruence|congruence|exact A5| |]; rewrite K1; assumption.
  Qed.

  Lemma In_fst_nth n : In n (map fst p) -> exists li stmts, nth_error p li = Some (n, stmts).
  Proof.
    intros H. apply in_map_iff in H. destruct H as ([m stmts] & E & Hin). cbn in E. subst m.
    apply In_nth_error in Hin. destruct Hin as (li & Hli). exists li, stmts. exact Hli.
  Qed.

  Lemma Inv_jump s : Inv s ->
    forall n, store_has n s = match find_line p n 0 with Some _ => true | None => false end.
  Proof.
    intros HI n. unfold store_has. destruct (find_line p n 0) as [li|] eqn:Ef.
    - destruct (find_line_nth _ _ _ _ Ef) as (stmts & Hn). rewrite Nat.sub_0_r in Hn.
      destruct (i_lines s HI li n stmts Hn) as (toks & -> & _). reflexivity.
    - apply find_line_none in Ef. destruct (toks_get n (st_toks s)) eqn:E; [|reflexivity].
      exfalso. apply Ef. apply (i_only s HI). rewrite E. discriminate.
  Qed.

  Lemma Inv_heads s : Inv s ->
    forall n l, toks_get n (st_toks s) = Some l -> exists t l', l = t :: l' /\ t <> TElse.
  Proof.
    intros HI n l Hl. assert (Hin : In n (map fst p)) by (apply (i_only s HI); rewrite Hl; discriminate).
    destruct (In_fst_nth n Hin) as (li & stmts & Hn).
    destruct (i_lines s HI li n stmts Hn) as (toks & Ht & HL). rewrite Hl in Ht. inversion Ht; subst toks.
    destruct (LRen_nonempty _ _ _ HL) as (t & l' & -> & Hne & _). eexists _, _. split; [reflexivity | exact Hne].
  Qed.

  (* where the model's cursor is when the reference is at statement [si] of
     line [li]: on its first token, or on the colon in front of it *)
  Definition at_stmt (li si : nat) (s : interp) (colon : bool) : Prop :=
    exists n stmts toks tr,
      nth_error p li = Some (n, stmts) /\ toks_get n (st_toks s) = Some toks /\ loc_line (loc s) = Some n
      /\ skipn (loc_idx (loc s)) toks = (if colon then TColon :: tr else tr) /\ LRen F (skipn si stmts) tr.

  Definition Fin (st : rstate) (s : interp) : Prop :=
    state s = Idle /\ outputs s = o0 ++ map OPrint (r_out st).

  (* where a RETURN lands: just past the GOSUB that pushed the frame — on the
     colon in front of the reference's return statement, or at the end of the line *)
  Definition pcloc (T : list (N * list token)) (pc : rpc) (l : location) : Prop :=
    exists n stmts toks,
      nth_error p (fst pc) = Some (n, stmts) /\ toks_get n T = Some toks /\ loc_line l = Some n
      /\ ((exists tl, skipn (loc_idx l) toks = TColon :: tl /\ LRen F (skipn (snd pc) stmts) tl)
          \/ (skipn (loc_idx l) toks = [] /\ snd pc = length stmts)).

  (* the reference's return stack against the model's frames (the fragment has no FOR) *)
  Definition calls_rel (st : rstate) (s : interp) : Prop :=
    r_frames st = [] /\
    Forall2 (fun pc fr => fr_vars fr = [] /\ pcloc (st_toks s) pc (fr_ret fr)) (r_calls st) (rev (stack s)).

  Lemma calls_ext st st' s s' :
    r_calls st' = r_calls st -> r_frames st' = r_frames st -> stack s' = stack s -> st_toks s' = st_toks s ->
    calls_rel st s -> calls_rel st' s'.
  Proof. intros E1 E2 E3 E4 [A B]. split; [congruence|]. rewrite E1, E3, E4. exact B. Qed.

  Lemma calls_depth st s : calls_rel st s -> length (r_calls st) + length (r_frames st) = length (stack s).
  Proof.
    intros [A B]. rewrite A. apply Forall2_len in B. rewrite rev_length in B. cbn [length]. lia.
  Qed.

  Lemma calls_nil st s : calls_rel st s -> r_calls st = [] -> stack s = [].
  Proof.
    intros [A B] E. rewrite E in B. destruct (rev (stack s)) as [|x l] eqn:Er; [|inversion B].
    apply (f_equal (@rev _)) in Er. rewrite rev_involutive in Er. exact Er.
  Qed.

  Lemma calls_cons st s pc cr : calls_rel st s -> r_calls st = pc :: cr ->
    exists fr rs, stack s = rs ++ [fr] /\ fr_vars fr = [] /\ pcloc (st_toks s) pc (fr_ret fr)
                  /\ Forall2 (fun pc fr => fr_vars fr = [] /\ pcloc (st_toks s) pc (fr_ret fr)) cr (rev rs).
  Proof.
    intros [A B] E. rewrite E in B. destruct (rev (stack s)) as [|fr rs0] eqn:Er; [inversion B|].
    apply (f_equal (@rev _)) in Er. rewrite rev_involutive in Er. cbn [rev] in Er.
    inversion B as [|pc0 fr0 cr0 rs1 [H1 H2] H3]. subst.
    exists fr, (rev rs0). rewrite rev_involutive. repeat split; assumption.
  Qed.

  Inductive Sim : rpc -> rstate -> interp -> Prop :=
  | Sim_at li si st s colon :
      Inv s -> state s = Running -> same_store st s -> outputs s = o0 ++ map OPrint (r_out st) ->
      calls_rel st s -> at_stmt li si s colon -> Sim (li, si) st s
  | Sim_eol li st s n stmts : nth_error p li = Some (n, stmts) -> Sim (S li, 0) st s -> Sim (li, length stmts) st s
  | Sim_fin li si st s : length p <= li -> Fin st s -> Sim (li, si) st s.

  Lemma cur_toks_line s n toks : loc_line (loc s) = Some n -> toks_get n (st_toks s) = Some toks -> cur_toks s = toks.
  Proof. intros Hl Ht. unfold cur_toks. rewrite Hl, Ht. reflexivity. Qed.

  Lemma line_exists_line s n toks : loc_line (loc s) = Some n -> toks_get n (st_toks s) = Some toks ->
    line_exists s (loc s).
  Proof. intros Hl Ht. unfold line_exists, line_ok. rewrite Hl, Ht. discriminate. Qed.

  Lemma cur_tokens_line s n toks : loc_line (loc s) = Some n -> toks_get n (st_toks s) = Some toks ->
    fst (cur_tokens s) = Ok toks.
  Proof.
    intros Hl Ht. rewrite (cur_tokens_eq s (line_exists_line s n toks Hl Ht)). cbn [fst].
    rewrite (cur_toks_line s n toks Hl Ht). reflexivity.
  Qed.

  (* the end of a line, inside the call: on to the next line, or the program is over *)
  Lemma eol_after st s li n stmts toks :
    Inv s -> state s = Running -> same_store st s -> outputs s = o0 ++ map OPrint (r_out st) -> calls_rel st s ->
    nth_error p li = Some (n, stmts) -> toks_get n (st_toks s) = Some toks -> loc_line (loc s) = Some n ->
    nth_error toks (loc_idx (loc s)) = None ->
    exists s2, after_statement s = (Ok tt, s2) /\ Sim (S li, 0) st s2.
  Proof.
    intros HI Hrun Hrel Hout Hcr Hp Ht Hl Hnone.
    pose proof (line_exists_line s n toks Hl Ht) as Hle.
    assert (Hcn : nth_error (cur_toks s) (loc_idx (loc s)) = None) by (rewrite (cur_toks_line s n toks Hl Ht); exact Hnone).
    assert (Hk : keys_after n (st_keys s) = nth_error (map fst p) (S li)).
    { rewrite (i_keys s HI). apply (keys_after_nth _ (i_sorted s HI) li).
      rewrite nth_error_map, Hp. reflexivity. }
    destruct (nth_error p (S li)) as [[n' stmts']|] eqn:Ep'.
    - rewrite nth_error_map, Ep' in Hk. cbn in Hk.
      eexists. split; [apply (after_next s n n' Hle Hcn Hl Hk)|].
      set (s2 := set_loc (mkloc (Some n') 0) (bump s)).
      assert (HI2 : Inv s2) by (apply (Inv_ext s); try reflexivity; exact HI).
      destruct (i_lines s2 HI2 (S li) n' stmts' Ep') as (toks' & Ht' & HL').
      apply (Sim_at (S li) 0 st s2 false HI2 Hrun).
      + destruct Hrel as [A B]. split; [exact A | exact B].
      + exact Hout.
      + apply (calls_ext st st s); try reflexivity; exact Hcr.
      + exists n', stmts', toks', toks'. repeat split; try assumption; reflexivity.
    - rewrite nth_error_map, Ep' in Hk. cbn in Hk.
      eexists. split; [apply (after_last s n Hle Hcn Hl Hk)|].
      apply Sim_fin; [apply nth_error_None; exact Ep'|].
      split; [reflexivity|]. rewrite outputs_finished. exact Hout.
  Qed.

  (* every statement of the fragment steps as its step lemma says *)
  Lemma sren_steps s toks li after st stmt ts rest i :
    Inv s -> fst (cur_tokens s) = Ok toks -> same_store st s -> calls_rel st s ->
    skipn i toks = ts ++ rest -> (rest = [] \/ exists tr, rest = TColon :: tr) ->
    SRen F rest stmt ts -> steps_as F p s toks li after st stmt i ts.
  Proof.
    intros HI Htoks Hrel Hcr Hsk Hrest HS.
    pose proof (i_trace s HI) as Htr. pose proof (i_warn s HI) as Hw.
    destruct HS as [v e e' te H1 H2 H3 H4 H5|items mitems ti H1 H2 H3 H4|n x H1|n x H1| | |c c' tc n x H1 H2 H3 H4 H5].
    - eapply (step_let F p s toks Htoks Htr Hw li after st Hrel v e e' te rest i); eassumption.
    - eapply (step_print F p s toks Htoks Htr Hw li after st Hrel items mitems ti rest i); eassumption.
    - eapply (step_goto F p s toks Htoks Htr Hw (Inv_jump s HI) li after st Hrel n x rest i); eassumption.
    - eapply (step_gosub F p s toks Htoks Htr Hw (Inv_jump s HI) li after st Hrel n x rest i);
        [exact Hsk | exact H1 | apply calls_depth; exact Hcr].
    - eapply (step_return F p s toks Htoks Htr Hw li after st Hrel rest i); [exact Hsk | apply calls_nil; exact Hcr |].
      intros pc cr E. destruct (calls_cons st s pc cr Hcr E) as (fr & rs & A & B & _). exists fr, rs. split; assumption.
    - eapply (step_end F p s toks Htoks Htr Hw li after st rest i); [exact Hsk | apply (i_imm s HI)].
    - eapply (step_if F p s toks Htoks Htr Hw (Inv_jump s HI) (Inv_heads s HI) li after st Hrel c c' tc n x rest i);
        eassumption.
  Qed.

  Definition FailsWith (er : rerr) (line : N) (st' : rstate) (s1 : interp) : Prop :=
    exists f0, forall fuel, f0 <= fuel -> exists ie l s',
      continue_evaluating fuel s1 = (Err ie (Some l), s') /\ rerr_of2 ie = er /\ loc_line l = Some line
      /\ state s' = Idle /\ outputs s' = o0 ++ map OPrint (r_out st').

  Definition after_step (o : outcome) (s : interp) : Prop :=
    match o with
    | Next pc' st' => reach (Sim pc' st') s
    | Done st' => reach (Fin st') s
    | Fail er line st' => reach (FailsWith er line st') s
    | NoFuel => False
    end.

  Lemma skipn_S_cons {A} (l : list A) i x r : skipn i l = x :: r -> skipn (S i) l = r.
  Proof. intros H. apply (skipn_cons_nth _ _ _ _ H). Qed.

  (* the model's cursor on the first token of statement [si] of line [li] *)
  Lemma at_step li si st s :
    Inv s -> state s = Running -> same_store st s -> outputs s = o0 ++ map OPrint (r_out st) -> calls_rel st s ->
    at_stmt li si s false -> after_step (rstep F p (li, si) st) s.
  Proof.
    intros HI Hrun Hrel Hout Hcr (n & stmts & toks & tl & Hp & Ht & Hl & Hsk & HL).
    (* the statement and what follows it on the line *)
    assert (Hsplit : exists stmt rs ts rest,
              skipn si stmts = stmt :: rs /\ tl = ts ++ rest /\ SRen F rest stmt ts
              /\ ((rest = [] /\ rs = []) \/ (exists tr', rest = TColon :: tr' /\ LRen F rs tr'))).
    { inversion HL as [s0 ts0 HS E1 E2|s0 ts0 r0 tr0 HS HL0 E1 E2].
      - exists s0, [], tl, []. rewrite app_nil_r. split; [reflexivity|]. split; [reflexivity|].
        split; [exact HS|]. left; split; reflexivity.
      - exists s0, r0, ts0, (TColon :: tr0). split; [reflexivity|]. split; [first [reflexivity | symmetry; exact E2]|].
        split; [exact HS|]. right. exists tr0. split; [reflexivity | assumption]. }
    clear HL.
    set (i := loc_idx (loc s)) in *.
    pose proof (cur_tokens_line s n toks Hl Ht) as Htoks.
    pose proof (line_exists_line s n toks Hl Ht) as Hle.
    pose proof (cur_toks_line s n toks Hl Ht) as Hct.
    destruct Hsplit as (stmt & rs & ts & rest & Hst & -> & HS & Hrest).
    destruct (skipn_cons_nth _ _ _ _ Hst) as [Hnth Hrs].
    assert (Hrest' : rest = [] \/ exists tr', rest = TColon :: tr') by (destruct Hrest as [[-> _]|(tr' & -> & _)]; eauto).
    destruct (sren_steps s toks li (li, S si) st stmt ts rest i HI Htoks Hrel Hcr Hsk Hrest' HS) as (f0 & Hstep).
    destruct (SRen_nonempty _ _ _ _ HS) as (t & ts' & Ets & _).
    assert (Hnt : nth_error (cur_toks s) (loc_idx (loc s)) = Some t).
    { rewrite Hct. fold i. rewrite Ets in Hsk. cbn [app] in Hsk. apply (skipn_cons_nth _ _ _ _ Hsk). }
    unfold rstep. cbn [fst snd]. rewrite Hp, Hnth.
    unfold steps_as, step_result in Hstep.
    assert (Hturn : forall fuel, continue_evaluating fuel s =
              postprocess ((evaluate_statement fuel 0 ;;; after_statement) (at_idx s i (S (reads s)) (outputs s)))).
    { intros fuel. rewrite (turn_eq fuel s t Hrun Hle Hnt), bump_is_at. reflexivity. }
    destruct (exec F p stmt (li, S si) li st) as [pc' st'|st'|er line st'|] eqn:Eex; unfold after_step.
    - (* the statement completes: the rest of the call *)
      apply (reach_turn _ s (Sim pc' st')); [|intros s' Hs'; apply reach_now, Hs'].
      exists f0. intros fuel Hf. specialize (Hstep fuel Hf (S (reads s)) (outputs s)).
      destruct Hstep as (s' & Hev & Hk & Hrel' & Hfr' & CS & (outs & Ho1 & Ho2) & Hloc).
      rewrite Hturn. rewrite Safety.bind_run, Hev.
      pose proof (Inv_keeps s s' HI Hk) as HI'.
      destruct Hk as (K1 & K2 & K3 & K4 & K5 & K6).
      assert (Hrun' : state s' = Running) by congruence.
      assert (Hout' : outputs s' = o0 ++ map OPrint (r_out st')).
      { rewrite Ho2, Ho1, Hout, map_app, app_assoc. reflexivity. }
      assert (Ht' : toks_get n (st_toks s') = Some toks) by (rewrite K1; exact Ht).
      pose proof (skipn_app_len _ _ _ _ Hsk) as Hsk'.
      (* where a RETURN to this statement lands *)
      assert (Hafter : pcloc (st_toks s') (li, S si) (mkloc (loc_line (loc s)) (i + length ts))).
      { exists n, stmts, toks. cbn [fst snd loc_line loc_idx].
        split; [exact Hp|]. split; [exact Ht'|]. split; [exact Hl|].
        destruct Hrest as [[-> ->]|(tr' & -> & HL')].
        - right. split; [exact Hsk'|].
          assert (Hz : length (skipn si stmts) = 1) by (rewrite Hst; reflexivity).
          rewrite skipn_length in Hz. lia.
        - left. exists tr'. split; [exact Hsk'|]. rewrite Hrs. exact HL'. }
      assert (Hcr' : calls_rel st' s').
      { destruct Hcr as [A B]. split; [congruence|].
        destruct CS as [[E1 E2]|[[E1 E2]|(fr & rs0 & cr & E1 & E2 & E3 & E4 & _)]].
        - rewrite E1, E2, K1. exact B.
        - rewrite E1, E2, rev_unit. constructor; [split; [reflexivity | exact Hafter]|]. rewrite K1. exact B.
        - rewrite E4, E2, K1. rewrite E3, E1, rev_unit in B. inversion B; assumption. }
      destruct Hloc as [[-> Hloc]|[(n' & li' & stmts' & -> & Hp' & Hloc)|[[-> Hloc]|(fr & rs0 & cr & E1 & E2 & Hloc)]]].
      + (* just past the statement *)
        assert (Hl' : loc_line (loc s') = Some n) by (rewrite Hloc; exact Hl).
        assert (Hidx : loc_idx (loc s') = i + length ts) by (rewrite Hloc; reflexivity).
        destruct Hrest as [[-> ->]|(tr' & -> & HL')].
        * (* last statement of the line *)
          assert (Hlen : S si = length stmts).
          { assert (Hz : length (skipn si stmts) = 1) by (rewrite Hst; reflexivity).
            rewrite skipn_length in Hz. lia. }
          destruct (eol_after st' s' li n stmts toks HI' Hrun' Hrel' Hout' Hcr' Hp Ht' Hl') as (s2 & Ha & HS2).
          { rewrite Hidx. apply skipn_nil_nth. exact Hsk'. }
          exists s2. split; [rewrite Ha; reflexivity|]. rewrite Hlen. apply (Sim_eol li st' s2 n stmts Hp HS2).
        * (* a colon follows: the call ends on it *)
          destruct (skipn_cons_nth _ _ _ _ Hsk') as [Hc _].
          assert (Hle' : line_exists s' (loc s')) by (apply (line_exists_line s' n toks Hl' Ht')).
          exists (bump s'). split.
          { rewrite (after_stay s' TColon Hle'); [reflexivity|].
            rewrite (cur_toks_line s' n toks Hl' Ht'), Hidx. exact Hc. }
          apply (Sim_at li (S si) st' (bump s') true);
            [apply (Inv_ext s'); try reflexivity; exact HI' | exact Hrun'
            | destruct Hrel' as [A B]; split; [exact A | exact B] | exact Hout'
            | apply (calls_ext st' st' s'); try reflexivity; exact Hcr' |].
          exists n, stmts, toks, tr'.
          split; [exact Hp|]. split; [exact Ht'|]. split; [exact Hl'|].
          split; [change (loc (bump s')) with (loc s'); rewrite Hidx; exact Hsk' | rewrite Hrs; exact HL'].
      + (* a transfer: the first token of the target line *)
        destruct (i_lines s' HI' li' n' stmts' Hp') as (toks' & Ht2 & HL2).
        destruct (LRen_nonempty _ _ _ HL2) as (t2 & toks2 & -> & _).
        assert (Hl' : loc_line (loc s') = Some n') by (rewrite Hloc; reflexivity).
        assert (Hle' : line_exists s' (loc s')) by (apply (line_exists_line s' n' _ Hl' Ht2)).
        exists (bump s'). split.
        { rewrite (after_stay s' t2 Hle'); [reflexivity|].
          rewrite (cur_toks_line s' n' _ Hl' Ht2), Hloc. reflexivity. }
        apply (Sim_at li' 0 st' (bump s') false);
          [apply (Inv_ext s'); try reflexivity; exact HI' | exact Hrun'
          | destruct Hrel' as [A B]; split; [exact A | exact B] | exact Hout'
          | apply (calls_ext st' st' s'); try reflexivity; exact Hcr' |].
        exists n', stmts', (t2 :: toks2), (t2 :: toks2).
        split; [exact Hp'|]. split; [exact Ht2|]. split; [exact Hl'|].
        split; [change (loc (bump s')) with (loc s'); rewrite Hloc; reflexivity | exact HL2].
      + (* IF not taken: the rest of the line is skipped *)
        assert (Hl' : loc_line (loc s') = Some n) by (rewrite Hloc; exact Hl).
        destruct (eol_after st' s' li n stmts toks HI' Hrun' Hrel' Hout' Hcr' Hp Ht' Hl') as (s2 & Ha & HS2).
        { rewrite Hloc. cbn [loc_idx]. apply nth_error_None. apply le_n. }
        exists s2. split; [rewrite Ha; reflexivity | exact HS2].
      + (* RETURN: just past the GOSUB that called *)
        destruct (calls_cons st s pc' cr Hcr E2) as (fr2 & rs2 & A & _ & C & _).
        rewrite E1 in A. apply app_inj_tail in A. destruct A as [_ <-].
        destruct pc' as [li2 si2].
        destruct C as (n2 & stmts2 & toks2 & P1 & P2 & P3 & PC). cbn [fst snd] in P1, PC.
        assert (Hl' : loc_line (loc s') = Some n2) by (rewrite Hloc; exact P3).
        assert (Ht2 : toks_get n2 (st_toks s') = Some toks2) by (rewrite K1; exact P2).
        destruct PC as [(tl2 & Q1 & Q2)|(Q1 & Q2)].
        * destruct (skipn_cons_nth _ _ _ _ Q1) as [Hc _].
          assert (Hle' : line_exists s' (loc s')) by (apply (line_exists_line s' n2 toks2 Hl' Ht2)).
          exists (bump s'). split.
          { rewrite (after_stay s' TColon Hle'); [reflexivity|].
            rewrite (cur_toks_line s' n2 toks2 Hl' Ht2), Hloc. exact Hc. }
          apply (Sim_at li2 si2 st' (bump s') true);
            [apply (Inv_ext s'); try reflexivity; exact HI' | exact Hrun'
            | destruct Hrel' as [A B]; split; [exact A | exact B] | exact Hout'
            | apply (calls_ext st' st' s'); try reflexivity; exact Hcr' |].
          exists n2, stmts2, toks2, tl2.
          split; [exact P1|]. split; [exact Ht2|]. split; [exact Hl'|].
          split; [change (loc (bump s')) with (loc s'); rewrite Hloc; exact Q1 | exact Q2].
        * destruct (eol_after st' s' li2 n2 stmts2 toks2 HI' Hrun' Hrel' Hout' Hcr' P1 Ht2 Hl') as (s2 & Ha & HS2).
          { rewrite Hloc. apply skipn_nil_nth. exact Q1. }
          exists s2. split; [rewrite Ha; reflexivity|]. rewrite Q2. apply (Sim_eol li2 st' s2 n2 stmts2 P1 HS2).
    - (* END *)
      apply (reach_turn _ s (Fin st')); [|intros s' Hs'; apply reach_now, Hs'].
      exists f0. intros fuel Hf. specialize (Hstep fuel Hf (S (reads s)) (outputs s)).
      destruct Hstep as (-> & s' & Hev & Hk & Hloc & Himm & Ho).
      rewrite Hturn. rewrite Safety.bind_run, Hev.
      destruct Hk as (K1 & K2 & K3 & K4 & K5 & K6).
      rewrite (after_imm s' Hloc ltac:(congruence)).
      eexists. split; [reflexivity|]. split; [reflexivity|].
      rewrite outputs_finished, Ho. exact Hout.
    - (* the statement fails: so does the call, on this line *)
      apply reach_now. exists f0. intros fuel Hf. specialize (Hstep fuel Hf (S (reads s)) (outputs s)).
      destruct Hstep as (-> & -> & ie & s' & Hev & Her & Hk & Hll & Ho & Hne).
      rewrite Hturn. rewrite Safety.bind_run, Hev. cbn [postprocess].
      exists ie, (prev_location (loc s')), (set_state Idle s').
      split; [f_equal; f_equal; unfold populate_error_location; destruct ie; try reflexivity; congruence|].
      split; [exact Her|]. split.
      { cbn. rewrite Hll, Hl. unfold line_no. rewrite Hp. reflexivity. }
      split; [reflexivity|]. cbn. rewrite Ho. exact Hout.
    - specialize (Hstep f0 (le_n _) (S (reads s)) (outputs s)). exact Hstep.
  Qed.

  (* the colon in front of a statement is a host call of its own *)
  Lemma colon_step li si st s :
    Inv s -> state s = Running -> same_store st s -> outputs s = o0 ++ map OPrint (r_out st) -> calls_rel st s ->
    at_stmt li si s true ->
    exists f0, forall fuel, f0 <= fuel -> exists s', continue_evaluating fuel s = (Ok tt, s') /\
      Inv s' /\ state s' = Running /\ same_store st s' /\ outputs s' = o0 ++ map OPrint (r_out st) /\ calls_rel st s'
      /\ at_stmt li si s' false.
  Proof.
    intros HI Hrun Hrel Hout Hcr (n & stmts & toks & tl & Hp & Ht & Hl & Hsk & HL).
    set (i := loc_idx (loc s)) in *.
    pose proof (cur_tokens_line s n toks Hl Ht) as Htoks.
    pose proof (line_exists_line s n toks Hl Ht) as Hle.
    pose proof (cur_toks_line s n toks Hl Ht) as Hct.
    destruct (skipn_cons_nth _ _ _ _ Hsk) as [Hc Hsk'].
    destruct (LRen_nonempty _ _ _ HL) as (t2 & tl2 & Etl & _).
    assert (Hn2 : nth_error toks (S i) = Some t2) by (rewrite Etl in Hsk'; apply (skipn_cons_nth _ _ _ _ Hsk')).
    exists 1. intros fuel Hf. destruct fuel as [|f]; [lia|].
    assert (Hnt : nth_error (cur_toks s) (loc_idx (loc s)) = Some TColon) by (rewrite Hct; exact Hc).
    rewrite (turn_eq (S f) s TColon Hrun Hle Hnt), bump_is_at. fold i.
    assert (Hev : evaluate_statement (S f) 0 (at_idx s i (S (reads s)) (outputs s))
                  = (Ok tt, at_idx s (S i) (S (S (reads s))) (outputs s))).
    { cbn [evaluate_statement]. change (Nat.eqb 0 max_nesting) with false. cbv iota.
      unfold evaluate_statement_body. rewrite bind_get_run.
      change (enable_tracing (at_idx s i (S (reads s)) (outputs s))) with (enable_tracing s).
      rewrite (i_trace s HI). cbv iota. rewrite bind_ret'.
      erewrite bind_ok by (apply (next_some s toks Htoks); exact Hc). reflexivity. }
    rewrite Safety.bind_run, Hev.
    set (s1 := at_idx s (S i) (S (S (reads s))) (outputs s)).
    assert (Hl1 : loc_line (loc s1) = Some n) by exact Hl.
    assert (Ht1 : toks_get n (st_toks s1) = Some toks) by exact Ht.
    rewrite (after_stay s1 t2 (line_exists_line s1 n toks Hl1 Ht1)).
    2:{ rewrite (cur_toks_line s1 n toks Hl1 Ht1). exact Hn2. }
    eexists. split; [reflexivity|].
    split; [apply (Inv_ext s); try reflexivity; exact HI|]. split; [exact Hrun|].
    split; [destruct Hrel as [A B]; split; [exact A | exact B]|]. split; [exact Hout|].
    split; [apply (calls_ext st st s); try reflexivity; exact Hcr|].
    exists n, stmts, toks, tl. split; [exact Hp|]. split; [exact Ht|]. split; [exact Hl|]. split; [exact Hsk' | exact HL].
  Qed.

  (* one reference step *)
  Theorem sim_step pc st s : Sim pc st s -> after_step (rstep F p pc st) s.
  Proof.
    induction 1 as [li si st s colon HI Hrun Hrel Hout Hcr Hat|li st s n stmts Hp HS IH|li si st s Hlen HF].
    - destruct colon; [|apply at_step; assumption].
      destruct (colon_step li si st s HI Hrun Hrel Hout Hcr Hat) as (f0 & Hc).
      assert (Hgoal : forall s', (Inv s' /\ state s' = Running /\ same_store st s'
                                 /\ outputs s' = o0 ++ map OPrint (r_out st) /\ calls_rel st s'
                                 /\ at_stmt li si s' false) ->
                        after_step (rstep F p (li, si) st) s').
      { intros s' (A & B & C & D & E & G). apply at_step; assumption. }
      destruct (rstep F p (li, si) st) as [pc' st'|st'|er line st'|]; unfold after_step in *.
      + eapply reach_turn; [exists f0; exact Hc | exact Hgoal].
      + eapply reach_turn; [exists f0; exact Hc | exact Hgoal].
      + eapply reach_turn; [exists f0; exact Hc | exact Hgoal].
      + destruct (Hc f0 (le_n _)) as (s' & _ & Hs'). exact (Hgoal s' Hs').
    - unfold rstep. cbn [fst snd]. rewrite Hp.
      assert (Hn : nth_error stmts (length stmts) = None) by (apply nth_error_None; apply le_n).
      rewrite Hn. apply reach_now. exact HS.
    - unfold rstep. cbn [fst snd].
      assert (Hn : nth_error p li = None) by (apply nth_error_None; exact Hlen).
      rewrite Hn. apply reach_now. exact HF.
  Qed.

  (* any number of reference steps *)
  Theorem fragment_simulation : forall k pc st s, Sim pc st s -> after_step (rrun F p k pc st) s.
  Proof.
    induction k as [|k IH]; intros pc st s HS; cbn [rrun]; [apply reach_now, HS|].
    pose proof (sim_step pc st s HS) as H1.
    destruct (rstep F p pc st) as [pc' st'|st'|er line st'|]; try exact H1.
    unfold after_step in H1.
    assert (Hk : forall s', Sim pc' st' s' -> after_step (rrun F p k pc' st') s') by (intros s'; apply IH).
    destruct (rrun F p k pc' st') as [pc2 st2|st2|er2 line2 st2|] eqn:Er; unfold after_step in *.
    - eapply reach_bind; [exact H1 | exact Hk].
    - eapply reach_bind; [exact H1 | exact Hk].
    - eapply reach_bind; [exact H1 | exact Hk].
    - (* the reference never runs out of fuel on the fragment *)
      clear IH HS. induction H1 as [s0 Hs0|s0 Q Hq Hn IHr]; [exact (Hk s0 Hs0)|].
      destruct Hq as (f0 & Hq). destruct (Hq f0 (le_n _)) as (s' & _ & Hs'). exact (IHr s' Hs').
  Qed.
End Program.

