(* Proofs/ProgSim.v — C03: whole-program simulation for a fragment of BASIC.

   The fragment: scalar assignment, PRINT (expressions, `;`, `,`), GOTO,
   GOSUB, RETURN, FOR/TO/STEP, NEXT, IF c THEN <line>, IF c THEN <statement>,
   IF c THEN a ELSE b, READ / DATA / RESTORE, REM, END — expressions from the fragment of C02 (literals,
   variables, unary and binary operators, ABS, INT, parentheses).  It is a
   language of counter machines: programs in it loop, branch and need not
   terminate.

   The theorem (fragment_simulation): take ANY reference program of the
   fragment, ANY legal token spelling of it stored in the model interpreter
   (each line: the statements' spellings joined by colons), and run both — the
   reference interpreter (Ref/RefSem.v: syntax trees, one step per statement)
   and the model of the implementation (token cursor, one host call per
   statement, colons as turns of their own, line advance inside the turn).
   After every number of reference steps there is a number of host calls after
   which the model has printed exactly the reference's output records and is at
   the corresponding place with the corresponding variable store; if the
   reference stops (END, end of program) the model is idle; if it fails, the
   model fails in the same call with the same error kind on the same line.

   Host calls are run with enough fuel ([turn_ok]: for every fuel above some
   bound the call returns that result): fuel is the model's device for the
   termination of the Rust loops, not part of the semantics. *)
From Coq Require Import List NArith ZArith Bool Lia Sorted.
From Abasic Require Import Model.Bytes Model.Num Model.Token Model.Data Model.Lexer Gen.Tables
     Model.State Model.Eval Model.Interp Ref.RefSem Proofs.ExprSem Proofs.DataSim Proofs.RefProofs Proofs.StmtSim.
Import ListNotations.
Local Open Scope nat_scope.

(* ------------------------------------------------------------------ *)
(* 1. spellings of statements, lines, programs *)

Definition line_target (x : f64) : N := Z.to_N (f64_to_u64_sat x).

(* READ v1, v2, ... *)
Fixpoint read_toks (vs : list bytes) : list token :=
  match vs with
  | [] => []
  | [v] => [TSymbol v]
  | v :: r => TSymbol v :: TComma :: read_toks r
  end.

(* tokens the skipping loop of a false IF passes over *)
Definition plain_tok (t : token) : bool := negb (token_eqb t TColon || token_eqb t TElse).

(* the THEN arm of an IF that has an ELSE: a line number, or a statement that
   needs no return point of its own (GOSUB and FOR in that position would
   return to the ELSE token; a nested IF would claim the ELSE) *)
Inductive TRen (F d : nat) (rest : list token) : arm -> list token -> Prop :=
| TR_line n x : line_target x = n -> TRen F d rest (ALine n) [TNumber x]
| TR_let v e e' te : tr e = Some e' -> Renders 0 e' te -> S d + pdepth e' < max_nesting -> stops 0 rest = true ->
    xsize e <= F -> TRen F d rest (AStmt (SLet v [] e)) (TSymbol v :: TEquals :: te)
| TR_print items mitems ti : tr_items items = Some mitems -> IRenders rest mitems ti ->
    S d + idepth mitems < max_nesting -> isize items <= F -> TRen F d rest (AStmt (SPrint items)) (TPrint :: ti)
| TR_goto n x : line_target x = n -> TRen F d rest (AStmt (SGoto n)) [TGoto; TNumber x]
| TR_return : TRen F d rest (AStmt SReturn) [TReturn]
| TR_end : TRen F d rest (AStmt SEnd) [TEnd]
| TR_next v : TRen F d rest (AStmt (SNext v)) [TNext; TSymbol v].

(* [SRen d rest stmt ts]: [ts] spells [stmt] when followed by [rest], at nesting depth [d]
   (0 for a statement of the line, one more inside each IF..THEN clause) *)
(* [F]: the expression fuel the reference interpreter is run with; every
   expression of the program must fit ([xsize], [isize]) *)
Inductive SRen (F : nat) (d : nat) (rest : list token) : rstmt -> list token -> Prop :=
| SR_let v e e' te : tr e = Some e' -> Renders 0 e' te -> S d + pdepth e' < max_nesting -> stops 0 rest = true ->
    xsize e <= F ->
    SRen F d rest (SLet v [] e) (TSymbol v :: TEquals :: te)
| SR_print items mitems ti : tr_items items = Some mitems -> IRenders rest mitems ti ->
    S d + idepth mitems < max_nesting -> isize items <= F ->
    SRen F d rest (SPrint items) (TPrint :: ti)
| SR_print_q items mitems ti : tr_items items = Some mitems -> IRenders rest mitems ti ->
    S d + idepth mitems < max_nesting -> isize items <= F ->
    SRen F d rest (SPrint items) (TQuestionMark :: ti)
| SR_let_kw v e e' te : tr e = Some e' -> Renders 0 e' te -> S d + pdepth e' < max_nesting -> stops 0 rest = true ->
    xsize e <= F ->
    SRen F d rest (SLet v [] e) (TLet :: TSymbol v :: TEquals :: te)
| SR_goto n x : line_target x = n -> SRen F d rest (SGoto n) [TGoto; TNumber x]
| SR_gosub n x : line_target x = n -> SRen F d rest (SGosub n) [TGosub; TNumber x]
| SR_return : SRen F d rest SReturn [TReturn]
| SR_end : SRen F d rest SEnd [TEnd]
| SR_if c c' tc n x : tr c = Some c' -> Renders 0 c' tc -> S d + pdepth c' < max_nesting -> line_target x = n ->
    xsize c <= F ->
    SRen F d rest (SIf c (ALine n) None) (TIf :: tc ++ [TThen; TNumber x])
| SR_for v a a' ta b b' tb stp tstep :
    tr a = Some a' -> Renders 0 a' ta -> S d + pdepth a' < max_nesting -> xsize a <= F ->
    tr b = Some b' -> Renders 0 b' tb -> S d + pdepth b' < max_nesting -> xsize b <= F ->
    ((stp = None /\ tstep = []) \/
     (exists c c' tc, stp = Some c /\ tstep = TStep :: tc /\ tr c = Some c' /\ Renders 0 c' tc
                      /\ S d + pdepth c' < max_nesting /\ xsize c <= F)) ->
    SRen F d rest (SFor v a b stp) (TFor :: TSymbol v :: TEquals :: ta ++ TTo :: tb ++ tstep)
| SR_next v : SRen F d rest (SNext v) [TNext; TSymbol v]
| SR_rem b : SRen F d rest SRem [TRemark b]
| SR_data items : d = 0 -> SRen F d rest (SData items) [TData items]     (* only as a statement of the line *)
| SR_restore : SRen F d rest SRestore [TRestore]
| SR_read vs : vs <> [] -> SRen F d rest (SRead (map (fun v => (v, [])) vs)) (TRead :: read_toks vs)
| SR_if_stmt c c' tc stmt tn : tr c = Some c' -> Renders 0 c' tc -> S d + pdepth c' < max_nesting -> xsize c <= F ->
    Nat.eqb (S d) max_nesting = false -> SRen F (S d) rest stmt tn ->
    forallb plain_tok tn = true ->      (* no ELSE inside: it would be taken for this IF's *)
    SRen F d rest (SIf c (AStmt stmt) None) (TIf :: tc ++ TThen :: tn)
| SR_if_else_line c c' tc A ta n x : tr c = Some c' -> Renders 0 c' tc -> S d + pdepth c' < max_nesting -> xsize c <= F ->
    Nat.eqb (S d) max_nesting = false ->
    TRen F (S d) (TElse :: TNumber x :: rest) A ta -> line_target x = n ->
    SRen F d rest (SIf c A (Some (ALine n))) (TIf :: tc ++ TThen :: ta ++ TElse :: [TNumber x])
| SR_if_else_stmt c c' tc A ta B tb : tr c = Some c' -> Renders 0 c' tc -> S d + pdepth c' < max_nesting -> xsize c <= F ->
    Nat.eqb (S d) max_nesting = false ->
    TRen F (S d) (TElse :: tb ++ rest) A ta -> SRen F (S d) rest B tb ->
    SRen F d rest (SIf c A (Some (AStmt B))) (TIf :: tc ++ TThen :: ta ++ TElse :: tb).

(* a line: statements joined by colons *)
Inductive LRen (F : nat) : list rstmt -> list token -> Prop :=
| LR_last s ts : SRen F 0 [] s ts -> LRen F [s] ts
| LR_cons s ts r tr : SRen F 0 (TColon :: tr) s ts -> LRen F r tr -> LRen F (s :: r) (ts ++ TColon :: tr).

Lemma SRen_nonempty F d rest s ts : SRen F d rest s ts -> exists t ts', ts = t :: ts' /\ t <> TElse /\ t <> TColon.
Proof. destruct 1; eexists _, _; (split; [reflexivity | split; discriminate]). Qed.

Lemma LRen_nonempty F stmts toks : LRen F stmts toks -> exists t toks', toks = t :: toks' /\ t <> TElse /\ t <> TColon.
Proof.
  destruct 1 as [s ts H|s ts r tr H _]; destruct (SRen_nonempty _ _ _ _ _ H) as (t & ts' & -> & Ht);
    eexists _, _; (split; [reflexivity | exact Ht]).
Qed.

(* ------------------------------------------------------------------ *)
(* 2. line numbers *)

Lemma find_line_ge p n : forall k i, find_line p n k = Some i -> k <= i.
Proof.
  induction p as [|[m stmts] p IH]; intros k i H; cbn [find_line] in H; [discriminate|].
  destruct (m =? n)%N; [inversion H; lia|]. apply IH in H. lia.
Qed.

Lemma find_line_nth p n : forall k i, find_line p n k = Some i ->
  exists stmts, nth_error p (i - k) = Some (n, stmts).
Proof.
  induction p as [|[m stmts] p IH]; intros k i H; cbn [find_line] in H; [discriminate|].
  destruct (N.eqb_spec m n) as [->|Hne].
  - inversion H; subst. rewrite Nat.sub_diag. exists stmts. reflexivity.
  - pose proof (find_line_ge _ _ _ _ H) as Hge. destruct (IH _ _ H) as (st' & Hn). exists st'.
    replace (i - k) with (S (i - S k)) by lia. exact Hn.
Qed.

Lemma find_line_none p n : forall k, find_line p n k = None <-> ~ In n (map fst p).
Proof.
  induction p as [|[m stmts] p IH]; intros k; cbn [find_line map fst In]; [tauto|].
  destruct (N.eqb_spec m n) as [->|Hne].
  - split; [discriminate | intros H; exfalso; apply H; left; reflexivity].
  - rewrite IH. tauto.
Qed.

Lemma keys_after_all_greater n l : Forall (fun k => (n < k)%N) l -> keys_after n l = hd_error l.
Proof.
  destruct l as [|x l]; [reflexivity|]. intros H. inversion H; subst. cbn [keys_after hd_error].
  destruct (N.ltb_spec n x); [reflexivity | lia].
Qed.

Lemma keys_after_nth l : StronglySorted N.lt l -> forall i n, nth_error l i = Some n ->
  keys_after n l = nth_error l (S i).
Proof.
  induction 1 as [|x l Hs IH Hall]; intros i n Hn; [destruct i; discriminate|].
  destruct i as [|i]; cbn [nth_error] in *.
  - inversion Hn; subst. cbn [keys_after]. destruct (N.ltb_spec n n); [lia|].
    rewrite (keys_after_all_greater n l Hall). destruct l; reflexivity.
  - cbn [keys_after]. assert (Hx : (x < n)%N).
    { rewrite Forall_forall in Hall. apply Hall. eapply nth_error_In; eassumption. }
    destruct (N.ltb_spec n x); [lia|]. apply IH. exact Hn.
Qed.

(* ------------------------------------------------------------------ *)
(* 3. one statement, both sides (warnings and tracing off) *)

Definition rerr_of2 (e : ierror) : rerr :=
  match e with
  | EUndefinedStatement => RUndefinedLine
  | EStackOverflow => RStackOverflow
  | EReturnWithoutGosub => RReturnWithoutGosub
  | ENextWithoutFor => RNextWithoutFor
  | EOutOfData => ROutOfData
  | EDataTypeMismatch => RDataTypeMismatch
  | other => rerr_of other
  end.

Lemma set_state_same s : set_state (state s) s = s.
Proof. destruct s; reflexivity. Qed.

Lemma skipn_all_length {A} (l : list A) i ts : skipn i l = ts -> ts <> [] -> i + length ts = length l.
Proof.
  intros H Hne. assert (Hl : length (skipn i l) = length ts) by (rewrite H; reflexivity).
  rewrite skipn_length in Hl. destruct ts; [congruence|]. cbn [length] in *. lia.
Qed.

Lemma Forall2_len {A B} (R : A -> B -> Prop) l l' : Forall2 R l l' -> length l = length l'.
Proof. induction 1; cbn; congruence. Qed.

(* name-suffix typing of the scalar store (the part of C16's invariant NEXT
   relies on: a variable that reads as a number has a numeric name) *)
Definition typed (s : interp) : Prop :=
  forall name x, alist_get name (variables s) = Some x -> type_matches name x = true.

Lemma typed_set s s' v x : typed s -> type_matches v x = true -> variables s' = alist_set v x (variables s) -> typed s'.
Proof.
  intros HT Hm Hv name y. rewrite Hv, alist_get_set. destruct (bytes_eqb name v) eqn:E.
  - apply bytes_eqb_eq in E. subst name. intros H. inversion H; subst. exact Hm.
  - apply HT.
Qed.

Lemma typed_ext s s' : variables s' = variables s -> typed s -> typed s'.
Proof. unfold typed. intros ->. auto. Qed.

Lemma typed_read s v cur : typed s ->
  match alist_get v (variables s) with Some x => x | None => default_value v end = VNum cur ->
  forall y, type_matches v (VNum y) = true.
Proof.
  intros HT H y. destruct (alist_get v (variables s)) as [x|] eqn:E.
  - subst x. exact (HT v (VNum cur) E).
  - unfold default_value in H. cbn [type_matches]. destruct (ends_with_dollar v); [discriminate | reflexivity].
Qed.

(* the DATA cursor: the reference's position in the flat DATA list is the
   model iterator's flat position; no iterator yet = position 0 *)
Definition data_rel (st : rstate) (s : interp) : Prop :=
  match data_it s with
  | None => r_dpos st = 0
  | Some d => data_chunks (st_keys s) (st_toks s) = Ok (di_chunks d) /\ wf_it d /\ dpos d = r_dpos st
  end.

Lemma data_rel_ext st st' s s' :
  r_dpos st' = r_dpos st -> data_it s' = data_it s -> st_keys s' = st_keys s -> st_toks s' = st_toks s ->
  data_rel st s -> data_rel st' s'.
Proof. unfold data_rel. intros -> -> -> ->. auto. Qed.

(* open loops: what FOR keeps (the loops outside an earlier loop on the same
   variable), on both sides, and NEXT's search, on both sides *)
Definition rkeep (v : bytes) (l : list rloop) : list rloop :=
  match drop_loop v l with Some (_, k) => k | None => l end.
Definition mkeep (v : bytes) (l : list loop_info) : list loop_info :=
  match find_loop_rev v l with Some i => firstn i l | None => l end.

Lemma drop_find (R : rloop -> loop_info -> Prop) v rls mls :
  Forall2 R rls mls -> (forall rl lp, R rl lp -> rl_var rl = lp_sym lp) ->
  match drop_loop v rls, find_loop_rev v mls with
  | None, None => True
  | Some (lp, kept), Some k => exists li', nth_error mls k = Some li' /\ R lp li' /\ Forall2 R kept (firstn k mls)
  | _, _ => False
  end.
Proof.
  intros H Hv. induction H as [|rl lp rls mls HR HF IH]; cbn [drop_loop find_loop_rev]; [exact I|].
  destruct (drop_loop v rls) as [[found kept]|], (find_loop_rev v mls) as [k|]; try contradiction.
  - destruct IH as (li' & A & B & C). exists li'. cbn [nth_error firstn]. split; [exact A|]. split; [exact B|].
    constructor; assumption.
  - rewrite (Hv rl lp HR). destruct (bytes_eqb (lp_sym lp) v); [|exact I].
    exists lp. cbn [nth_error firstn]. split; [reflexivity|]. split; [exact HR | constructor].
Qed.

Lemma keep_rel (R : rloop -> loop_info -> Prop) v rls mls :
  Forall2 R rls mls -> (forall rl lp, R rl lp -> rl_var rl = lp_sym lp) ->
  Forall2 R (rkeep v rls) (mkeep v mls).
Proof.
  intros H Hv. pose proof (drop_find R v rls mls H Hv) as D. unfold rkeep, mkeep.
  destruct (drop_loop v rls) as [[found kept]|], (find_loop_rev v mls) as [k|]; try contradiction.
  - destruct D as (li' & _ & _ & C). exact C.
  - exact H.
Qed.

Lemma drop_loop_var v l lp kept : drop_loop v l = Some (lp, kept) -> rl_var lp = v.
Proof.
  revert lp kept. induction l as [|x r IH]; intros lp kept H; cbn [drop_loop] in H; [discriminate|].
  destruct (drop_loop v r) as [[found k]|].
  - inversion H; subst. eapply IH. reflexivity.
  - destruct (bytes_eqb (rl_var x) v) eqn:E; [|discriminate]. inversion H; subst. apply bytes_eqb_eq. exact E.
Qed.

Definition lsame (rl : rloop) (lp : loop_info) : Prop :=
  rl_var rl = lp_sym lp /\ rl_to rl = lp_to lp /\ rl_step rl = lp_step lp.

(* entering a loop, reference side (the [with_step] of RefSem.exec) *)
Definition for_enter (v : bytes) (from to step : f64) (after : rpc) (here : N) (st3 : rstate) : outcome :=
  let kept := rkeep v (r_loops st3) in
  if Nat.eqb (length kept) depth_cap then Fail RStackOverflow here (set_loops' kept st3)
  else
    let st4 := set_loops' (kept ++ [mkrl v to step after]) st3 in
    match store_scalar v (VNum from) st4 with
    | inl st5 => Next after st5
    | inr er => Fail er here st4
    end.

Section Step.
  Variable F : nat.                       (* the reference interpreter's expression fuel *)
  Variable p : rprogram.
  Variable s : interp.
  Variable toks : list token.
  Hypothesis Htoks : fst (cur_tokens s) = Ok toks.
  Hypothesis Htrace : enable_tracing s = false.
  Hypothesis Hwarn : enable_warnings s = false.
  (* the stored lines are the program's lines, none starts with ELSE *)
  Hypothesis Hjump : forall n, store_has n s = match find_line p n 0 with Some _ => true | None => false end.
  Hypothesis Hheads : forall n l, toks_get n (st_toks s) = Some l -> exists t l', l = t :: l' /\ t <> TElse.
  (* which reference return point a model location stands for (a RETURN or a NEXT lands there) *)
  Variable L : rpc -> location -> Prop.
  (* the statement may sit inside IF..THEN clauses: [d] is its nesting depth *)
  Variable d : nat.
  Hypothesis Hd : Nat.eqb d max_nesting = false.

  (* what a statement leaves alone *)
  Definition keeps (s' : interp) : Prop :=
    st_toks s' = st_toks s /\ st_keys s' = st_keys s /\ enable_tracing s' = false /\ enable_warnings s' = false
    /\ state s' = state s /\ immediate s' = immediate s.

  Variables (li : nat) (after : rpc) (st : rstate).
  Hypothesis Hrel : same_store st s.

  (* a statement that leaves the DATA cursor alone *)
  Ltac data_same :=
    apply data_rel_ext; [try (destruct st; reflexivity); reflexivity | reflexivity | reflexivity | reflexivity].

  Definition step_outcome (out : outcome) (i : nat) (ts : list token) (run : res unit * interp) (o : list output) : Prop :=
    match out with
    | Next pc st' =>
        exists s', run = (Ok tt, s') /\ keeps s' /\ same_store st' s'
          /\ r_frames st' = r_frames st
          /\ (typed s -> typed s')
          /\ (data_rel st s -> data_rel st' s')
          /\ ((r_calls st' = r_calls st /\ stack s' = stack s)
              \/ (exists pc0 l0, r_calls st' = pc0 :: r_calls st /\ stack s' = stack s ++ [mkframe l0 []] /\ L pc0 l0)
              \/ (exists fr rest cr, stack s = rest ++ [fr] /\ stack s' = rest
                                     /\ r_calls st = pc :: cr /\ r_calls st' = cr))
          /\ ((r_loops st' = r_loops st /\ loops s' = loops s)
              \/ (exists v to step pc0 l0,
                    r_loops st' = rkeep v (r_loops st) ++ [mkrl v to step pc0]
                    /\ loops s' = mkeep v (loops s) ++ [mkloop l0 v to step] /\ L pc0 l0)
              \/ (exists v lp kept k li',
                    drop_loop v (r_loops st) = Some (lp, kept) /\ find_loop_rev v (loops s) = Some k
                    /\ nth_error (loops s) k = Some li'
                    /\ ((r_loops st' = kept ++ [lp] /\ loops s' = firstn k (loops s) ++ [li'])
                        \/ (r_loops st' = kept /\ loops s' = firstn k (loops s)))))
          /\ (exists outs, r_out st' = r_out st ++ outs /\ outputs s' = o ++ map OPrint outs)
          /\ ((pc = after /\ loc s' = mkloc (loc_line (loc s)) (i + length ts))
              \/ (exists n li' stmts, pc = (li', 0) /\ nth_error p li' = Some (n, stmts) /\ loc s' = mkloc (Some n) 0)
              \/ (pc = (S li, 0) /\ loc s' = mkloc (loc_line (loc s)) (length toks))
              \/ (exists fr rest cr, stack s = rest ++ [fr] /\ r_calls st = pc :: cr /\ loc s' = fr_ret fr)
              \/ (exists v lp kept k li',
                    drop_loop v (r_loops st) = Some (lp, kept) /\ find_loop_rev v (loops s) = Some k
                    /\ nth_error (loops s) k = Some li' /\ pc = rl_body lp /\ loc s' = lp_loc li'))
    | Done st' =>
        st' = st /\ exists s', run = (Ok tt, s') /\ keeps s' /\ loc s' = imm0 /\ immediate s = [] /\ outputs s' = o
    | Fail er line st' =>
        match er with
        | RDataTypeMismatch =>
            (* reported on the line of the DATA statement the item came from *)
            r_out st' = r_out st /\
            exists s' l, run = (Err EDataTypeMismatch None, s') /\ keeps s' /\ outputs s' = o
              /\ get_data_location s' = Some l /\ loc_line l = Some line
        | _ =>
            line = line_no p li /\ r_out st' = r_out st /\
            exists ie s', run = (Err ie None, s') /\ rerr_of2 ie = er /\ keeps s'
              /\ loc_line (loc s') = loc_line (loc s) /\ outputs s' = o /\ ie <> EDataTypeMismatch
        end
    | NoFuel => False
    end.

  Definition step_result (stmt : rstmt) (i : nat) (ts : list token) (run : res unit * interp) (o : list output) : Prop :=
    step_outcome (exec F p stmt after li st) i ts run o.

  Definition steps_as (stmt : rstmt) (i : nat) (ts : list token) : Prop :=
    exists f0, forall fuel, f0 <= fuel -> forall r o,
      step_result stmt i ts (evaluate_statement fuel d (at_idx s i r o)) o.

  Lemma W_off o o' : W s o o' -> o' = o.
  Proof. unfold W. rewrite Hwarn. auto. Qed.

  Lemma keeps_at i r o : keeps (at_idx s i r o).
  Proof. unfold keeps. repeat split; assumption. Qed.

  Lemma same_store_at st0 i r o : same_store st0 s -> same_store st0 (at_idx s i r o).
  Proof. intros [A B]. split; [exact A | exact B]. Qed.

  (* LET *)
  Lemma step_let v e e' te rest i :
    skipn i toks = TSymbol v :: TEquals :: te ++ rest -> stops 0 rest = true ->
    tr e = Some e' -> Renders 0 e' te -> S d + pdepth e' < max_nesting -> xsize e <= F ->
    steps_as (SLet v [] e) i (TSymbol v :: TEquals :: te).
  Proof.
    intros Hsk Hst Htr Hren Hdp HF.
    destruct (model_let s toks Htoks Htrace v e' te rest i Hsk Hst Hren d Hd Hdp) as (f0 & Hm).
    exists f0. intros fuel Hf r o. destruct (Hm fuel Hf r o) as (i' & r' & o' & HW & Hrun). clear Hm.
    apply W_off in HW. subst o'. unfold step_result, step_outcome.
    rewrite (ref_let s v e e' Htr p after li st Hrel F HF), Hrun.
    pose proof (den_plain s e e' Htr) as Hp.
    destruct (den s e') as [x|er l|pp| |]; cbn [plain] in Hp; try contradiction.
    - destruct (type_matches v x) eqn:Etm.
      + eexists. split; [reflexivity|]. split; [apply (keeps_at (i + 2 + length te) r' o)|].
        split; [apply (same_store_assign st s _ v x Hrel); reflexivity|]. split; [try (destruct st; reflexivity); reflexivity|]. split; [intros HT; apply (typed_set s _ v x HT Etm); reflexivity|]. split; [data_same|]. split; [left; split; [try (destruct st; reflexivity); reflexivity | reflexivity]|]. split; [left; split; [try (destruct st; reflexivity); reflexivity | reflexivity]|].
        split; [exists []; split; [destruct st; cbn; rewrite app_nil_r; reflexivity | cbn; rewrite app_nil_r; reflexivity]|].
        left. split; [reflexivity|]. cbn [length]. cbn. f_equal. lia.
      + split; [reflexivity|]. split; [reflexivity|]. eexists _, _. split; [reflexivity|].
        split; [reflexivity|]. split; [apply keeps_at|]. split; [reflexivity | split; [reflexivity | discriminate]].
    - destruct er; try contradiction; destruct l; try contradiction;
        (split; [reflexivity|]; split; [reflexivity|]; eexists _, _; split; [reflexivity|];
         split; [reflexivity|]; split; [apply keeps_at|]; split; [reflexivity | split; [reflexivity | discriminate]]).
  Qed.

  (* LET v = e: the keyword is consumed, the rest is the assignment *)
  Lemma step_let_kw v e e' te rest i :
    skipn i toks = TLet :: TSymbol v :: TEquals :: te ++ rest -> stops 0 rest = true ->
    tr e = Some e' -> Renders 0 e' te -> S d + pdepth e' < max_nesting -> xsize e <= F ->
    steps_as (SLet v [] e) i (TLet :: TSymbol v :: TEquals :: te).
  Proof.
    intros Hsk Hst Htr Hren Hdp HF.
    destruct (skipn_cons_nth _ _ _ _ Hsk) as [H0 Hs1].
    destruct (skipn_cons_nth _ _ _ _ Hs1) as [H1 _].
    destruct (step_let v e e' te rest (S i) Hs1 Hst Htr Hren Hdp HF) as (f0 & H).
    exists (S f0). intros fuel Hf r o. destruct fuel as [|f]; [lia|].
    specialize (H (S f) ltac:(lia) (S r) o). unfold step_result in *.
    assert (E : evaluate_statement (S f) d (at_idx s i r o) = evaluate_statement (S f) d (at_idx s (S i) (S r) o)).
    { cbn [evaluate_statement]. rewrite Hd. unfold evaluate_statement_body.
      rewrite !bind_get_run.
      change (enable_tracing (at_idx s i r o)) with (enable_tracing s).
      change (enable_tracing (at_idx s (S i) (S r) o)) with (enable_tracing s). rewrite Htrace. cbv iota.
      rewrite !bind_ret'.
      erewrite bind_ok by (apply (next_some s toks Htoks); exact H0). cbv iota beta.
      unfold evaluate_let_statement.
      erewrite bind_ok by (apply (next_some s toks Htoks); exact H1). cbv iota beta.
      erewrite bind_ok by (apply (next_some s toks Htoks); exact H1). reflexivity. }
    rewrite E. revert H. unfold step_outcome. cbn [length].
    replace (S i + S (S (length te))) with (i + S (S (S (length te)))) by lia. exact (fun H => H).
  Qed.

  (* PRINT *)
  Lemma step_print hd items mitems ti rest i :
    hd = TPrint \/ hd = TQuestionMark ->
    skipn i toks = hd :: ti ++ rest ->
    tr_items items = Some mitems -> IRenders rest mitems ti -> S d + idepth mitems < max_nesting -> isize items <= F ->
    steps_as (SPrint items) i (hd :: ti).
  Proof.
    intros Hhd Hsk Htr Hren Hdp HF.
    destruct (model_print s toks Htoks mitems ti rest i Htrace hd Hhd Hsk Hren d Hd Hdp) as (f0 & Hm).
    exists f0. intros fuel Hf r o. destruct (Hm fuel Hf r o) as (i' & r' & o' & HW & Hrun). clear Hm.
    apply W_off in HW. subst o'. unfold step_result, step_outcome. cbn [exec].
    rewrite (ref_print_items F st s Hrel items mitems Htr HF false []), Hrun.
    pose proof (pden_plain s items mitems Htr false []) as Hp.
    destruct (pden s mitems false []) as [[semi text]|er l|pp| |]; try contradiction.
    - eexists. split; [reflexivity|]. split; [apply keeps_at|].
      split; [apply same_store_at; destruct Hrel as [A B]; split; [exact A | exact B]|]. split; [try (destruct st; reflexivity); reflexivity|]. split; [intros HT; exact HT|]. split; [data_same|]. split; [left; split; [try (destruct st; reflexivity); reflexivity | reflexivity]|]. split; [left; split; [try (destruct st; reflexivity); reflexivity | reflexivity]|].
      split; [eexists [_]; split; [reflexivity | reflexivity]|].
      left. split; [reflexivity|]. cbn [length]. cbn. f_equal. lia.
    - destruct er; try contradiction; destruct l; try contradiction;
        (split; [reflexivity|]; split; [reflexivity|]; eexists _, _; split; [reflexivity|];
         split; [reflexivity|]; split; [apply keeps_at|]; split; [reflexivity | split; [reflexivity | discriminate]]).
  Qed.

  (* the transfer both GOTO and IF..THEN <line> make *)
  Lemma goto_runs n i r o :
    goto_line_number n (at_idx s i r o) =
    match find_line p n 0 with
    | Some _ => (Ok tt, set_loc (mkloc (Some n) 0) (set_breakpoint None (at_idx s i r o)))
    | None => (Err EUndefinedStatement None, set_breakpoint None (at_idx s i r o))
    end.
  Proof.
    unfold goto_line_number. rewrite bind_modify_run, bind_get_run.
    change (store_has n (set_breakpoint None (at_idx s i r o))) with (store_has n s). rewrite Hjump.
    destruct (find_line p n 0); reflexivity.
  Qed.

  (* the transfer, as an outcome: GOTO n, THEN n, ELSE n *)
  Lemma jump_outcome n j r o i ts :
    step_outcome (jump p n (line_no p li) st) i ts (goto_line_number n (at_idx s j r o)) o.
  Proof.
    unfold step_outcome. rewrite goto_runs. unfold jump.
    destruct (find_line p n 0) as [li'|] eqn:Ef.
    - destruct (find_line_nth _ _ _ _ Ef) as (stmts & Hnth). rewrite Nat.sub_0_r in Hnth.
      eexists. split; [reflexivity|]. split; [unfold keeps; repeat split; assumption|].
      split; [destruct Hrel as [A B]; split; [exact A | exact B]|]. split; [reflexivity|]. split; [intros HT; exact HT|]. split; [data_same|].
      split; [left; split; reflexivity|]. split; [left; split; reflexivity|].
      split; [exists []; split; [rewrite app_nil_r; reflexivity | cbn; rewrite app_nil_r; reflexivity]|].
      right. left. exists n, li', stmts. repeat split; assumption.
    - split; [reflexivity|]. split; [reflexivity|]. eexists _, _. split; [reflexivity|].
      split; [reflexivity|]. split; [unfold keeps; repeat split; assumption|]. split; [reflexivity | split; [reflexivity | discriminate]].
  Qed.

  Lemma step_goto n x rest i :
    skipn i toks = [TGoto; TNumber x] ++ rest -> line_target x = n ->
    steps_as (SGoto n) i [TGoto; TNumber x].
  Proof.
    intros Hsk Hn. cbn [app] in Hsk.
    destruct (skipn_cons_nth _ _ _ _ Hsk) as [H0 Hs1]. destruct (skipn_cons_nth _ _ _ _ Hs1) as [H1 _].
    exists 1. intros fuel Hf r o. destruct fuel as [|f]; [lia|].
    assert (Hrun : evaluate_statement (S f) d (at_idx s i r o) = goto_line_number n (at_idx s (S (S i)) (S (S r)) o)).
    { cbn [evaluate_statement]. rewrite Hd.
      unfold evaluate_statement_body.
      rewrite bind_get_run. change (enable_tracing (at_idx s i r o)) with (enable_tracing s). rewrite Htrace. cbv iota.
      rewrite bind_ret'.
      erewrite bind_ok by (apply (next_some s toks Htoks); exact H0). cbv iota beta.
      unfold evaluate_goto_statement.
      erewrite bind_ok by (apply (next_some s toks Htoks); exact H1). cbv iota beta.
      unfold line_target in Hn. rewrite Hn. reflexivity. }
    unfold step_result, step_outcome. rewrite Hrun, goto_runs. cbn [exec]. unfold jump.
    destruct (find_line p n 0) as [li'|] eqn:Ef.
    - destruct (find_line_nth _ _ _ _ Ef) as (stmts & Hnth). rewrite Nat.sub_0_r in Hnth.
      eexists. split; [reflexivity|]. split; [unfold keeps; repeat split; assumption|].
      split; [destruct Hrel as [A B]; split; [exact A | exact B]|]. split; [try (destruct st; reflexivity); reflexivity|]. split; [intros HT; exact HT|]. split; [data_same|]. split; [left; split; [try (destruct st; reflexivity); reflexivity | reflexivity]|]. split; [left; split; [try (destruct st; reflexivity); reflexivity | reflexivity]|].
      split; [exists []; split; [rewrite app_nil_r; reflexivity | cbn; rewrite app_nil_r; reflexivity]|].
      right. left. exists n, li', stmts. repeat split; assumption.
    - split; [reflexivity|]. split; [reflexivity|]. eexists _, _. split; [reflexivity|].
      split; [reflexivity|]. split; [unfold keeps; repeat split; assumption|]. split; [reflexivity | split; [reflexivity | discriminate]].
  Qed.

  (* GOSUB: the depth check first, then the target, then the frame *)
  Lemma step_gosub n x rest i :
    skipn i toks = [TGosub; TNumber x] ++ rest -> line_target x = n ->
    length (r_calls st) + length (r_frames st) = length (stack s) ->
    L after (mkloc (loc_line (loc s)) (i + length [TGosub; TNumber x])) ->
    steps_as (SGosub n) i [TGosub; TNumber x].
  Proof.
    intros Hsk Hn Hdepth HLa. cbn [app] in Hsk.
    destruct (skipn_cons_nth _ _ _ _ Hsk) as [H0 Hs1]. destruct (skipn_cons_nth _ _ _ _ Hs1) as [H1 _].
    exists 1. intros fuel Hf r o. destruct fuel as [|f]; [lia|].
    assert (Hrun : evaluate_statement (S f) d (at_idx s i r o) = gosub_line_number n (at_idx s (S (S i)) (S (S r)) o)).
    { cbn [evaluate_statement]. rewrite Hd.
      unfold evaluate_statement_body.
      rewrite bind_get_run. change (enable_tracing (at_idx s i r o)) with (enable_tracing s). rewrite Htrace. cbv iota.
      rewrite bind_ret'.
      erewrite bind_ok by (apply (next_some s toks Htoks); exact H0). cbv iota beta.
      unfold evaluate_gosub_statement.
      erewrite bind_ok by (apply (next_some s toks Htoks); exact H1). cbv iota beta.
      unfold line_target in Hn. rewrite Hn. reflexivity. }
    unfold step_result, step_outcome. rewrite Hrun. clear Hrun. cbn [exec]. unfold depth. rewrite Hdepth.
    unfold gosub_line_number. rewrite bind_get_run.
    change (stack (at_idx s (S (S i)) (S (S r)) o)) with (stack s).
    change depth_cap with stack_limit.
    destruct (Nat.eqb (length (stack s)) stack_limit).
    - split; [reflexivity|]. split; [reflexivity|]. eexists _, _. split; [reflexivity|].
      split; [reflexivity|]. split; [apply keeps_at|]. split; [reflexivity | split; [reflexivity | discriminate]].
    - rewrite bind_get_run. pose proof (goto_runs n (S (S i)) (S (S r)) o) as Hg.
      destruct (find_line p n 0) as [li'|] eqn:Ef; (erewrite bind_run by exact Hg).
      + destruct (find_line_nth _ _ _ _ Ef) as (stmts & Hnth). rewrite Nat.sub_0_r in Hnth.
        unfold modify. eexists. split; [reflexivity|].
        split; [unfold keeps; repeat split; assumption|].
        split.
        { destruct Hrel as [A B].
          assert (Hfr : forall X, r_frames (set_calls' X st) = r_frames st) by (intros; destruct st; reflexivity).
          assert (Hvr : forall X, r_vars (set_calls' X st) = r_vars st) by (intros; destruct st; reflexivity).
          split; intros name.
          - rewrite Hfr, (A name). cbn [stack set_stack set_loc set_breakpoint].
            change (stack (at_idx s (S (S i)) (S (S r)) o)) with (stack s).
            rewrite rev_unit. reflexivity.
          - rewrite Hvr. exact (B name). }
        split; [destruct st; reflexivity|].
        split; [intros HT; exact HT|]. split; [data_same|].
        split.
        { right. left. exists after, (mkloc (loc_line (loc s)) (i + length [TGosub; TNumber x])).
          split; [destruct st; reflexivity|]. split; [|exact HLa].
          cbn [stack set_stack set_loc set_breakpoint]. change (stack (at_idx s (S (S i)) (S (S r)) o)) with (stack s).
          change (loc (at_idx s (S (S i)) (S (S r)) o)) with (mkloc (loc_line (loc s)) (S (S i))).
          cbn [length]. replace (i + 2) with (S (S i)) by lia. reflexivity. }
        split; [left; split; [destruct st; reflexivity | reflexivity]|].
        split; [exists []; split; [destruct st; cbn; rewrite app_nil_r; reflexivity | cbn; rewrite app_nil_r; reflexivity]|].
        right. left. exists n, li', stmts. repeat split; assumption.
      + split; [reflexivity|]. split; [reflexivity|]. eexists _, _. split; [reflexivity|].
        split; [reflexivity|]. split; [unfold keeps; repeat split; assumption|]. split; [reflexivity | split; [reflexivity | discriminate]].
  Qed.

  (* RETURN *)
  Lemma step_return rest i :
    skipn i toks = [TReturn] ++ rest ->
    (r_calls st = [] -> stack s = []) ->
    (forall pc cr, r_calls st = pc :: cr -> exists fr rs, stack s = rs ++ [fr] /\ fr_vars fr = []) ->
    steps_as SReturn i [TReturn].
  Proof.
    intros Hsk Hnil Hcons. cbn [app] in Hsk. destruct (skipn_cons_nth _ _ _ _ Hsk) as [H0 _].
    exists 1. intros fuel Hf r o. destruct fuel as [|f]; [lia|].
    assert (Hrun : evaluate_statement (S f) d (at_idx s i r o) = return_to_last_gosub (at_idx s (S i) (S r) o)).
    { cbn [evaluate_statement]. rewrite Hd.
      unfold evaluate_statement_body.
      rewrite bind_get_run. change (enable_tracing (at_idx s i r o)) with (enable_tracing s). rewrite Htrace. cbv iota.
      rewrite bind_ret'.
      erewrite bind_ok by (apply (next_some s toks Htoks); exact H0). reflexivity. }
    unfold step_result, step_outcome. rewrite Hrun. clear Hrun. cbn [exec].
    unfold return_to_last_gosub. rewrite bind_modify_run, bind_get_run.
    change (stack (set_breakpoint None (at_idx s (S i) (S r) o))) with (stack s).
    destruct (r_calls st) as [|pc cr] eqn:Ec.
    - rewrite (Hnil eq_refl). cbn [rev].
      split; [reflexivity|]. split; [reflexivity|]. eexists _, _. split; [reflexivity|].
      split; [reflexivity|]. split; [unfold keeps; repeat split; assumption|]. split; [reflexivity | split; [reflexivity | discriminate]].
    - destruct (Hcons pc cr eq_refl) as (fr & rs & Hst & Hv). rewrite Hst, rev_unit. unfold modify.
      eexists. split; [reflexivity|].
      split; [unfold keeps; repeat split; assumption|].
      split.
      { destruct Hrel as [A B].
        assert (Hfr : forall X, r_frames (set_calls' X st) = r_frames st) by (intros; destruct st; reflexivity).
        assert (Hvr : forall X, r_vars (set_calls' X st) = r_vars st) by (intros; destruct st; reflexivity).
        split; intros name.
        - rewrite Hfr, (A name), Hst, rev_unit. cbn [find_in_frames]. rewrite Hv. cbn [alist_get stack set_stack set_loc].
          rewrite rev_involutive. reflexivity.
        - rewrite Hvr. exact (B name). }
      split; [destruct st; reflexivity|].
      split; [intros HT; exact HT|]. split; [data_same|].
      split.
      { right. right. exists fr, rs, cr. rewrite rev_involutive.
        repeat split; try reflexivity. }
      split; [left; split; [destruct st; reflexivity | reflexivity]|].
      split.
      { exists []. split; [destruct st; cbn; rewrite app_nil_r; reflexivity | cbn; rewrite app_nil_r; reflexivity]. }
      right. right. right. left. exists fr, rs, cr. repeat split; reflexivity.
  Qed.

  (* FOR: entering the loop once the three numbers are known *)
  Lemma remove_loop_at v j r o :
    exists x, remove_loop_with_name v (at_idx s j r o) = (Ok x, set_loops (mkeep v (loops s)) (at_idx s j r o)).
  Proof.
    unfold remove_loop_with_name. rewrite bind_get_run.
    change (loops (at_idx s j r o)) with (loops s). unfold mkeep.
    destruct (find_loop_rev v (loops s)) as [k|].
    - rewrite bind_modify_run. eexists. reflexivity.
    - eexists. reflexivity.
  Qed.

  Lemma for_enter_sim v from to step j ts i r o :
    j = i + length ts -> Forall2 lsame (r_loops st) (loops s) ->
    L after (mkloc (loc_line (loc s)) (i + length ts)) ->
    step_outcome (for_enter v from to step after (line_no p li) st) i ts (start_loop v from to step (at_idx s j r o)) o.
  Proof.
    intros Hj HL HLa.
    pose proof (keep_rel lsame v _ _ HL (fun _ _ H => proj1 H)) as Hk. apply Forall2_len in Hk.
    unfold for_enter, start_loop.
    destruct (remove_loop_at v j r o) as (x & Hrm). erewrite bind_ok by exact Hrm. clear Hrm x.
    rewrite bind_get_run. cbn [loops set_loops]. rewrite Hk. change depth_cap with stack_limit.
    destruct Hrel as [A B].
    assert (Hfr : forall X, r_frames (set_loops' X st) = r_frames st) by (intros; destruct st; reflexivity).
    assert (Hvr : forall X, r_vars (set_loops' X st) = r_vars st) by (intros; destruct st; reflexivity).
    assert (Hro : forall X, r_out (set_loops' X st) = r_out st) by (intros; destruct st; reflexivity).
    destruct (Nat.eqb (length (mkeep v (loops s))) stack_limit).
    - unfold step_outcome. split; [reflexivity|]. split; [apply Hro|]. eexists _, _. split; [reflexivity|].
      split; [reflexivity|]. split; [unfold keeps; repeat split; assumption|].
      split; [reflexivity | split; [reflexivity | discriminate]].
    - rewrite bind_get_run, bind_modify_run. unfold variables_set, store_scalar. rewrite kind_agrees.
      destruct (type_matches v (VNum from)) eqn:Etm.
      + unfold step_outcome, modify. eexists. split; [reflexivity|].
        split; [unfold keeps; repeat split; assumption|].
        split.
        { apply (same_store_assign (set_loops' (rkeep v (r_loops st) ++ [mkrl v to step after]) st) s); try reflexivity.
          split; intros name; [rewrite Hfr; exact (A name) | rewrite Hvr; exact (B name)]. }
        split; [destruct st; reflexivity|].
        split; [intros HT; apply (typed_set s _ v (VNum from) HT Etm); reflexivity|]. split; [data_same|].
        split; [left; split; [destruct st; reflexivity | reflexivity]|].
        split.
        { right. left. exists v, to, step, after, (mkloc (loc_line (loc s)) (i + length ts)).
          split; [destruct st; reflexivity|]. split; [|exact HLa].
          cbn [loops set_loops set_variables]. rewrite Hj. reflexivity. }
        split; [exists []; split; [destruct st; cbn; rewrite app_nil_r; reflexivity | cbn; rewrite app_nil_r; reflexivity]|].
        left. split; [reflexivity|]. cbn. rewrite Hj. reflexivity.
      + unfold step_outcome. split; [reflexivity|]. split; [apply Hro|]. eexists _, _. split; [reflexivity|].
        split; [reflexivity|]. split; [unfold keeps; repeat split; assumption|].
        split; [reflexivity | split; [reflexivity | discriminate]].
  Qed.

  Ltac fail_branch :=
    split; [reflexivity|]; split; [reflexivity|]; eexists _, _; split; [reflexivity|];
    split; [reflexivity|]; split; [apply keeps_at|]; split; [reflexivity | split; [reflexivity | discriminate]].

  (* FOR v = a TO b [STEP c] *)
  Lemma step_for v a a' ta b b' tb stp tstep rest i :
    skipn i toks = (TFor :: TSymbol v :: TEquals :: ta ++ TTo :: tb ++ tstep) ++ rest ->
    (rest = [] \/ exists tr, rest = TColon :: tr) ->
    tr a = Some a' -> Renders 0 a' ta -> S d + pdepth a' < max_nesting -> xsize a <= F ->
    tr b = Some b' -> Renders 0 b' tb -> S d + pdepth b' < max_nesting -> xsize b <= F ->
    ((stp = None /\ tstep = []) \/
     (exists c c' tc, stp = Some c /\ tstep = TStep :: tc /\ tr c = Some c' /\ Renders 0 c' tc
                      /\ S d + pdepth c' < max_nesting /\ xsize c <= F)) ->
    Forall2 lsame (r_loops st) (loops s) ->
    L after (mkloc (loc_line (loc s)) (i + length (TFor :: TSymbol v :: TEquals :: ta ++ TTo :: tb ++ tstep))) ->
    steps_as (SFor v a b stp) i (TFor :: TSymbol v :: TEquals :: ta ++ TTo :: tb ++ tstep).
  Proof.
    intros Hsk Hrest Ha Hra Hda HFa Hb Hrb Hdb HFb Hstep HL HLa.
    cbn [app] in Hsk. rewrite <- app_assoc in Hsk. cbn [app] in Hsk. rewrite <- app_assoc in Hsk.
    destruct (skipn_cons_nth _ _ _ _ Hsk) as [H0 Hs1]. destruct (skipn_cons_nth _ _ _ _ Hs1) as [H1 Hs2].
    destruct (skipn_cons_nth _ _ _ _ Hs2) as [H2 Hs3].
    destruct (expr_sem_at s toks Htoks a' ta Hra (S d) (S (S (S i))) (TTo :: tb ++ tstep ++ rest) Hs3 eq_refl Hda) as (fa & Hfa).
    pose proof (skipn_app_len _ _ _ _ Hs3) as Hs4.
    set (ja := S (S (S i)) + length ta) in *.
    destruct (skipn_cons_nth _ _ _ _ Hs4) as [H4 Hs5].
    assert (Hstop : stops 0 (tstep ++ rest) = true).
    { destruct Hstep as [[_ ->]|(c & c' & tc & _ & -> & _)]; [|reflexivity].
      destruct Hrest as [->|(tr0 & ->)]; reflexivity. }
    destruct (expr_sem_at s toks Htoks b' tb Hrb (S d) (S ja) (tstep ++ rest) Hs5 Hstop Hdb) as (fb & Hfb).
    pose proof (skipn_app_len _ _ _ _ Hs5) as Hs6.
    set (jb := S ja + length tb) in *.
    pose proof (den_plain s a a' Ha) as Hpa. pose proof (den_plain s b b' Hb) as Hpb.
    destruct Hstep as [[-> ->]|(c & c' & tc & -> & -> & Hc & Hrc & Hdc & HFc)].
    - (* no STEP *)
      cbn [app] in Hs6.
      assert (Hno : forall t, nth_error toks jb = Some t -> token_eqb t TStep = false).
      { intros t Ht. destruct Hrest as [->|(tr0 & ->)].
        - rewrite (skipn_nil_nth _ _ Hs6) in Ht. discriminate.
        - destruct (skipn_cons_nth _ _ _ _ Hs6) as [Hc _]. rewrite Hc in Ht. inversion Ht. reflexivity. }
      exists (S (S (fa + fb))). intros fuel Hf r o. destruct fuel as [|f]; [lia|].
      destruct (Hfa f ltac:(lia) (S (S (S r))) o) as (i1 & r1 & o1 & Hev1 & Hi1 & HW1). apply W_off in HW1. subst o1.
      destruct (Hfb f ltac:(lia) (S r1) o) as (i2 & r2 & o2 & Hev2 & Hi2 & HW2). apply W_off in HW2. subst o2.
      assert (Hrun : evaluate_statement (S f) d (at_idx s i r o) =
                match den s a' with
                | Ok (VNum from) =>
                    match den s b' with
                    | Ok (VNum to) => start_loop v from to f64_one (at_idx s jb (S r2) o)
                    | Ok (VStr _) => (Err ETypeMismatch None, at_idx s jb r2 o)
                    | Err er l => (Err er l, at_idx s i2 r2 o)
                    | Panic pp => (Panic pp, at_idx s i2 r2 o)
                    | OutOfFuel => (OutOfFuel, at_idx s i2 r2 o)
                    | OracleMiss => (OracleMiss, at_idx s i2 r2 o)
                    end
                | Ok (VStr _) => (Err ETypeMismatch None, at_idx s ja r1 o)
                | Err er l => (Err er l, at_idx s i1 r1 o)
                | Panic pp => (Panic pp, at_idx s i1 r1 o)
                | OutOfFuel => (OutOfFuel, at_idx s i1 r1 o)
                | OracleMiss => (OracleMiss, at_idx s i1 r1 o)
                end).
      { cbn [evaluate_statement]. rewrite Hd.
        unfold evaluate_statement_body.
        rewrite bind_get_run. change (enable_tracing (at_idx s i r o)) with (enable_tracing s). rewrite Htrace. cbv iota.
        rewrite bind_ret'.
        erewrite bind_ok by (apply (next_some s toks Htoks); exact H0). cbv iota beta.
        unfold evaluate_for_statement.
        erewrite bind_ok by (apply (next_some s toks Htoks); exact H1). cbv iota beta.
        erewrite bind_ok by (apply (expect_ok s toks Htoks _ _ _ TEquals TEquals H2); reflexivity).
        unfold Eval.expr. erewrite bind_run by exact Hev1.
        destruct (den s a') as [[sa|from]|er l|pp| |]; try reflexivity; rewrite (Hi1 _ eq_refl); fold ja; [reflexivity|].
        cbn [expect_number]. rewrite bind_ret'.
        erewrite bind_ok by (apply (expect_ok s toks Htoks _ _ _ TTo TTo H4); reflexivity).
        erewrite bind_run by exact Hev2.
        destruct (den s b') as [[sb|to]|er l|pp| |]; try reflexivity; rewrite (Hi2 _ eq_refl); fold jb; [reflexivity|].
        cbn [expect_number]. rewrite bind_ret'.
        erewrite bind_ok by (apply (accept_no s toks Htoks); exact Hno). cbv iota. rewrite bind_ret'. reflexivity. }
      unfold step_result. rewrite Hrun. clear Hrun. cbn [exec]. unfold RefSem.ev.
      rewrite (ref_expr_is_den a a' st s F Ha (same_store_reads _ _ Hrel) HFa).
      destruct (den s a') as [[sa|from]|er l|pp| |]; cbn [plain conv fail_at] in *; try contradiction.
      + unfold step_outcome. fail_branch.
      + rewrite (ref_expr_is_den b b' st s F Hb (same_store_reads _ _ Hrel) HFb).
        destruct (den s b') as [[sb|to]|er l|pp| |]; cbn [plain conv fail_at] in *; try contradiction.
        * unfold step_outcome. fail_branch.
        * apply (for_enter_sim v from to f64_one jb); [|exact HL|exact HLa].
          cbn [length]. rewrite !app_length. cbn [length]. rewrite app_nil_r. unfold jb, ja. lia.
        * unfold step_outcome. destruct er; try contradiction; destruct l; try contradiction; fail_branch.
      + unfold step_outcome. destruct er; try contradiction; destruct l; try contradiction; fail_branch.
    - (* STEP c *)
      cbn [app] in Hs6. destruct (skipn_cons_nth _ _ _ _ Hs6) as [H6 Hs7].
      assert (Hstop2 : stops 0 rest = true) by (destruct Hrest as [->|(tr0 & ->)]; reflexivity).
      destruct (expr_sem_at s toks Htoks c' tc Hrc (S d) (S jb) rest Hs7 Hstop2 Hdc) as (fc & Hfc).
      set (jc := S jb + length tc) in *.
      pose proof (den_plain s c c' Hc) as Hpc.
      exists (S (S (fa + fb + fc))). intros fuel Hf r o. destruct fuel as [|f]; [lia|].
      destruct (Hfa f ltac:(lia) (S (S (S r))) o) as (i1 & r1 & o1 & Hev1 & Hi1 & HW1). apply W_off in HW1. subst o1.
      destruct (Hfb f ltac:(lia) (S r1) o) as (i2 & r2 & o2 & Hev2 & Hi2 & HW2). apply W_off in HW2. subst o2.
      destruct (Hfc f ltac:(lia) (S r2) o) as (i3 & r3 & o3 & Hev3 & Hi3 & HW3). apply W_off in HW3. subst o3.
      assert (Hrun : evaluate_statement (S f) d (at_idx s i r o) =
                match den s a' with
                | Ok (VNum from) =>
                    match den s b' with
                    | Ok (VNum to) =>
                        match den s c' with
                        | Ok (VNum step) => start_loop v from to step (at_idx s jc r3 o)
                        | Ok (VStr _) => (Err ETypeMismatch None, at_idx s jc r3 o)
                        | Err er l => (Err er l, at_idx s i3 r3 o)
                        | Panic pp => (Panic pp, at_idx s i3 r3 o)
                        | OutOfFuel => (OutOfFuel, at_idx s i3 r3 o)
                        | OracleMiss => (OracleMiss, at_idx s i3 r3 o)
                        end
                    | Ok (VStr _) => (Err ETypeMismatch None, at_idx s jb r2 o)
                    | Err er l => (Err er l, at_idx s i2 r2 o)
                    | Panic pp => (Panic pp, at_idx s i2 r2 o)
                    | OutOfFuel => (OutOfFuel, at_idx s i2 r2 o)
                    | OracleMiss => (OracleMiss, at_idx s i2 r2 o)
                    end
                | Ok (VStr _) => (Err ETypeMismatch None, at_idx s ja r1 o)
                | Err er l => (Err er l, at_idx s i1 r1 o)
                | Panic pp => (Panic pp, at_idx s i1 r1 o)
                | OutOfFuel => (OutOfFuel, at_idx s i1 r1 o)
                | OracleMiss => (OracleMiss, at_idx s i1 r1 o)
                end).
      { cbn [evaluate_statement]. rewrite Hd.
        unfold evaluate_statement_body.
        rewrite bind_get_run. change (enable_tracing (at_idx s i r o)) with (enable_tracing s). rewrite Htrace. cbv iota.
        rewrite bind_ret'.
        erewrite bind_ok by (apply (next_some s toks Htoks); exact H0). cbv iota beta.
        unfold evaluate_for_statement.
        erewrite bind_ok by (apply (next_some s toks Htoks); exact H1). cbv iota beta.
        erewrite bind_ok by (apply (expect_ok s toks Htoks _ _ _ TEquals TEquals H2); reflexivity).
        unfold Eval.expr. erewrite bind_run by exact Hev1.
        destruct (den s a') as [[sa|from]|er l|pp| |]; try reflexivity; rewrite (Hi1 _ eq_refl); fold ja; [reflexivity|].
        cbn [expect_number]. rewrite bind_ret'.
        erewrite bind_ok by (apply (expect_ok s toks Htoks _ _ _ TTo TTo H4); reflexivity).
        erewrite bind_run by exact Hev2.
        destruct (den s b') as [[sb|to]|er l|pp| |]; try reflexivity; rewrite (Hi2 _ eq_refl); fold jb; [reflexivity|].
        cbn [expect_number]. rewrite bind_ret'.
        erewrite bind_ok by (apply (accept_yes s toks Htoks _ _ _ TStep TStep H6); reflexivity). cbv iota.
        rewrite bind_assoc. erewrite bind_run by exact Hev3.
        destruct (den s c') as [[sc|step]|er l|pp| |]; try reflexivity; rewrite (Hi3 _ eq_refl); fold jc; reflexivity. }
      unfold step_result. rewrite Hrun. clear Hrun. cbn [exec]. unfold RefSem.ev.
      rewrite (ref_expr_is_den a a' st s F Ha (same_store_reads _ _ Hrel) HFa).
      destruct (den s a') as [[sa|from]|er l|pp| |]; cbn [plain conv fail_at] in *; try contradiction.
      + unfold step_outcome. fail_branch.
      + rewrite (ref_expr_is_den b b' st s F Hb (same_store_reads _ _ Hrel) HFb).
        destruct (den s b') as [[sb|to]|er l|pp| |]; cbn [plain conv fail_at] in *; try contradiction.
        * unfold step_outcome. fail_branch.
        * rewrite (ref_expr_is_den c c' st s F Hc (same_store_reads _ _ Hrel) HFc).
          destruct (den s c') as [[sc|step]|er l|pp| |]; cbn [plain conv fail_at] in *; try contradiction.
          -- unfold step_outcome. fail_branch.
          -- apply (for_enter_sim v from to step jc); [|exact HL|exact HLa].
             repeat (cbn [length]; rewrite ?app_length). unfold jc, jb, ja. lia.
          -- unfold step_outcome. destruct er; try contradiction; destruct l; try contradiction; fail_branch.
        * unfold step_outcome. destruct er; try contradiction; destruct l; try contradiction; fail_branch.
      + unfold step_outcome. destruct er; try contradiction; destruct l; try contradiction; fail_branch.
  Qed.

  (* NEXT v *)
  Lemma step_next v rest i :
    skipn i toks = [TNext; TSymbol v] ++ rest ->
    Forall2 lsame (r_loops st) (loops s) -> typed s ->
    steps_as (SNext v) i [TNext; TSymbol v].
  Proof.
    intros Hsk HL HT. cbn [app] in Hsk.
    destruct (skipn_cons_nth _ _ _ _ Hsk) as [H0 Hs1]. destruct (skipn_cons_nth _ _ _ _ Hs1) as [H1 _].
    exists 1. intros fuel Hf r o. destruct fuel as [|f]; [lia|].
    assert (Hrun : evaluate_statement (S f) d (at_idx s i r o) = end_loop v (at_idx s (S (S i)) (S (S r)) o)).
    { cbn [evaluate_statement]. rewrite Hd.
      unfold evaluate_statement_body.
      rewrite bind_get_run. change (enable_tracing (at_idx s i r o)) with (enable_tracing s). rewrite Htrace. cbv iota.
      rewrite bind_ret'.
      erewrite bind_ok by (apply (next_some s toks Htoks); exact H0). cbv iota beta.
      unfold evaluate_next_statement.
      erewrite bind_ok by (apply (next_some s toks Htoks); exact H1). reflexivity. }
    unfold step_result. rewrite Hrun. clear Hrun. cbn [exec].
    destruct Hrel as [A B].
    unfold end_loop, variables_get. rewrite bind_assoc, bind_get_run, bind_ret'.
    change (variables (at_idx s (S (S i)) (S (S r)) o)) with (variables s).
    rewrite (B v), default_agrees.
    destruct (match alist_get v (variables s) with Some x => x | None => default_value v end) as [sv|cur] eqn:Ecur.
    { unfold step_outcome. fail_branch. }
    pose proof (typed_read s v cur HT Ecur) as Hnum.
    pose proof (drop_find lsame v _ _ HL (fun _ _ H => proj1 H)) as D.
    unfold remove_loop_with_name. rewrite bind_assoc, bind_get_run.
    change (loops (at_idx s (S (S i)) (S (S r)) o)) with (loops s).
    destruct (drop_loop v (r_loops st)) as [[lp kept]|] eqn:Ed, (find_loop_rev v (loops s)) as [k|] eqn:Ef; try contradiction.
    2:{ rewrite bind_ret'. unfold step_outcome. fail_branch. }
    destruct D as (lm & Hnth & (Lv & Lt & Ls) & _).
    rewrite bind_assoc, bind_modify_run, bind_ret', Hnth.
    assert (Hsym : bytes_eqb (lp_sym lm) v = true).
    { apply bytes_eqb_eq. rewrite <- Lv. apply (drop_loop_var _ _ _ _ Ed). }
    rewrite Hsym. cbn [negb]. rewrite <- Ls, <- Lt.
    assert (Hfr : forall X, r_frames (set_loops' X st) = r_frames st) by (intros; destruct st; reflexivity).
    assert (Hvr : forall X, r_vars (set_loops' X st) = r_vars st) by (intros; destruct st; reflexivity).
    assert (Hro : forall X, r_out (set_loops' X st) = r_out st) by (intros; destruct st; reflexivity).
    assert (Hll : forall X Y, set_loops' X (set_loops' Y st) = set_loops' X st) by (intros; destruct st; reflexivity).
    unfold store_scalar, variables_set. rewrite kind_agrees.
    destruct (if f64_leb f64_zero (rl_step lp) then f64_leb (f64_add cur (rl_step lp)) (rl_to lp)
              else f64_leb (rl_to lp) (f64_add cur (rl_step lp))) eqn:Eagain.
    - (* once more *)
      rewrite bind_modify_run. rewrite Hll.
      rewrite (Hnum (f64_add cur (rl_step lp))).
      unfold step_outcome, modify. eexists. split; [reflexivity|].
        split; [unfold keeps; repeat split; assumption|].
        split.
        { apply (same_store_assign (set_loops' (kept ++ [lp]) st) s); try reflexivity.
          split; intros name; [rewrite Hfr; exact (A name) | rewrite Hvr; exact (B name)]. }
        split; [destruct st; reflexivity|].
        split; [intros _; apply (typed_set s _ v (VNum (f64_add cur (rl_step lp))) HT (Hnum _)); reflexivity|]. split; [data_same|].
        split; [left; split; [destruct st; reflexivity | reflexivity]|].
        split.
        { right. right. exists v, lp, kept, k, lm. split; [exact Ed|]. split; [exact Ef|]. split; [exact Hnth|].
          left. split; [destruct st; reflexivity|]. reflexivity. }
        split; [exists []; split; [destruct st; cbn; rewrite app_nil_r; reflexivity | cbn; rewrite app_nil_r; reflexivity]|].
        right. right. right. right. exists v, lp, kept, k, lm. repeat split; try reflexivity; assumption.
    - (* the loop is over *)
      rewrite bind_ret'.
      rewrite (Hnum (f64_add cur (rl_step lp))).
      unfold step_outcome, modify. eexists. split; [reflexivity|].
        split; [unfold keeps; repeat split; assumption|].
        split.
        { apply (same_store_assign (set_loops' kept st) s); try reflexivity.
          split; intros name; [rewrite Hfr; exact (A name) | rewrite Hvr; exact (B name)]. }
        split; [destruct st; reflexivity|].
        split; [intros _; apply (typed_set s _ v (VNum (f64_add cur (rl_step lp))) HT (Hnum _)); reflexivity|]. split; [data_same|].
        split; [left; split; [destruct st; reflexivity | reflexivity]|].
        split.
        { right. right. exists v, lp, kept, k, lm. split; [exact Ed|]. split; [exact Ef|]. split; [exact Hnth|].
          right. split; [destruct st; reflexivity|]. reflexivity. }
        split; [exists []; split; [destruct st; cbn; rewrite app_nil_r; reflexivity | cbn; rewrite app_nil_r; reflexivity]|].
        left. split; [reflexivity|]. cbn. f_equal. lia.
  Qed.

  (* REM *)
  Lemma step_rem b rest i :
    skipn i toks = [TRemark b] ++ rest ->
    steps_as SRem i [TRemark b].
  Proof.
    intros Hsk. cbn [app] in Hsk. destruct (skipn_cons_nth _ _ _ _ Hsk) as [H0 _].
    exists 1. intros fuel Hf r o. destruct fuel as [|f]; [lia|].
    unfold step_result, step_outcome. cbn [exec].
    cbn [evaluate_statement]. rewrite Hd.
    unfold evaluate_statement_body.
    rewrite bind_get_run. change (enable_tracing (at_idx s i r o)) with (enable_tracing s). rewrite Htrace. cbv iota.
    rewrite bind_ret'.
    erewrite bind_ok by (apply (next_some s toks Htoks); exact H0). cbv iota beta. cbn [ret].
    eexists. split; [reflexivity|]. split; [apply keeps_at|].
    split; [apply same_store_at; destruct Hrel as [A B]; split; [exact A | exact B]|].
    split; [reflexivity|]. split; [intros HT; exact HT|]. split; [data_same|].
    split; [left; split; reflexivity|]. split; [left; split; reflexivity|].
    split; [exists []; split; [rewrite app_nil_r; reflexivity | cbn; rewrite app_nil_r; reflexivity]|].
    left. split; [reflexivity|]. cbn. f_equal. lia.
  Qed.

  (* DATA: nothing to execute *)
  Lemma step_data items rest i :
    skipn i toks = [TData items] ++ rest ->
    steps_as (SData items) i [TData items].
  Proof.
    intros Hsk. cbn [app] in Hsk. destruct (skipn_cons_nth _ _ _ _ Hsk) as [H0 _].
    exists 1. intros fuel Hf r o. destruct fuel as [|f]; [lia|].
    unfold step_result, step_outcome. cbn [exec].
    cbn [evaluate_statement]. rewrite Hd.
    unfold evaluate_statement_body.
    rewrite bind_get_run. change (enable_tracing (at_idx s i r o)) with (enable_tracing s). rewrite Htrace. cbv iota.
    rewrite bind_ret'.
    erewrite bind_ok by (apply (next_some s toks Htoks); exact H0). cbv iota beta. cbn [ret].
    eexists. split; [reflexivity|]. split; [apply keeps_at|].
    split; [apply same_store_at; destruct Hrel as [A B]; split; [exact A | exact B]|].
    split; [reflexivity|]. split; [intros HT; exact HT|]. split; [intros HD; exact HD|].
    split; [left; split; reflexivity|]. split; [left; split; reflexivity|].
    split; [exists []; split; [rewrite app_nil_r; reflexivity | cbn; rewrite app_nil_r; reflexivity]|].
    left. split; [reflexivity|]. cbn. f_equal. lia.
  Qed.

  (* RESTORE: the cursor is forgotten / the position is 0 again *)
  Lemma step_restore rest i :
    skipn i toks = [TRestore] ++ rest ->
    steps_as SRestore i [TRestore].
  Proof.
    intros Hsk. cbn [app] in Hsk. destruct (skipn_cons_nth _ _ _ _ Hsk) as [H0 _].
    exists 1. intros fuel Hf r o. destruct fuel as [|f]; [lia|].
    unfold step_result, step_outcome. cbn [exec].
    cbn [evaluate_statement]. rewrite Hd.
    unfold evaluate_statement_body.
    rewrite bind_get_run. change (enable_tracing (at_idx s i r o)) with (enable_tracing s). rewrite Htrace. cbv iota.
    rewrite bind_ret'.
    erewrite bind_ok by (apply (next_some s toks Htoks); exact H0). cbv iota beta.
    unfold reset_data_cursor, modify.
    eexists. split; [reflexivity|]. split; [unfold keeps; repeat split; assumption|].
    assert (Hfr' : forall X, r_frames (set_dpos' X st) = r_frames st) by (intros; destruct st; reflexivity).
    assert (Hvr' : forall X, r_vars (set_dpos' X st) = r_vars st) by (intros; destruct st; reflexivity).
    split; [destruct Hrel as [A B]; split; intros name; [rewrite Hfr'; exact (A name) | rewrite Hvr'; exact (B name)]|].
    split; [destruct st; reflexivity|]. split; [intros HT; exact HT|].
    split; [intros _; unfold data_rel; destruct st; reflexivity|].
    split; [left; split; [destruct st; reflexivity | reflexivity]|].
    split; [left; split; [destruct st; reflexivity | reflexivity]|].
    split; [exists []; split; [destruct st; cbn; rewrite app_nil_r; reflexivity | cbn; rewrite app_nil_r; reflexivity]|].
    left. split; [reflexivity|]. cbn. f_equal. lia.
  Qed.

  (* READ v1, v2, ...: scalar targets *)
  (* the stored program's DATA, chunk by chunk, is the reference's flat DATA list *)
  Definition data_match (x : data_elem * location) (y : data_elem * N) : Prop :=
    fst x = fst y /\ loc_line (snd x) = Some (snd y).
  Hypothesis Hdata : exists cs, data_chunks (st_keys s) (st_toks s) = Ok cs /\ Forall2 data_match (flatl cs) (data_list p).

  (* what the loop keeps of the state it started from *)
  Definition rbase (b : interp) (st1 : rstate) : Prop :=
    st_toks b = st_toks s /\ st_keys b = st_keys s /\ enable_tracing b = false /\ enable_warnings b = false
    /\ state b = state s /\ immediate b = immediate s /\ loc_line (loc b) = loc_line (loc s)
    /\ stack b = stack s /\ loops b = loops s
    /\ same_store st1 b /\ (typed s -> typed b) /\ data_rel st1 b
    /\ r_frames st1 = r_frames st /\ r_calls st1 = r_calls st /\ r_loops st1 = r_loops st /\ r_out st1 = r_out st.

  Lemma rbase_tokens b st1 : rbase b st1 -> fst (cur_tokens b) = Ok toks.
  Proof.
    intros (B1 & _ & _ & _ & _ & B6 & B7 & _). revert Htoks.
    unfold cur_tokens, bind, get, tokens_for_line. cbn [fst snd]. rewrite B7, B1, B6.
    destruct (loc_line (loc s)) as [n|]; [destruct (toks_get n (st_toks s))|]; exact (fun H => H).
  Qed.

  Lemma Forall2_nth {A B} (R : A -> B -> Prop) l1 l2 k : Forall2 R l1 l2 ->
    match nth_error l1 k, nth_error l2 k with
    | Some a, Some b => R a b
    | None, None => True
    | _, _ => False
    end.
  Proof.
    intros H. revert k. induction H as [|a b l1 l2 HR H IH]; intros [|k]; cbn; auto. apply IH.
  Qed.

  Lemma coerce_kind v e x : coerce_data v e = Ok x -> type_matches v x = true.
  Proof.
    unfold coerce_data, type_matches. destruct (ends_with_dollar v) eqn:E, e; intros H; inversion H; subst; cbn; rewrite ?E; reflexivity.
  Qed.

  Lemma bind_unf {A B} (m : M A) (K : A -> M B) x :
    bind m K x = let (r, s') := m x in
                 match r with
                 | Ok a => K a s' | Err e l => (Err e l, s') | Panic pp => (Panic pp, s')
                 | OutOfFuel => (OutOfFuel, s') | OracleMiss => (OracleMiss, s')
                 end.
  Proof. reflexivity. Qed.

  Definition read_body (f nest : nat) : unit -> M (unit + unit) := fun _ : unit =>
    lv <- parse_lvalue f nest ;;
    e <- next_data_element ;;
    match e with
    | None => fail EOutOfData
    | Some e =>
        v <- lift_res (coerce_data (lv_sym lv) e) ;;
        assign_value lv v ;;;
        c <- accept_next_token TComma ;;
        ret (if c then inl tt else inr tt)
    end.

  Lemma read_loop f nest rest o : (rest = [] \/ exists tr, rest = TColon :: tr) ->
    forall vs b st1 i r n, vs <> [] -> rbase b st1 -> skipn i toks = read_toks vs ++ rest -> length vs <= n ->
    match read_targets F p st1 (map (fun v => (v, [])) vs) (line_no p li) with
    | inr st2 =>
        exists b' r', repeat_m n (read_body f nest) tt (at_idx b i r o) = (Ok tt, at_idx b' (i + length (read_toks vs)) r' o)
                      /\ rbase b' st2
    | inl (Fail ROutOfData line st2) =>
        line = line_no p li /\ r_out st2 = r_out st /\
        exists b' i' r', repeat_m n (read_body f nest) tt (at_idx b i r o) = (Err EOutOfData None, at_idx b' i' r' o)
                         /\ rbase b' st2
    | inl (Fail RDataTypeMismatch line st2) =>
        r_out st2 = r_out st /\
        exists b' i' r' l st3, repeat_m n (read_body f nest) tt (at_idx b i r o) = (Err EDataTypeMismatch None, at_idx b' i' r' o)
                           /\ rbase b' st3 /\ get_data_location b' = Some l /\ loc_line l = Some line
    | inl _ => False
    end.
  Proof.
    intros Hrest. destruct Hdata as (cs & Hcs & Hfl).
    induction vs as [|v vs IH]; intros b st1 i r n Hne Hb Hsk Hn; [congruence|].
    pose proof (rbase_tokens b st1 Hb) as Hbt.
    destruct Hb as (B1 & B2 & B3 & B4 & B5 & B6 & B7 & B8 & B9 & B10 & B11 & B12 & B13 & B14 & B15 & B16).
    destruct n as [|n]; [cbn [length] in Hn; lia|].
    cbn [map read_targets]. change (eval_subscripts (eval F) st1 []) with (EOk (@nil N) st1). cbv iota.
    (* the tokens of this target *)
    assert (Hhead : nth_error toks i = Some (TSymbol v)
                    /\ ((vs = [] /\ skipn (S i) toks = rest)
                        \/ (vs <> [] /\ nth_error toks (S i) = Some TComma /\ skipn (S (S i)) toks = read_toks vs ++ rest))).
    { destruct vs as [|v2 vs2].
      - cbn [read_toks app] in Hsk. destruct (skipn_cons_nth _ _ _ _ Hsk) as [H0 Hs1]. split; [exact H0|]. left. split; [reflexivity | exact Hs1].
      - change (read_toks (v :: v2 :: vs2)) with (TSymbol v :: TComma :: read_toks (v2 :: vs2)) in Hsk. cbn [app] in Hsk.
        destruct (skipn_cons_nth _ _ _ _ Hsk) as [H0 Hs1]. destruct (skipn_cons_nth _ _ _ _ Hs1) as [H1 Hs2].
        split; [exact H0|]. right. split; [discriminate|]. split; [exact H1 | exact Hs2]. }
    destruct Hhead as [H0 Hnext].
    assert (Hnoparen : match nth_error toks (S i) with Some t => token_eqb t TLeftParen | None => false end = false).
    { destruct Hnext as [[-> Hs1]|(_ & H1 & _)].
      - destruct Hrest as [->|(tr0 & ->)].
        + rewrite (skipn_nil_nth _ _ Hs1). reflexivity.
        + destruct (skipn_cons_nth _ _ _ _ Hs1) as [Hc _]. rewrite Hc. reflexivity.
      - rewrite H1. reflexivity. }
    (* the model: the target, then the next DATA item *)
    assert (Hlv : parse_lvalue f nest (at_idx b i r o) = (Ok (mklv v None), at_idx b (S i) (S (S r)) o)).
    { unfold parse_lvalue. erewrite bind_ok by (apply (next_some b toks Hbt); exact H0). cbv iota beta.
      unfold parse_optional_array_index.
      erewrite bind_ok by (erewrite bind_ok by apply (peek_is_at b toks Hbt); rewrite Hnoparen; reflexivity).
      reflexivity. }
    set (x := at_idx b (S i) (S (S r)) o).
    (* the iterator the model reads from, and its flat position *)
    assert (Hit : exists it, match data_it b with Some d0 => d0 | None => mkdi cs 0 0 end = it
                            /\ di_chunks it = cs /\ wf_it it /\ dpos it = r_dpos st1).
    { unfold data_rel in B12. destruct (data_it b) as [d0|].
      - destruct B12 as (E & Hw & Hp). exists d0. split; [reflexivity|].
        rewrite B1, B2, Hcs in E. inversion E. repeat split; first [assumption | reflexivity | (symmetry; assumption)].
      - exists (mkdi cs 0 0). split; [reflexivity|]. split; [reflexivity|]. split; [apply wf_it_start|].
        rewrite dpos_start. symmetry. exact B12. }
    destruct Hit as (it & Ed & Hdc & Hdw & Hdp).
    pose proof (data_next_spec (S (S (length (di_chunks it)))) it Hdw ltac:(lia)) as Hspec.
    assert (Hnd : next_data_element x =
                  (Ok (fst (data_next (S (S (length (di_chunks it)))) it)),
                   set_data_it (Some (snd (data_next (S (S (length (di_chunks it)))) it))) x)).
    { unfold next_data_element. change (data_it x) with (data_it b). change (st_keys x) with (st_keys b).
      change (st_toks x) with (st_toks b). rewrite B1, B2, Hcs.
      destruct (data_it b) as [d0|]; cbn in Ed; subst it; destruct (data_next _ _); reflexivity. }
    destruct (data_next (S (S (length (di_chunks it)))) it) as [e d'] eqn:Edn. cbn [fst snd] in Hnd.
    destruct Hspec as (Hc' & Hw' & Hspec). rewrite Hdc in Hspec, Hc'.
    pose proof (Forall2_nth _ _ _ (dpos it) Hfl) as Hmatch. rewrite Hdp in Hmatch, Hspec.
    set (x1 := set_data_it (Some d') x) in *.
    assert (Hbody : read_body f nest tt (at_idx b i r o) =
              match e with
              | None => (Err EOutOfData None, x1)
              | Some e1 =>
                  match coerce_data v e1 with
                  | Ok xv => (if type_matches v xv
                              then (c <- accept_next_token TComma ;; ret (if c then inl tt else inr tt))
                                     (set_variables (alist_set v xv (variables x1)) x1)
                              else (Err ETypeMismatch None, x1))
                  | Err ie l => (Err ie l, x1)
                  | Panic pp => (Panic pp, x1)
                  | OutOfFuel => (OutOfFuel, x1)
                  | OracleMiss => (OracleMiss, x1)
                  end
              end).
    { unfold read_body. erewrite bind_ok by exact Hlv. cbv beta. erewrite bind_ok by exact Hnd.
      destruct e as [e1|]; [|reflexivity]. cbn [lv_sym].
      unfold lift_res. unfold bind at 1. cbn [fst snd].
      destruct (coerce_data v e1) as [xv|ie l|pp| |]; try reflexivity.
      unfold assign_value. cbn [lv_index lv_sym]. unfold variables_set.
      destruct (type_matches v xv); reflexivity. }
    assert (Hb1 : forall st2, r_dpos st2 = S (r_dpos st1) -> r_vars st2 = r_vars st1 -> r_frames st2 = r_frames st1 ->
                    r_calls st2 = r_calls st1 -> r_loops st2 = r_loops st1 -> r_out st2 = r_out st1 ->
                    nth_error (flatl cs) (r_dpos st1) <> None -> rbase (set_data_it (Some d') b) st2).
    { intros st2 E1 E2 E3 E4 E5 E6 Hsome. unfold rbase. cbn [st_toks st_keys enable_tracing enable_warnings state immediate loc stack loops set_data_it].
      destruct B10 as [BA BB].
      split; [exact B1|]. split; [exact B2|]. split; [exact B3|]. split; [exact B4|]. split; [exact B5|]. split; [exact B6|].
      split; [exact B7|]. split; [exact B8|]. split; [exact B9|].
      split; [split; intros name; [rewrite E3; exact (BA name) | rewrite E2; exact (BB name)]|].
      split; [exact B11|].
      split.
      { unfold data_rel. cbn [data_it set_data_it st_keys st_toks]. rewrite B1, B2, Hcs, Hc'. split; [reflexivity|]. split; [exact Hw'|].
        destruct (nth_error (flatl cs) (r_dpos st1)) as [[e0 l0]|]; [|congruence]. destruct Hspec as (_ & Hp' & _). congruence. }
      repeat split; congruence. }
    rewrite repeat_m_S, (bind_unf (read_body f nest tt)), Hbody. clear Hbody.
    destruct (nth_error (flatl cs) (r_dpos st1)) as [[e0 l0]|] eqn:Efl;
      destruct (nth_error (data_list p) (r_dpos st1)) as [[dd dline]|] eqn:Edl; try contradiction.
    2:{ (* OUT OF DATA *)
      destruct Hspec as [-> Hp']. cbv iota.
      split; [reflexivity|]. split; [exact B16|]. exists (set_data_it (Some d') b), (S i), (S (S r)).
      split; [reflexivity|].
      unfold rbase. cbn [st_toks st_keys enable_tracing enable_warnings state immediate loc stack loops set_data_it].
      destruct B10 as [BA BB].
      split; [exact B1|]. split; [exact B2|]. split; [exact B3|]. split; [exact B4|]. split; [exact B5|]. split; [exact B6|].
      split; [exact B7|]. split; [exact B8|]. split; [exact B9|]. split; [split; [exact BA | exact BB]|]. split; [exact B11|].
      split.
      { unfold data_rel. cbn [data_it set_data_it st_keys st_toks]. rewrite B1, B2, Hcs, Hc'. split; [reflexivity|]. split; [exact Hw'|]. congruence. }
      repeat split; assumption. }
    destruct Hspec as (-> & Hp' & items & Hchunk). destruct Hmatch as [Hfe Hfl']. cbn [fst snd] in Hfe, Hfl'. subst dd.
    cbv iota.
    change (str_name v) with (ends_with_dollar v).
    set (st2 := set_dpos' (S (r_dpos st1)) st1).
    assert (Hst2 : r_dpos st2 = S (r_dpos st1) /\ r_vars st2 = r_vars st1 /\ r_frames st2 = r_frames st1
                   /\ r_calls st2 = r_calls st1 /\ r_loops st2 = r_loops st1 /\ r_out st2 = r_out st1)
      by (unfold st2; destruct st1; repeat split; reflexivity).
    destruct Hst2 as (S1 & S2 & S3 & S4 & S5 & S6).
    assert (Hb2 : rbase (set_data_it (Some d') b) st2) by (apply Hb1; try assumption; congruence).
    assert (Hcoerce : match coerce_data v e0 with
                      | Ok xv => (if ends_with_dollar v then inl (VStr match e0 with DStr s0 => s0 | DNum x0 => show_f64 x0 end)
                                  else match e0 with DNum x0 => inl (VNum x0) | DStr _ => inr RDataTypeMismatch end) = inl xv
                      | Err ie None => ie = EDataTypeMismatch /\
                          (if ends_with_dollar v then inl (VStr match e0 with DStr s0 => s0 | DNum x0 => show_f64 x0 end)
                           else match e0 with DNum x0 => inl (VNum x0) | DStr _ => inr RDataTypeMismatch end) = inr RDataTypeMismatch
                      | _ => False
                      end).
    { unfold coerce_data. destruct (ends_with_dollar v), e0; try reflexivity; split; reflexivity. }
    destruct (coerce_data v e0) as [xv|ie [l1|]|pp| |] eqn:Ecd; try contradiction.
    2:{ (* DATA TYPE MISMATCH, reported where the item came from *)
      destruct Hcoerce as [-> Hv]. rewrite Hv.
      split; [congruence|].
      exists (set_data_it (Some d') b), (S i), (S (S r)), l0, st2.
      split; [reflexivity|]. split; [exact Hb2|]. split; [|exact Hfl'].
      unfold get_data_location. cbn [data_it set_data_it]. rewrite Hc', Hchunk. reflexivity. }
    rewrite Hcoerce.
    pose proof (coerce_kind v e0 xv Ecd) as Hkind.
    unfold store_scalar. rewrite kind_agrees, Hkind.
    set (b1 := set_variables (alist_set v xv (variables b)) (set_data_it (Some d') b)).
    set (st3 := set_vars' (update v xv (r_vars st2)) st2).
    assert (Hb' : rbase b1 st3).
    { destruct Hb2 as (C1 & C2 & C3 & C4 & C5 & C6 & C7 & C8 & C9 & C10 & C11 & C12 & C13 & C14 & C15 & C16).
      unfold rbase, b1. cbn [st_toks st_keys enable_tracing enable_warnings state immediate loc stack loops set_variables set_data_it].
      split; [exact C1|]. split; [exact C2|]. split; [exact C3|]. split; [exact C4|]. split; [exact C5|]. split; [exact C6|].
      split; [exact C7|]. split; [exact C8|]. split; [exact C9|].
      split; [apply (same_store_assign st2 (set_data_it (Some d') b)); [exact C10 | reflexivity | reflexivity]|].
      split; [intros HT; apply (typed_set (set_data_it (Some d') b) _ v xv (C11 HT) Hkind); reflexivity|].
      split; [apply (data_rel_ext st2 st3 (set_data_it (Some d') b)); try reflexivity; exact C12|].
      unfold st3. destruct st2; cbn in *. repeat split; assumption. }
    change (set_variables (alist_set v xv (variables x1)) x1) with (at_idx b1 (S i) (S (S r)) o).
    pose proof (rbase_tokens b1 st3 Hb') as Hbt1.
    destruct Hnext as [[-> Hs1]|(Hne' & H1 & Hs2)].
    - (* the last target *)
      assert (Hno : forall t, nth_error toks (S i) = Some t -> token_eqb t TComma = false).
      { intros t Ht. destruct Hrest as [->|(tr0 & ->)].
        - rewrite (skipn_nil_nth _ _ Hs1) in Ht. discriminate.
        - destruct (skipn_cons_nth _ _ _ _ Hs1) as [Hc _]. rewrite Hc in Ht. inversion Ht. reflexivity. }
      erewrite bind_ok by (apply (accept_no b1 toks Hbt1); exact Hno). cbv iota. cbn [ret].
      cbn [map read_targets]. exists b1, (S (S (S r))). split; [|exact Hb'].
      cbn [read_toks length]. replace (i + 1) with (S i) by lia. reflexivity.
    - (* a comma: the next target *)
      erewrite bind_ok by (apply (accept_yes b1 toks Hbt1 _ _ _ TComma TComma H1); reflexivity). cbv iota. cbn [ret].
      specialize (IH b1 st3 (S (S i)) (S (S (S r))) n Hne' Hb' Hs2 ltac:(cbn [length] in Hn; lia)).
      destruct vs as [|v2 vs2]; [congruence|].
      change (read_toks (v :: v2 :: vs2)) with (TSymbol v :: TComma :: read_toks (v2 :: vs2)).
      cbn [length]. replace (i + S (S (length (read_toks (v2 :: vs2))))) with (S (S i) + length (read_toks (v2 :: vs2))) by lia.
      exact IH.
  Qed.

  Lemma step_read vs rest i :
    vs <> [] -> skipn i toks = (TRead :: read_toks vs) ++ rest -> (rest = [] \/ exists tr, rest = TColon :: tr) ->
    data_rel st s ->
    steps_as (SRead (map (fun v => (v, [])) vs)) i (TRead :: read_toks vs).
  Proof.
    intros Hne Hsk Hrest Hdr. cbn [app] in Hsk. destruct (skipn_cons_nth _ _ _ _ Hsk) as [H0 Hs1].
    exists (S (length vs)). intros fuel Hf r o. destruct fuel as [|f]; [lia|].
    assert (Hrun : evaluate_statement (S f) d (at_idx s i r o) = repeat_m f (read_body f (S d)) tt (at_idx s (S i) (S r) o)).
    { cbn [evaluate_statement]. rewrite Hd.
      unfold evaluate_statement_body.
      rewrite bind_get_run. change (enable_tracing (at_idx s i r o)) with (enable_tracing s). rewrite Htrace. cbv iota.
      rewrite bind_ret'.
      erewrite bind_ok by (apply (next_some s toks Htoks); exact H0). reflexivity. }
    unfold step_result. rewrite Hrun. clear Hrun. cbn [exec].
    assert (Hb : rbase s st).
    { unfold rbase. repeat split; try reflexivity; try assumption; try (intros HT; exact HT).
      - destruct Hrel as [A _]. exact A.
      - destruct Hrel as [_ B]. exact B. }
    pose proof (read_loop f (S d) rest o Hrest vs s st (S i) (S r) f Hne Hb Hs1 ltac:(lia)) as HL.
    destruct (read_targets F p st (map (fun v => (v, [])) vs) (line_no p li)) as [[pc st'|st'|er line st'|]|st2];
      try contradiction.
    - destruct er; try contradiction.
      + (* OUT OF DATA *)
        destruct HL as (-> & Hro & b' & i' & r' & Hrun & Hb').
        destruct Hb' as (C1 & C2 & C3 & C4 & C5 & C6 & C7 & C8 & C9 & C10 & C11 & C12 & C13 & C14 & C15 & C16).
        unfold step_outcome. split; [reflexivity|]. split; [exact Hro|]. eexists _, _. split; [exact Hrun|].
        split; [reflexivity|]. split; [unfold keeps; repeat split; assumption|].
        split; [exact C7|]. split; [reflexivity | discriminate].
      + (* DATA TYPE MISMATCH *)
        destruct HL as (Hro & b' & i' & r' & l & st3 & Hrun & Hb' & Hgl & Hll).
        destruct Hb' as (C1 & C2 & C3 & C4 & C5 & C6 & C7 & C8 & C9 & C10 & C11 & C12 & C13 & C14 & C15 & C16).
        unfold step_outcome. split; [exact Hro|]. eexists _, l. split; [exact Hrun|].
        split; [unfold keeps; repeat split; assumption|]. split; [reflexivity|]. split; [exact Hgl | exact Hll].
    - destruct HL as (b' & r' & Hrun & Hb').
      destruct Hb' as (C1 & C2 & C3 & C4 & C5 & C6 & C7 & C8 & C9 & C10 & C11 & C12 & C13 & C14 & C15 & C16).
      unfold step_outcome. eexists. split; [exact Hrun|].
      split; [unfold keeps; repeat split; assumption|].
      split; [exact C10|]. split; [exact C13|]. split; [exact C11|]. split; [intros _; exact C12|].
      split; [left; split; [exact C14 | exact C8]|]. split; [left; split; [exact C15 | exact C9]|].
      split; [exists []; split; [rewrite app_nil_r; exact C16 | cbn; rewrite app_nil_r; reflexivity]|].
      left. split; [reflexivity|]. cbn [loc at_idx set_loc set_reads set_outputs]. rewrite C7. cbn [length]. f_equal. lia.
  Qed.

  (* END *)
  Lemma step_end rest i :
    skipn i toks = [TEnd] ++ rest -> immediate s = [] ->
    steps_as SEnd i [TEnd].
  Proof.
    intros Hsk Himm. cbn [app] in Hsk. destruct (skipn_cons_nth _ _ _ _ Hsk) as [H0 _].
    exists 1. intros fuel Hf r o. destruct fuel as [|f]; [lia|].
    unfold step_result, step_outcome. cbn [exec]. split; [reflexivity|].
    cbn [evaluate_statement]. rewrite Hd.
    unfold evaluate_statement_body.
    rewrite bind_get_run. change (enable_tracing (at_idx s i r o)) with (enable_tracing s). rewrite Htrace. cbv iota.
    rewrite bind_ret'.
    erewrite bind_ok by (apply (next_some s toks Htoks); exact H0). cbv iota beta.
    unfold program_end, set_and_goto_immediate_line, modify.
    eexists. split; [reflexivity|].
    split; [unfold keeps; cbn; destruct (breakpoint s); cbn; repeat split; try assumption; symmetry; assumption|].
    split; [reflexivity|]. split; [exact Himm|]. cbn. destruct (breakpoint s); reflexivity.
  Qed.

  (* IF c THEN <line> *)
  Lemma step_if c c' tc n x rest i :
    skipn i toks = (TIf :: tc ++ [TThen; TNumber x]) ++ rest -> (rest = [] \/ exists tr, rest = TColon :: tr) ->
    tr c = Some c' -> Renders 0 c' tc -> S d + pdepth c' < max_nesting -> xsize c <= F -> line_target x = n ->
    steps_as (SIf c (ALine n) None) i (TIf :: tc ++ [TThen; TNumber x]).
  Proof.
    intros Hsk Hrest Htr Hren Hdp HF Hn.
    cbn [app] in Hsk. rewrite <- app_assoc in Hsk. cbn [app] in Hsk.
    destruct (skipn_cons_nth _ _ _ _ Hsk) as [H0 Hs1].
    destruct (expr_sem_at s toks Htoks c' tc Hren (S d) (S i) (TThen :: TNumber x :: rest) Hs1 eq_refl Hdp) as (fe & Hfe).
    pose proof (skipn_app_len _ _ _ _ Hs1) as Hs2.
    destruct (skipn_cons_nth _ _ _ _ Hs2) as [H2 Hs3]. destruct (skipn_cons_nth _ _ _ _ Hs3) as [H3 Hs4].
    set (j := S i + length tc) in *.
    exists (S (S (S (S fe)))). intros fuel Hf r o. destruct fuel as [|f]; [lia|].
    destruct (Hfe f ltac:(lia) (S r) o) as (i1 & r1 & o1 & Hev & Hi1 & HW1). apply W_off in HW1. subst o1.
    unfold step_result, step_outcome. cbn [exec]. unfold RefSem.ev.
    rewrite (ref_expr_is_den c c' st s F Htr (same_store_reads _ _ Hrel) HF).
    pose proof (den_plain s c c' Htr) as Hp.
    (* the model up to the branch *)
    assert (Hrun : evaluate_statement (S f) d (at_idx s i r o) =
              match den s c' with
              | Ok v =>
                  (if to_bool v then
                     statement_or_goto_line_number (evaluate_statement f (S d)) ;;;
                     e <- peek_is TElse ;; if e then discard_remaining_tokens else ret tt
                   else
                     repeat_m f (fun _ : unit =>
                       t <- next_token ;;
                       match t with
                       | None => ret (inr tt)
                       | Some TColon => discard_remaining_tokens ;;; ret (inl tt)
                       | Some TElse => statement_or_goto_line_number (evaluate_statement f (S d)) ;;;
                                        e <- peek_is TElse ;; (if e then discard_remaining_tokens else ret tt) ;;; ret (inr tt)
                       | Some _ => ret (inl tt)
                       end) tt) (at_idx s (S j) (S r1) o)
              | Err er l => (Err er l, at_idx s i1 r1 o)
              | Panic pp => (Panic pp, at_idx s i1 r1 o)
              | OutOfFuel => (OutOfFuel, at_idx s i1 r1 o)
              | OracleMiss => (OracleMiss, at_idx s i1 r1 o)
              end).
    { cbn [evaluate_statement]. rewrite Hd.
      unfold evaluate_statement_body.
      rewrite bind_get_run. change (enable_tracing (at_idx s i r o)) with (enable_tracing s). rewrite Htrace. cbv iota.
      rewrite bind_ret'.
      erewrite bind_ok by (apply (next_some s toks Htoks); exact H0). cbv iota beta.
      unfold evaluate_if_statement, Eval.expr. erewrite bind_run by exact Hev.
      destruct (den s c') as [v|er l|pp| |]; try reflexivity.
      rewrite (Hi1 v eq_refl). fold j.
      erewrite bind_ok by (apply (expect_ok s toks Htoks _ _ _ TThen TThen H2); reflexivity).
      reflexivity. }
    rewrite Hrun. clear Hrun.
    destruct (den s c') as [v|er l|pp| |]; cbn [plain conv] in *; try contradiction.
    2:{ destruct er; try contradiction; destruct l; try contradiction;
          (split; [reflexivity|]; split; [reflexivity|]; eexists _, _; split; [reflexivity|];
           split; [reflexivity|]; split; [apply keeps_at|]; split; [reflexivity | split; [reflexivity | discriminate]]). }
    rewrite truth_to_bool. destruct (to_bool v).
    - (* taken: the line-number form of THEN *)
      unfold statement_or_goto_line_number.
      rewrite bind_assoc. erewrite bind_ok by apply (peek_at s toks Htoks). rewrite H3. cbv iota.
      unfold evaluate_goto_statement. rewrite bind_assoc.
      erewrite bind_ok by (apply (next_some s toks Htoks); exact H3). cbv iota beta.
      unfold line_target in Hn. rewrite Hn.
      pose proof (goto_runs n (S (S j)) (S (S (S r1))) o) as Hg.
      unfold jump. destruct (find_line p n 0) as [li'|] eqn:Ef; (erewrite bind_run by exact Hg).
      + destruct (find_line_nth _ _ _ _ Ef) as (stmts & Hnth). rewrite Nat.sub_0_r in Hnth.
        (* the ELSE probe at the target line *)
        set (s2 := set_loc (mkloc (Some n) 0) (set_breakpoint None (at_idx s (S (S j)) (S (S (S r1))) o))).
        assert (Hhas : store_has n s = true) by (rewrite Hjump, Ef; reflexivity).
        unfold store_has in Hhas. destruct (toks_get n (st_toks s)) as [l|] eqn:El; [|discriminate].
        destruct (Hheads n l El) as (t0 & l' & -> & Ht0).
        assert (Hpk : peek_is TElse s2 = (Ok false, set_reads (S (reads s2)) s2)).
        { unfold peek_is, peek_next_token, cur_tokens, tokens_for_line, bind, modify, get, ret. cbn.
          rewrite El. cbn. destruct t0; try reflexivity. congruence. }
        erewrite bind_ok by exact Hpk. cbv iota. cbn [ret].
        eexists. split; [reflexivity|].
        split; [unfold keeps; repeat split; assumption|].
        split; [destruct Hrel as [A B]; split; [exact A | exact B]|]. split; [try (destruct st; reflexivity); reflexivity|]. split; [intros HT; exact HT|]. split; [data_same|]. split; [left; split; [try (destruct st; reflexivity); reflexivity | reflexivity]|]. split; [left; split; [try (destruct st; reflexivity); reflexivity | reflexivity]|].
        split; [exists []; split; [rewrite app_nil_r; reflexivity | cbn; rewrite app_nil_r; reflexivity]|].
        right. left. exists n, li', stmts. repeat split; assumption.
      + split; [reflexivity|]. split; [reflexivity|]. eexists _, _. split; [reflexivity|].
        split; [reflexivity|]. split; [unfold keeps; repeat split; assumption|]. split; [reflexivity | split; [reflexivity | discriminate]].
    - (* not taken: the rest of the line is skipped *)
      assert (Hlen : S (S j) + length rest = length toks \/ (rest = [] /\ S (S j) = length toks)).
      { destruct Hrest as [->|(tr0 & ->)].
        - right. split; [reflexivity|]. pose proof (skipn_all_length toks (S j) [TNumber x] Hs3 ltac:(discriminate)) as Hl.
          cbn [length] in Hl. lia.
        - left. apply (skipn_all_length toks (S (S j)) _ Hs4). discriminate. }
      destruct f as [|f]; [lia|]. destruct f as [|f]; [lia|]. destruct f as [|f]; [lia|].
      rewrite repeat_m_S.
      erewrite bind_ok by (erewrite bind_ok by (apply (next_some s toks Htoks); exact H3); reflexivity).
      cbv iota.
      destruct Hrest as [->|(tr0 & ->)].
      + (* end of the line *)
        rewrite repeat_m_S.
        assert (Hnone : nth_error toks (S (S j)) = None) by (apply skipn_nil_nth; exact Hs4).
        assert (Hnt : next_token (at_idx s (S (S j)) (S (S r1)) o) = (Ok None, at_idx s (S (S j)) (S (S (S r1))) o)).
        { unfold next_token. erewrite bind_ok by apply (peek_at s toks Htoks). rewrite Hnone. reflexivity. }
        erewrite bind_ok by (erewrite bind_ok by exact Hnt; reflexivity). cbv iota. cbn [ret].
        eexists. split; [reflexivity|]. split; [apply keeps_at|].
        split; [apply same_store_at; destruct Hrel as [A B]; split; [exact A | exact B]|]. split; [try (destruct st; reflexivity); reflexivity|]. split; [intros HT; exact HT|]. split; [data_same|]. split; [left; split; [try (destruct st; reflexivity); reflexivity | reflexivity]|]. split; [left; split; [try (destruct st; reflexivity); reflexivity | reflexivity]|].
        split; [exists []; split; [rewrite app_nil_r; reflexivity | cbn; rewrite app_nil_r; reflexivity]|].
        right. right. left. split; [reflexivity|]. destruct Hlen as [Hl|[_ Hl]]; cbn; f_equal; cbn [length] in *; lia.
      + (* a colon: the statements behind it are skipped too *)
        destruct (skipn_cons_nth _ _ _ _ Hs4) as [H4 _].
        rewrite repeat_m_S.
        assert (Hdisc : discard_remaining_tokens (at_idx s (S (S (S j))) (S (S (S r1))) o)
                        = (Ok tt, at_idx s (length toks) (S (S (S r1))) o)).
        { unfold discard_remaining_tokens. erewrite bind_ok by apply (cur_tokens_at s toks Htoks). reflexivity. }
        erewrite bind_ok by (erewrite bind_ok by (apply (next_some s toks Htoks); exact H4); cbv iota;
                             erewrite bind_ok by exact Hdisc; reflexivity).
        cbv iota. rewrite repeat_m_S.
        assert (Hnone : nth_error toks (length toks) = None) by (apply nth_error_None; apply le_n).
        assert (Hnt : next_token (at_idx s (length toks) (S (S (S r1))) o)
                      = (Ok None, at_idx s (length toks) (S (S (S (S r1)))) o)).
        { unfold next_token. erewrite bind_ok by apply (peek_at s toks Htoks). rewrite Hnone. reflexivity. }
        erewrite bind_ok by (erewrite bind_ok by exact Hnt; reflexivity). cbv iota. cbn [ret].
        eexists. split; [reflexivity|]. split; [apply keeps_at|].
        split; [apply same_store_at; destruct Hrel as [A B]; split; [exact A | exact B]|]. split; [try (destruct st; reflexivity); reflexivity|]. split; [intros HT; exact HT|]. split; [data_same|]. split; [left; split; [try (destruct st; reflexivity); reflexivity | reflexivity]|]. split; [left; split; [try (destruct st; reflexivity); reflexivity | reflexivity]|].
        split; [exists []; split; [rewrite app_nil_r; reflexivity | cbn; rewrite app_nil_r; reflexivity]|].
        right. right. left. split; reflexivity.
  Qed.
End Step.

(* ------------------------------------------------------------------ *)
(* 3b. IF c THEN <statement>: the clause is a statement one level down *)


Lemma forallb_app' {A} (f : A -> bool) a b : forallb f (a ++ b) = forallb f a && forallb f b.
Proof. induction a as [|x a IH]; cbn; [reflexivity|]. rewrite IH, andb_assoc. reflexivity. Qed.

Lemma Renders_plain k e ts : Renders k e ts -> forallb plain_tok ts = true.
Proof.
  induction 1 as [x|b|name|e ts H IH|e ts H IH|e ts H IH|op e ts H IH|op a b ta tb Ha IHa Hb IHb|k e ts Hk H IH];
    try reflexivity; try exact IH.
  - cbn [forallb]. rewrite forallb_app', IH. reflexivity.
  - cbn [forallb]. rewrite forallb_app', IH. reflexivity.
  - cbn [forallb]. rewrite forallb_app', IH. reflexivity.
  - cbn [forallb]. rewrite IH. destruct op; reflexivity.
  - rewrite forallb_app'. cbn [forallb]. rewrite IHa, IHb.
    destruct op as [| |c|[]|[]|]; try reflexivity. destruct c; reflexivity.
Qed.

Lemma IRenders_plain rest items ts : IRenders rest items ts -> forallb plain_tok ts = true.
Proof.
  induction 1 as [Hend|r0 ts H IH|r0 ts H IH|e te r0 ts He Hst H IH]; try reflexivity.
  - cbn [forallb]. rewrite IH. reflexivity.
  - cbn [forallb]. rewrite IH. reflexivity.
  - rewrite forallb_app', (Renders_plain _ _ _ He), IH. reflexivity.
Qed.

Lemma token_neq_else t : t <> TElse -> token_eqb t TElse = false.
Proof. intros H. destruct t; try reflexivity. congruence. Qed.

Section Scan.
  Variable s : interp.
  Variable toks : list token.
  Hypothesis Htoks : fst (cur_tokens s) = Ok toks.
  Variable rec : M unit.

  Definition skip_body : unit -> M (unit + unit) := fun _ : unit =>
    t <- next_token ;;
    match t with
    | None => ret (inr tt)
    | Some TColon => discard_remaining_tokens ;;; ret (inl tt)
    | Some TElse => statement_or_goto_line_number rec ;;;
                           e <- peek_is TElse ;; (if e then discard_remaining_tokens else ret tt) ;;; ret (inr tt)
    | Some _ => ret (inl tt)
    end.

  (* a false IF skips the clause and everything behind it on the line *)
  Lemma scan_skip rest o : (rest = [] \/ exists tr, rest = TColon :: tr) ->
    forall ts j r n, forallb plain_tok ts = true -> skipn j toks = ts ++ rest ->
      j + length ts + length rest = length toks -> length ts + 3 <= n ->
      exists r', repeat_m n skip_body tt (at_idx s j r o) = (Ok tt, at_idx s (length toks) r' o).
  Proof.
    intros Hrest. induction ts as [|t ts IH]; intros j r n Hp Hsk Hlen Hn.
    - cbn [app] in Hsk. cbn [length] in Hlen.
      destruct n as [|n]; [lia|]. rewrite repeat_m_S. unfold skip_body at 1.
      destruct Hrest as [->|(tr0 & ->)].
      + assert (Hnone : nth_error toks j = None) by (apply skipn_nil_nth; exact Hsk).
        assert (Hnt : next_token (at_idx s j r o) = (Ok None, at_idx s j (S r) o)).
        { unfold next_token. erewrite bind_ok by apply (peek_at s toks Htoks). rewrite Hnone. reflexivity. }
        erewrite bind_ok by (erewrite bind_ok by exact Hnt; reflexivity). cbv iota. cbn [ret].
        cbn [length] in Hlen. replace (length toks) with j by lia. eexists. reflexivity.
      + destruct (skipn_cons_nth _ _ _ _ Hsk) as [Hc _].
        assert (Hdisc : discard_remaining_tokens (at_idx s (S j) (S r) o) = (Ok tt, at_idx s (length toks) (S r) o)).
        { unfold discard_remaining_tokens. erewrite bind_ok by apply (cur_tokens_at s toks Htoks). reflexivity. }
        erewrite bind_ok by (erewrite bind_ok by (apply (next_some s toks Htoks); exact Hc); cbv iota;
                             erewrite bind_ok by exact Hdisc; reflexivity).
        cbv iota. destruct n as [|n]; [lia|]. rewrite repeat_m_S. unfold skip_body at 1.
        assert (Hnone : nth_error toks (length toks) = None) by (apply nth_error_None; apply le_n).
        assert (Hnt : next_token (at_idx s (length toks) (S r) o) = (Ok None, at_idx s (length toks) (S (S r)) o)).
        { unfold next_token. erewrite bind_ok by apply (peek_at s toks Htoks). rewrite Hnone. reflexivity. }
        erewrite bind_ok by (erewrite bind_ok by exact Hnt; reflexivity). cbv iota. cbn [ret].
        eexists. reflexivity.
    - cbn [app] in Hsk. cbn [forallb] in Hp. apply andb_true_iff in Hp. destruct Hp as [Hp1 Hp2].
      destruct (skipn_cons_nth _ _ _ _ Hsk) as [Hc Hsk'].
      destruct n as [|n]; [cbn [length] in Hn; lia|]. rewrite repeat_m_S. unfold skip_body at 1.
      assert (Hstep : (t0 <- next_token ;;
                       match t0 with
                       | None => ret (inr tt)
                       | Some TColon => discard_remaining_tokens ;;; ret (inl tt)
                       | Some TElse => statement_or_goto_line_number rec ;;;
                           e <- peek_is TElse ;; (if e then discard_remaining_tokens else ret tt) ;;; ret (inr tt)
                       | Some _ => ret (inl tt)
                       end) (at_idx s j r o) = (Ok (inl tt), at_idx s (S j) (S r) o)).
      { erewrite bind_ok by (apply (next_some s toks Htoks); exact Hc).
        unfold plain_tok in Hp1. destruct t; try reflexivity; discriminate. }
      erewrite bind_ok by exact Hstep. cbv iota.
      apply IH; [exact Hp2 | exact Hsk' | cbn [length] in Hlen; lia | cbn [length] in Hn; lia].
  Qed.

  (* ... or stops at the ELSE of the clause and runs what follows it *)
  Lemma scan_to_else more o :
    forall ts j r n, forallb plain_tok ts = true -> skipn j toks = ts ++ TElse :: more -> length ts + 1 <= n ->
      exists r', repeat_m n skip_body tt (at_idx s j r o)
                 = ((statement_or_goto_line_number rec ;;;
                     e <- peek_is TElse ;; if e then discard_remaining_tokens else ret tt) ;;; ret tt)
                    (at_idx s (S (j + length ts)) r' o).
  Proof.
    induction ts as [|t ts IH]; intros j r n Hp Hsk Hn.
    - cbn [app] in Hsk. destruct (skipn_cons_nth _ _ _ _ Hsk) as [Hc _].
      destruct n as [|n]; [cbn [length] in Hn; lia|]. rewrite repeat_m_S. unfold skip_body at 1.
      rewrite bind_assoc. erewrite bind_ok by (apply (next_some s toks Htoks); exact Hc). cbv iota beta.
      cbn [length]. rewrite Nat.add_0_r. exists (S r).
      unfold bind. destruct (statement_or_goto_line_number rec (at_idx s (S j) (S r) o)) as [[[]|e l|pp| |] s1]; try reflexivity.
      destruct (peek_is TElse s1) as [[[|]|e l|pp| |] s2]; try reflexivity.
      destruct (discard_remaining_tokens s2) as [[[]|e l|pp| |] s3]; reflexivity.
    - cbn [app] in Hsk. cbn [forallb] in Hp. apply andb_true_iff in Hp. destruct Hp as [Hp1 Hp2].
      destruct (skipn_cons_nth _ _ _ _ Hsk) as [Hc Hsk'].
      destruct n as [|n]; [cbn [length] in Hn; lia|]. rewrite repeat_m_S. unfold skip_body at 1.
      assert (Hstep : (t0 <- next_token ;;
                       match t0 with
                       | None => ret (inr tt)
                       | Some TColon => discard_remaining_tokens ;;; ret (inl tt)
                       | Some TElse => statement_or_goto_line_number rec ;;;
                           e <- peek_is TElse ;; (if e then discard_remaining_tokens else ret tt) ;;; ret (inr tt)
                       | Some _ => ret (inl tt)
                       end) (at_idx s j r o) = (Ok (inl tt), at_idx s (S j) (S r) o)).
      { erewrite bind_ok by (apply (next_some s toks Htoks); exact Hc).
        unfold plain_tok in Hp1. destruct t; try reflexivity; discriminate. }
      erewrite bind_ok by exact Hstep. cbv iota.
      destruct (IH (S j) (S r) n Hp2 Hsk' ltac:(cbn [length] in Hn; lia)) as (r' & E).
      exists r'. rewrite E. cbn [length]. replace (S (j + S (length ts))) with (S (S j + length ts)) by lia. reflexivity.
  Qed.
End Scan.

Lemma TRen_plain F d rest a ts : TRen F d rest a ts -> forallb plain_tok ts = true.
Proof.
  destruct 1 as [n x H1|v e e' te H1 H2 H3 H4 H5|items mitems ti H1 H2 H3 H4|n x H1| | |v]; try reflexivity.
  - cbn [forallb]. rewrite (Renders_plain _ _ _ H2). reflexivity.
  - cbn [forallb]. rewrite (IRenders_plain _ _ _ H2). reflexivity.
Qed.


(* DATA tokens occur only as DATA statements of the line *)
Definition notdata (t : token) : bool := match t with TData _ => false | _ => true end.

Lemma Renders_nodata k e ts : Renders k e ts -> forallb notdata ts = true.
Proof.
  induction 1 as [x|b|name|e ts H IH|e ts H IH|e ts H IH|op e ts H IH|op a b ta tb Ha IHa Hb IHb|k e ts Hk H IH];
    try reflexivity; try exact IH.
  - cbn [forallb]. rewrite forallb_app', IH. reflexivity.
  - cbn [forallb]. rewrite forallb_app', IH. reflexivity.
  - cbn [forallb]. rewrite forallb_app', IH. reflexivity.
  - cbn [forallb]. rewrite IH. destruct op; reflexivity.
  - rewrite forallb_app'. cbn [forallb]. rewrite IHa, IHb.
    destruct op as [| |c|[]|[]|]; try reflexivity. destruct c; reflexivity.
Qed.

Lemma IRenders_nodata rest items ts : IRenders rest items ts -> forallb notdata ts = true.
Proof.
  induction 1 as [Hend|r0 ts H IH|r0 ts H IH|e te r0 ts He Hst H IH]; try reflexivity.
  - cbn [forallb]. rewrite IH. reflexivity.
  - cbn [forallb]. rewrite IH. reflexivity.
  - rewrite forallb_app', (Renders_nodata _ _ _ He), IH. reflexivity.
Qed.

Lemma TRen_nodata F d rest a ts : TRen F d rest a ts -> forallb notdata ts = true.
Proof.
  destruct 1 as [n x H1|v e e' te H1 H2 H3 H4 H5|items mitems ti H1 H2 H3 H4|n x H1| | |v]; try reflexivity.
  - cbn [forallb]. rewrite (Renders_nodata _ _ _ H2). reflexivity.
  - cbn [forallb]. rewrite (IRenders_nodata _ _ _ H2). reflexivity.
Qed.

Lemma read_toks_nodata vs : forallb notdata (read_toks vs) = true.
Proof. induction vs as [|v [|v2 vs] IH]; try reflexivity. exact IH. Qed.

Lemma SRen_nodata F d rest stmt ts : SRen F d rest stmt ts ->
  (exists items, stmt = SData items /\ ts = [TData items] /\ d = 0)
  \/ (forallb notdata ts = true /\ data_of_stmt stmt = []).
Proof.
  induction 1 as [d rest v e e' te H1 H2 H3 H4 H5|d rest items mitems ti H1 H2 H3 H4|d rest items mitems ti H1 H2 H3 H4|d rest v e e' te H1 H2 H3 H4 H5|d rest n x H1|d rest n x H1|d rest|d rest
                 |d rest c c' tc n x H1 H2 H3 H4 H5
                 |d rest v a a' ta b b' tb stp tstep A1 A2 A3 A4 B1 B2 B3 B4 HC|d rest v|d rest b0
                 |d rest items Hd0|d rest|d rest vs Hvs
                 |d rest c c' tc stmt tn H1 H2 H3 H4 H5 H6 IH H7
                 |d rest c c' tc A ta n x H1 H2 H3 H4 H5 H6 H7|d rest c c' tc A ta B tb H1 H2 H3 H4 H5 H6 H7 IH];
    try (right; split; reflexivity).
  - right. split; [|reflexivity]. cbn [forallb]. rewrite (Renders_nodata _ _ _ H2). reflexivity.
  - right. split; [|reflexivity]. cbn [forallb]. rewrite (IRenders_nodata _ _ _ H2). reflexivity.
  - right. split; [|reflexivity]. cbn [forallb]. rewrite (IRenders_nodata _ _ _ H2). reflexivity.
  - right. split; [|reflexivity]. cbn [forallb]. rewrite (Renders_nodata _ _ _ H2). reflexivity.
  - right. split; [|reflexivity]. cbn [forallb]. rewrite forallb_app', (Renders_nodata _ _ _ H2). reflexivity.
  - right. split; [|reflexivity]. cbn [forallb]. rewrite forallb_app', (Renders_nodata _ _ _ A2). cbn [forallb].
    rewrite forallb_app', (Renders_nodata _ _ _ B2).
    destruct HC as [[_ ->]|(c & c' & tc & _ & -> & _ & Hr & _)]; [reflexivity|].
    cbn [forallb]. rewrite (Renders_nodata _ _ _ Hr). reflexivity.
  - left. exists items. repeat split. exact Hd0.
  - right. split; [|reflexivity]. cbn [forallb]. apply read_toks_nodata.
  - right. split; [|reflexivity]. cbn [forallb]. rewrite forallb_app', (Renders_nodata _ _ _ H2). cbn [forallb].
    destruct IH as [(items & _ & _ & E)|[IH _]]; [discriminate | exact IH].
  - right. split; [|reflexivity]. cbn [forallb]. rewrite forallb_app', (Renders_nodata _ _ _ H2). cbn [forallb].
    rewrite forallb_app', (TRen_nodata _ _ _ _ _ H6). reflexivity.
  - right. split; [|reflexivity]. cbn [forallb]. rewrite forallb_app', (Renders_nodata _ _ _ H2). cbn [forallb].
    rewrite forallb_app', (TRen_nodata _ _ _ _ _ H6). cbn [forallb].
    destruct IH as [(items & _ & _ & E)|[IH _]]; [discriminate | exact IH].
Qed.

Lemma chunks_nodata n ts k : forallb notdata ts = true -> data_chunks_of_line n ts k = [].
Proof.
  revert k. induction ts as [|t ts IH]; intros k H; [reflexivity|]. cbn [forallb] in H. apply andb_true_iff in H. destruct H as [H1 H2].
  destruct t; try discriminate; cbn [data_chunks_of_line]; apply IH; exact H2.
Qed.

Lemma chunks_app n a b k : data_chunks_of_line n (a ++ b) k = data_chunks_of_line n a k ++ data_chunks_of_line n b (k + length a).
Proof.
  revert k. induction a as [|t a IH]; intros k; cbn [app length]; [rewrite Nat.add_0_r; reflexivity|].
  destruct t; cbn [data_chunks_of_line]; rewrite IH; try (replace (S k + length a) with (k + S (length a)) by lia; reflexivity).
Qed.

Lemma LRen_chunks F n stmts toks : LRen F stmts toks -> forall k,
  Forall2 data_match (flatl (data_chunks_of_line n toks k)) (map (fun d => (d, n)) (flat_map data_of_stmt stmts)).
Proof.
  assert (Hone : forall rest s ts k, SRen F 0 rest s ts ->
            Forall2 data_match (flatl (data_chunks_of_line n ts k)) (map (fun d => (d, n)) (data_of_stmt s))).
  { intros rest s ts k HS. destruct (SRen_nodata _ _ _ _ _ HS) as [(items & -> & -> & _)|[Hnd Hds]].
    - cbn [data_chunks_of_line data_of_stmt]. unfold flatl. cbn [map concat fst snd]. rewrite app_nil_r. clear HS.
      induction items as [|e items IH]; cbn [map]; [constructor|]. constructor; [split; reflexivity | exact IH].
    - rewrite (chunks_nodata _ _ _ Hnd), Hds. constructor. }
  induction 1 as [s ts HS|s ts r tr HS HL IH]; intros k.
  - cbn [flat_map]. rewrite app_nil_r. apply (Hone [] s ts k HS).
  - cbn [flat_map]. rewrite map_app, chunks_app, flatl_app. apply Forall2_app; [apply (Hone _ s ts k HS)|].
    cbn [data_chunks_of_line]. apply IH.
Qed.

Lemma SRen_head F d rest stmt ts : SRen F d rest stmt ts -> exists t ts', ts = t :: ts' /\ forall x, t <> TNumber x.
Proof. destruct 1; eexists _, _; (split; [reflexivity | intros x0; discriminate]). Qed.

(* ------------------------------------------------------------------ *)
(* 4. host calls *)

From Abasic Require Import Proofs.Safety Proofs.InputProofs.
Local Open Scope nat_scope.

Definition turn_ok (s s' : interp) : Prop :=
  exists f0, forall fuel, f0 <= fuel -> continue_evaluating fuel s = (Ok tt, s').
Definition turn_err (s : interp) (e : ierror) (l : option location) (s' : interp) : Prop :=
  exists f0, forall fuel, f0 <= fuel -> continue_evaluating fuel s = (Err e l, s').

Inductive turns : interp -> interp -> Prop :=
| turns_refl s : turns s s
| turns_step s s1 s2 : turn_ok s s1 -> turns s1 s2 -> turns s s2.

Lemma turns_trans a b c : turns a b -> turns b c -> turns a c.
Proof. induction 1; [auto | intros; econstructor; eauto]. Qed.

Lemma turns_one a b : turn_ok a b -> turns a b.
Proof. intros H. econstructor; [exact H | constructor]. Qed.

Lemma bump_is_at s : bump s = at_idx s (loc_idx (loc s)) (S (reads s)) (outputs s).
Proof. destruct s as [? ? ? [? ?] ? ? ? ? ? ? ? ? ? ? ? ? ? ? ?]; reflexivity. Qed.

(* a call on a running program whose cursor is on a token *)
Lemma turn_eq fuel s t :
  state s = Running -> line_exists s (loc s) -> nth_error (cur_toks s) (loc_idx (loc s)) = Some t ->
  continue_evaluating fuel s = postprocess ((evaluate_statement fuel 0 ;;; after_statement) (bump s)).
Proof.
  intros Hrun Hle Hnth. unfold continue_evaluating. rewrite Hrun. f_equal.
  unfold run_next_statement. rewrite StoreProofs.bind_modify.
  assert (E : set_state Running s = s) by (rewrite <- Hrun; apply set_state_same). rewrite E.
  rewrite Safety.bind_run, (has_next_token_eq s Hle), Hnth. reflexivity.
Qed.

(* what follows the statement inside the call *)
Lemma after_stay s t : line_exists s (loc s) -> nth_error (cur_toks s) (loc_idx (loc s)) = Some t ->
  after_statement s = (Ok tt, bump s).
Proof. intros Hle Hn. unfold after_statement. rewrite Safety.bind_run, (has_next_token_eq s Hle), Hn. reflexivity. Qed.

Lemma next_line_eq s n : loc_line (loc s) = Some n ->
  next_line s = match keys_after n (st_keys s) with
                | Some n' => (Ok true, set_loc (mkloc (Some n') 0) s)
                | None => (Ok false, s)
                end.
Proof.
  intros Hl. unfold next_line, store_after, bind, get, modify, ret. cbn [fst snd]. rewrite Hl.
  destruct (keys_after n (st_keys s)); reflexivity.
Qed.

Lemma next_line_imm s : loc_line (loc s) = None -> next_line s = (Ok false, s).
Proof. intros Hl. unfold next_line, bind, get, ret. cbn [fst snd]. rewrite Hl. reflexivity. Qed.

Lemma after_next s n n' : line_exists s (loc s) -> nth_error (cur_toks s) (loc_idx (loc s)) = None ->
  loc_line (loc s) = Some n -> keys_after n (st_keys s) = Some n' ->
  after_statement s = (Ok tt, set_loc (mkloc (Some n') 0) (bump s)).
Proof.
  intros Hle Hn Hl Hk. unfold after_statement. rewrite Safety.bind_run, (has_next_token_eq s Hle), Hn.
  cbv iota. rewrite Safety.bind_run, (next_line_eq (bump s) n Hl).
  change (st_keys (bump s)) with (st_keys s). rewrite Hk. reflexivity.
Qed.

Definition finished (s : interp) : interp := set_state Idle (StoreProofs.imm_reset [] (bump s)).

Lemma outputs_finished s : outputs (finished s) = outputs s.
Proof. unfold finished, StoreProofs.imm_reset. destruct s; cbn. destruct breakpoint; reflexivity. Qed.

Lemma after_last s n : line_exists s (loc s) -> nth_error (cur_toks s) (loc_idx (loc s)) = None ->
  loc_line (loc s) = Some n -> keys_after n (st_keys s) = None ->
  after_statement s = (Ok tt, finished s).
Proof.
  intros Hle Hn Hl Hk. unfold after_statement. rewrite Safety.bind_run, (has_next_token_eq s Hle), Hn.
  cbv iota. rewrite Safety.bind_run, (next_line_eq (bump s) n Hl).
  change (st_keys (bump s)) with (st_keys s). rewrite Hk. reflexivity.
Qed.

Lemma after_imm s : loc s = imm0 -> immediate s = [] -> after_statement s = (Ok tt, finished s).
Proof.
  intros Hl Hi. unfold after_statement.
  assert (Hle : line_exists s (loc s)) by (unfold line_exists, line_ok; rewrite Hl; exact I).
  rewrite Safety.bind_run, (has_next_token_eq s Hle). unfold cur_toks. rewrite Hl. cbn [loc_line imm0 loc_idx]. rewrite Hi.
  cbn [nth_error]. cbv iota. rewrite Safety.bind_run, (next_line_imm (bump s)); [reflexivity|].
  change (loc (bump s)) with (loc s). rewrite Hl. reflexivity.
Qed.

(* ------------------------------------------------------------------ *)
(* 5. the simulation *)

(* [reach P s]: every run of host calls from [s], each made with enough fuel,
   passes — after finitely many calls that all return normally — through a
   state satisfying [P] *)
(* ------------------------------------------------------------------ *)
(* 4b. IF c THEN <statement> steps as the clause does *)

Lemma cur_tokens_ok_inv s toks : fst (cur_tokens s) = Ok toks -> line_exists s (loc s) /\ cur_toks s = toks.
Proof.
  unfold cur_tokens, cur_toks, line_exists, line_ok. rewrite StoreProofs.bind_get. unfold tokens_for_line.
  destruct (loc_line (loc s)) as [n|]; cbn [fst].
  - destruct (toks_get n (st_toks s)) as [ts|]; cbn [fst]; intros H; [|discriminate].
    inversion H. split; [discriminate | reflexivity].
  - intros H. inversion H. split; [exact I | reflexivity].
Qed.

Definition else_probe : M unit := e <- peek_is TElse ;; if e then discard_remaining_tokens else ret tt.

Lemma probe_no_else s' : line_exists s' (loc s') -> nth_error (cur_toks s') (loc_idx (loc s')) <> Some TElse ->
  else_probe s' = (Ok tt, bump s').
Proof.
  intros Hle Hne. unfold else_probe, peek_is. rewrite bind_assoc.
  erewrite bind_ok by (apply peek_eq; exact Hle). rewrite bind_ret'.
  destruct (nth_error (cur_toks s') (loc_idx (loc s'))) as [t|]; [|reflexivity].
  rewrite token_neq_else by congruence. reflexivity.
Qed.

Section StepIf.
  Variable F : nat.
  Variable p : rprogram.
  Variable s : interp.
  Variable toks : list token.
  Hypothesis Htoks : fst (cur_tokens s) = Ok toks.
  Hypothesis Htrace : enable_tracing s = false.
  Hypothesis Hwarn : enable_warnings s = false.
  (* every program line is stored and does not start with ELSE *)
  Hypothesis Hlines : forall li n stmts, nth_error p li = Some (n, stmts) ->
    exists t l', toks_get n (st_toks s) = Some (t :: l') /\ t <> TElse.
  (* where a RETURN or a NEXT can land there is no ELSE *)
  Definition lands_ok (l : location) : Prop :=
    exists n ts, loc_line l = Some n /\ toks_get n (st_toks s) = Some ts /\ nth_error ts (loc_idx l) <> Some TElse.
  Hypothesis Hland_calls : forall fr, In fr (stack s) -> lands_ok (fr_ret fr).
  Hypothesis Hland_loops : forall lp, In lp (loops s) -> lands_ok (lp_loc lp).
  Variable L : rpc -> location -> Prop.
  Variable d : nat.
  Hypothesis Hd : Nat.eqb d max_nesting = false.
  Variables (li : nat) (after : rpc) (st : rstate).
  Hypothesis Hrel : same_store st s.

  Lemma probe_at s' n ts : keeps s s' -> loc_line (loc s') = Some n -> toks_get n (st_toks s) = Some ts ->
    nth_error ts (loc_idx (loc s')) <> Some TElse -> else_probe s' = (Ok tt, bump s').
  Proof.
    intros (K1 & _) Hl Ht Hne. apply probe_no_else.
    - unfold line_exists, line_ok. rewrite Hl, K1, Ht. discriminate.
    - unfold cur_toks. rewrite Hl, K1, Ht. exact Hne.
  Qed.

  Lemma probe_same_line s' : keeps s s' -> loc_line (loc s') = loc_line (loc s) ->
    nth_error toks (loc_idx (loc s')) <> Some TElse -> else_probe s' = (Ok tt, bump s').
  Proof.
    intros (K1 & K2 & K3 & K4 & K5 & K6) Hl Hne.
    destruct (cur_tokens_ok_inv s toks Htoks) as [Hle Hct].
    assert (Hct' : cur_toks s' = toks) by (unfold cur_toks in *; rewrite Hl, K1, K6; exact Hct).
    apply probe_no_else.
    - unfold line_exists in *. rewrite Hl, K1. exact Hle.
    - rewrite Hct'. exact Hne.
  Qed.

  Lemma fail_not_ok er line st' i ts s' o aft :
    step_outcome p s toks L li aft st (Fail er line st') i ts (Ok tt, s') o -> False.
  Proof.
    unfold step_outcome. destruct er; intros H;
      first [ destruct H as (_ & _ & ie & s2 & E & _); discriminate | destruct H as (_ & s2 & l & E & _); discriminate ].
  Qed.

  Lemma outcome_bump out i ts s' o :
    step_outcome p s toks L li after st out i ts (Ok tt, s') o ->
    step_outcome p s toks L li after st out i ts (Ok tt, bump s') o.
  Proof.
    destruct out as [pc st'|st'|er line st'|]; [| |intros H; exfalso; exact (fail_not_ok _ _ _ _ _ _ _ _ H)|exact (fun H => H)];
      unfold step_outcome.
    - intros (s2 & E & K & SS & FR & TY & DR & CS & LS & OUT & LOC). inversion E; subst s2.
      exists (bump s'). split; [reflexivity|]. split; [exact K|]. split; [exact SS|]. split; [exact FR|].
      split; [exact TY|]. split; [exact DR|]. split; [exact CS|]. split; [exact LS|]. split; [exact OUT | exact LOC].
    - intros (E0 & s2 & E & K & LC & IM & O). inversion E; subst s2.
      split; [exact E0|]. exists (bump s'). split; [reflexivity|]. split; [exact K|]. split; [exact LC|].
      split; [exact IM | exact O].
  Qed.

  (* the ELSE probe behind a THEN clause that has run *)
  Lemma after_nested out i ts (m : M unit) x o rest :
    skipn (i + length ts) toks = rest -> (rest = [] \/ exists tr, rest = TColon :: tr) ->
    step_outcome p s toks L li after st out i ts (m x) o ->
    step_outcome p s toks L li after st out i ts ((m ;;; else_probe) x) o.
  Proof.
    intros Hsk Hrest H. unfold bind. destruct (m x) as [[[]|e l|pp| |] s'] eqn:Em; try exact H.
    assert (Hprobe : else_probe s' = (Ok tt, bump s')).
    { destruct out as [pc st'|st'|er line st'|]; [| |exfalso; exact (fail_not_ok _ _ _ _ _ _ _ _ H)|]; unfold step_outcome in H.
      - destruct H as (s2 & E & K & _ & _ & _ & _ & _ & _ & _ & LOC). inversion E; subst s2.
        destruct LOC as [[_ Hloc]|[(n & li' & stmts & _ & Hp & Hloc)|[[_ Hloc]|[(fr & rs & cr & Hst & _ & Hloc)
                        |(v & lp & kept & k & lm & _ & _ & Hn & _ & Hloc)]]]].
        + apply (probe_same_line s' K); [rewrite Hloc; reflexivity|]. rewrite Hloc. cbn [loc_idx].
          destruct Hrest as [->|(tr0 & ->)].
          * rewrite (skipn_nil_nth _ _ Hsk). discriminate.
          * destruct (skipn_cons_nth _ _ _ _ Hsk) as [Hc _]. rewrite Hc. discriminate.
        + destruct (Hlines li' n stmts Hp) as (t & l' & Ht & Hne).
          apply (probe_at s' n (t :: l') K); [rewrite Hloc; reflexivity | exact Ht|].
          rewrite Hloc. cbn. congruence.
        + apply (probe_same_line s' K); [rewrite Hloc; reflexivity|]. rewrite Hloc. cbn [loc_idx].
          assert (Hnone : nth_error toks (length toks) = None) by (apply nth_error_None; apply le_n).
          rewrite Hnone. discriminate.
        + destruct (Hland_calls fr) as (n & tsn & A & B & C); [rewrite Hst; apply in_or_app; right; left; reflexivity|].
          apply (probe_at s' n tsn K); try rewrite Hloc; assumption.
        + destruct (Hland_loops lm) as (n & tsn & A & B & C); [eapply nth_error_In; exact Hn|].
          apply (probe_at s' n tsn K); try rewrite Hloc; assumption.
      - destruct H as (_ & s2 & E & (K1 & K2 & K3 & K4 & K5 & K6) & Hloc & Himm & _). inversion E; subst s2.
        apply probe_no_else.
        + unfold line_exists, line_ok. rewrite Hloc. exact I.
        + unfold cur_toks. rewrite Hloc. cbn [loc_line imm0 loc_idx]. rewrite K6, Himm. discriminate.
      - contradiction. }
    rewrite Hprobe. apply outcome_bump. exact H.
  Qed.

  Lemma outcome_shift out i ts i2 ts2 run o : i + length ts = i2 + length ts2 ->
    step_outcome p s toks L li after st out i ts run o -> step_outcome p s toks L li after st out i2 ts2 run o.
  Proof. intros E. unfold step_outcome. rewrite E. exact (fun H => H). Qed.

  (* IF c THEN <statement> *)
  Lemma step_if_stmt c c' tc stmt tn t0 tn' rest i :
    skipn i toks = (TIf :: tc ++ TThen :: tn) ++ rest -> (rest = [] \/ exists tr, rest = TColon :: tr) ->
    tr c = Some c' -> Renders 0 c' tc -> S d + pdepth c' < max_nesting -> xsize c <= F ->
    tn = t0 :: tn' -> (forall x, t0 <> TNumber x) -> forallb plain_tok tn = true ->
    steps_as F p s toks L (S d) li after st stmt (S (S i + length tc)) tn ->
    steps_as F p s toks L d li after st (SIf c (AStmt stmt) None) i (TIf :: tc ++ TThen :: tn).
  Proof.
    intros Hsk Hrest Htr Hren Hdp HF Etn Hnum Hplain (fn & Hn).
    cbn [app] in Hsk. rewrite <- app_assoc in Hsk. cbn [app] in Hsk.
    destruct (skipn_cons_nth _ _ _ _ Hsk) as [H0 Hs1].
    destruct (expr_sem_at s toks Htoks c' tc Hren (S d) (S i) (TThen :: tn ++ rest) Hs1 eq_refl Hdp) as (fe & Hfe).
    pose proof (skipn_app_len _ _ _ _ Hs1) as Hs2.
    set (j := S i + length tc) in *.
    destruct (skipn_cons_nth _ _ _ _ Hs2) as [H2 Hs3].
    assert (H3 : nth_error toks (S j) = Some t0).
    { rewrite Etn in Hs3. cbn [app] in Hs3. apply (skipn_cons_nth _ _ _ _ Hs3). }
    pose proof (skipn_app_len _ _ _ _ Hs3) as Hs4.
    assert (Hlen : S j + length tn + length rest = length toks).
    { assert (Hne : tn ++ rest <> []) by (rewrite Etn; discriminate).
      pose proof (skipn_all_length toks (S j) _ Hs3 Hne) as Hl. rewrite app_length in Hl. lia. }
    assert (Hsum : S j + length tn = i + length (TIf :: tc ++ TThen :: tn)).
    { cbn [length]. rewrite app_length. cbn [length]. unfold j. lia. }
    exists (S (S (fe + fn + length tn + 3))). intros fuel Hf r o. destruct fuel as [|f]; [lia|].
    destruct (Hfe f ltac:(lia) (S r) o) as (i1 & r1 & o1 & Hev & Hi1 & HW1). apply (W_off s Hwarn) in HW1. subst o1.
    unfold step_result. cbn [exec]. unfold RefSem.ev.
    rewrite (ref_expr_is_den c c' st s F Htr (same_store_reads _ _ Hrel) HF).
    pose proof (den_plain s c c' Htr) as Hp.
    assert (Hrun : evaluate_statement (S f) d (at_idx s i r o) =
              match den s c' with
              | Ok v =>
                  (if to_bool v then
                     evaluate_statement f (S d) ;;; else_probe
                   else repeat_m f (skip_body (evaluate_statement f (S d))) tt)
                  (if to_bool v then at_idx s (S j) (S (S r1)) o else at_idx s (S j) (S r1) o)
              | Err er l => (Err er l, at_idx s i1 r1 o)
              | Panic pp => (Panic pp, at_idx s i1 r1 o)
              | OutOfFuel => (OutOfFuel, at_idx s i1 r1 o)
              | OracleMiss => (OracleMiss, at_idx s i1 r1 o)
              end).
    { cbn [evaluate_statement]. rewrite Hd.
      unfold evaluate_statement_body.
      rewrite bind_get_run. change (enable_tracing (at_idx s i r o)) with (enable_tracing s). rewrite Htrace. cbv iota.
      rewrite bind_ret'.
      erewrite bind_ok by (apply (next_some s toks Htoks); exact H0). cbv iota beta.
      unfold evaluate_if_statement, Eval.expr. erewrite ExprSem.bind_run by exact Hev.
      destruct (den s c') as [v|er l|pp| |]; try reflexivity.
      rewrite (Hi1 v eq_refl). fold j.
      erewrite bind_ok by (apply (expect_ok s toks Htoks _ _ _ TThen TThen H2); reflexivity).
      destruct (to_bool v); [|reflexivity].
      unfold statement_or_goto_line_number. rewrite bind_assoc.
      erewrite bind_ok by apply (peek_at s toks Htoks). rewrite H3.
      destruct t0; try reflexivity. exfalso. eapply Hnum. reflexivity. }
    rewrite Hrun. clear Hrun.
    destruct (den s c') as [v|er l|pp| |]; cbn [plain conv fail_at] in *; try contradiction.
    2:{ unfold step_outcome. destruct er; try contradiction; destruct l; try contradiction;
          (split; [reflexivity|]; split; [reflexivity|]; eexists _, _; split; [reflexivity|];
           split; [reflexivity|]; split; [apply keeps_at; assumption|]; split; [reflexivity | split; [reflexivity | discriminate]]). }
    rewrite truth_to_bool. destruct (to_bool v).
    - (* the clause runs, one level down *)
      apply (outcome_shift _ (S j) tn); [exact Hsum|].
      apply (after_nested _ (S j) tn (evaluate_statement f (S d)) _ o rest); [exact Hs4 | exact Hrest|].
      apply (Hn f ltac:(lia)).
    - (* the rest of the line is skipped *)
      destruct (scan_skip s toks Htoks (evaluate_statement f (S d)) rest o Hrest tn (S j) (S r1) f Hplain Hs3 Hlen ltac:(lia))
        as (r' & Hscan).
      rewrite Hscan. unfold step_outcome.
      eexists. split; [reflexivity|]. split; [apply keeps_at; assumption|].
      split; [apply same_store_at; destruct Hrel as [A B]; split; [exact A | exact B]|].
      split; [reflexivity|]. split; [intros HT; exact HT|]. split; [intros HD; exact HD|].
      split; [left; split; reflexivity|]. split; [left; split; reflexivity|].
      split; [exists []; split; [rewrite app_nil_r; reflexivity | cbn; rewrite app_nil_r; reflexivity]|].
      right. right. left. split; reflexivity.
  Qed.

  (* ---- IF c THEN a ELSE b ---- *)

  Lemma bind_ret_tt (m : M unit) x : (m ;;; ret tt) x = m x.
  Proof. unfold bind. destruct (m x) as [[[]|e l|pp| |] s1]; reflexivity. Qed.

  (* an arm of the IF: a line number or a statement one level down *)
  Definition arm_out (a : arm) (aft : rpc) : outcome :=
    match a with ALine n => jump p n (line_no p li) st | AStmt s1 => exec F p s1 aft li st end.

  Definition arm_steps (aft : rpc) (a : arm) (j : nat) (ta : list token) : Prop :=
    exists f0, forall f, f0 <= f -> forall r o,
      step_outcome p s toks L li aft st (arm_out a aft) j ta
        (statement_or_goto_line_number (evaluate_statement f (S d)) (at_idx s j r o)) o.

  Hypothesis Hjump : forall n, store_has n s = match find_line p n 0 with Some _ => true | None => false end.

  Lemma arm_line aft n x j more :
    skipn j toks = TNumber x :: more -> line_target x = n -> arm_steps aft (ALine n) j [TNumber x].
  Proof.
    intros Hsk Hn. destruct (skipn_cons_nth _ _ _ _ Hsk) as [H0 _].
    exists 0. intros f _ r o. unfold statement_or_goto_line_number.
    erewrite bind_ok by apply (peek_at s toks Htoks). rewrite H0. cbv iota.
    unfold evaluate_goto_statement.
    erewrite bind_ok by (apply (next_some s toks Htoks); exact H0). cbv iota beta.
    unfold line_target in Hn. rewrite Hn. cbn [arm_out].
    apply (jump_outcome p s toks Htrace Hwarn Hjump L li aft st Hrel).
  Qed.

  Lemma arm_stmt aft s1 j ta t0 ta' :
    steps_as F p s toks L (S d) li aft st s1 j ta -> skipn j toks = t0 :: ta' -> (forall x, t0 <> TNumber x) ->
    arm_steps aft (AStmt s1) j ta.
  Proof.
    intros (f0 & H) Hsk Hnum. destruct (skipn_cons_nth _ _ _ _ Hsk) as [H0 _].
    exists f0. intros f Hf r o. unfold statement_or_goto_line_number.
    erewrite bind_ok by apply (peek_at s toks Htoks). rewrite H0.
    cbn [arm_out]. specialize (H f Hf (S r) o). unfold step_result in H.
    destruct t0; try exact H. exfalso. eapply Hnum. reflexivity.
  Qed.

  (* the probe finds the ELSE: the rest of the line belongs to the other arm *)
  Lemma probe_else s' : keeps s s' -> loc_line (loc s') = loc_line (loc s) ->
    nth_error toks (loc_idx (loc s')) = Some TElse ->
    else_probe s' = (Ok tt, set_loc (mkloc (loc_line (loc s)) (length toks)) (bump s')).
  Proof.
    intros (K1 & K2 & K3 & K4 & K5 & K6) Hl Hne.
    destruct (cur_tokens_ok_inv s toks Htoks) as [Hle Hct].
    assert (Hct' : cur_toks s' = toks) by (unfold cur_toks in *; rewrite Hl, K1, K6; exact Hct).
    assert (Hle' : line_exists s' (loc s')) by (unfold line_exists in *; rewrite Hl, K1; exact Hle).
    unfold else_probe, peek_is. rewrite bind_assoc.
    erewrite bind_ok by (apply peek_eq; exact Hle'). rewrite bind_ret', Hct', Hne.
    change (token_eqb TElse TElse) with true. cbv iota.
    unfold discard_remaining_tokens.
    erewrite bind_ok by (apply (cur_tokens_eq (bump s')); exact Hle').
    change (cur_toks (bump s')) with (cur_toks s'). rewrite Hct'.
    unfold modify. change (loc (bump s')) with (loc s'). rewrite Hl. reflexivity.
  Qed.

  Lemma after_nested_else out i ts iA ta (m : M unit) x o more :
    skipn (iA + length ta) toks = TElse :: more ->
    step_outcome p s toks L li (S li, 0) st out iA ta (m x) o ->
    step_outcome p s toks L li after st out i ts ((m ;;; else_probe) x) o.
  Proof.
    intros Hsk H. destruct (skipn_cons_nth _ _ _ _ Hsk) as [Hc _].
    unfold bind. destruct (m x) as [[[]|e l|pp| |] s'] eqn:Em.
    2,3,4,5: (unfold step_outcome in *; destruct out as [pc st'|st'|er line st'|];
              [destruct H as (s2 & E & _); discriminate | destruct H as (_ & s2 & E & _); discriminate
              | exact H | exact H]).
    destruct out as [pc st'|st'|er line st'|]; [| |exfalso; exact (fail_not_ok _ _ _ _ _ _ _ _ H)|]; unfold step_outcome in H.
    - destruct H as (s2 & E & K & SS & FR & TY & DR & CS & LS & OUT & LOC). inversion E; subst s2.
      destruct LOC as [[Hpc Hloc]|LOC'].
      + (* the arm ran to its end: the cursor is on the ELSE *)
        rewrite (probe_else s' K); [|rewrite Hloc; reflexivity | rewrite Hloc; exact Hc].
        unfold step_outcome. eexists. split; [reflexivity|].
        split; [exact K|]. split; [exact SS|]. split; [exact FR|]. split; [exact TY|]. split; [exact DR|].
        split; [exact CS|]. split; [exact LS|]. split; [exact OUT|].
        right. right. left. split; [exact Hpc | reflexivity].
      + (* it left the line, or skipped its rest: no ELSE where it is now *)
        assert (Hprobe : else_probe s' = (Ok tt, bump s')).
        { destruct LOC' as [(n & li' & stmts & _ & Hp & Hloc)|[[_ Hloc]|[(fr & rs & cr & Hst & _ & Hloc)
                          |(v & lp & kept & k & lm & _ & _ & Hn & _ & Hloc)]]].
          - destruct (Hlines li' n stmts Hp) as (t & l' & Ht & Hne).
            apply (probe_at s' n (t :: l') K); [rewrite Hloc; reflexivity | exact Ht|].
            rewrite Hloc. cbn. congruence.
          - apply (probe_same_line s' K); [rewrite Hloc; reflexivity|]. rewrite Hloc. cbn [loc_idx].
            assert (Hnone : nth_error toks (length toks) = None) by (apply nth_error_None; apply le_n).
            rewrite Hnone. discriminate.
          - destruct (Hland_calls fr) as (n & tsn & A & B & C); [rewrite Hst; apply in_or_app; right; left; reflexivity|].
            apply (probe_at s' n tsn K); try rewrite Hloc; assumption.
          - destruct (Hland_loops lm) as (n & tsn & A & B & C); [eapply nth_error_In; exact Hn|].
            apply (probe_at s' n tsn K); try rewrite Hloc; assumption. }
        rewrite Hprobe. unfold step_outcome. exists (bump s'). split; [reflexivity|].
        split; [exact K|]. split; [exact SS|]. split; [exact FR|]. split; [exact TY|]. split; [exact DR|].
        split; [exact CS|]. split; [exact LS|]. split; [exact OUT|]. right. exact LOC'.
    - destruct H as (E0 & s2 & E & K & Hloc & Himm & O). inversion E; subst s2.
      assert (Hprobe : else_probe s' = (Ok tt, bump s')).
      { destruct K as (K1 & K2 & K3 & K4 & K5 & K6). apply probe_no_else.
        - unfold line_exists, line_ok. rewrite Hloc. exact I.
        - unfold cur_toks. rewrite Hloc. cbn [loc_line imm0 loc_idx]. rewrite K6, Himm. discriminate. }
      rewrite Hprobe. unfold step_outcome. split; [exact E0|]. exists (bump s'). split; [reflexivity|].
      split; [exact K|]. split; [exact Hloc|]. split; [exact Himm | exact O].
    - contradiction.
  Qed.

  Lemma step_if_else c c' tc A ta B tb rest i :
    skipn i toks = (TIf :: tc ++ TThen :: ta ++ TElse :: tb) ++ rest -> (rest = [] \/ exists tr, rest = TColon :: tr) ->
    tr c = Some c' -> Renders 0 c' tc -> S d + pdepth c' < max_nesting -> xsize c <= F ->
    forallb plain_tok ta = true ->
    arm_steps (S li, 0) A (S (S i + length tc)) ta ->
    arm_steps after B (S (S (S i + length tc)) + length ta) tb ->
    steps_as F p s toks L d li after st (SIf c A (Some B)) i (TIf :: tc ++ TThen :: ta ++ TElse :: tb).
  Proof.
    intros Hsk Hrest Htr Hren Hdp HF Hplain (fa & HA) (fb & HB).
    cbn [app] in Hsk. rewrite <- !app_assoc in Hsk. cbn [app] in Hsk. rewrite <- app_assoc in Hsk. cbn [app] in Hsk.
    destruct (skipn_cons_nth _ _ _ _ Hsk) as [H0 Hs1].
    destruct (expr_sem_at s toks Htoks c' tc Hren (S d) (S i) (TThen :: ta ++ TElse :: tb ++ rest) Hs1 eq_refl Hdp) as (fe & Hfe).
    pose proof (skipn_app_len _ _ _ _ Hs1) as Hs2.
    set (j := S i + length tc) in *.
    destruct (skipn_cons_nth _ _ _ _ Hs2) as [H2 Hs3].
    pose proof (skipn_app_len _ _ _ _ Hs3) as Hs4.
    assert (Hsk_rest : skipn (S (S j + length ta) + length tb) toks = rest).
    { destruct (skipn_cons_nth _ _ _ _ Hs4) as [_ Hs5]. exact (skipn_app_len _ _ _ _ Hs5). }
    assert (Hsum : S (S j + length ta) + length tb = i + length (TIf :: tc ++ TThen :: ta ++ TElse :: tb)).
    { cbn [length]. rewrite app_length. cbn [length]. rewrite app_length. cbn [length]. unfold j. lia. }
    exists (S (S (fe + fa + fb + length ta + 3))). intros fuel Hf r o. destruct fuel as [|f]; [lia|].
    destruct (Hfe f ltac:(lia) (S r) o) as (i1 & r1 & o1 & Hev & Hi1 & HW1). apply (W_off s Hwarn) in HW1. subst o1.
    unfold step_result. cbn [exec]. unfold RefSem.ev.
    rewrite (ref_expr_is_den c c' st s F Htr (same_store_reads _ _ Hrel) HF).
    pose proof (den_plain s c c' Htr) as Hp.
    assert (Hrun : evaluate_statement (S f) d (at_idx s i r o) =
              match den s c' with
              | Ok v =>
                  (if to_bool v then
                     statement_or_goto_line_number (evaluate_statement f (S d)) ;;; else_probe
                   else repeat_m f (skip_body (evaluate_statement f (S d))) tt) (at_idx s (S j) (S r1) o)
              | Err er l => (Err er l, at_idx s i1 r1 o)
              | Panic pp => (Panic pp, at_idx s i1 r1 o)
              | OutOfFuel => (OutOfFuel, at_idx s i1 r1 o)
              | OracleMiss => (OracleMiss, at_idx s i1 r1 o)
              end).
    { cbn [evaluate_statement]. rewrite Hd.
      unfold evaluate_statement_body.
      rewrite bind_get_run. change (enable_tracing (at_idx s i r o)) with (enable_tracing s). rewrite Htrace. cbv iota.
      rewrite bind_ret'.
      erewrite bind_ok by (apply (next_some s toks Htoks); exact H0). cbv iota beta.
      unfold evaluate_if_statement, Eval.expr. erewrite ExprSem.bind_run by exact Hev.
      destruct (den s c') as [v|er l|pp| |]; try reflexivity.
      rewrite (Hi1 v eq_refl). fold j.
      erewrite bind_ok by (apply (expect_ok s toks Htoks _ _ _ TThen TThen H2); reflexivity).
      destruct (to_bool v); reflexivity. }
    rewrite Hrun. clear Hrun.
    destruct (den s c') as [v|er l|pp| |]; cbn [plain conv fail_at] in *; try contradiction.
    2:{ unfold step_outcome. destruct er; try contradiction; destruct l; try contradiction;
          (split; [reflexivity|]; split; [reflexivity|]; eexists _, _; split; [reflexivity|];
           split; [reflexivity|]; split; [apply keeps_at; assumption|]; split; [reflexivity | split; [reflexivity | discriminate]]). }
    rewrite truth_to_bool. destruct (to_bool v).
    - (* the THEN arm, then the probe finds the ELSE *)
      replace (match A with ALine n => jump p n (line_no p li) st | AStmt s1 => exec F p s1 (S li, 0) li st end)
        with (arm_out A (S li, 0)) by (destruct A; reflexivity).
      apply (after_nested_else _ i _ (S j) ta _ _ o (tb ++ rest)); [exact Hs4|].
      apply (HA f ltac:(lia)).
    - (* the scan stops at the ELSE: the ELSE arm *)
      destruct (scan_to_else s toks Htoks (evaluate_statement f (S d)) (tb ++ rest) o ta (S j) (S r1) f Hplain Hs3 ltac:(lia))
        as (r' & Hscan).
      rewrite Hscan, bind_ret_tt. fold else_probe.
      replace (match B with ALine n => jump p n (line_no p li) st | AStmt s2 => exec F p s2 after li st end)
        with (arm_out B after) by (destruct B; reflexivity).
      apply (outcome_shift _ (S (S j + length ta)) tb); [exact Hsum|].
      apply (after_nested _ (S (S j + length ta)) tb _ _ _ rest Hsk_rest Hrest). apply (HB f ltac:(lia)).
  Qed.
End StepIf.

Inductive reach (P : interp -> Prop) : interp -> Prop :=
| reach_now s : P s -> reach P s
| reach_turn s (Q : interp -> Prop) :
    (exists f0, forall fuel, f0 <= fuel -> exists s', continue_evaluating fuel s = (Ok tt, s') /\ Q s') ->
    (forall s', Q s' -> reach P s') -> reach P s.

Lemma reach_bind (P R : interp -> Prop) s : reach R s -> (forall s', R s' -> reach P s') -> reach P s.
Proof.
  induction 1 as [s H|s Q Hq Hn IH]; intros HR; [apply HR, H|].
  apply (reach_turn P s Q Hq). intros s' Hs'. apply IH; assumption.
Qed.

Section Program.
  Variable F : nat.
  Variable p : rprogram.
  Variable o0 : list output.               (* what the model had printed before the run *)

  Record Inv (s : interp) : Prop := {
    i_trace : enable_tracing s = false;
    i_warn : enable_warnings s = false;
    i_imm : immediate s = [];
    i_keys : st_keys s = map fst p;
    i_sorted : StronglySorted N.lt (map fst p);
    i_lines : forall li n stmts, nth_error p li = Some (n, stmts) ->
              exists toks, toks_get n (st_toks s) = Some toks /\ LRen F stmts toks;
    i_only : forall n, toks_get n (st_toks s) <> None -> In n (map fst p) }.

  Lemma Inv_ext s s' :
    enable_tracing s' = enable_tracing s -> enable_warnings s' = enable_warnings s -> immediate s' = immediate s ->
    st_keys s' = st_keys s -> st_toks s' = st_toks s -> Inv s -> Inv s'.
  Proof.
    intros E1 E2 E3 E4 E5 [A1 A2 A3 A4 A5 A6 A7].
    split; [congruence|congruence|congruence|congruence|exact A5| |]; rewrite E5; assumption.
  Qed.

  Lemma Inv_keeps s s' : Inv s -> keeps s s' -> Inv s'.
  Proof.
    intros HI (K1 & K2 & K3 & K4 & K5 & K6). destruct HI as [A1 A2 A3 A4 A5 A6 A7].
    split; [exact K3|exact K4|congruence|congruence|exact A5| |]; rewrite K1; assumption.
  Qed.

  Lemma In_fst_nth n : In n (map fst p) -> exists li stmts, nth_error p li = Some (n, stmts).
  Proof.
    intros H. apply in_map_iff in H. destruct H as ([m stmts] & E & Hin). cbn in E. subst m.
    apply In_nth_error in Hin. destruct Hin as (li & Hli). exists li, stmts. exact Hli.
  Qed.

  Lemma Inv_jump s : Inv s ->
    forall n, store_has n s = match find_line p n 0 with Some _ => true | None => false end.
  Proof.
    intros HI n. unfold store_has. destruct (find_line p n 0) as [li|] eqn:Ef.
    - destruct (find_line_nth _ _ _ _ Ef) as (stmts & Hn). rewrite Nat.sub_0_r in Hn.
      destruct (i_lines s HI li n stmts Hn) as (toks & -> & _). reflexivity.
    - apply find_line_none in Ef. destruct (toks_get n (st_toks s)) eqn:E; [|reflexivity].
      exfalso. apply Ef. apply (i_only s HI). rewrite E. discriminate.
  Qed.

  Lemma Inv_heads s : Inv s ->
    forall n l, toks_get n (st_toks s) = Some l -> exists t l', l = t :: l' /\ t <> TElse.
  Proof.
    intros HI n l Hl. assert (Hin : In n (map fst p)) by (apply (i_only s HI); rewrite Hl; discriminate).
    destruct (In_fst_nth n Hin) as (li & stmts & Hn).
    destruct (i_lines s HI li n stmts Hn) as (toks & Ht & HL). rewrite Hl in Ht. inversion Ht; subst toks.
    destruct (LRen_nonempty _ _ _ HL) as (t & l' & -> & Hne & _). eexists _, _. split; [reflexivity | exact Hne].
  Qed.

  (* where the model's cursor is when the reference is at statement [si] of
     line [li]: on its first token, or on the colon in front of it *)
  Definition at_stmt (li si : nat) (s : interp) (colon : bool) : Prop :=
    exists n stmts toks tr,
      nth_error p li = Some (n, stmts) /\ toks_get n (st_toks s) = Some toks /\ loc_line (loc s) = Some n
      /\ skipn (loc_idx (loc s)) toks = (if colon then TColon :: tr else tr) /\ LRen F (skipn si stmts) tr.

  Definition Fin (st : rstate) (s : interp) : Prop :=
    state s = Idle /\ outputs s = o0 ++ map OPrint (r_out st).

  (* where a RETURN lands: just past the GOSUB that pushed the frame — on the
     colon in front of the reference's return statement, or at the end of the line *)
  Definition pcloc (T : list (N * list token)) (pc : rpc) (l : location) : Prop :=
    exists n stmts toks,
      nth_error p (fst pc) = Some (n, stmts) /\ toks_get n T = Some toks /\ loc_line l = Some n
      /\ ((exists tl, skipn (loc_idx l) toks = TColon :: tl /\ LRen F (skipn (snd pc) stmts) tl)
          \/ (skipn (loc_idx l) toks = [] /\ snd pc = length stmts)).

  (* the reference's return stack against the model's frames (the fragment has no FOR) *)
  Definition calls_rel (st : rstate) (s : interp) : Prop :=
    r_frames st = [] /\
    Forall2 (fun pc fr => fr_vars fr = [] /\ pcloc (st_toks s) pc (fr_ret fr)) (r_calls st) (rev (stack s)).

  Lemma calls_ext st st' s s' :
    r_calls st' = r_calls st -> r_frames st' = r_frames st -> stack s' = stack s -> st_toks s' = st_toks s ->
    calls_rel st s -> calls_rel st' s'.
  Proof. intros E1 E2 E3 E4 [A B]. split; [congruence|]. rewrite E1, E3, E4. exact B. Qed.

  Lemma calls_depth st s : calls_rel st s -> length (r_calls st) + length (r_frames st) = length (stack s).
  Proof.
    intros [A B]. rewrite A. apply Forall2_len in B. rewrite rev_length in B. cbn [length]. lia.
  Qed.

  Lemma calls_nil st s : calls_rel st s -> r_calls st = [] -> stack s = [].
  Proof.
    intros [A B] E. rewrite E in B. destruct (rev (stack s)) as [|x l] eqn:Er; [|inversion B].
    apply (f_equal (@rev _)) in Er. rewrite rev_involutive in Er. exact Er.
  Qed.

  Lemma calls_cons st s pc cr : calls_rel st s -> r_calls st = pc :: cr ->
    exists fr rs, stack s = rs ++ [fr] /\ fr_vars fr = [] /\ pcloc (st_toks s) pc (fr_ret fr)
                  /\ Forall2 (fun pc fr => fr_vars fr = [] /\ pcloc (st_toks s) pc (fr_ret fr)) cr (rev rs).
  Proof.
    intros [A B] E. rewrite E in B. destruct (rev (stack s)) as [|fr rs0] eqn:Er; [inversion B|].
    apply (f_equal (@rev _)) in Er. rewrite rev_involutive in Er. cbn [rev] in Er.
    inversion B as [|pc0 fr0 cr0 rs1 [H1 H2] H3]. subst.
    exists fr, (rev rs0). rewrite rev_involutive. repeat split; assumption.
  Qed.

  (* the open loops, one by one: same variable, limit and step, and the body
     starts where the model's NEXT jumps to *)
  Definition lrel (T : list (N * list token)) (rl : rloop) (lp : loop_info) : Prop :=
    rl_var rl = lp_sym lp /\ rl_to rl = lp_to lp /\ rl_step rl = lp_step lp /\ pcloc T (rl_body rl) (lp_loc lp).
  Definition loops_rel (st : rstate) (s : interp) : Prop := Forall2 (lrel (st_toks s)) (r_loops st) (loops s).

  Lemma lrel_var T rl lp : lrel T rl lp -> rl_var rl = lp_sym lp.
  Proof. intros [A _]. exact A. Qed.

  Lemma loops_ext st st' s s' :
    r_loops st' = r_loops st -> loops s' = loops s -> st_toks s' = st_toks s -> loops_rel st s -> loops_rel st' s'.
  Proof. unfold loops_rel. intros -> -> ->. auto. Qed.

  Lemma loops_lsame st s : loops_rel st s -> Forall2 lsame (r_loops st) (loops s).
  Proof.
    unfold loops_rel. induction 1 as [|rl lp l l' (A & B & C & _) H IH]; constructor; [|exact IH].
    repeat split; assumption.
  Qed.

  Inductive Sim : rpc -> rstate -> interp -> Prop :=
  | Sim_at li si st s colon :
      Inv s -> state s = Running -> same_store st s -> outputs s = o0 ++ map OPrint (r_out st) ->
      calls_rel st s -> loops_rel st s -> typed s -> data_rel st s -> at_stmt li si s colon -> Sim (li, si) st s
  | Sim_eol li st s n stmts : nth_error p li = Some (n, stmts) -> Sim (S li, 0) st s -> Sim (li, length stmts) st s
  | Sim_fin li si st s : length p <= li -> Fin st s -> Sim (li, si) st s.

  Lemma cur_toks_line s n toks : loc_line (loc s) = Some n -> toks_get n (st_toks s) = Some toks -> cur_toks s = toks.
  Proof. intros Hl Ht. unfold cur_toks. rewrite Hl, Ht. reflexivity. Qed.

  Lemma line_exists_line s n toks : loc_line (loc s) = Some n -> toks_get n (st_toks s) = Some toks ->
    line_exists s (loc s).
  Proof. intros Hl Ht. unfold line_exists, line_ok. rewrite Hl, Ht. discriminate. Qed.

  Lemma cur_tokens_line s n toks : loc_line (loc s) = Some n -> toks_get n (st_toks s) = Some toks ->
    fst (cur_tokens s) = Ok toks.
  Proof.
    intros Hl Ht. rewrite (cur_tokens_eq s (line_exists_line s n toks Hl Ht)). cbn [fst].
    rewrite (cur_toks_line s n toks Hl Ht). reflexivity.
  Qed.

  (* the end of a line, inside the call: on to the next line, or the program is over *)
  Lemma eol_after st s li n stmts toks :
    Inv s -> state s = Running -> same_store st s -> outputs s = o0 ++ map OPrint (r_out st) -> calls_rel st s ->
    loops_rel st s -> typed s -> data_rel st s ->
    nth_error p li = Some (n, stmts) -> toks_get n (st_toks s) = Some toks -> loc_line (loc s) = Some n ->
    nth_error toks (loc_idx (loc s)) = None ->
    exists s2, after_statement s = (Ok tt, s2) /\ Sim (S li, 0) st s2.
  Proof.
    intros HI Hrun Hrel Hout Hcr Hlr Hty Hdr Hp Ht Hl Hnone.
    pose proof (line_exists_line s n toks Hl Ht) as Hle.
    assert (Hcn : nth_error (cur_toks s) (loc_idx (loc s)) = None) by (rewrite (cur_toks_line s n toks Hl Ht); exact Hnone).
    assert (Hk : keys_after n (st_keys s) = nth_error (map fst p) (S li)).
    { rewrite (i_keys s HI). apply (keys_after_nth _ (i_sorted s HI) li).
      rewrite nth_error_map, Hp. reflexivity. }
    destruct (nth_error p (S li)) as [[n' stmts']|] eqn:Ep'.
    - rewrite nth_error_map, Ep' in Hk. cbn in Hk.
      eexists. split; [apply (after_next s n n' Hle Hcn Hl Hk)|].
      set (s2 := set_loc (mkloc (Some n') 0) (bump s)).
      assert (HI2 : Inv s2) by (apply (Inv_ext s); try reflexivity; exact HI).
      destruct (i_lines s2 HI2 (S li) n' stmts' Ep') as (toks' & Ht' & HL').
      apply (Sim_at (S li) 0 st s2 false HI2 Hrun).
      + destruct Hrel as [A B]. split; [exact A | exact B].
      + exact Hout.
      + apply (calls_ext st st s); try reflexivity; exact Hcr.
      + apply (loops_ext st st s); try reflexivity; exact Hlr.
      + apply (typed_ext s); [reflexivity | exact Hty].
      + apply (data_rel_ext st st s); try reflexivity; exact Hdr.
      + exists n', stmts', toks', toks'. repeat split; try assumption; reflexivity.
    - rewrite nth_error_map, Ep' in Hk. cbn in Hk.
      eexists. split; [apply (after_last s n Hle Hcn Hl Hk)|].
      apply Sim_fin; [apply nth_error_None; exact Ep'|].
      split; [reflexivity|]. rewrite outputs_finished. exact Hout.
  Qed.

  (* the cursor has been put where a RETURN or a NEXT lands: the rest of the call *)
  Lemma land st s pc :
    Inv s -> state s = Running -> same_store st s -> outputs s = o0 ++ map OPrint (r_out st) -> calls_rel st s ->
    loops_rel st s -> typed s -> data_rel st s -> pcloc (st_toks s) pc (loc s) ->
    exists s2, after_statement s = (Ok tt, s2) /\ Sim pc st s2.
  Proof.
    intros HI Hrun Hrel Hout Hcr Hlr Hty Hdr C. destruct pc as [li2 si2].
    destruct C as (n2 & stmts2 & toks2 & P1 & P2 & P3 & PC). cbn [fst snd] in P1, PC.
    destruct PC as [(tl2 & Q1 & Q2)|(Q1 & Q2)].
    - destruct (skipn_cons_nth _ _ _ _ Q1) as [Hc _].
      assert (Hle : line_exists s (loc s)) by (apply (line_exists_line s n2 toks2 P3 P2)).
      exists (bump s). split.
      { rewrite (after_stay s TColon Hle); [reflexivity|]. rewrite (cur_toks_line s n2 toks2 P3 P2). exact Hc. }
      apply (Sim_at li2 si2 st (bump s) true);
        [apply (Inv_ext s); try reflexivity; exact HI | exact Hrun
        | destruct Hrel as [A B]; split; [exact A | exact B] | exact Hout
        | apply (calls_ext st st s); try reflexivity; exact Hcr
        | apply (loops_ext st st s); try reflexivity; exact Hlr
        | apply (typed_ext s); [reflexivity | exact Hty]
        | apply (data_rel_ext st st s); try reflexivity; exact Hdr |].
      exists n2, stmts2, toks2, tl2.
      split; [exact P1|]. split; [exact P2|]. split; [exact P3|]. split; [exact Q1 | exact Q2].
    - destruct (eol_after st s li2 n2 stmts2 toks2 HI Hrun Hrel Hout Hcr Hlr Hty Hdr P1 P2 P3) as (s2 & Ha & HS2).
      { apply skipn_nil_nth. exact Q1. }
      exists s2. split; [exact Ha|]. rewrite Q2. apply (Sim_eol li2 st s2 n2 stmts2 P1 HS2).
  Qed.

  (* where RETURN and NEXT land there is no ELSE; every line is stored *)
  Lemma pcloc_lands s pc l : pcloc (st_toks s) pc l -> lands_ok s l.
  Proof.
    intros (n & stmts & toks & _ & Ht & Hl & PC). exists n, toks. split; [exact Hl|]. split; [exact Ht|].
    destruct PC as [(tl & Q & _)|(Q & _)].
    - destruct (skipn_cons_nth _ _ _ _ Q) as [Hc _]. rewrite Hc. discriminate.
    - rewrite (skipn_nil_nth _ _ Q). discriminate.
  Qed.

  Lemma calls_land st s : calls_rel st s -> forall fr, In fr (stack s) -> lands_ok s (fr_ret fr).
  Proof.
    intros [_ B] fr Hin. apply in_rev in Hin. revert Hin. induction B as [|pc fr0 l l' [_ H] _ IH]; intros Hin; [destruct Hin|].
    destruct Hin as [<-|Hin]; [apply (pcloc_lands s pc); exact H | apply IH; exact Hin].
  Qed.

  Lemma loops_land st s : loops_rel st s -> forall lp, In lp (loops s) -> lands_ok s (lp_loc lp).
  Proof.
    unfold loops_rel. intros B lp Hin. revert Hin. induction B as [|rl lp0 l l' (_ & _ & _ & H) _ IH]; intros Hin; [destruct Hin|].
    destruct Hin as [<-|Hin]; [apply (pcloc_lands s (rl_body rl)); exact H | apply IH; exact Hin].
  Qed.

  Lemma Inv_lines s : Inv s -> forall li n stmts, nth_error p li = Some (n, stmts) ->
    exists t l', toks_get n (st_toks s) = Some (t :: l') /\ t <> TElse.
  Proof.
    intros HI li n stmts Hp. destruct (i_lines s HI li n stmts Hp) as (toks & Ht & HL).
    destruct (LRen_nonempty _ _ _ HL) as (t & l' & -> & Hne & _). exists t, l'. split; assumption.
  Qed.

  (* the stored program's DATA chunks are the reference's DATA list *)
  Lemma chunks_of_program T : forall q,
    (forall n stmts, In (n, stmts) q -> exists toks, toks_get n T = Some toks /\ LRen F stmts toks) ->
    exists cs, data_chunks (map fst q) T = Ok cs /\ Forall2 data_match (flatl cs) (data_list q).
  Proof.
    induction q as [|[n stmts] q IH]; intros H.
    - exists []. split; [reflexivity | constructor].
    - destruct (H n stmts (or_introl eq_refl)) as (toks & Ht & HL).
      destruct IH as (cs & Hcs & Hfl); [intros n0 s0 Hin; apply H; right; exact Hin|].
      exists (data_chunks_of_line n toks 0 ++ cs). cbn [map fst data_chunks]. rewrite Ht, Hcs. split; [reflexivity|].
      rewrite flatl_app. unfold data_list. cbn [flat_map fst snd]. apply Forall2_app; [|exact Hfl].
      apply (LRen_chunks F n stmts toks HL 0).
  Qed.

  Lemma inv_data s : Inv s ->
    exists cs, data_chunks (st_keys s) (st_toks s) = Ok cs /\ Forall2 data_match (flatl cs) (data_list p).
  Proof.
    intros HI. rewrite (i_keys s HI). apply chunks_of_program. intros n stmts Hin.
    apply In_nth_error in Hin. destruct Hin as (li & Hli). exact (i_lines s HI li n stmts Hli).
  Qed.

  (* the THEN arm in front of an ELSE *)
  Lemma tren_steps s toks li aft st d A ta rest' j :
    Inv s -> fst (cur_tokens s) = Ok toks -> same_store st s -> calls_rel st s -> loops_rel st s -> typed s ->
    Nat.eqb (S d) max_nesting = false ->
    skipn j toks = ta ++ rest' -> TRen F (S d) rest' A ta ->
    arm_steps F p s toks (pcloc (st_toks s)) d li st aft A j ta.
  Proof.
    intros HI Htoks Hrel Hcr Hlr Hty Hd Hsk HT.
    pose proof (i_trace s HI) as Htr. pose proof (i_warn s HI) as Hw.
    destruct HT as [n x H1|v e e' te H1 H2 H3 H4 H5|items mitems ti H1 H2 H3 H4|n x H1| | |v].
    - apply (arm_line F p s toks Htoks Htr Hw (pcloc (st_toks s)) d li st Hrel (Inv_jump s HI) aft n x j rest'); assumption.
    - eapply (arm_stmt F p s toks Htoks (pcloc (st_toks s)) d li st aft); [|exact Hsk|intros x0; discriminate].
      eapply (step_let F p s toks Htoks Htr Hw (pcloc (st_toks s)) (S d) Hd li aft st Hrel v e e' te rest' j); eassumption.
    - eapply (arm_stmt F p s toks Htoks (pcloc (st_toks s)) d li st aft); [|exact Hsk|intros x0; discriminate].
      eapply (step_print F p s toks Htoks Htr Hw (pcloc (st_toks s)) (S d) Hd li aft st Hrel TPrint items mitems ti rest' j); try eassumption. left; reflexivity.
    - eapply (arm_stmt F p s toks Htoks (pcloc (st_toks s)) d li st aft); [|exact Hsk|intros x0; discriminate].
      eapply (step_goto F p s toks Htoks Htr Hw (Inv_jump s HI) (pcloc (st_toks s)) (S d) Hd li aft st Hrel n x rest' j); eassumption.
    - eapply (arm_stmt F p s toks Htoks (pcloc (st_toks s)) d li st aft); [|exact Hsk|intros x0; discriminate].
      eapply (step_return F p s toks Htoks Htr Hw (pcloc (st_toks s)) (S d) Hd li aft st Hrel rest' j); [exact Hsk | apply calls_nil; exact Hcr |].
      intros pc cr E. destruct (calls_cons st s pc cr Hcr E) as (fr & rs & A & B & _). exists fr, rs. split; assumption.
    - eapply (arm_stmt F p s toks Htoks (pcloc (st_toks s)) d li st aft); [|exact Hsk|intros x0; discriminate].
      eapply (step_end F p s toks Htoks Htr Hw (pcloc (st_toks s)) (S d) Hd li aft st rest' j); [exact Hsk | apply (i_imm s HI)].
    - eapply (arm_stmt F p s toks Htoks (pcloc (st_toks s)) d li st aft); [|exact Hsk|intros x0; discriminate].
      eapply (step_next F p s toks Htoks Htr Hw (pcloc (st_toks s)) (S d) Hd li aft st Hrel v rest' j); [exact Hsk | apply loops_lsame; exact Hlr | exact Hty].
  Qed.

  (* every statement of the fragment steps as its step lemma says *)
  Lemma sren_steps s toks li after st d stmt ts rest i :
    Inv s -> fst (cur_tokens s) = Ok toks -> same_store st s -> calls_rel st s -> loops_rel st s -> typed s ->
    data_rel st s ->
    Nat.eqb d max_nesting = false ->
    skipn i toks = ts ++ rest -> (rest = [] \/ exists tr, rest = TColon :: tr) ->
    SRen F d rest stmt ts ->
    pcloc (st_toks s) after (mkloc (loc_line (loc s)) (i + length ts)) ->
    steps_as F p s toks (pcloc (st_toks s)) d li after st stmt i ts.
  Proof.
    intros HI Htoks Hrel Hcr Hlr Hty Hdr Hd Hsk Hrest HS HLa.
    pose proof (i_trace s HI) as Htr. pose proof (i_warn s HI) as Hw.
    revert i Hd Hsk Hrest HLa.
    induction HS as [d rest v e e' te H1 H2 H3 H4 H5|d rest items mitems ti H1 H2 H3 H4|d rest items mitems ti H1 H2 H3 H4|d rest v e e' te H1 H2 H3 H4 H5|d rest n x H1|d rest n x H1|d rest|d rest
                    |d rest c c' tc n x H1 H2 H3 H4 H5
                    |d rest v a a' ta b b' tb stp tstep A1 A2 A3 A4 B1 B2 B3 B4 HC|d rest v|d rest b0
                    |d rest items Hd0|d rest|d rest vs Hvs
                    |d rest c c' tc stmt tn H1 H2 H3 H4 H5 H6 IH H7
                    |d rest c c' tc A ta n x H1 H2 H3 H4 H5 H6 H7|d rest c c' tc A ta B tb H1 H2 H3 H4 H5 H6 H7 IH]; intros i Hd Hsk Hrest HLa.
    - eapply (step_let F p s toks Htoks Htr Hw (pcloc (st_toks s)) d Hd li after st Hrel v e e' te rest i); eassumption.
    - eapply (step_print F p s toks Htoks Htr Hw (pcloc (st_toks s)) d Hd li after st Hrel TPrint items mitems ti rest i); try eassumption. left; reflexivity.
    - eapply (step_print F p s toks Htoks Htr Hw (pcloc (st_toks s)) d Hd li after st Hrel TQuestionMark items mitems ti rest i); try eassumption. right; reflexivity.
    - eapply (step_let_kw F p s toks Htoks Htr Hw (pcloc (st_toks s)) d Hd li after st Hrel v e e' te rest i); eassumption.
    - eapply (step_goto F p s toks Htoks Htr Hw (Inv_jump s HI) (pcloc (st_toks s)) d Hd li after st Hrel n x rest i); eassumption.
    - eapply (step_gosub F p s toks Htoks Htr Hw (Inv_jump s HI) (pcloc (st_toks s)) d Hd li after st Hrel n x rest i);
        [exact Hsk | exact H1 | apply calls_depth; exact Hcr | exact HLa].
    - eapply (step_return F p s toks Htoks Htr Hw (pcloc (st_toks s)) d Hd li after st Hrel rest i); [exact Hsk | apply calls_nil; exact Hcr |].
      intros pc cr E. destruct (calls_cons st s pc cr Hcr E) as (fr & rs & A & B & _). exists fr, rs. split; assumption.
    - eapply (step_end F p s toks Htoks Htr Hw (pcloc (st_toks s)) d Hd li after st rest i); [exact Hsk | apply (i_imm s HI)].
    - eapply (step_if F p s toks Htoks Htr Hw (Inv_jump s HI) (Inv_heads s HI) (pcloc (st_toks s)) d Hd li after st Hrel c c' tc n x rest i);
        eassumption.
    - eapply (step_for F p s toks Htoks Htr Hw (pcloc (st_toks s)) d Hd li after st Hrel v a a' ta b b' tb stp tstep rest i); try eassumption.
      apply loops_lsame. exact Hlr.
    - eapply (step_next F p s toks Htoks Htr Hw (pcloc (st_toks s)) d Hd li after st Hrel v rest i); [exact Hsk | apply loops_lsame; exact Hlr | exact Hty].
    - eapply (step_rem F p s toks Htoks Htr Hw (pcloc (st_toks s)) d Hd li after st Hrel b0 rest i). exact Hsk.
    - eapply (step_data F p s toks Htoks Htr Hw (pcloc (st_toks s)) d Hd li after st Hrel items rest i). exact Hsk.
    - eapply (step_restore F p s toks Htoks Htr Hw (pcloc (st_toks s)) d Hd li after st Hrel rest i). exact Hsk.
    - eapply (step_read F p s toks Htoks Htr Hw (pcloc (st_toks s)) d Hd li after st Hrel (inv_data s HI) vs rest i); assumption.
    - destruct (SRen_head _ _ _ _ _ H6) as (t0 & tn' & Etn & Hnum).
      apply (step_if_stmt F p s toks Htoks Htr Hw (Inv_lines s HI) (calls_land st s Hcr) (loops_land st s Hlr)
               (pcloc (st_toks s)) d Hd li after st Hrel c c' tc stmt tn t0 tn' rest i Hsk Hrest H1 H2 H3 H4 Etn Hnum H7).
      apply IH; [exact H5| |exact Hrest|].
      + cbn [app] in Hsk. rewrite <- app_assoc in Hsk. cbn [app] in Hsk.
        destruct (skipn_cons_nth _ _ _ _ Hsk) as [_ Hs1].
        pose proof (skipn_app_len _ _ _ _ Hs1) as Hs2.
        destruct (skipn_cons_nth _ _ _ _ Hs2) as [_ Hs3]. exact Hs3.
      + replace (S (S i + length tc) + length tn) with (i + length (TIf :: tc ++ TThen :: tn)); [exact HLa|].
        cbn [length]. rewrite app_length. cbn [length]. lia.
    - (* IF c THEN a ELSE <line> *)
      pose proof Hsk as Hsk0.
      cbn [app] in Hsk0. rewrite <- !app_assoc in Hsk0. cbn [app] in Hsk0. rewrite <- app_assoc in Hsk0. cbn [app] in Hsk0.
      destruct (skipn_cons_nth _ _ _ _ Hsk0) as [_ Hs1].
      pose proof (skipn_app_len _ _ _ _ Hs1) as Hs2.
      destruct (skipn_cons_nth _ _ _ _ Hs2) as [_ Hs3].
      pose proof (skipn_app_len _ _ _ _ Hs3) as Hs4.
      destruct (skipn_cons_nth _ _ _ _ Hs4) as [_ Hs5].
      apply (step_if_else F p s toks Htoks Htr Hw (Inv_lines s HI) (calls_land st s Hcr) (loops_land st s Hlr)
               (pcloc (st_toks s)) d Hd li after st Hrel c c' tc A ta (ALine n) [TNumber x] rest i Hsk Hrest H1 H2 H3 H4
               (TRen_plain _ _ _ _ _ H6)).
      + apply (tren_steps s toks li (S li, 0) st d A ta (TElse :: TNumber x :: rest)); assumption.
      + apply (arm_line F p s toks Htoks Htr Hw (pcloc (st_toks s)) d li st Hrel (Inv_jump s HI) after n x _ rest); assumption.
    - (* IF c THEN a ELSE <statement> *)
      pose proof Hsk as Hsk0.
      cbn [app] in Hsk0. rewrite <- !app_assoc in Hsk0. cbn [app] in Hsk0. rewrite <- app_assoc in Hsk0. cbn [app] in Hsk0.
      destruct (skipn_cons_nth _ _ _ _ Hsk0) as [_ Hs1].
      pose proof (skipn_app_len _ _ _ _ Hs1) as Hs2.
      destruct (skipn_cons_nth _ _ _ _ Hs2) as [_ Hs3].
      pose proof (skipn_app_len _ _ _ _ Hs3) as Hs4.
      destruct (skipn_cons_nth _ _ _ _ Hs4) as [_ Hs5].
      destruct (SRen_head _ _ _ _ _ H7) as (t0 & tb' & Etb & Hnum).
      apply (step_if_else F p s toks Htoks Htr Hw (Inv_lines s HI) (calls_land st s Hcr) (loops_land st s Hlr)
               (pcloc (st_toks s)) d Hd li after st Hrel c c' tc A ta (AStmt B) tb rest i Hsk Hrest H1 H2 H3 H4
               (TRen_plain _ _ _ _ _ H6)).
      + apply (tren_steps s toks li (S li, 0) st d A ta (TElse :: tb ++ rest)); assumption.
      + apply (arm_stmt F p s toks Htoks (pcloc (st_toks s)) d li st after B _ tb t0 (tb' ++ rest)).
        * apply IH; [exact H5 | exact Hs5 | exact Hrest|].
          replace (S (S (S i + length tc)) + length ta + length tb)
            with (i + length (TIf :: tc ++ TThen :: ta ++ TElse :: tb)); [exact HLa|].
          cbn [length]. rewrite app_length. cbn [length]. rewrite app_length. cbn [length]. lia.
        * rewrite Etb in Hs5. exact Hs5.
        * exact Hnum.
  Qed.

  Definition FailsWith (er : rerr) (line : N) (st' : rstate) (s1 : interp) : Prop :=
    exists f0, forall fuel, f0 <= fuel -> exists ie l s',
      continue_evaluating fuel s1 = (Err ie (Some l), s') /\ rerr_of2 ie = er /\ loc_line l = Some line
      /\ state s' = Idle /\ outputs s' = o0 ++ map OPrint (r_out st').

  Definition after_step (o : outcome) (s : interp) : Prop :=
    match o with
    | Next pc' st' => reach (Sim pc' st') s
    | Done st' => reach (Fin st') s
    | Fail er line st' => reach (FailsWith er line st') s
    | NoFuel => False
    end.

  Lemma skipn_S_cons {A} (l : list A) i x r : skipn i l = x :: r -> skipn (S i) l = r.
  Proof. intros H. apply (skipn_cons_nth _ _ _ _ H). Qed.

  (* the model's cursor on the first token of statement [si] of line [li] *)
  Lemma at_step li si st s :
    Inv s -> state s = Running -> same_store st s -> outputs s = o0 ++ map OPrint (r_out st) -> calls_rel st s ->
    loops_rel st s -> typed s -> data_rel st s -> at_stmt li si s false -> after_step (rstep F p (li, si) st) s.
  Proof.
    intros HI Hrun Hrel Hout Hcr Hlr Hty Hdr (n & stmts & toks & tl & Hp & Ht & Hl & Hsk & HL).
    (* the statement and what follows it on the line *)
    assert (Hsplit : exists stmt rs ts rest,
              skipn si stmts = stmt :: rs /\ tl = ts ++ rest /\ SRen F 0 rest stmt ts
              /\ ((rest = [] /\ rs = []) \/ (exists tr', rest = TColon :: tr' /\ LRen F rs tr'))).
    { inversion HL as [s0 ts0 HS E1 E2|s0 ts0 r0 tr0 HS HL0 E1 E2].
      - exists s0, [], tl, []. rewrite app_nil_r. split; [reflexivity|]. split; [reflexivity|].
        split; [exact HS|]. left; split; reflexivity.
      - exists s0, r0, ts0, (TColon :: tr0). split; [reflexivity|]. split; [first [reflexivity | symmetry; exact E2]|].
        split; [exact HS|]. right. exists tr0. split; [reflexivity | assumption]. }
    clear HL.
    set (i := loc_idx (loc s)) in *.
    pose proof (cur_tokens_line s n toks Hl Ht) as Htoks.
    pose proof (line_exists_line s n toks Hl Ht) as Hle.
    pose proof (cur_toks_line s n toks Hl Ht) as Hct.
    destruct Hsplit as (stmt & rs & ts & rest & Hst & -> & HS & Hrest).
    destruct (skipn_cons_nth _ _ _ _ Hst) as [Hnth Hrs].
    assert (Hrest' : rest = [] \/ exists tr', rest = TColon :: tr') by (destruct Hrest as [[-> _]|(tr' & -> & _)]; eauto).
    (* where a RETURN to this statement lands *)
    assert (Hafter0 : pcloc (st_toks s) (li, S si) (mkloc (loc_line (loc s)) (i + length ts))).
    { pose proof (skipn_app_len _ _ _ _ Hsk) as Hsk0.
      exists n, stmts, toks. cbn [fst snd loc_line loc_idx].
      split; [exact Hp|]. split; [exact Ht|]. split; [exact Hl|].
      destruct Hrest as [[-> ->]|(tr' & -> & HL')].
      - right. split; [exact Hsk0|].
        assert (Hz : length (skipn si stmts) = 1) by (rewrite Hst; reflexivity).
        rewrite skipn_length in Hz. lia.
      - left. exists tr'. split; [exact Hsk0|]. rewrite Hrs. exact HL'. }
    destruct (sren_steps s toks li (li, S si) st 0 stmt ts rest i HI Htoks Hrel Hcr Hlr Hty Hdr eq_refl Hsk Hrest' HS Hafter0) as (f0 & Hstep).
    destruct (SRen_nonempty _ _ _ _ _ HS) as (t & ts' & Ets & _).
    assert (Hnt : nth_error (cur_toks s) (loc_idx (loc s)) = Some t).
    { rewrite Hct. fold i. rewrite Ets in Hsk. cbn [app] in Hsk. apply (skipn_cons_nth _ _ _ _ Hsk). }
    unfold rstep. cbn [fst snd]. rewrite Hp, Hnth.
    unfold steps_as, step_result, step_outcome in Hstep.
    assert (Hturn : forall fuel, continue_evaluating fuel s =
              postprocess ((evaluate_statement fuel 0 ;;; after_statement) (at_idx s i (S (reads s)) (outputs s)))).
    { intros fuel. rewrite (turn_eq fuel s t Hrun Hle Hnt), bump_is_at. reflexivity. }
    destruct (exec F p stmt (li, S si) li st) as [pc' st'|st'|er line st'|] eqn:Eex; unfold after_step.
    - (* the statement completes: the rest of the call *)
      apply (reach_turn _ s (Sim pc' st')); [|intros s' Hs'; apply reach_now, Hs'].
      exists f0. intros fuel Hf. specialize (Hstep fuel Hf (S (reads s)) (outputs s)).
      destruct Hstep as (s' & Hev & Hk & Hrel' & Hfr' & Hty' & Hdr' & CS & LS & (outs & Ho1 & Ho2) & Hloc). specialize (Hty' Hty). specialize (Hdr' Hdr).
      rewrite Hturn. rewrite Safety.bind_run, Hev.
      pose proof (Inv_keeps s s' HI Hk) as HI'.
      destruct Hk as (K1 & K2 & K3 & K4 & K5 & K6).
      assert (Hrun' : state s' = Running) by congruence.
      assert (Hout' : outputs s' = o0 ++ map OPrint (r_out st')).
      { rewrite Ho2, Ho1, Hout, map_app, app_assoc. reflexivity. }
      assert (Ht' : toks_get n (st_toks s') = Some toks) by (rewrite K1; exact Ht).
      pose proof (skipn_app_len _ _ _ _ Hsk) as Hsk'.
      assert (Hafter : pcloc (st_toks s') (li, S si) (mkloc (loc_line (loc s)) (i + length ts))) by (rewrite K1; exact Hafter0).
      assert (Hcr' : calls_rel st' s').
      { destruct Hcr as [A B]. split; [congruence|].
        destruct CS as [[E1 E2]|[(pc0 & l0 & E1 & E2 & E3)|(fr & rs0 & cr & E1 & E2 & E3 & E4)]].
        - rewrite E1, E2, K1. exact B.
        - rewrite E1, E2, rev_unit, K1. constructor; [split; [reflexivity | exact E3]|]. exact B.
        - rewrite E4, E2, K1. rewrite E3, E1, rev_unit in B. inversion B; assumption. }
      assert (Hlr' : loops_rel st' s').
      { unfold loops_rel in *. rewrite K1.
        destruct LS as [[E1 E2]|[(v & to & step & pc0 & l0 & E1 & E2 & E5)|(v & lp & kept & k & lm & E1 & E2 & E3 & E4)]].
        - rewrite E1, E2. exact Hlr.
        - rewrite E1, E2. apply Forall2_app; [apply keep_rel; [exact Hlr | apply lrel_var]|].
          constructor; [|constructor]. repeat split; try reflexivity. exact E5.
        - pose proof (drop_find _ v _ _ Hlr (lrel_var _)) as D. rewrite E1, E2 in D.
          destruct D as (lm' & D1 & D2 & D3). rewrite E3 in D1. inversion D1; subst lm'.
          destruct E4 as [(A & B)|(A & B)]; rewrite A, B; [|exact D3].
          apply Forall2_app; [exact D3 | constructor; [exact D2 | constructor]]. }
      destruct Hloc as [[-> Hloc]|[(n' & li' & stmts' & -> & Hp' & Hloc)|[[-> Hloc]|[(fr & rs0 & cr & E1 & E2 & Hloc)
                        |(v & lp & kept & k & lm & E1 & E2 & E3 & -> & Hloc)]]]].
      + (* just past the statement *)
        assert (Hl' : loc_line (loc s') = Some n) by (rewrite Hloc; exact Hl).
        assert (Hidx : loc_idx (loc s') = i + length ts) by (rewrite Hloc; reflexivity).
        destruct Hrest as [[-> ->]|(tr' & -> & HL')].
        * (* last statement of the line *)
          assert (Hlen : S si = length stmts).
          { assert (Hz : length (skipn si stmts) = 1) by (rewrite Hst; reflexivity).
            rewrite skipn_length in Hz. lia. }
          destruct (eol_after st' s' li n stmts toks HI' Hrun' Hrel' Hout' Hcr' Hlr' Hty' Hdr' Hp Ht' Hl') as (s2 & Ha & HS2).
          { rewrite Hidx. apply skipn_nil_nth. exact Hsk'. }
          exists s2. split; [rewrite Ha; reflexivity|]. rewrite Hlen. apply (Sim_eol li st' s2 n stmts Hp HS2).
        * (* a colon follows: the call ends on it *)
          destruct (skipn_cons_nth _ _ _ _ Hsk') as [Hc _].
          assert (Hle' : line_exists s' (loc s')) by (apply (line_exists_line s' n toks Hl' Ht')).
          exists (bump s'). split.
          { rewrite (after_stay s' TColon Hle'); [reflexivity|].
            rewrite (cur_toks_line s' n toks Hl' Ht'), Hidx. exact Hc. }
          apply (Sim_at li (S si) st' (bump s') true);
            [apply (Inv_ext s'); try reflexivity; exact HI' | exact Hrun'
            | destruct Hrel' as [A B]; split; [exact A | exact B] | exact Hout'
            | apply (calls_ext st' st' s'); try reflexivity; exact Hcr'
            | apply (loops_ext st' st' s'); try reflexivity; exact Hlr'
            | apply (typed_ext s'); [reflexivity | exact Hty']
            | apply (data_rel_ext st' st' s'); try reflexivity; exact Hdr' |].
          exists n, stmts, toks, tr'.
          split; [exact Hp|]. split; [exact Ht'|]. split; [exact Hl'|].
          split; [change (loc (bump s')) with (loc s'); rewrite Hidx; exact Hsk' | rewrite Hrs; exact HL'].
      + (* a transfer: the first token of the target line *)
        destruct (i_lines s' HI' li' n' stmts' Hp') as (toks' & Ht2 & HL2).
        destruct (LRen_nonempty _ _ _ HL2) as (t2 & toks2 & -> & _).
        assert (Hl' : loc_line (loc s') = Some n') by (rewrite Hloc; reflexivity).
        assert (Hle' : line_exists s' (loc s')) by (apply (line_exists_line s' n' _ Hl' Ht2)).
        exists (bump s'). split.
        { rewrite (after_stay s' t2 Hle'); [reflexivity|].
          rewrite (cur_toks_line s' n' _ Hl' Ht2), Hloc. reflexivity. }
        apply (Sim_at li' 0 st' (bump s') false);
          [apply (Inv_ext s'); try reflexivity; exact HI' | exact Hrun'
          | destruct Hrel' as [A B]; split; [exact A | exact B] | exact Hout'
          | apply (calls_ext st' st' s'); try reflexivity; exact Hcr'
          | apply (loops_ext st' st' s'); try reflexivity; exact Hlr'
          | apply (typed_ext s'); [reflexivity | exact Hty']
          | apply (data_rel_ext st' st' s'); try reflexivity; exact Hdr' |].
        exists n', stmts', (t2 :: toks2), (t2 :: toks2).
        split; [exact Hp'|]. split; [exact Ht2|]. split; [exact Hl'|].
        split; [change (loc (bump s')) with (loc s'); rewrite Hloc; reflexivity | exact HL2].
      + (* IF not taken: the rest of the line is skipped *)
        assert (Hl' : loc_line (loc s') = Some n) by (rewrite Hloc; exact Hl).
        destruct (eol_after st' s' li n stmts toks HI' Hrun' Hrel' Hout' Hcr' Hlr' Hty' Hdr' Hp Ht' Hl') as (s2 & Ha & HS2).
        { rewrite Hloc. cbn [loc_idx]. apply nth_error_None. apply le_n. }
        exists s2. split; [rewrite Ha; reflexivity | exact HS2].
      + (* RETURN: just past the GOSUB that called *)
        destruct (calls_cons st s pc' cr Hcr E2) as (fr2 & rs2 & A & _ & C & _).
        rewrite E1 in A. apply app_inj_tail in A. destruct A as [_ <-].
        rewrite <- K1, <- Hloc in C.
        destruct (land st' s' pc' HI' Hrun' Hrel' Hout' Hcr' Hlr' Hty' Hdr' C) as (s2 & Ha & HS2).
        exists s2. split; [rewrite Ha; reflexivity | exact HS2].
      + (* NEXT, once more: just past the FOR *)
        pose proof (drop_find _ v _ _ Hlr (lrel_var _)) as D. rewrite E1, E2 in D.
        destruct D as (lm' & D1 & (_ & _ & _ & C) & _). rewrite E3 in D1. inversion D1; subst lm'.
        rewrite <- K1, <- Hloc in C.
        destruct (land st' s' (rl_body lp) HI' Hrun' Hrel' Hout' Hcr' Hlr' Hty' Hdr' C) as (s2 & Ha & HS2).
        exists s2. split; [rewrite Ha; reflexivity | exact HS2].
    - (* END *)
      apply (reach_turn _ s (Fin st')); [|intros s' Hs'; apply reach_now, Hs'].
      exists f0. intros fuel Hf. specialize (Hstep fuel Hf (S (reads s)) (outputs s)).
      destruct Hstep as (-> & s' & Hev & Hk & Hloc & Himm & Ho).
      rewrite Hturn. rewrite Safety.bind_run, Hev.
      destruct Hk as (K1 & K2 & K3 & K4 & K5 & K6).
      rewrite (after_imm s' Hloc ltac:(congruence)).
      eexists. split; [reflexivity|]. split; [reflexivity|].
      rewrite outputs_finished, Ho. exact Hout.
    - (* the statement fails: so does the call, on this line (a DATA TYPE MISMATCH: on the DATA line) *)
      apply reach_now. exists f0. intros fuel Hf. specialize (Hstep fuel Hf (S (reads s)) (outputs s)).
      assert (Hgen : (line = line_no p li /\ r_out st' = r_out st /\
                exists ie s', evaluate_statement fuel 0 (at_idx s i (S (reads s)) (outputs s)) = (Err ie None, s')
                  /\ rerr_of2 ie = er /\ keeps s s' /\ loc_line (loc s') = loc_line (loc s)
                  /\ outputs s' = outputs s /\ ie <> EDataTypeMismatch) ->
              exists ie l s', continue_evaluating fuel s = (Err ie (Some l), s') /\ rerr_of2 ie = er
                /\ loc_line l = Some line /\ state s' = Idle /\ outputs s' = o0 ++ map OPrint (r_out st')).
      { intros (-> & Hro & ie & s' & Hev & Her & Hk & Hll & Ho & Hne).
        rewrite Hturn. rewrite Safety.bind_run, Hev. cbn [postprocess].
        exists ie, (prev_location (loc s')), (set_state Idle s').
        split; [f_equal; f_equal; unfold populate_error_location; destruct ie; try reflexivity; congruence|].
        split; [exact Her|]. split.
        { cbn. rewrite Hll, Hl. unfold line_no. rewrite Hp. reflexivity. }
        split; [reflexivity|]. cbn. rewrite Ho, Hro. exact Hout. }
      destruct er; try (apply Hgen; exact Hstep).
      destruct Hstep as (Hro & s' & l & Hev & Hk & Ho & Hgl & Hll).
      rewrite Hturn. rewrite Safety.bind_run, Hev. cbn [postprocess].
      exists EDataTypeMismatch, l, (set_state Idle s').
      split; [cbn [populate_error_location]; rewrite Hgl; reflexivity|].
      split; [reflexivity|]. split; [exact Hll|].
      split; [reflexivity|]. cbn. rewrite Ho, Hro. exact Hout.
    - specialize (Hstep f0 (le_n _) (S (reads s)) (outputs s)). exact Hstep.
  Qed.

  (* the colon in front of a statement is a host call of its own *)
  Lemma colon_step li si st s :
    Inv s -> state s = Running -> same_store st s -> outputs s = o0 ++ map OPrint (r_out st) -> calls_rel st s ->
    loops_rel st s -> typed s -> data_rel st s -> at_stmt li si s true ->
    exists f0, forall fuel, f0 <= fuel -> exists s', continue_evaluating fuel s = (Ok tt, s') /\
      Inv s' /\ state s' = Running /\ same_store st s' /\ outputs s' = o0 ++ map OPrint (r_out st) /\ calls_rel st s'
      /\ loops_rel st s' /\ typed s' /\ data_rel st s' /\ at_stmt li si s' false.
  Proof.
    intros HI Hrun Hrel Hout Hcr Hlr Hty Hdr (n & stmts & toks & tl & Hp & Ht & Hl & Hsk & HL).
    set (i := loc_idx (loc s)) in *.
    pose proof (cur_tokens_line s n toks Hl Ht) as Htoks.
    pose proof (line_exists_line s n toks Hl Ht) as Hle.
    pose proof (cur_toks_line s n toks Hl Ht) as Hct.
    destruct (skipn_cons_nth _ _ _ _ Hsk) as [Hc Hsk'].
    destruct (LRen_nonempty _ _ _ HL) as (t2 & tl2 & Etl & _).
    assert (Hn2 : nth_error toks (S i) = Some t2) by (rewrite Etl in Hsk'; apply (skipn_cons_nth _ _ _ _ Hsk')).
    exists 1. intros fuel Hf. destruct fuel as [|f]; [lia|].
    assert (Hnt : nth_error (cur_toks s) (loc_idx (loc s)) = Some TColon) by (rewrite Hct; exact Hc).
    rewrite (turn_eq (S f) s TColon Hrun Hle Hnt), bump_is_at. fold i.
    assert (Hev : evaluate_statement (S f) 0 (at_idx s i (S (reads s)) (outputs s))
                  = (Ok tt, at_idx s (S i) (S (S (reads s))) (outputs s))).
    { cbn [evaluate_statement]. change (Nat.eqb 0 max_nesting) with false. cbv iota.
      unfold evaluate_statement_body. rewrite bind_get_run.
      change (enable_tracing (at_idx s i (S (reads s)) (outputs s))) with (enable_tracing s).
      rewrite (i_trace s HI). cbv iota. rewrite bind_ret'.
      erewrite bind_ok by (apply (next_some s toks Htoks); exact Hc). reflexivity. }
    rewrite Safety.bind_run, Hev.
    set (s1 := at_idx s (S i) (S (S (reads s))) (outputs s)).
    assert (Hl1 : loc_line (loc s1) = Some n) by exact Hl.
    assert (Ht1 : toks_get n (st_toks s1) = Some toks) by exact Ht.
    rewrite (after_stay s1 t2 (line_exists_line s1 n toks Hl1 Ht1)).
    2:{ rewrite (cur_toks_line s1 n toks Hl1 Ht1). exact Hn2. }
    eexists. split; [reflexivity|].
    split; [apply (Inv_ext s); try reflexivity; exact HI|]. split; [exact Hrun|].
    split; [destruct Hrel as [A B]; split; [exact A | exact B]|]. split; [exact Hout|].
    split; [apply (calls_ext st st s); try reflexivity; exact Hcr|].
    split; [apply (loops_ext st st s); try reflexivity; exact Hlr|].
    split; [apply (typed_ext s); [reflexivity | exact Hty]|].
    split; [apply (data_rel_ext st st s); try reflexivity; exact Hdr|].
    exists n, stmts, toks, tl. split; [exact Hp|]. split; [exact Ht|]. split; [exact Hl|]. split; [exact Hsk' | exact HL].
  Qed.

  (* one reference step *)
  Theorem sim_step pc st s : Sim pc st s -> after_step (rstep F p pc st) s.
  Proof.
    induction 1 as [li si st s colon HI Hrun Hrel Hout Hcr Hlr Hty Hdr Hat|li st s n stmts Hp HS IH|li si st s Hlen HF].
    - destruct colon; [|apply at_step; assumption].
      destruct (colon_step li si st s HI Hrun Hrel Hout Hcr Hlr Hty Hdr Hat) as (f0 & Hc).
      assert (Hgoal : forall s', (Inv s' /\ state s' = Running /\ same_store st s'
                                 /\ outputs s' = o0 ++ map OPrint (r_out st) /\ calls_rel st s'
                                 /\ loops_rel st s' /\ typed s' /\ data_rel st s' /\ at_stmt li si s' false) ->
                        after_step (rstep F p (li, si) st) s').
      { intros s' (A & B & C & D & E & G & H & J & K). apply at_step; assumption. }
      destruct (rstep F p (li, si) st) as [pc' st'|st'|er line st'|]; unfold after_step in *.
      + eapply reach_turn; [exists f0; exact Hc | exact Hgoal].
      + eapply reach_turn; [exists f0; exact Hc | exact Hgoal].
      + eapply reach_turn; [exists f0; exact Hc | exact Hgoal].
      + destruct (Hc f0 (le_n _)) as (s' & _ & Hs'). exact (Hgoal s' Hs').
    - unfold rstep. cbn [fst snd]. rewrite Hp.
      assert (Hn : nth_error stmts (length stmts) = None) by (apply nth_error_None; apply le_n).
      rewrite Hn. apply reach_now. exact HS.
    - unfold rstep. cbn [fst snd].
      assert (Hn : nth_error p li = None) by (apply nth_error_None; exact Hlen).
      rewrite Hn. apply reach_now. exact HF.
  Qed.

  (* any number of reference steps *)
  Theorem fragment_simulation : forall k pc st s, Sim pc st s -> after_step (rrun F p k pc st) s.
  Proof.
    induction k as [|k IH]; intros pc st s HS; cbn [rrun]; [apply reach_now, HS|].
    pose proof (sim_step pc st s HS) as H1.
    destruct (rstep F p pc st) as [pc' st'|st'|er line st'|]; try exact H1.
    unfold after_step in H1.
    assert (Hk : forall s', Sim pc' st' s' -> after_step (rrun F p k pc' st') s') by (intros s'; apply IH).
    destruct (rrun F p k pc' st') as [pc2 st2|st2|er2 line2 st2|] eqn:Er; unfold after_step in *.
    - eapply reach_bind; [exact H1 | exact Hk].
    - eapply reach_bind; [exact H1 | exact Hk].
    - eapply reach_bind; [exact H1 | exact Hk].
    - (* the reference never runs out of fuel on the fragment *)
      clear IH HS. induction H1 as [s0 Hs0|s0 Q Hq Hn IHr]; [exact (Hk s0 Hs0)|].
      destruct Hq as (f0 & Hq). destruct (Hq f0 (le_n _)) as (s' & _ & Hs'). exact (IHr s' Hs').
  Qed.
End Program.

